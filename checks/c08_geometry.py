"""C08 - geometry, orientation and point location are consistent across element groups."""

import numpy as np
from hypothesis import strategies as st

from EasyFEA import MatrixType
from EasyFEA.FEM import Calc_projector
from EasyFEA.Utilities import MeshIO

from vlib import c08_geom as cg
from vlib import c09_geom as c9
from vlib import gen_mesh as gm
from vlib import oracles as orc
from vlib.runner import Inconclusive, Sub

PROPERTY = "C08"
RULE = (
    "Hypothesis draws a mesh recipe (segment / star-shaped polygon in either vertex order / extruded polygon x every "
    "element type x organised or not x affine image x renumbering; parallelogram or general quadrilateral contours for "
    "QUAD/HEXA) and a history of 1-3 Translate/Rotate/Symmetry operations (in-plane or out-of-plane for 2D meshes) applied "
    "through the mesh methods. measure_motion: non-trivial = a reflection or a rotation by a generic angle. normals_*: "
    "boundary groups of the gmsh mesh or rebuilt by Surface_reconstruction, before and after the motion; non-trivial = "
    "generic motion on a mesh with >=2 boundary elements. point_location: query points built from reference coordinates "
    "of a known element (strictly inside, on an edge/face, on a vertex) through the vertex map, evaluated singly and as a "
    "batch for a random polynomial of the degree the element space contains; non-trivial = degree>=1 with >=1 query "
    "that is not a node. projector: two meshes of the same polygon/prism. normals_types / location_types: finite tables "
    "enumerated completely (every 2D/3D element type x contour order or boundary source x rotation/mirror/out-of-plane motion; "
    "every element type x general/parallelogram geometry x motion x 12 queries of every kind), because Hypothesis does not "
    "stratify over element types. distinct = sha1 of the serialised case."
    ' point_location_1d / location_types_1d: SEG2..SEG5 lines anywhere in space, polynomial of the abscissa evaluated at constructed abscissae (non-trivial = non-constant polynomial and an interior query). Normals: the normalize=False route is compared with the first one at every Gauss point.'
    ' Round 8: integer_coords enumerates hand-written lattice meshes given with an integer coordinate dtype x motion; the enumerated location tables are held to 1e-10 of the field scale.'
    ' Round 9: projector_points enumerates old type x new type x number of additionalPoints of the new mesh.'
)
ASSUMPTIONS = [
    "exact measure/centroid/perimeter/outward normals come from the recipe (shoelace, prism formula, vlib.c09_geom), the "
    "isometry from Rodrigues/Householder matrices composed by the harness",
    "query points are convex combinations of the element vertices (own multilinear vertex maps, gmsh vertex order); the "
    "polynomial is restricted to what the isoparametric space contains: P_k on straight-sided TRI/TETRA/affine PRISM, "
    "P_2 on QUAD9/HEXA27, P_2 on QUAD8/HEXA20 only when every element is a parallelogram/parallelepiped, P_1 otherwise",
    "high-order nodes of gmsh straight-sided elements lie at the image of their reference position under the vertex map "
    "(checked as a precondition with Get_Local_Coords; otherwise inconclusive)",
    "located = the second dof column (nodal field 1) evaluates to 1; values at 1e-10 x field scale on pure TRI3/TETRA4 meshes (closed-form "
    "inverse map); elsewhere the inverse map may be scipy.least_squares with its default absolute gtol=1e-8: tolerance = "
    "200 x |grad p| x 1e-8 sqrt(3)/(l_min/2), at least 1e-9 x field scale; identity level 1e-11 for measures and normals",
    "batches in which an element holds exactly dim query points are not generated (finding C08-d raises there)",
]
LEVEL_TEXT = ("generated meshes of every element type x generated rigid motions/reflections: exact measure, centroid, "
              "boundary closure and outward flux of the normals (gmsh and reconstructed boundaries, embedded surfaces), and "
              "point location / evaluation of polynomial nodal fields at constructed interior, edge, face and vertex points, "
              "singly and in batches, plus the mesh-to-mesh projector on linear fields")
LEVEL_NOTE = ("exploration; straight-sided gmsh meshes (polygons, extrusions, affine images, warped HEXA8), <= 14 query "
              "points per case, meshes of a few hundred nodes; absence on unexplored meshes is not established")
TECHNIQUE = "property-based testing (Hypothesis) vs closed-form geometry of the recipe and harness-side isometries/vertex maps"
DESIGN_REF = "DESIGN.md 4/C08"
READY = True

TOL_ID = 1e-11
EXCLUDE_DIM_CLUSTERS = False  # finding C08-d is fixed (commit in KNOWN_FINDINGS.json): batches keep every query point
MASS = MatrixType.mass


# ------------------------------------------------------------------------------------------
# shared


def _exact_2d3d(recipe):
    one = lambda x, y, z: np.ones_like(x)  # noqa
    s = gm.exact_integral(recipe, one, 0)
    meas = abs(s)
    sgn = np.sign(s)
    c = np.array([sgn * gm.exact_integral(recipe, lambda x, y, z, i=i: (x, y, z)[i], 1) for i in range(3)]) / meas
    return meas, c


def _exact_1d(recipe):
    p1 = np.array(recipe["p1"], float)
    d = np.array(recipe["d"], float)
    return float(np.linalg.norm(d)), p1 + d / 2


def _measure(mesh, dim):
    return float((mesh.length, mesh.area, mesh.volume)[dim - 1])


def _group_measures(mesh):
    out = {}
    for g in mesh.dict_groupElem.values():
        if g.dim >= 1:
            out[str(g.elemType)] = float(np.sum(np.asarray(g.Get_weightedJacobian_e_pg(MASS), float)))
    return out


def _coord_scale(X, ops):
    return float(np.abs(X).max() + cg.motion_scale(ops))


def _mirrored(recipe, ops) -> bool:
    """elements negatively oriented: odd number of reflections, counting an affine image with det < 0"""
    neg = bool(cg.n_reflections(ops) % 2)
    if recipe.get("A") is not None and np.linalg.det(np.array(recipe["A"], float)) < 0:
        neg = not neg
    return neg


def _para_verts(verts):
    v = [list(p) for p in verts[:3]]
    v.append([round(v[0][0] + v[2][0] - v[1][0], 6), round(v[0][1] + v[2][1] - v[1][1], 6)])
    return v


# ------------------------------------------------------------------------------------------
# (a) measure and centroid: exact, invariant under Translate / Rotate / Symmetry


@st.composite
def measure_cases(draw):
    kind = draw(st.sampled_from(["1d", "2d", "2d", "2d_out", "3d", "3d"]))
    if kind == "1d":
        r = draw(gm.recipes1d())
        ops = draw(cg.motions(3))
    elif kind.startswith("2d"):
        r = draw(gm.recipes2d())
        ops = draw(cg.motions(2, out_of_plane=(kind == "2d_out")))
    else:
        r = draw(gm.recipes3d())
        ops = draw(cg.motions(3))
    return dict(recipe=r, ops=ops)


def check_measure_motion(case, rec):
    r, ops = case["recipe"], cg.scale_ops(case["ops"], gm.length_unit(case["recipe"]))
    dim = gm.dim_of(r["elemType"])
    mesh = gm.build(r)
    types = gm.mesh_types(mesh)
    Q, t = cg.motion_map(ops)
    embed = bool(dim == 2 and (np.abs(Q[2, :2]).max() > 1e-12 or abs(t[2]) > 0))
    sig = dict(elemType=r["elemType"], types=types, dim=dim, mirrored=_mirrored(r, ops), embed=embed)
    rec.label("measure:" + types, "mirrored" if _mirrored(r, ops) else "proper", "ops:" + "".join(o["op"] for o in ops))
    if embed:
        rec.label("embedded2d")
    meas, c0 = _exact_1d(r) if dim == 1 else _exact_2d3d(r)
    X0 = np.asarray(mesh.coord, float)
    before = _group_measures(mesh)
    rec.close(_measure(mesh, dim) - meas, meas, TOL_ID, "measure", f"{types}: measure before the motion", **sig)

    m = mesh.copy()
    cg.apply_motion(m, ops)
    scale = _coord_scale(X0, ops)
    Y = X0 @ Q.T + t
    rec.close(np.asarray(m.coord, float) - Y, scale, 1e-12, "moved_coords",
              f"{types}: Translate/Rotate/Symmetry image of the nodes differs from Qx+t, ops={ops}", **sig)
    rec.close(_measure(m, dim) - meas, meas, TOL_ID, "measure_moved",
              f"{types}: measure after {[o['op'] for o in ops]} is {_measure(m, dim)!r}, exact {meas!r}", **sig)
    rec.close(np.asarray(m.center, float) - (Q @ c0 + t), scale, TOL_ID, "centroid_moved",
              f"{types}: centre after the motion {np.asarray(m.center)} vs Q c + t = {Q @ c0 + t}", **sig)
    after = _group_measures(m)
    for k, v in before.items():
        rec.close(after[k] - v, abs(v), TOL_ID, "group_measure_invariant",
                  f"{types}: measure of group {k} changed by the motion: {v!r} -> {after[k]!r}", group=k, **sig)
    # same image reached by rebuilding the mesh from transformed coordinates
    m2 = gm.rebuild(mesh, Y)
    rec.close(_measure(m2, dim) - meas, meas, TOL_ID, "measure_rebuilt", f"{types}: rebuilt from Qx+t", **sig)
    rec.close(np.asarray(m2.center, float) - (Q @ c0 + t), scale, TOL_ID, "centroid_rebuilt", "", **sig)
    rec.nontrivial(cg.is_generic(ops) and mesh.Ne >= 2)


# (added by the lead) a mesh merged with its mirror image: one element group then holds elements of both orientations; measure and
# centroid are those of the union (every element counts with its own positive measure)


def enum_mixed_orientation(tier):
    for et in gm.T2D + gm.T3D:
        shape = cg.shape_of(et)
        r = _table_recipe(et, shape in ("QUAD", "HEXA"), None, 0.7)
        for plane in ("x", "oblique"):
            yield dict(recipe=r, plane=plane)


def check_mixed_orientation(case, rec):
    from EasyFEA import Mesh

    r = case["recipe"]
    dim = gm.dim_of(r["elemType"])
    half = gm.build(r)
    types = gm.mesh_types(half)
    X = np.asarray(half.coord, float)
    meas, c0 = _exact_2d3d(r)
    # mirror plane outside the body (the two halves do not overlap)
    n = np.array([1.0, 0.0, 0.0]) if case["plane"] == "x" else np.array([2.0, 1.0, 0.0]) / np.sqrt(5.0)
    p0 = (float((X @ n).max()) + 0.25) * n
    mirror = half.copy()
    mirror.Symmetry(tuple(p0), tuple(n))
    merged = Mesh.Merge([half, mirror])
    sig = dict(elemType=r["elemType"], types=types, dim=dim, plane=case["plane"])
    rec.label("mixed:" + types, "plane:" + case["plane"])
    c_m = c0 - 2.0 * float((c0 - p0) @ n) * n
    rec.close(_measure(mirror, dim) - meas, meas, TOL_ID, "measure_moved", f"{types}: measure of the mirror image", **sig)
    rec.close(_measure(merged, dim) - 2.0 * meas, 2.0 * meas, TOL_ID, "measure_mixed_orientation",
              f"{types}: measure of a mesh merged with its mirror image is {_measure(merged, dim)!r}, twice the measure of one half is {2 * meas!r}", **sig)
    rec.close(np.asarray(merged.center, float) - 0.5 * (c0 + c_m), _coord_scale(X, []) + 1.0, TOL_ID, "centroid_mixed_orientation",
              f"{types}: centre of the merged mesh {np.asarray(merged.center)} vs the mean of the two halves {0.5 * (c0 + c_m)}", **sig)
    for g in gm.main_groups(merged):
        wJ = np.asarray(g.Get_weightedJacobian_e_pg(MASS), float)
        rec.require(bool((wJ.sum(axis=1) > 0).all()), "element_measures_positive",
                    f"{types}: {int((wJ.sum(axis=1) <= 0).sum())} of the {g.Ne} elements of the merged group have a non-positive measure", **sig)
    rec.nontrivial(True)


# ------------------------------------------------------------------------------------------
# (b) normals of the boundary groups


def _travel_2d(mesh):
    """'ccw' / 'cw': sense in which the 1D boundary elements run around the (planar, z=const) domain"""
    X = np.asarray(mesh.coord, float)
    a = 0.0
    for g in mesh.Get_list_groupElem(1):
        c = np.asarray(g.connect, int)
        p, q = X[c[:, 0]], X[c[:, 1]]
        a += float(np.sum(p[:, 0] * q[:, 1] - q[:, 0] * p[:, 1])) / 2
    return "ccw" if a > 0 else "cw"


def _normals_oracles(rec, groups, dim, meas, bmeas, regions, Q, t, x_in, scale, sig, what, in_plane=None):
    """closure, outwardness and unit length of the normals of `groups` (the whole boundary).
    in_plane: unit normal of the plane of a 2D mesh (normals must lie in it)."""
    S, N, F, dev = cg.boundary_integrals(groups, MASS)
    rec.close(dev, 1.0, TOL_ID, "normal_unit", f"{what}: |n| differs from 1 by {dev:.3e}", **sig)
    rec.close(S - bmeas, bmeas, TOL_ID, "boundary_measure",
              f"{what}: measure of the boundary groups {S!r} vs exact {bmeas!r}", **dict(sig, entity="boundary_measure"))
    rdev, rn = cg.raw_route_dev(groups, MASS)
    if rn:
        rec.close(rdev, 1.0, TOL_ID, "normal_raw_route", f"{what}: Get_weight_pg * Get_normals_e_pg(normalize=False) differs from "
                  f"wJ_e_pg * normals_e_pg by {rdev:.3e} (relative to max wJ) on some Gauss point", **sig)
    if in_plane is not None:
        off = 0.0
        for g in groups:
            n = np.asarray(g.Get_normals_e_pg(MASS), float)
            off = max(off, float(np.abs(n @ in_plane).max()))
        rec.close(off, 1.0, 1e-9, "normal_in_plane",
                  f"{what}: normals of the 1D boundary leave the plane of the mesh (|n.k|={off:.3e})", **sig)
    # flux of (x - x_in): independent of x_in when the boundary is closed
    flux = (F - float(N @ x_in)) / dim
    closed = bool(np.isfinite(N).all() and np.abs(N).max() <= 1e-10 * bmeas)
    orient = cg.region_orientation(groups, MASS, regions, Q, t)
    kinds = sorted({"".join(c for c in k if not c.isdigit()) for k, s in orient.items() if s < 0})
    odd = sorted({"".join(c for c in k if not c.isdigit()) for k, s in orient.items() if s == 0})
    inward = "+".join(kinds) if kinds else "none"
    if closed and abs(flux - meas) <= 1e-9 * meas:
        signature = "outward"
    elif closed and abs(flux + meas) <= 1e-9 * meas:
        signature = "closed_inward"
    elif not closed:
        signature = "not_closed"
    else:
        signature = "mixed"
    rec.label(f"normals:{signature}")
    if closed:
        rec.note_max("honest_err:normals_closed", float(np.abs(N).max()) / bmeas)
    if signature in ("outward", "closed_inward"):
        rec.note_max("honest_err:normals_flux", abs(abs(flux) - meas) / meas)
    msg = (f"{what}: int n dS = {N}, (1/d) int (x-x0).n dS = {flux!r}, measure = {meas!r}; regions with inward normals: "
           f"{inward}; regions with non-uniform/misaligned normals: {'+'.join(odd) if odd else 'none'}")
    full = dict(sig, signature=signature, inward=inward)
    if "mirrored" in sig:
        full["cls"] = f"{inward}|{'mirrored' if sig['mirrored'] else 'proper'}"
    rec.require(closed, "normals_closed", msg, **full)
    if closed:
        rec.require(signature == "outward", "normals_outward", msg, **full)
    return signature


def _nodal_normals_oracle(rec, mesh, groups, regions, Q, t, sig, what):
    """mesh.Get_normals (the entry add_pressureLoad uses): at the boundary nodes that lie in exactly one planar
    region the nodal normal is the element normal of that region (same sign as Get_normals_e_pg there)"""
    orient = cg.region_orientation(groups, MASS, regions, Q, t)
    normals, nodes = mesh.Get_normals()
    normals = np.asarray(normals, float)
    nodes = np.asarray(nodes, int)
    rec.require(normals.shape == (nodes.size, 3), "nodal_normals_shape", f"{what}: {normals.shape} for {nodes.size} nodes", **sig)
    X = np.asarray(mesh.coord, float)[nodes]
    x0 = (X - t) @ Q
    member = np.stack([reg.contains(x0[:, 0], x0[:, 1], x0[:, 2], tol=1e-7) for reg in regions], 0)
    single = member.sum(0) == 1
    err = 0.0
    n = 0
    for k, reg in enumerate(regions):
        s = orient[reg.name]
        sel = single & member[k]
        if s == 0 or not sel.any():
            continue
        err = max(err, float(np.abs(normals[sel] - s * (Q @ reg.n_out)).max()))
        n += int(sel.sum())
    if n:
        rec.close(err, 1.0, 1e-9, "nodal_normals", f"{what}: mesh.Get_normals differs from the element normals at {n} nodes "
                  f"interior to a planar boundary region", **dict(sig, entity="nodal"))


@st.composite
def normals2d_cases(draw, out):
    r = draw(gm.recipes2d(perm_ok=False))
    if draw(st.booleans()):
        r["verts"] = r["verts"][::-1]  # clockwise contour
    ops = draw(cg.motions(2, out_of_plane=out))
    return dict(recipe=r, ops=ops)


def check_normals_2d(case, rec):
    r, ops = case["recipe"], cg.scale_ops(case["ops"], gm.length_unit(case["recipe"]))
    mesh = gm.build(r)
    types = gm.mesh_types(mesh)
    # exact regions from the counter-clockwise version of the contour
    one = gm.exact_integral(dict(r, A=None, b=None), lambda x, y, z: np.ones_like(x), 0)
    r_ccw = r if one > 0 else dict(r, verts=r["verts"][::-1])
    geo = c9.Geometry(r_ccw)
    meas, c0 = _exact_2d3d(r)
    per = sum(e.measure() for e in geo.edges)
    nb = sum(g.Ne for g in mesh.Get_list_groupElem(1))
    X0 = np.asarray(mesh.coord, float)
    for stage, oo in (("before", []), ("after", ops)):
        Q, t = cg.motion_map(oo)
        m = mesh.copy()
        cg.apply_motion(m, oo)
        embed = bool(np.abs(Q[2, :2]).max() > 1e-12)
        sig = dict(elemType=r["elemType"], types=types, dim=2, source="gmsh", stage=stage, embed=embed, entity="boundary1d")
        if embed:
            sig["travel"] = "3d"
            rec.label("normals2d:embedded")
        else:
            sig["travel"] = _travel_2d(m)
            rec.label("normals2d:" + sig["travel"])
        k = Q @ np.array([0.0, 0.0, 1.0])
        what = f"{types} {stage} {[o['op'] for o in oo]} travel={sig['travel']}"
        _normals_oracles(rec, m.Get_list_groupElem(1), 2, meas, per, geo.edges, Q, t, Q @ c0 + t,
                         _coord_scale(X0, oo), sig, what, in_plane=k)
        if not embed:
            _nodal_normals_oracle(rec, m, m.Get_list_groupElem(1), geo.edges, Q, t, sig, what)
        # the surface elements themselves (embedded in 3D after an out-of-plane motion): one common normal
        s_all = []
        A = 0.0
        sig = dict(sig, entity="surface")
        for g in gm.main_groups(m):
            n = np.asarray(g.Get_normals_e_pg(MASS), float)
            w = np.asarray(g.Get_weightedJacobian_e_pg(MASS), float)
            A += float(w.sum())
            s_all.append((n @ k).ravel())
        s_all = np.concatenate(s_all)
        rec.close(np.abs(s_all) - 1.0, 1.0, TOL_ID, "surface_normal_direction",
                  f"{what}: element normals are not +-Q e_z", **sig)
        rec.require((s_all > 0).all() or (s_all < 0).all(), "surface_normal_uniform",
                    f"{what}: the surface elements of the groups {types} do not share one orientation", **sig)
        rec.close(A - meas, meas, TOL_ID, "surface_measure", f"{what}: area {A!r} vs {meas!r}", **sig)
    rec.nontrivial(cg.is_generic(ops) and nb >= 2)


@st.composite
def normals3d_cases(draw):
    r = draw(gm.recipes3d(perm_ok=False))
    source = draw(st.sampled_from(["gmsh", "recon", "recon_moved"]))
    ops = draw(cg.motions(3))
    # rev: the contour of the extruded polygon is given clockwise (same body; the source surface then faces -z)
    return dict(recipe=r, ops=ops, source=source, rev=draw(st.booleans()))


def check_normals_3d(case, rec):
    r, ops, source = case["recipe"], cg.scale_ops(case["ops"], gm.length_unit(case["recipe"])), case["source"]
    mesh = gm.build(dict(r, verts=r["verts"][::-1]) if case.get("rev") else r)
    types = gm.mesh_types(mesh)
    rec.label("normals3d:contour_cw" if case.get("rev") else "normals3d:contour_ccw")
    geo = c9.Geometry(r)
    meas, c0 = _exact_2d3d(r)
    surf = sum(f.measure() for f in geo.faces)
    X0 = np.asarray(mesh.coord, float)
    rec.label("normals3d:" + source, "normals3d:" + types)
    nb = 0
    for stage, oo in (("before", []), ("after", ops)):
        Q, t = cg.motion_map(oo)
        m = mesh.copy()
        if source == "recon":
            m = MeshIO.Surface_reconstruction(m)
        cg.apply_motion(m, oo)
        if source == "recon_moved":
            m = MeshIO.Surface_reconstruction(m)
        mirrored = _mirrored(r, oo)
        rec.label("normals3d:mirrored" if mirrored else "normals3d:proper")
        sig = dict(elemType=r["elemType"], types=types, dim=3, source="gmsh" if source == "gmsh" else "recon",
                   stage=stage, mirrored=mirrored)
        groups = m.Get_list_groupElem(2)
        nb = sum(g.Ne for g in groups)
        what = f"{types} {source} {stage} {[o['op'] for o in oo]} faces={'+'.join(str(g.elemType) for g in groups)}"
        _normals_oracles(rec, groups, 3, meas, surf, geo.faces, Q, t, Q @ c0 + t, _coord_scale(X0, oo), sig, what)
        _nodal_normals_oracle(rec, m, groups, geo.faces, Q, t, sig, what)
    rec.nontrivial(cg.is_generic(ops) and nb >= 2)


# ------------------------------------------------------------------------------------------
# (c) point location and evaluation of nodal fields


def _poly_grad(coefs, P):
    """gradient (n,3) of the polynomial {"a,b,c": v} at points P (n,3)"""
    G = np.zeros((P.shape[0], 3))
    for k, v in coefs.items():
        e = [int(q) for q in k.split(",")]
        for d in range(3):
            if e[d] == 0:
                continue
            f = np.array(e, float)
            f[d] -= 1
            G[:, d] += v * e[d] * np.prod(P ** f[None, :], axis=1)
    return G


def _allowed_degree(mesh, X):
    """largest total degree d such that P_d (in x,y,z) lies in the isoparametric space of every main group,
    and whether any element is non-affine; None when a precondition fails"""
    deg = 99
    general = False
    for g in gm.main_groups(mesh):
        et = str(g.elemType)
        shape = cg.shape_of(et)
        order = gm.ORDER[et]
        V = X[np.asarray(g.connect, int)[:, : cg.NVERT[shape]]]
        na = cg.nonaffinity(shape, V)
        if order > 1 and cg.high_order_nodes_follow_vertex_map(g, X) > 1e-9:
            return None, None
        if shape in ("TRI", "TETRA"):
            d = order
        elif na <= 1e-10:
            d = order  # affine image of the reference element: the space contains P_order
        else:
            general = True
            d = 2 if et in ("QUAD9", "HEXA27") else 1
        deg = min(deg, d)
    return deg, general


def _warp(mesh, seed):
    """moves every node by a random vector of at most 10 % of the shortest element edge (HEXA8: faces
    become non-planar, the domain changes slightly; point location does not need the exact domain)"""
    X = np.array(mesh.coord, float)
    lmin = np.inf
    for g in gm.main_groups(mesh):
        shape = cg.shape_of(g.elemType)
        V = X[np.asarray(g.connect, int)[:, : cg.NVERT[shape]]]
        d = np.linalg.norm(V[:, :, None, :] - V[:, None, :, :], axis=3)
        lmin = min(lmin, float(d[d > 0].min()))
    used = gm.used_nodes(mesh)
    rng = np.random.default_rng(int(seed))
    X[used] += 0.1 * lmin * rng.uniform(-1, 1, (used.size, 3))
    return gm.rebuild(mesh, X)


def _hexa_valid(mesh) -> bool:
    """trilinear Jacobian positive (one sign) at the 8 vertices of every HEXA element"""
    X = np.asarray(mesh.coord, float)
    for g in gm.main_groups(mesh):
        if cg.shape_of(g.elemType) != "HEXA":
            continue
        V = X[np.asarray(g.connect, int)[:, :8]]
        nb = {0: (1, 3, 4), 1: (2, 0, 5), 2: (3, 1, 6), 3: (0, 2, 7), 4: (7, 5, 0), 5: (4, 6, 1), 6: (5, 7, 2), 7: (6, 4, 3)}
        dets = np.stack([np.linalg.det(np.stack([V[:, a] - V[:, i], V[:, b] - V[:, i], V[:, c] - V[:, i]], 1))
                         for i, (a, b, c) in nb.items()], 1)
        if not ((dets > 0).all() or (dets < 0).all()):
            return False
    return True


@st.composite
def location_cases(draw, dim):
    if dim == 2:
        r = draw(gm.recipes2d(hmin=5, hmax=10))
    else:
        r = draw(gm.recipes3d())
    shape = cg.shape_of(r["elemType"])
    para = False
    if shape in ("QUAD", "HEXA") and len(r["verts"]) >= 3 and draw(st.integers(0, 2)) == 0:
        r["verts"] = _para_verts(r["verts"])
        r["organised"] = True
        para = True
    warp = None
    if r["elemType"] == "HEXA8" and draw(st.booleans()):
        warp = draw(st.integers(0, 99))
    ops = draw(st.one_of(st.just([]), cg.motions(dim, out_of_plane=draw(st.booleans()) if dim == 2 else False)))
    deg = draw(st.integers(1, gm.ORDER[r["elemType"]]))
    coefs = {}
    for e in orc.monomials(3, deg):
        if sum(e) == 0 or draw(st.integers(0, 2)) > 0:
            coefs[",".join(map(str, e))] = draw(st.integers(-3, 3))
    nq = draw(st.integers(2, 14))
    queries = []
    for _ in range(nq):
        kind = draw(st.sampled_from(["in", "in", "face", "face", "edge", "node"]))
        queries.append([draw(st.integers(0, 3)), draw(st.integers(0, 9999)), kind] +
                       [draw(st.integers(0, 15)) for _ in range(5)])
    # elem_arg: the batch is evaluated once more with the documented `elements` argument (candidate elements "to speed up
    # evaluation"): every element of the group, in reversed or shuffled order; grid: an integer-typed lattice of query points
    return dict(recipe=r, para=para, warp=warp, ops=ops, deg=deg, coefs=coefs, queries=queries, allow_cluster=False,
                elem_arg=draw(st.sampled_from([None, "reversed", "shuffled"])), elem_seed=draw(st.integers(0, 999)))


def _drop_clusters(mesh, X, keep, dim):
    """indices of `keep` such that no element holds exactly `dim` of the kept query points (finding C08-d:
    the non-iterative inverse map raises there).  Containment is the library's own (it defines the class)."""
    keep = list(keep)
    dropped = 0
    for _ in range(len(keep)):
        pts = X[keep]
        bad = None
        for g in gm.main_groups(mesh):
            cand = g._Get_nearby_elements(pts)
            for e in cand:
                idx = np.asarray(g.Get_pointsInElem(pts, int(e)), int)
                if idx.size == dim:
                    bad = int(idx[-1])
                    break
            if bad is not None:
                break
        if bad is None:
            break
        keep.pop(bad)
        dropped += 1
    return keep, dropped


def check_point_location(case, rec):
    r = case["recipe"]
    et = r["elemType"]
    dim = gm.dim_of(et)
    mesh = gm.build(r)
    warped = case.get("warp") is not None
    if warped:
        mesh = _warp(mesh, case["warp"])
        if not _hexa_valid(mesh):
            raise Inconclusive("warped hexahedra are not valid")
    ops = cg.scale_ops(case["ops"], gm.length_unit(case["recipe"]))
    if ops and (len(case["queries"]) + len(ops)) % 2 == 0:
        # half of the moved cases: warm the geometric caches on the unmoved mesh first (added by the lead) - a
        # motion must invalidate them, a cold cache hides a dropped invalidation
        X0 = np.asarray(mesh.coord, float)
        for g0 in gm.main_groups(mesh):
            c0 = X0[np.asarray(g0.connect, int)[0]].mean(axis=0)
            mesh.Evaluate_dofsValues_at_coordinates(c0[None, :].copy(), np.ones(mesh.Nn))
        rec.label("loc:warm_cache_before_motion")
    cg.apply_motion(mesh, ops)
    Q, t = cg.motion_map(ops)
    mirrored = _mirrored(r, ops)
    embed = bool(dim == 2 and np.abs(Q[2, :2]).max() > 1e-12)
    types = gm.mesh_types(mesh)
    X = np.asarray(mesh.coord, float)
    dmax, any_general = _allowed_degree(mesh, X)
    if dmax is None:
        raise Inconclusive("high-order nodes are not at the image of their reference position")
    deg = min(case["deg"], dmax)
    coefs = {k: v for k, v in case["coefs"].items() if sum(int(s) for s in k.split(",")) <= deg}
    p = lambda P: orc.poly_eval(coefs, P[:, 0], P[:, 1], P[:, 2])  # noqa
    groups = gm.main_groups(mesh)

    # query points: vertex map of a known element at constructed reference coordinates
    pts, meta = [], []
    for gi, ei, kind, *w in case["queries"]:
        g = groups[gi % len(groups)]
        shape = cg.shape_of(g.elemType)
        if kind == "edge" and dim == 2:
            kind = "face"
        e = ei % g.Ne
        V = X[np.asarray(g.connect, int)[e, : cg.NVERT[shape]]]
        xi = cg.ref_point(shape, kind, w)
        pts.append(cg.vertex_map(shape, V, xi[None])[0])
        own_general = cg.nonaffinity(shape, V[None]) > 1e-10
        geometry = "general" if (own_general or (kind != "in" and any_general)) else "affine"
        # is the group node nearest to the point a node of the element the point was built in?
        gn = np.asarray(g.nodes, int)
        dist = np.linalg.norm(X[gn] - pts[-1], axis=1)
        own = np.isin(gn, np.asarray(g.connect, int)[e])
        near = "own" if (not (~own).any() or dist[~own].min() > dist[own].min() + 1e-9) else "other"
        meta.append(dict(shape=shape, kind=kind, geometry=geometry, group=str(g.elemType), near=near))
    pts = np.array(pts)
    vals_n = np.stack([p(X), np.ones(mesh.Nn)], 1).ravel()
    exact = p(pts)
    fscale = float(np.abs(p(X)).max() + sum(abs(v) for v in coefs.values()) + 1.0)
    base = dict(elemType=et, types=types, dim=dim, mirrored=mirrored, embed=embed, warped=warped)
    rec.label("loc:" + types, "loc:mirrored" if mirrored else "loc:proper", f"loc:deg{deg}")
    if embed:
        rec.label("loc:embedded2d")
    if warped:
        rec.label("loc:warped")

    # tolerance.  First-order simplices always take the closed-form inverse map: identity level.  Any other
    # element may go through scipy.least_squares with its default stopping rule |J^T r|_inf <= gtol = 1e-8
    # (absolute), i.e. a position error |r| <= 1e-8 sqrt(3) / sigma_min(J) with sigma_min(J) ~ l_min / 2, hence a
    # value error <= |grad p| |r|; the tolerance is 200 x that bound (skewed elements), never below 1e-9 x scale.
    lmin = np.inf
    for g in groups:
        shape = cg.shape_of(g.elemType)
        Vg = X[np.asarray(g.connect, int)[:, : cg.NVERT[shape]]]
        dd = np.linalg.norm(Vg[:, :, None, :] - Vg[:, None, :, :], axis=3)
        lmin = min(lmin, float(dd[dd > 0].min()))
    gradmax = float(np.linalg.norm(_poly_grad(coefs, X), axis=1).max())
    iter_scale = max(1e-3 * fscale, 200 * 1e-8 * np.sqrt(3.0) / (lmin / 2) * gradmax / 1e-6)

    closed_form = types in ("TRI3", "TETRA4")  # every element of the mesh takes the closed-form inverse map

    # the enumerated tables (fixed geometries in O(1) units) are located to 6e-15 of the field scale on the unchanged tree (thorough
    # tier, measured by loc_err_over_field_scale), far below the general bound above, which the generated cases do come close to
    # (2e-8: least_squares stopping on its absolute gtol): the tables are held to 1e-10 of the field scale
    tight = bool(case.get("tight"))

    def tol_of(mt):
        return 1e-10 if (closed_form or tight) else 1e-6

    def scale_of(mt):
        return fscale if (closed_form or tight) else iter_scale

    def name_of(mt):
        # separate names so that the honest-error record of the affine classes is not polluted by finding C08-g
        return "value" if closed_form else "value_general" if mt["geometry"] == "general" else "value_iterative"

    # singly
    single = np.zeros((len(pts), 2))
    located = np.zeros(len(pts), dtype=bool)
    for i, (x, mt) in enumerate(zip(pts, meta)):
        sig = dict(base, shape=mt["shape"], kind=mt["kind"], geometry=mt["geometry"], near=mt["near"], mode="single")
        rec.label(f"query:{mt['shape']}:{mt['kind']}:{mt['geometry']}", "near:" + mt["near"])
        v = np.asarray(mesh.Evaluate_dofsValues_at_coordinates(x[None, :].copy(), vals_n), float)
        rec.require(v.shape == (1, 2), "result_shape", f"{v.shape}", **sig)
        single[i] = v[0]
        ok = rec.require(v[0, 1] != 0.0 or v[0, 0] != 0.0, "located",
                         f"{types}: query point {x.tolist()} ({mt['kind']} of a {mt['group']} element, mirrored={mirrored}, "
                         f"embed={embed}) is not located: Evaluate_dofsValues_at_coordinates returns 0 for the nodal field 1",
                         **sig)
        located[i] = ok
        if not ok:
            continue
        rec.close(v[0, 1] - 1.0, 1.0, 1e-9, "unity", f"{types}: nodal field 1 evaluates to {v[0, 1]!r} at {x.tolist()}", **sig)
        rec.close(v[0, 0] - exact[i], scale_of(mt), tol_of(mt), name_of(mt),
                  f"{types}: degree-{deg} polynomial {coefs} at {x.tolist()} ({mt['kind']}, {mt['geometry']} {mt['group']}): "
                  f"{v[0, 0]!r} vs {exact[i]!r}", fam="value", **sig)
        if not closed_form:
            rec.note_max("loc_err_over_field_scale:" + mt["kind"], abs(float(v[0, 0] - exact[i])) / fscale)

    # as a batch
    keep = list(range(len(pts)))
    if EXCLUDE_DIM_CLUSTERS and not case.get("allow_cluster"):
        keep, dropped = _drop_clusters(mesh, pts, keep, dim)
        if dropped:
            rec.label("excluded:batch_with_dim_points_in_one_element")
    if len(keep) >= 2:
        vb = np.asarray(mesh.Evaluate_dofsValues_at_coordinates(pts[keep].copy(), vals_n), float)
        rec.require(vb.shape == (len(keep), 2), "result_shape", f"{vb.shape}", mode="batch", **base)
        for j, i in enumerate(keep):
            mt = meta[i]
            sig = dict(base, shape=mt["shape"], kind=mt["kind"], geometry=mt["geometry"], near=mt["near"], mode="batch")
            okb = rec.require(vb[j, 1] != 0.0 or vb[j, 0] != 0.0, "located",
                              f"{types}: query point {pts[i].tolist()} is not located in a batch of {len(keep)}", **sig)
            if not okb:
                continue
            rec.close(vb[j, 0] - exact[i], scale_of(mt), tol_of(mt), name_of(mt),
                      f"{types}: batch of {len(keep)}: {vb[j, 0]!r} vs {exact[i]!r} at {pts[i].tolist()}", fam="value", **sig)
            if located[i]:
                rec.close(vb[j] - single[i], scale_of(mt), tol_of(mt), "batch_equals_single",
                          f"{types}: batch {vb[j]} vs single {single[i]} at {pts[i].tolist()}", fam="value", **sig)
    ea = case.get("elem_arg")
    if ea and len(groups) == 1 and len(keep) >= 1:
        Ne_ = int(groups[0].Ne)
        order = np.arange(Ne_)[::-1].copy() if ea == "reversed" else np.random.default_rng(int(case.get("elem_seed", 0))).permutation(Ne_)
        rec.label("elements_arg:" + ea)
        ve = np.asarray(mesh.Evaluate_dofsValues_at_coordinates(pts[keep].copy(), vals_n, order), float)
        rec.require(ve.shape == (len(keep), 2), "result_shape", f"{ve.shape}", mode="elements_arg", **base)
        for j, i in enumerate(keep):
            mt = meta[i]
            sig = dict(base, shape=mt["shape"], kind=mt["kind"], geometry=mt["geometry"], near=mt["near"], mode="elements_arg")
            oke = rec.require(ve[j, 1] != 0.0 or ve[j, 0] != 0.0, "located",
                              f"{types}: query point {pts[i].tolist()} is not located when every element is given as a candidate ({ea})", **sig)
            if oke:
                rec.close(ve[j, 0] - exact[i], scale_of(mt), tol_of(mt), name_of(mt),
                          f"{types}: elements argument = all {Ne_} elements {ea}: {ve[j, 0]!r} vs {exact[i]!r} at {pts[i].tolist()} ({mt['kind']})",
                          fam="value", **sig)
    kinds = {mt["kind"] for mt in meta}
    rec.nontrivial(deg >= 1 and any(abs(v) > 0 for k, v in coefs.items() if k != "0,0,0") and bool(kinds - {"node"}))


# ------------------------------------------------------------------------------------------
# (c') point location in one-dimensional meshes (segments of every order, anywhere in space)


@st.composite
def location1d_cases(draw):
    r = draw(gm.recipes1d())
    ops = draw(st.one_of(st.just([]), cg.motions(3)))
    deg = draw(st.integers(1, gm.ORDER[r["elemType"]]))
    coefs = [draw(st.integers(-3, 3)) for _ in range(deg + 1)]
    nq = draw(st.integers(3, 12))
    # (element, kind, position in the element as k/16)
    queries = [[draw(st.integers(0, 99)), draw(st.sampled_from(["in", "in", "in", "end", "node"])), draw(st.integers(1, 15))] for _ in range(nq)]
    return dict(recipe=r, ops=ops, deg=deg, coefs=coefs, queries=queries)


def enum_location1d(tier):
    for et in gm.SEG:
        for name in ("none", "rot3", "mirror3"):
            for d in ([3.0, 0.0, 0.0], [-2.0, 0.0, 0.0], [1.0, 2.0, 0.0], [1.0, -1.5, 2.0]):
                deg = gm.ORDER[et]
                queries = [[e, kind, k] for e in (0, 1, 2) for kind, k in (("in", 3), ("in", 8), ("in", 11), ("in", 14), ("end", 0), ("node", 5))]
                yield dict(recipe=dict(p1=[0.5, -1.0 if d[1] else 0.0, 0.0], d=d, ne=3, elemType=et, perm=None), ops=_OPS[name], deg=deg,
                           coefs=[1.0, -2.0, 1.5, 0.5, -1.0][: deg + 1], queries=queries)


def check_location_1d(case, rec):
    """the same oracle as in 2D/3D: a nodal field that is a polynomial (of the element's order) of the abscissa along
    the line, evaluated at query points constructed at known abscissae of known elements; every point of the
    closed segment must be located, singly and in a batch"""
    r = case["recipe"]
    et = r["elemType"]
    mesh = gm.build(r)
    ops = cg.scale_ops(case["ops"], gm.length_unit(r))
    cg.apply_motion(mesh, ops)
    Q, t = cg.motion_map(ops)
    p1 = Q @ np.array(r["p1"], float) + t
    d = Q @ np.array(r["d"], float)
    L = float(np.linalg.norm(d))
    X = np.asarray(mesh.coord, float)
    s_n = (X - p1) @ d / L**2  # abscissa in [0, 1] of every node
    coefs = case["coefs"]
    p = lambda s: sum(c * s**k for k, c in enumerate(coefs))  # noqa
    g = gm.main_groups(mesh)[0]
    conn = np.asarray(g.connect, int)
    on_axis = bool(np.abs(X[:, 1:]).max() == 0.0)
    sig = dict(elemType=et, dim=1, on_x_axis=on_axis, mirrored=bool(cg.n_reflections(ops) % 2))
    rec.label("loc1d:" + et, "loc1d:on_x_axis" if on_axis else "loc1d:in_space", f"loc1d:deg{case['deg']}")
    pts, ss, kinds = [], [], []
    for e, kind, k in case["queries"]:
        e = e % g.Ne
        a, b = s_n[conn[e, 0]], s_n[conn[e, 1]]
        if kind == "in":
            s = a + (b - a) * k / 16.0
        elif kind == "end":
            s = a if k % 2 else b
        else:
            s = s_n[conn[e, k % conn.shape[1]]]
        ss.append(float(s))
        pts.append(p1 + s * d)
        kinds.append(kind if kind != "in" else ("in_first_half" if k < 8 else "in_second_half"))
    pts = np.array(pts)
    ss = np.array(ss)
    vals_n = np.stack([p(s_n), np.ones(mesh.Nn)], 1).ravel()
    exact = p(ss)
    fscale = float(sum(abs(c) for c in coefs) + 1.0)
    # the inverse map of a straight segment with equidistant nodes is affine: identity-level tolerance
    single = np.zeros((len(pts), 2))
    for i, x in enumerate(pts):
        sg = dict(sig, kind=kinds[i], mode="single")
        rec.label("query1d:" + kinds[i])
        v = np.asarray(mesh.Evaluate_dofsValues_at_coordinates(x[None, :].copy(), vals_n), float)
        rec.require(v.shape == (1, 2), "result_shape", f"{v.shape}", **sg)
        single[i] = v[0]
        ok = rec.require(v[0, 1] != 0.0 or v[0, 0] != 0.0, "located",
                         f"{et}: query point {x.tolist()} (abscissa {ss[i]:.4f} L, {kinds[i]}) of the line {p1.tolist()} + s {d.tolist()} "
                         f"is not located: Evaluate_dofsValues_at_coordinates returns 0 for the nodal field 1", **sg)
        if not ok:
            continue
        rec.close(v[0, 1] - 1.0, 1.0, 1e-9, "unity", f"{et}: nodal field 1 evaluates to {v[0, 1]!r} at s={ss[i]}", **sg)
        rec.close(v[0, 0] - exact[i], fscale, 1e-9, "value", f"{et}: degree-{case['deg']} polynomial {coefs} of the abscissa at "
                  f"s={ss[i]!r}: {v[0, 0]!r} vs {exact[i]!r}", fam="value", **sg)
    # batch: distinct abscissae only (the batch entry point is documented for distinct points)
    _, keep = np.unique(np.round(ss, 12), return_index=True)
    keep = sorted(keep.tolist())
    if len(keep) >= 2:
        vb = np.asarray(mesh.Evaluate_dofsValues_at_coordinates(pts[keep].copy(), vals_n), float)
        rec.require(vb.shape == (len(keep), 2), "result_shape", f"{vb.shape}", mode="batch", **sig)
        for j, i in enumerate(keep):
            sg = dict(sig, kind=kinds[i], mode="batch")
            okb = rec.require(vb[j, 1] != 0.0 or vb[j, 0] != 0.0, "located",
                              f"{et}: query point at s={ss[i]:.4f} L is not located in a batch of {len(keep)}", **sg)
            if okb:
                rec.close(vb[j, 0] - exact[i], fscale, 1e-9, "value", f"{et}: batch of {len(keep)}: {vb[j, 0]!r} vs {exact[i]!r} at s={ss[i]!r}",
                          fam="value", **sg)
    rec.nontrivial(any(abs(c) > 0 for c in coefs[1:]) and any(k.startswith("in") for k in kinds))


# ------------------------------------------------------------------------------------------
# (c'') integer-typed query points: a lattice of points with integer coordinates (a pixel grid, or any hand-written list of
# integer points) is a batch of points like any other - the same values as for the same points typed as floats


def enum_lattice(tier):
    for et in gm.T2D:
        shape = cg.shape_of(et)
        for organised in ((True,) if shape == "QUAD" else (False, True)):
            for x0, y0 in ((0, 0), (2, 1), (-3, -1)):
                for order in ("image", "x_major", "shuffled", "partial"):
                    yield dict(elemType=et, organised=organised, x0=x0, y0=y0, nx=4, ny=3, order=order)


def check_lattice(case, rec):
    et = case["elemType"]
    x0, y0, nx, ny = (int(case[k]) for k in ("x0", "y0", "nx", "ny"))
    verts = [[x0, y0], [x0 + nx, y0], [x0 + nx, y0 + ny], [x0, y0 + ny]]
    r = dict(verts=[[float(a), float(b)] for a, b in verts], h=1.0, elemType=et, organised=bool(case["organised"]), extrude=None, layers=0,
             A=None, b=None, perm=None, orphans=0)
    mesh = gm.build(r)
    types = gm.mesh_types(mesh)
    X = np.asarray(mesh.coord, float)
    deg = gm.ORDER[et]
    coefs = {",".join(map(str, e)): float(1 + (i % 3) - (i % 2) * 3) for i, e in enumerate(orc.monomials(2, deg))}
    coefs = {k + ",0": v for k, v in coefs.items()}
    p = lambda P: orc.poly_eval(coefs, P[:, 0], P[:, 1], P[:, 2])  # noqa
    xs, ys = np.arange(x0, x0 + nx + 1), np.arange(y0, y0 + ny + 1)
    if case["order"] == "x_major":
        gx, gy = np.meshgrid(xs, ys, indexing="ij")
    else:
        gx, gy = np.meshgrid(xs, ys)  # image order: x runs fastest
    P = np.column_stack([gx.ravel(), gy.ravel(), np.zeros(gx.size, dtype=int)]).astype(int)
    if case["order"] == "shuffled":
        P = P[np.argsort((P[:, 0] * 7 + P[:, 1] * 13) % 11, kind="stable")]
    elif case["order"] == "partial":
        P = P[::2]
    sig = dict(elemType=et, types=types, origin="at_0" if (x0, y0) == (0, 0) else "offset", order=case["order"])
    rec.label("lattice:" + types, "lattice:" + sig["origin"], "lattice:" + case["order"])
    vals_n = np.stack([p(X), np.ones(mesh.Nn)], 1).ravel()
    exact = p(P.astype(float))
    fscale = float(np.abs(p(X)).max() + 1.0)
    vf = np.asarray(mesh.Evaluate_dofsValues_at_coordinates(P.astype(float), vals_n), float)
    vi = np.asarray(mesh.Evaluate_dofsValues_at_coordinates(P.copy(), vals_n), float)
    rec.require(vi.shape == vf.shape == (P.shape[0], 2), "result_shape", f"{vi.shape} / {vf.shape}", **sig)
    rec.close(vf[:, 0] - exact, fscale, 1e-6, "value_float_lattice", f"{types}: lattice points typed as floats", **sig)
    nloc = int(np.sum((vi[:, 1] == 0.0) & (vi[:, 0] == 0.0)))
    rec.require(nloc == 0, "located", f"{types}: {nloc} of the {P.shape[0]} integer-typed lattice points of the rectangle [{x0},{x0 + nx}]x[{y0},{y0 + ny}] "
                f"({case['order']} order) are not located (the same points typed as floats are)", mode="integer_lattice", **sig)
    rec.close(vi - vf, fscale, 1e-6, "integer_equals_float", f"{types}: degree-{deg} polynomial at integer-typed lattice points ({case['order']} "
              f"order, origin ({x0},{y0})) differs from the same points typed as floats", **sig)
    rec.nontrivial(True)


# ------------------------------------------------------------------------------------------
# (d) mesh-to-mesh projector


P2D = ["TRI3", "TRI6", "TRI10", "QUAD4", "QUAD8", "QUAD9"]
P3D = ["TETRA4", "TETRA10", "PRISM6", "HEXA8"]


@st.composite
def projector_cases(draw):
    dim = draw(st.sampled_from([2, 2, 2, 3]))
    if dim == 2:
        r1 = draw(gm.recipes2d(types=P2D, affine_ok=False, perm_ok=False))
        et2 = draw(st.sampled_from(P2D))
    else:
        r1 = draw(gm.recipes3d(types=P3D, affine_ok=False, perm_ok=False))
        et2 = draw(st.sampled_from(P3D))
    for et in (r1["elemType"], et2):
        if cg.shape_of(et) in ("QUAD", "HEXA"):
            r1["verts"] = _para_verts(r1["verts"])
            r1["organised"] = True
    h2 = round(r1["h"] * draw(st.sampled_from([0.6, 0.8, 1.0, 1.3, 1.7])), 3)
    r2 = dict(r1, elemType=et2, h=h2)
    if len(r1["verts"]) in (3, 4):
        r2["organised"] = True if cg.shape_of(et2) in ("QUAD", "HEXA") else draw(st.booleans())
    lin = [draw(st.integers(-4, 4)) / 2.0 for _ in range(4)]
    return dict(old=r1, new=r2, lin=lin)


def check_projector(case, rec):
    old = gm.build(case["old"])
    new = gm.build(case["new"])
    dim = gm.dim_of(case["old"]["elemType"])
    if len(gm.main_groups(old)) != 1 or len(gm.main_groups(new)) != 1:
        raise Inconclusive("Calc_projector handles one main group per mesh")
    g = gm.main_groups(old)[0]
    Xo, Xn = np.asarray(old.coord, float), np.asarray(new.coord, float)
    shape = cg.shape_of(g.elemType)
    if cg.nonaffinity(shape, Xo[np.asarray(g.connect, int)[:, : cg.NVERT[shape]]]) > 1e-10:
        raise Inconclusive("old mesh has non-affine elements (Calc_projector warns about them)")
    types = f"{gm.mesh_types(old)}->{gm.mesh_types(new)}"
    sig = dict(old=str(g.elemType), new=case["new"]["elemType"], dim=dim)
    rec.label("proj:" + types)
    # finding C08-d: exactly dim new nodes in one old element make the inverse map raise
    cand = g._Get_nearby_elements(Xn) if EXCLUDE_DIM_CLUSTERS else []
    if any(np.asarray(g.Get_pointsInElem(Xn, int(e))).size == dim for e in cand):
        rec.label("excluded:projector_with_dim_nodes_in_one_element")
        return
    a = np.array(case["lin"], float)
    f = lambda P: a[0] + P @ a[1:]  # noqa
    proj = Calc_projector(old, new)
    rec.require(proj.shape == (new.Nn, old.Nn), "projector_shape", f"{proj.shape}", **sig)
    un = np.asarray(proj @ f(Xo), float).ravel()
    used = gm.used_nodes(new)
    fscale = float(np.abs(f(Xo)).max() + np.abs(a).sum() + 1.0)
    rows = np.asarray(abs(proj).sum(axis=1)).ravel()
    rec.require((rows[used] > 0).all(), "projector_rows",
                f"{types}: {int((rows[used] == 0).sum())} nodes of the new mesh receive nothing from the old mesh", **sig)
    # new nodes held by one old element / by several (on an edge, a face or a node of the old mesh)
    Vo = Xo[np.asarray(g.connect, int)[:, : cg.NVERT[shape]]]
    count = cg.affine_contains(shape, Vo, Xn[used]).sum(0)
    rec.require((count >= 1).all(), "harness_containment", "a node of the new mesh is outside the old mesh (harness)", **sig)
    err = (un - f(Xn))[used]
    for multi in (False, True):
        sel = (count > 1) == multi
        if sel.any():
            rec.label("proj:nodes_on_old_edges" if multi else "proj:nodes_inside_old_elements")
            rec.close(err[sel], fscale, 1e-7, "projector_linear",
                      f"{types}: proj @ u_old differs from the linear field {a.tolist()} on {int(sel.sum())} new nodes "
                      f"{'shared by several old elements' if multi else 'inside one old element'} "
                      f"(row sums {np.round(np.asarray(proj.sum(axis=1)).ravel()[used][sel][:4], 6).tolist()})", multi=multi, **sig)
    rec.nontrivial(bool(np.abs(a[1:]).max() > 0) and new.Nn != old.Nn)


# ------------------------------------------------------------------------------------------
# finite tables: every element type x source x orientation once per run (Hypothesis does not stratify)

_SQ = [[0.9, 0.0], [0.1, 0.8], [-0.8, 0.1], [-0.1, -0.9]]  # general quadrilateral, counter-clockwise
_OPS = dict(
    none=[],
    rot=[dict(op="R", theta=37.0, c=[0.5, -1.0, 0.0], axis=[0.0, 0.0, 1.0]), dict(op="T", v=[1.5, -0.5, 0.0])],
    mirror=[dict(op="S", c=[0.5, 0.0, 0.0], n=[2.0, 1.0, 0.0]), dict(op="R", theta=115.0, c=[0.0, 0.0, 0.0], axis=[0.0, 0.0, 1.0])],
    rot3=[dict(op="R", theta=51.7, c=[0.5, -1.0, 0.5], axis=[1.0, 2.0, -1.0]), dict(op="T", v=[1.0, -0.5, 2.0])],
    mirror3=[dict(op="S", c=[0.5, 0.0, 1.0], n=[1.0, -2.0, 2.0]), dict(op="R", theta=80.0, c=[0.0, 1.0, 0.0], axis=[0.0, 1.0, 1.0])],
)


def _table_recipe(et, organised, verts=None, h=0.55):
    dim = gm.dim_of(et)
    shape = cg.shape_of(et)
    o = gm.ORDER[et]
    r = dict(verts=[list(v) for v in (verts or _SQ)], h=round(h * (1.0 if o <= 2 else 1.5), 3), elemType=et,
             organised=bool(organised or shape == "HEXA"), extrude=None, layers=0, A=None, b=None, perm=None, orphans=0)
    if dim == 3:
        r.update(extrude=[0.25, -0.25, 0.75], layers=2 if o == 1 else 1, h=round(0.7 * (1.0 if o == 1 else 1.2), 3))
    return r


def enum_normals(tier):
    for et in gm.T2D:
        for organised in (False, True):
            for rev in (False, True):
                for ops in ("mirror", "rot3", "mirror3"):
                    r = _table_recipe(et, organised)
                    if rev:
                        r["verts"] = r["verts"][::-1]
                    yield dict(recipe=r, ops=_OPS[ops])
    for et in gm.T3D:
        for source in ("gmsh", "recon", "recon_moved"):
            for ops in ("rot3", "mirror3"):
                yield dict(recipe=_table_recipe(et, False), ops=_OPS[ops], source=source)
        yield dict(recipe=_table_recipe(et, False), ops=_OPS["rot3"], source="gmsh", rev=True)


def check_normals_table(case, rec):
    if case["recipe"].get("extrude"):
        check_normals_3d(case, rec)
    else:
        check_normals_2d(case, rec)


def enum_location(tier):
    kinds = ["in", "face", "edge", "node"]
    for et in gm.T2D + gm.T3D:
        dim = gm.dim_of(et)
        shape = cg.shape_of(et)
        geoms = [("general", _SQ)]
        if shape in ("QUAD", "HEXA"):
            geoms.append(("para", _para_verts(_SQ)))
        for gname, verts in geoms:
            for organised in ((True,) if shape in ("QUAD", "HEXA") else (False, True)):
                for ops in (("none", "rot", "mirror", "rot3", "mirror3") if dim == 2 else ("none", "rot3", "mirror3")):
                    r = _table_recipe(et, organised, verts)
                    deg = gm.ORDER[et]
                    coefs = {",".join(map(str, e)): float(1 + (i % 3) - (i % 2) * 3) for i, e in enumerate(orc.monomials(3, deg))}
                    queries = []
                    for j, ei in enumerate((0, 5, 11)):
                        for k, kind in enumerate(kinds):
                            w = [(3 * j + 5 * k + q * 7 + 2) % 16 for q in range(5)]
                            queries.append([j, ei, kind] + w)
                    yield dict(recipe=r, para=(gname == "para"), warp=None, ops=_OPS[ops], deg=deg, coefs=coefs,
                               queries=queries, allow_cluster=False, elem_arg="reversed", elem_seed=0, tight=True)


SUBS = [
    Sub("measure_motion", check_measure_motion, gen=measure_cases, quick=120, thorough=1500, shards=6),
    Sub("mixed_orientation", check_mixed_orientation, enum=enum_mixed_orientation, doc="every element type x mirror plane: a mesh merged with its mirror image"),
    Sub("normals_2d", check_normals_2d, gen=lambda: normals2d_cases(False), quick=130, thorough=1500, shards=4),
    Sub("normals_embedded", check_normals_2d, gen=lambda: normals2d_cases(True), quick=70, thorough=800, shards=4),
    Sub("normals_3d", check_normals_3d, gen=normals3d_cases, quick=80, thorough=600, shards=6),
    Sub("point_location_2d", check_point_location, gen=lambda: location_cases(2), quick=140, thorough=1000, shards=8),
    Sub("point_location_3d", check_point_location, gen=lambda: location_cases(3), quick=80, thorough=600, shards=8),
    Sub("normals_types", check_normals_table, enum=enum_normals, doc="every element type x contour order / boundary source x rotation / mirror"),
    Sub("location_types", check_point_location, enum=enum_location, doc="every element type x geometry x motion x query kind"),
    Sub("point_location_1d", check_location_1d, gen=location1d_cases, quick=80, thorough=800, shards=4),
    Sub("location_types_1d", check_location_1d, enum=enum_location1d, doc="SEG2..SEG5 x line direction (on the x axis in both senses, in the plane, in space) x motion"),
    Sub("integer_lattice", check_lattice, enum=enum_lattice, doc="2D element type x lattice origin x ordering of the integer-typed query points"),
    Sub("projector", check_projector, gen=projector_cases, quick=100, thorough=600, shards=4),
]


# ------------------------------------------------------------------------------------------
# (added by the lead, round 8) meshes written by hand on an integer lattice, the coordinate array handed over with an integer
# dtype (GroupElemFactory.Create + Mesh): lengths / areas / volumes and the centre are those of the same mesh given in floats and
# the closed forms computed from the coordinates, before and after the mesh is translated, rotated and mirrored by amounts that do
# not map the lattice onto itself (the moved coordinates are compared with the harness's own motion)


def _lattice_mesh(kind, dtype):
    from EasyFEA.FEM import ElemType, GroupElemFactory, Mesh

    if kind.startswith("seg"):
        pts = {"seg_plane": [[0, 0, 0], [1, 1, 0], [2, 3, 0], [5, 3, 0], [6, -1, 0]],
               "seg_space": [[0, 0, 0], [1, 1, 1], [2, 3, -1], [5, 3, 2], [6, -1, 2]],
               "seg_axis": [[0, 0, 0], [2, 0, 0], [3, 0, 0], [7, 0, 0], [8, 0, 0]]}[kind]
        coord = np.array(pts)
        conn = np.stack([np.arange(4), np.arange(1, 5)], 1)
        et, meas = ElemType.SEG2, np.linalg.norm(np.diff(coord.astype(float), axis=0), axis=1)
    elif kind.startswith(("quad", "tri")):
        nx, ny = 3, 2
        idx = np.arange((nx + 1) * (ny + 1)).reshape(ny + 1, nx + 1)
        X, Y = np.meshgrid(np.arange(nx + 1), np.arange(ny + 1))
        # a lattice sheared inside its plane (integer shear), lying in z = 0 or on the plane z = x + 2 y
        coord = np.stack([(2 * X + Y).ravel(), (3 * Y - X).ravel(), ((X + 2 * Y) if kind.endswith("space") else 0 * X).ravel()], 1)
        q = np.stack([idx[:-1, :-1], idx[:-1, 1:], idx[1:, 1:], idx[1:, :-1]], -1).reshape(-1, 4)
        if kind.startswith("quad"):
            conn, et = q, ElemType.QUAD4
        else:
            conn, et = np.concatenate([q[:, [0, 1, 2]], q[:, [0, 2, 3]]]), ElemType.TRI3
        P = coord.astype(float)[conn]
        tri = lambda a, b, c: 0.5 * np.linalg.norm(np.cross(b - a, c - a), axis=1)  # noqa: E731
        meas = tri(P[:, 0], P[:, 1], P[:, 2]) + (tri(P[:, 0], P[:, 2], P[:, 3]) if et == ElemType.QUAD4 else 0.0)
    else:
        nx, ny, nz = 2, 2, 1
        idx = np.arange((nx + 1) * (ny + 1) * (nz + 1)).reshape(nz + 1, ny + 1, nx + 1)
        Z, Y, X = np.meshgrid(np.arange(nz + 1), np.arange(ny + 1), np.arange(nx + 1), indexing="ij")
        coord = np.stack([(2 * X + Y).ravel(), (3 * Y - X + Z).ravel(), (2 * Z + X).ravel()], 1)
        h = np.stack([idx[:-1, :-1, :-1], idx[:-1, :-1, 1:], idx[:-1, 1:, 1:], idx[:-1, 1:, :-1],
                      idx[1:, :-1, :-1], idx[1:, :-1, 1:], idx[1:, 1:, 1:], idx[1:, 1:, :-1]], -1).reshape(-1, 8)
        vol6 = lambda a, b, c, d: np.abs(np.einsum("ij,ij->i", np.cross(b - a, c - a), d - a)) / 6.0  # noqa: E731
        if kind == "hexa":
            conn, et = h, ElemType.HEXA8
            P = coord.astype(float)[conn]
            meas = np.abs(np.einsum("ij,ij->i", np.cross(P[:, 1] - P[:, 0], P[:, 3] - P[:, 0]), P[:, 4] - P[:, 0]))  # parallelepipeds
        else:
            tets = [[0, 1, 3, 4], [1, 2, 3, 6], [1, 4, 5, 6], [3, 4, 6, 7], [1, 3, 4, 6]]
            conn, et = np.concatenate([h[:, t] for t in tets]), ElemType.TETRA4
            P = coord.astype(float)[conn]
            meas = vol6(P[:, 0], P[:, 1], P[:, 2], P[:, 3])
    g = GroupElemFactory.Create(et, conn.astype(int), coord.astype(dtype))
    return Mesh({et: g}), coord.astype(float), conn, meas


def enum_integer_coords(tier):
    for kind in ("seg_plane", "seg_space", "seg_axis", "tri_plane", "tri_space", "quad_plane", "quad_space", "tetra", "hexa"):
        for dtype in ("int64", "int32"):
            for motion in ("none", "translate", "rotate", "mirror", "all"):
                yield dict(kind=kind, dtype=dtype, motion=motion)


def check_integer_coords(case, rec):
    kind, motion = case["kind"], case["motion"]
    sig = dict(kind=kind, dtype=case["dtype"], motion=motion)
    rec.label("lattice:" + kind, "motion:" + motion, "dtype:" + case["dtype"])
    mesh, X, conn, meas = _lattice_mesh(kind, np.dtype(case["dtype"]))
    ref, _, _, _ = _lattice_mesh(kind, float)
    planar = kind in ("seg_plane", "seg_axis", "tri_plane", "quad_plane")
    axis = np.array([0.0, 0.0, 1.0]) if planar else np.array([1.0, 2.0, 2.0]) / 3.0
    nrm = np.array([3.0, 4.0, 0.0]) / 5.0 if planar else np.array([2.0, -1.0, 2.0]) / 3.0
    pt = np.array([0.5, -0.25, 0.0])
    todo = {"none": [], "translate": ["t"], "rotate": ["r"], "mirror": ["m"], "all": ["r", "t", "m"]}[motion]
    Y = X.copy()
    for m in (mesh, ref):
        g0 = m.Get_list_groupElem(m.dim)[0]
        _ = g0.Get_weightedJacobian_e_pg(MatrixType.mass)  # geometric caches warm before the motion
    for op in todo:
        if op == "t":
            t = np.array([2.5, -4.25, 0.0 if planar else 1.125])
            for m in (mesh, ref):
                m.Translate(*t)
            Y = Y + t
        elif op == "r":
            for m in (mesh, ref):
                m.Rotate(33.0, tuple(pt), tuple(axis))
            th = np.deg2rad(33.0)
            Kx = np.array([[0, -axis[2], axis[1]], [axis[2], 0, -axis[0]], [-axis[1], axis[0], 0]])
            Rm = np.eye(3) + np.sin(th) * Kx + (1 - np.cos(th)) * Kx @ Kx
            Y = (Y - pt) @ Rm.T + pt
        else:
            for m in (mesh, ref):
                m.Symmetry(tuple(pt), tuple(nrm))
            Y = Y - 2.0 * ((Y - pt) @ nrm)[:, None] * nrm[None, :]
    scale = float(np.abs(Y).max()) + 1.0
    rec.close(np.asarray(mesh.coord, float) - Y, scale, 1e-13, "moved_coordinates",
              f"{kind} given as {case['dtype']}, {motion}: node coordinates differ from the moved lattice", **sig)
    g = mesh.Get_list_groupElem(mesh.dim)[0]
    gr = ref.Get_list_groupElem(ref.dim)[0]
    name = {1: "length_e", 2: "area_e", 3: "volume_e"}[mesh.dim]
    me, mr = np.asarray(getattr(g, name), float), np.asarray(getattr(gr, name), float)
    ms = float(np.abs(meas).max())
    rec.close(me - meas, ms, 1e-12, "element_measures", f"{kind} given as {case['dtype']}, {motion}: {name} = {me[:4]} ..., closed form {meas[:4]} ...", **sig)
    rec.close(me - mr, ms, 1e-12, "same_as_float_mesh", f"{kind}: {name} of the mesh given as {case['dtype']} differs from the mesh given as float", **sig)
    cen = np.asarray(mesh.center, float)
    Pc = Y[conn].mean(axis=1)  # centroids of segments, triangles, parallelograms, parallelepipeds and tetrahedra
    cex = (Pc * meas[:, None]).sum(axis=0) / meas.sum()
    rec.close(cen - cex, scale, 1e-12, "center", f"{kind} given as {case['dtype']}, {motion}: centre {cen} vs {cex}", **sig)
    rec.nontrivial(True)


SUBS.append(Sub("integer_coords", check_integer_coords, enum=enum_integer_coords,
                doc="hand-written lattice meshes (SEG2 in the plane / in space / on the x axis, TRI3 and QUAD4 in the plane and embedded, TETRA4, "
                    "HEXA8) x integer dtype of the coordinate array x motion"))


# ------------------------------------------------------------------------------------------
# (added by the lead, round 9) the projector between two meshes of the same contour when the NEW mesh was given `additionalPoints`
# (geometric points that are not nodes of the old mesh): a linear nodal field of the old mesh is carried exactly to every node of
# the new one, the added points included


def enum_projector_points(tier):
    for et_old in ("TRI3", "TRI6", "QUAD4"):
        for et_new in ("TRI3", "TRI6"):
            for npts in (1, 2):
                yield dict(old=et_old, new=et_new, npts=npts)


def check_projector_points(case, rec):
    from EasyFEA import ElemType, Mesher
    from EasyFEA.Geoms import Point, Points

    poly = [(0.0, 0.0), (4.0, 0.0), (4.0, 3.0), (0.0, 3.0)]
    extra = [Point(1.7, 1.3), Point(3.1, 2.2)][: int(case["npts"])]
    quad = case["old"].startswith("QUAD")
    old = Mesher().Mesh_2D(Points([Point(*p) for p in poly], 1.0), [], ElemType(case["old"]), isOrganised=quad)
    new = Mesher().Mesh_2D(Points([Point(*p) for p in poly], 0.45), [], ElemType(case["new"]), additionalPoints=extra)
    sig = dict(old=case["old"], new=case["new"], dim=2, npts=int(case["npts"]))
    rec.label(f"proj_points:{case['old']}->{case['new']}")
    Xo, Xn = np.asarray(old.coord, float), np.asarray(new.coord, float)
    a = np.array([0.5, 1.5, -2.0, 0.0])
    f = lambda P: a[0] + P @ a[1:]  # noqa: E731
    proj = Calc_projector(old, new)
    un = np.asarray(proj @ f(Xo), float).ravel()
    used = gm.used_nodes(new)
    fscale = float(np.abs(f(Xo)).max() + 1.0)
    at_extra = [int(np.argmin(np.linalg.norm(Xn[:, :2] - np.array([p.x, p.y]), axis=1))) for p in extra]
    rec.require(all(np.linalg.norm(Xn[n, :2] - np.array([p.x, p.y])) < 1e-9 for n, p in zip(at_extra, extra)), "harness_extra_point_is_node",
                "an additional point is not a node of the new mesh (harness)", **sig)
    rec.close((un - f(Xn))[used], fscale, 1e-7, "projector_linear_extra_points",
              f"{case['old']}->{case['new']} with {len(extra)} additionalPoints: proj @ u_old differs from the linear field; at the added "
              f"points: {np.abs((un - f(Xn))[at_extra]).tolist()}", **sig)
    rec.nontrivial(True)


SUBS.append(Sub("projector_points", check_projector_points, enum=enum_projector_points,
                doc="old element type x new element type x number of additionalPoints of the new mesh"))
