"""C10 - frame indifference: a rigidly moved problem has the rigidly moved solution."""

import numpy as np
from hypothesis import strategies as st

from EasyFEA import AlgoType, MatrixType, Models, Simulations
from EasyFEA.FEM import FeArray

from vlib import gen_beam as gb
from vlib import gen_mesh as gm
from vlib import gen_model as gmod
from vlib.runner import Inconclusive, Sub

PROPERTY = "C10"
RULE = (
    "Hypothesis draws a base problem (mesh recipe of any element type, elastic law with rotated material axes / "
    "conductivity / beam member with section axis, full-vector Dirichlet values on a boundary patch, nodal, body and "
    "surface loads) and an isometry x -> Qx+t (generic rotation angle, reflections, translation); the transformed "
    "problem is rebuilt through the public API (mesh.copy()+Rotate/Symmetry/Translate, law with Q-rotated axes, Q-rotated "
    "values) and both are solved. Non-trivial = rotation angle not a multiple of 90 deg (or a reflection) and a non-zero "
    "load; distinct = sha1 of the case."
    ' Round 9: the elastic cases also compare Wdef_e, Evm and ZZ1; a third of the members take two dynamic steps; closed-form shear of a cantilever; beam_units enumerates dimension x type x theory x member length 1e-3..1e5.'
)
ASSUMPTIONS = [
    "metamorphic oracle: u'(node) = Q u(node), scalars/energies/von Mises unchanged; beams: response in the member's own "
    "axes equals that of the axis-aligned member and the Euler-Bernoulli closed forms (FL^3/3EI, FL^2/2EI, NL/EA)",
    "the isometry matrix is computed by the harness (Rodrigues / Householder) and the moved mesh is checked against it",
    "solve-level tolerance 1e-8 x displacement scale; meshes <= 400 nodes",
]
LEVEL_TEXT = ("generated problems x generated isometries (rotations by generic angles, reflections, translations): the "
              "transformed problem's solution, energies and invariants are compared with the transformed solution; beams "
              "also against closed forms in the member's own axes")
LEVEL_NOTE = "exploration; static and one-step dynamic linear solves; hyperelastic statics on small meshes; bounded sizes"
TECHNIQUE = "metamorphic property-based testing (Hypothesis): solve(T(problem)) == T(solve(problem)) + closed forms for beams"
DESIGN_REF = "DESIGN.md 4/C10"
READY = True

TOL = 1e-8


# ------------------------------------------------------------------------------------------
# isometries


@st.composite
def isometries(draw, dim):
    kind = draw(st.sampled_from(["rot", "rot", "sym", "rot+sym"]))
    theta = draw(st.integers(1, 71)) * 5.0 + draw(st.sampled_from([0.0, 1.7]))
    if dim == 2:
        axis = [0.0, 0.0, 1.0]
        ang = draw(st.integers(0, 11)) * 15.0 + 4.0
        n = [float(np.cos(np.deg2rad(ang))), float(np.sin(np.deg2rad(ang))), 0.0]
    else:
        for _ in range(20):
            axis = [float(draw(st.integers(-3, 3))) for _ in range(3)]
            if np.linalg.norm(axis) > 0:
                break
        else:
            axis = [1.0, 1.0, 0.0]
        for _ in range(20):
            n = [float(draw(st.integers(-3, 3))) for _ in range(3)]
            if np.linalg.norm(n) > 0:
                break
        else:
            n = [0.0, 1.0, 1.0]
    center = [draw(st.integers(-2, 2)) / 2.0 for _ in range(dim)] + [0.0] * (3 - dim)
    t = [draw(st.integers(-4, 4)) / 2.0 for _ in range(dim)] + [0.0] * (3 - dim)
    return dict(kind=kind, theta=theta, axis=axis, n=n, center=center, t=t)


def iso_matrix(iso):
    """(Q, map) with map(x) the harness image of points (N,3)"""
    Q = np.eye(3)
    c = np.array(iso["center"], float)
    t = np.array(iso["t"], float)
    steps = []
    if "rot" in iso["kind"]:
        a = np.array(iso["axis"], float)
        a /= np.linalg.norm(a)
        th = np.deg2rad(iso["theta"])
        Kx = np.array([[0, -a[2], a[1]], [a[2], 0, -a[0]], [-a[1], a[0], 0]])
        R = np.eye(3) + np.sin(th) * Kx + (1 - np.cos(th)) * Kx @ Kx
        steps.append(R)
    if "sym" in iso["kind"]:
        n = np.array(iso["n"], float)
        n /= np.linalg.norm(n)
        steps.append(np.eye(3) - 2 * np.outer(n, n))
    for S in steps:
        Q = S @ Q

    def fmap(X):
        Y = np.asarray(X, float)
        for S in steps:
            Y = (Y - c) @ S.T + c
        return Y + t

    return Q, fmap


def move_mesh(mesh, iso):
    m = mesh.copy()
    if "rot" in iso["kind"]:
        m.Rotate(iso["theta"], tuple(iso["center"]), tuple(iso["axis"]))
    if "sym" in iso["kind"]:
        m.Symmetry(tuple(iso["center"]), tuple(iso["n"]))
    m.Translate(*iso["t"])
    return m


def nontrivial_iso(iso):
    return "sym" in iso["kind"] or (iso["theta"] % 90.0) != 0.0


# ------------------------------------------------------------------------------------------
# continua


def patches(mesh, dirvec, frac=0.25):
    """(clamped boundary nodes, loaded boundary nodes): lowest / highest projections on dirvec"""
    bn = gm.boundary_nodes(mesh)
    c = np.asarray(mesh.coord, float)[bn]
    p = c @ dirvec
    lo, hi = p.min(), p.max()
    fixed = bn[p <= lo + frac * (hi - lo)]
    loaded = bn[p >= hi - frac * (hi - lo)]
    return fixed, loaded


@st.composite
def elastic_cases(draw, dim):
    r = draw(gm.recipes2d(affine_ok=False, bend_ok=True) if dim == 2 else gm.recipes3d(affine_ok=False, bend_ok=True))
    law = draw(gmod.elastic_specs(dim))
    iso = draw(isometries(dim))
    vec = lambda lo, hi, den: [draw(st.integers(lo, hi)) / den for _ in range(dim)]  # noqa
    dyn = draw(st.sampled_from([None, None, "newmark", "midpoint", "hht", "hht_newmark", "euler_implicit"]))
    return dict(recipe=r, law=law, iso=iso, dirang=draw(st.integers(0, 11)), ud=vec(-3, 3, 40.0), body=vec(-4, 4, 4.0),
                trac=vec(-4, 4, 2.0), point=vec(-4, 4, 2.0), dynamic=dyn, dt=draw(st.integers(1, 20)) / 10.0,
                rho=draw(st.integers(1, 8)) / 2.0)


def _solve_elastic(mesh, mat, case, sets, Q, dim):
    simu = Simulations.Elastic(mesh, mat)
    un = float(case["law"].get("unit", 1.0))  # unit system of the moduli: loads and density follow, displacements stay O(1)
    simu.rho = un * case["rho"]
    fixed, loaded = sets  # node sets chosen once on the base mesh (numbering is kept by the motion)
    unk = ["x", "y", "z"][:dim]
    Qd = Q[:dim, :dim]
    ud = Qd @ np.array(case["ud"], float)
    body = un * (Qd @ np.array(case["body"], float))
    trac = un * (Qd @ np.array(case["trac"], float))
    point = un * (Qd @ np.array(case["point"], float))
    simu.add_dirichlet(fixed, [float(v) for v in ud], unk)
    used = gm.used_nodes(mesh)
    simu.add_volumeLoad(used, [float(v) for v in body], unk)
    simu.add_surfLoad(loaded, [float(v) for v in trac], unk)
    simu.add_neumann(loaded[:1], [float(v) for v in point], unk)
    if case["dynamic"]:
        simu.Solver_Set_Hyperbolic_Algorithm(case["dt"], algo=AlgoType(case["dynamic"]), alpha=0.2)
    u = np.asarray(simu.Solve(), float).reshape(mesh.Nn, dim)
    out = dict(u=u, W=float(simu.Result("Wdef")), Svm=np.asarray(simu.Result("Svm", nodeValues=False), float))
    # the other scalars the simulation reports: element energies, equivalent strain, the smoothed-stress error estimator
    avail = set(simu.Results_Available())
    for nm in ("Wdef_e", "Evm"):
        if nm in avail:
            out[nm] = np.asarray(simu.Result(nm, nodeValues=False) if nm == "Evm" else simu.Result(nm), float).ravel()
    if "ZZ1" in avail:
        out["ZZ1"] = np.array([float(simu.Result("ZZ1"))])
    if case["dynamic"]:
        out["v"] = np.asarray(simu.speed, float).reshape(mesh.Nn, dim)
        out["a"] = np.asarray(simu.accel, float).reshape(mesh.Nn, dim)
    return out, fixed.size, loaded.size


def check_elastic(case, rec):
    r = case["recipe"]
    dim = gm.dim_of(r["elemType"])
    mesh = gm.build(r)
    if mesh.Nn > 400:
        raise Inconclusive("mesh too large")
    types = gm.mesh_types(mesh)
    iso = case["iso"]
    Q, fmap = iso_matrix(iso)
    sig = dict(elemType=r["elemType"], types=types, law=case["law"]["cls"], dim=dim, iso=iso["kind"],
               dynamic=case["dynamic"] or "static")
    rec.label("types:" + types, "law:" + case["law"]["cls"], "iso:" + iso["kind"], "algo:" + (case["dynamic"] or "static"))
    mesh2 = move_mesh(mesh, iso)
    X = np.asarray(mesh.coord, float)
    diam = np.ptp(X, axis=0).max() + np.abs(X).max() + np.abs(iso["t"]).max()
    rec.close(np.asarray(mesh2.coord, float) - fmap(X), diam, 1e-12, "moved_mesh",
              "mesh.Rotate/Symmetry/Translate image differs from Qx+t", **sig)
    ang = case["dirang"] * np.pi / 6
    dirvec = np.array([np.cos(ang), np.sin(ang), 0.3 if dim == 3 else 0.0])
    mat1 = gmod.make_elastic(case["law"])
    mat2 = gmod.make_elastic(case["law"], Q=Q)
    sets = patches(mesh, dirvec)
    # the clamped patch must restrain the rigid modes robustly (a precondition of a well-posed problem)
    cf = X[sets[0]] - X[sets[0]].mean(axis=0)
    sv = np.linalg.svd(cf, compute_uv=False) if sets[0].size >= 2 else np.zeros(3)
    span = np.ptp(X, axis=0).max()
    if sv[dim - 2] < 0.1 * span:
        raise Inconclusive("clamped patch does not restrain the rigid modes robustly")
    s1, nfix, nload = _solve_elastic(mesh, mat1, case, sets, np.eye(3), dim)
    s2, _, _ = _solve_elastic(mesh2, mat2, case, sets, Q, dim)
    used = gm.used_nodes(mesh)
    Qd = Q[:dim, :dim]
    scale = np.abs(s1["u"]).max() + 1e-6  # inputs (loads, moduli, sizes) are O(1): 1e-6 is a floor far below any response
    rec.close((s2["u"] - s1["u"] @ Qd.T)[used], scale, TOL, "u_rotated", f"{types} {case['law']['cls']} {iso['kind']} "
              f"theta={iso['theta']}: u' != Q u", **sig)
    if case["dynamic"]:
        for k in ("v", "a"):
            sc = np.abs(s1[k]).max() + 1e-6
            rec.close((s2[k] - s1[k] @ Qd.T)[used], sc, TOL, k + "_rotated", f"{case['dynamic']}: {k}' != Q {k}", **sig)
    un = float(case["law"].get("unit", 1.0))
    rec.close(s2["W"] - s1["W"], abs(s1["W"]) + 1e-6 * un, 1e-7, "energy_invariant", f"Wdef {s2['W']!r} vs {s1['W']!r}", **sig)
    rec.close(s2["Svm"] - s1["Svm"], np.abs(s1["Svm"]).max() + 1e-6 * un, 1e-7, "svm_invariant", "", **sig)
    for nm in ("Wdef_e", "Evm", "ZZ1"):
        if nm == "ZZ1" and not (abs(s1["W"]) > 1e-6 * un and np.all(np.isfinite(s1.get("ZZ1", np.nan)))):
            continue  # the estimator is a ratio of energies: 0 / 0 in an unloaded state
        if nm in s1 and nm in s2 and s1[nm].shape == s2[nm].shape:
            floor = {"Wdef_e": 1e-6 * un, "Evm": 1e-6, "ZZ1": 1e-6}[nm]
            rec.close(s2[nm] - s1[nm], float(np.abs(s1[nm]).max()) + floor, 1e-6, "scalar_result_invariant",
                      f"{types} {case['law']['cls']} {iso['kind']}: Result('{nm}') changes under the rigid motion "
                      f"({np.abs(s1[nm]).max()!r} vs {np.abs(s2[nm]).max()!r})", name=nm, **sig)
    loaded = any(abs(v) > 0 for k in ("ud", "body", "trac", "point") for v in case[k])
    rec.nontrivial(nontrivial_iso(iso) and loaded)


@st.composite
def thermal_cases(draw):
    dim = draw(st.sampled_from([2, 2, 3]))
    r = draw(gm.recipes2d(affine_ok=False, bend_ok=True) if dim == 2 else gm.recipes3d(affine_ok=False, bend_ok=True))
    return dict(recipe=r, iso=draw(isometries(dim)), dirang=draw(st.integers(0, 11)), k=draw(st.integers(1, 20)) / 4.0,
                thickness=draw(st.sampled_from([1.0, 0.5])), Td=draw(st.integers(-4, 4)) / 2.0, src=draw(st.integers(-4, 4)) / 2.0,
                flux=draw(st.integers(-4, 4)) / 2.0)


def check_thermal(case, rec):
    r = case["recipe"]
    dim = gm.dim_of(r["elemType"])
    mesh = gm.build(r)
    if mesh.Nn > 400:
        raise Inconclusive("mesh too large")
    types = gm.mesh_types(mesh)
    iso = case["iso"]
    Q, fmap = iso_matrix(iso)
    sig = dict(elemType=r["elemType"], types=types, dim=dim, iso=iso["kind"])
    rec.label("types:" + types, "iso:" + iso["kind"])
    mesh2 = move_mesh(mesh, iso)
    ang = case["dirang"] * np.pi / 6
    dirvec = np.array([np.cos(ang), np.sin(ang), 0.3 if dim == 3 else 0.0])

    fixed, loaded = patches(mesh, dirvec)  # chosen once on the base mesh

    def solve(m):
        simu = Simulations.Thermal(m, Models.Thermal(k=case["k"], c=0.0, thickness=case["thickness"]))
        simu.add_dirichlet(fixed, [case["Td"]], ["t"])
        simu.add_volumeLoad(gm.used_nodes(m), [case["src"]], ["t"])
        simu.add_surfLoad(loaded, [case["flux"]], ["t"])
        return np.asarray(simu.Solve(), float).ravel()

    T1 = solve(mesh)
    T2 = solve(mesh2)
    used = gm.used_nodes(mesh)
    rec.close((T2 - T1)[used], np.abs(T1).max() + 1e-6, TOL, "T_invariant", f"{types} {iso['kind']}: T' != T", **sig)
    rec.nontrivial(nontrivial_iso(iso) and (case["src"] != 0 or case["flux"] != 0))


# ------------------------------------------------------------------------------------------
# beams: a cantilever member at any inclination vs the axis-aligned member and closed forms


@st.composite
def beam_cases(draw):
    spec = draw(gb.member_specs())
    F = [draw(st.integers(-4, 4)) / 100.0 for _ in range(3)]
    Mo = [draw(st.integers(-4, 4)) / 100.0 for _ in range(3)]
    q = [draw(st.integers(-4, 4)) / 100.0 for _ in range(3)] if draw(st.booleans()) else [0.0, 0.0, 0.0]
    # dynamic: the same comparison after two steps of a hyperbolic scheme (the mass of the member enters)
    return dict(member=spec, F=F, M=Mo, q=q, dynamic=draw(st.sampled_from([None, None, "newmark", "midpoint"])))


def _tip_response(spec, F_loc, M_loc, q_loc=(0.0, 0.0, 0.0), dynamic=None):
    """cantilever clamped at p1, tip force/moment and uniform line load given in the member's own axes; returns the tip
    translations and rotations in the member's own axes"""
    simu, mesh, beam, frame = gb.build_member(spec)
    dim = spec["dim"]
    n1, n2 = gb.end_nodes(mesh, spec)
    unk = simu.Get_unknowns()
    simu.add_dirichlet(np.array([n1]), [0.0] * len(unk), unk)
    P = frame.T
    Fg = P @ np.array(F_loc, float)
    Mg = P @ np.array(M_loc, float)
    vals = [float(Fg[0]), float(Fg[1]), float(Mg[2])] if dim == 2 else [float(x) for x in (*Fg, *Mg)]
    simu.add_neumann(np.array([n2]), vals, unk)
    if any(q_loc):
        qg = P @ np.array(q_loc, float)
        simu.add_lineLoad(np.arange(mesh.Nn), [float(x) for x in qg[:dim]], unk[:dim])
    if dynamic:
        simu.rho = 3.0 * float(spec["E"]) / 100.0  # a period comparable with the step: inertia and stiffness both matter
        simu.Solver_Set_Hyperbolic_Algorithm(0.05, algo=AlgoType(dynamic))
        simu.Solve()
        simu.Save_Iter()
    u = np.asarray(simu.Solve(), float).reshape(mesh.Nn, -1)[n2]
    if dim == 2:
        ug = np.array([u[0], u[1], 0.0])
        rg = np.array([0.0, 0.0, u[2]])
    else:
        ug, rg = u[:3], u[3:]
    # internal forces are expressed in the member's own axes: element values along the member
    forces = {}
    for nm in ("N", "Ty", "Tz", "Mx", "My", "Mz"):
        if nm in simu.Results_Available():
            val = simu.Result(nm, nodeValues=False)
            if val is not None:
                forces[nm] = np.asarray(val, float).ravel()
    return P.T @ ug, P.T @ rg, forces


def check_beam(case, rec):
    spec = case["member"]
    dim = spec["dim"]
    kind = "timo" if spec["timoshenko"] else "eb"
    sig = dict(elemType=spec["elemType"], dim=dim, kind=kind)
    L = float(np.linalg.norm(spec["d"]))
    F = list(case["F"])
    Mo = list(case["M"])
    if dim == 2:
        F[2] = 0.0
        Mo[0] = Mo[1] = 0.0
    q = list(case.get("q", [0.0, 0.0, 0.0]))
    if dim == 2:
        q[2] = 0.0
    rec.label(f"beam:{kind}:{spec['elemType']}:{dim}d", "lineload" if any(q) else "tip_loads_only")
    dyn = case.get("dynamic")
    if dyn:
        rec.label("beam:dynamic:" + dyn)
    ul, rl, forces = _tip_response(spec, F, Mo, q, dyn)
    ref = dict(spec)
    ref.update(p1=[0.0, 0.0, 0.0], d=[L, 0.0, 0.0], yAxis=None)
    ul0, rl0, forces0 = _tip_response(ref, F, Mo, q, dyn)
    # natural magnitudes from the applied loads: forces ~ |F| + |q| L + |M| / L, moments ~ that x L
    fscale = float(np.abs(F).max() + np.abs(q).max() * L + np.abs(Mo).max() / L) + 1e-300
    for nm in sorted(forces0):
        if nm in forces and forces[nm].shape == forces0[nm].shape:
            sc = fscale * (L if nm[0] == "M" else 1.0)
            rec.close(forces[nm] - forces0[nm], sc, 1e-6, "beam_internal_forces",
                      f"{kind} {spec['elemType']} {dim}D d={spec['d']} yAxis={spec['yAxis']}: Result('{nm}') in the member's own axes "
                      f"{forces[nm][:3]} vs axis-aligned member {forces0[nm][:3]}", **dict(sig, name=nm))
    # one common response scale (a zero component is compared with the magnitude of the others)
    scale_u = max(np.abs(ul0).max(), np.abs(rl0).max() * L) + 1e-9
    scale_r = scale_u / L
    rec.close(ul - ul0, scale_u, 1e-7, "beam_own_axes_u", f"{kind} {spec['elemType']} {dim}D d={spec['d']} yAxis={spec['yAxis']}: "
              f"tip translation in own axes {ul} vs axis-aligned member {ul0}", **sig)
    rec.close(rl - rl0, scale_r, 1e-7, "beam_own_axes_r", f"{kind} {spec['elemType']} {dim}D d={spec['d']}: tip rotation in own axes "
              f"{rl} vs axis-aligned member {rl0}", **sig)
    if not dyn and not any(q):
        # statics of a cantilever under tip loads only: the shear forces are the transverse tip forces all along the member
        for nm, val in (("Ty", F[1]), ("Tz", F[2])):
            if nm in forces:
                rec.close(np.abs(forces[nm]) - abs(val), fscale, 1e-6, "beam_shear_closed_form",
                          f"{kind} {spec['elemType']} {dim}D d={spec['d']}: |Result('{nm}')| = {np.abs(forces[nm])[:3]} along a cantilever whose "
                          f"transverse tip force is {val}", **dict(sig, name=nm))
    if kind == "eb" and not dyn:
        A, Iy, Iz = gb.section_props(spec["b"], spec["h"])
        E = spec["E"]
        G = E / (2 * (1 + spec["v"]))
        J = Iy + Iz
        u_ex = np.array([F[0] * L / (E * A) + q[0] * L**2 / (2 * E * A),
                         F[1] * L**3 / (3 * E * Iz) + Mo[2] * L**2 / (2 * E * Iz) + q[1] * L**4 / (8 * E * Iz),
                         F[2] * L**3 / (3 * E * Iy) - Mo[1] * L**2 / (2 * E * Iy) + q[2] * L**4 / (8 * E * Iy)])
        r_ex = np.array([Mo[0] * L / (G * J), -F[2] * L**2 / (2 * E * Iy) + Mo[1] * L / (E * Iy) - q[2] * L**3 / (6 * E * Iy),
                         F[1] * L**2 / (2 * E * Iz) + Mo[2] * L / (E * Iz) + q[1] * L**3 / (6 * E * Iz)])
        rec.close(ul - u_ex, scale_u, 1e-6, "beam_closed_form_u", f"eb {spec['elemType']} d={spec['d']}: tip "
                  f"translation {ul} vs closed form {u_ex}", **sig)
        rec.close(rl - r_ex, scale_r, 1e-6, "beam_closed_form_r", f"eb {spec['elemType']} d={spec['d']}: tip "
                  f"rotation {rl} vs closed form {r_ex}", **sig)
    i = np.array(spec["d"], float) / L
    inclined = np.abs(np.abs(i).max() - 1.0) > 1e-9
    rec.nontrivial(inclined and (any(F) or any(Mo) or any(q)))
    rec.label("inclined" if inclined else "axis-parallel")


SUBS = [
    Sub("elastic2d", check_elastic, gen=lambda: elastic_cases(2), quick=120, thorough=600, shards=6),
    Sub("elastic3d", check_elastic, gen=lambda: elastic_cases(3), quick=40, thorough=250, shards=6),
    Sub("thermal", check_thermal, gen=thermal_cases, quick=100, thorough=500, shards=4),
    Sub("beam", check_beam, gen=beam_cases, quick=120, thorough=800, shards=4),
]


# ------------------------------------------------------------------------------------------
# hyperelastic statics: small load steps on small meshes, laws built on invariants (isotropic)


@st.composite
def hyper_cases(draw):
    dim = draw(st.sampled_from([2, 2, 3]))
    if dim == 2:
        r = draw(gm.recipes2d(types=["TRI3", "QUAD4", "TRI6", "QUAD8"], affine_ok=False, hmin=6, hmax=9, nmax=4))
    else:
        r = draw(gm.recipes3d(types=["TETRA4", "PRISM6", "HEXA8"], affine_ok=False, nmax=4))
    # HolzapfelOgden: fibre and sheet directions (with an out-of-plane part in 3D) carried by the isometry with the rest
    law = draw(st.sampled_from(["NeoHookean", "MooneyRivlin", "SaintVenantKirchhoff", "CiarletGeymonat", "HolzapfelOgden"]
                               + (["HolzapfelOgden"] * 3 if dim == 3 else [])))
    vec = lambda lo, hi, den: [draw(st.integers(lo, hi)) / den for _ in range(dim)]  # noqa
    fib = [draw(st.integers(0, 11)), draw(st.integers(1, 5)), draw(st.integers(-3, 3))]
    # active fibre stress tau * (T (x) T): the fibre direction is carried by the isometry with the rest of the problem
    active = dict(tau=draw(st.sampled_from([0.05, 0.1, -0.05])), ang=draw(st.integers(0, 11))) if draw(st.integers(0, 2)) == 0 else None
    return dict(recipe=r, law=law, iso=draw(isometries(dim)), dirang=draw(st.integers(0, 11)), ud=vec(-3, 3, 100.0),
                trac=vec(-4, 4, 40.0), body=vec(-4, 4, 40.0), active=active, fib=fib)


def _hyper_law(name, dim, Qm=None, fib=None):
    H = Models.HyperElastic
    if name == "HolzapfelOgden":
        a1 = fib[0] * np.pi / 6 + 0.1
        a2 = a1 + fib[1] * np.pi / 6
        z1, z2 = (0.5, 0.1 * fib[2]) if dim == 3 else (0.0, 0.0)
        T1 = Qm @ np.array([np.cos(a1), np.sin(a1), z1])
        T2 = Qm @ np.array([np.cos(a2), np.sin(a2), z2])
        T1, T2 = T1 / np.linalg.norm(T1), T2 / np.linalg.norm(T2)
        return H.HolzapfelOgden(dim, 1.0, 0.5, 0.75, 0.5, 0.5, 0.25, 0.25, 0.5, 5.0, 1.0, 0.5, T1=T1, T2=T2, ks=10.0)
    if name == "NeoHookean":
        return H.NeoHookean(dim, K=5.0)
    if name == "MooneyRivlin":
        return H.MooneyRivlin(dim, K1=2.0, K2=1.0, K=50.0)
    if name == "SaintVenantKirchhoff":
        return H.SaintVenantKirchhoff(dim, 3.0, 1.5)
    return H.CiarletGeymonat(dim, K1=2.0, K2=1.0, K=50.0)


def check_hyper(case, rec):
    r = case["recipe"]
    dim = gm.dim_of(r["elemType"])
    mesh = gm.build(r)
    if mesh.Nn > 80:
        raise Inconclusive("mesh too large for a Newton solve in the quick oracle")
    types = gm.mesh_types(mesh)
    iso = case["iso"]
    Q, fmap = iso_matrix(iso)
    sig = dict(elemType=r["elemType"], types=types, law=case["law"], dim=dim, iso=iso["kind"])
    rec.label("hyper:" + case["law"], "types:" + types, "iso:" + iso["kind"], "active_stress" if case.get("active") else "passive")
    mesh2 = move_mesh(mesh, iso)
    X = np.asarray(mesh.coord, float)
    ang = case["dirang"] * np.pi / 6
    dirvec = np.array([np.cos(ang), np.sin(ang), 0.3 if dim == 3 else 0.0])
    sets = patches(mesh, dirvec)
    cf = X[sets[0]] - X[sets[0]].mean(axis=0)
    sv = np.linalg.svd(cf, compute_uv=False) if sets[0].size >= 2 else np.zeros(3)
    if sv[dim - 2] < 0.1 * np.ptp(X, axis=0).max():
        raise Inconclusive("clamped patch does not restrain the rigid modes robustly")
    unk = ["x", "y", "z"][:dim]

    def solve(m, Qm):
        try:
            mat = _hyper_law(case["law"], dim, Qm, case.get("fib", [1, 2, 1]))
        except TypeError:
            raise Inconclusive("law constructor signature differs")
        act = case.get("active")
        if act:
            groups = gm.main_groups(m)
            if len(groups) != 1:
                raise Inconclusive("fibre field given per Gauss point of a single element group")
            a = act["ang"] * np.pi / 6 + 0.2
            t0 = np.array([np.cos(a), np.sin(a), 0.4 if dim == 3 else 0.0])
            t = Qm @ t0
            nPg = groups[0].Get_gauss(MatrixType.rigi).nPg
            mat.Set_active_stress_vec(FeArray.asfearray(np.tile(t, (groups[0].Ne, nPg, 1))))  # as the callers in the repository do
            mat.active_stress = float(act["tau"])
        simu = Simulations.HyperElastic(m, mat)
        Qd = Qm[:dim, :dim]
        simu.add_dirichlet(sets[0], [float(v) for v in Qd @ np.array(case["ud"], float)], unk)
        simu.add_surfLoad(sets[1], [float(v) for v in Qd @ np.array(case["trac"], float)], unk)
        simu.add_volumeLoad(gm.used_nodes(m), [float(v) for v in Qd @ np.array(case["body"], float)], unk)
        try:
            u = np.asarray(simu.Solve(), float).reshape(m.Nn, dim)
        except Exception as e:
            if "converge" in str(e).lower() or "det(F)" in str(e):
                raise Inconclusive("Newton did not converge")
            raise
        return u

    u1 = solve(mesh, np.eye(3))
    u2 = solve(mesh2, Q)
    used = gm.used_nodes(mesh)
    rec.close((u2 - u1 @ Q[:dim, :dim].T)[used], np.abs(u1).max() + 1e-6, 1e-6, "u_rotated_hyperelastic",
              f"{case['law']} {types} {iso['kind']} theta={iso['theta']}: u' != Q u", **sig)
    rec.nontrivial(nontrivial_iso(iso) and (bool(case.get("active")) or any(abs(v) > 0 for k in ("ud", "trac", "body") for v in case[k])))


SUBS.append(Sub("hyperelastic", check_hyper, gen=hyper_cases, quick=60, thorough=400, shards=6))


# ------------------------------------------------------------------------------------------
# (added by the lead, round 9) members in other length units (1e-3 ... 1e5, sections and loads scaled with them) at a generic
# inclination: same response in the member's own axes as the member laid along x - the elements of a member are found through
# the geometric line they were meshed on, whatever the size of the coordinates


def enum_beam_units(tier):
    for dim in (2, 3):
        for et in ("SEG2", "SEG3"):
            for timo in (False, True):
                for L in (1e-3, 1.0, 1e3, 1e5):
                    yield dict(dim=dim, elemType=et, timoshenko=timo, L=L)


def check_beam_units(case, rec):
    L = float(case["L"])
    dim = case["dim"]
    a = np.deg2rad(33.7)
    d = np.array([np.cos(a), np.sin(a), 0.0]) * L if dim == 2 else np.array([0.48, 0.6, 0.64]) * L
    spec = dict(dim=dim, elemType=case["elemType"], p1=[0.2 * L, -0.1 * L, 0.0 if dim == 2 else 0.3 * L], d=[float(x) for x in d], ne=4,
                b=0.04 * L, h=0.03 * L, E=90.0, v=0.2, timoshenko=bool(case["timoshenko"]), yAxis=None, grade=0.0)
    kind = "timo" if spec["timoshenko"] else "eb"
    sig = dict(elemType=spec["elemType"], dim=dim, kind=kind, L=L)
    rec.label(f"beam_units:{kind}:{dim}d", f"L:{L:g}")
    F = [0.01 * L * L, -0.02 * L * L, 0.015 * L * L if dim == 3 else 0.0]  # forces ~ E x area: strains of the order of 1e-2 / E
    Mo = [0.0, 0.0, 0.0]
    # every element of the member carries its tag (else it has no stiffness)
    simu, mesh, beam, _ = gb.build_member(spec)
    g = mesh.Get_list_groupElem(1)[0]
    rec.require(len(g.Get_Elements_Tag(beam.name)) == g.Ne, "member_elements_tagged",
                f"{kind} {dim}D member of length {L:g}: {len(g.Get_Elements_Tag(beam.name))} of its {g.Ne} elements carry the member's tag", **sig)
    ul, rl, _ = _tip_response(spec, F, Mo)
    ref = dict(spec)
    ref.update(p1=[0.0, 0.0, 0.0], d=[L, 0.0, 0.0])
    ul0, rl0, _ = _tip_response(ref, F, Mo)
    scale_u = max(float(np.abs(ul0).max()), float(np.abs(rl0).max()) * L) + 1e-300
    rec.close(ul - ul0, scale_u, 1e-7, "beam_units_own_axes_u", f"{kind} {dim}D L={L:g}: tip translation in own axes {ul} vs member along x {ul0}", **sig)
    rec.close(rl - rl0, scale_u / L, 1e-7, "beam_units_own_axes_r", f"{kind} {dim}D L={L:g}: tip rotation in own axes {rl} vs {rl0}", **sig)
    rec.nontrivial(True)


SUBS.append(Sub("beam_units", check_beam_units, enum=enum_beam_units,
                doc="dimension x element type x beam theory x member length 1e-3 .. 1e5 at a generic inclination"))
