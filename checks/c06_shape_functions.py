"""C06 - shape functions interpolate; derivative tables are the true derivatives; Hermite beam functions.

Sub-checks
  tables   (exhaustive) every (type, derivative order 1-4, basis function): the table lambdas are run on an
           exact polynomial ring (vlib/c06_poly.py); oracle = formal derivative of the lower-order table.
  span     (exhaustive) in the same ring: sum_i N_i(x) m(x_i) == m(x) as polynomials for every monomial of
           the element's space (m = 1 is the partition of unity), i.e. at every point.
  nodes    (exhaustive) Kronecker property at Get_Local_Coords for all pairs; Hermite value/slope conditions.
  gauss    (exhaustive) Get_N_pg ... Get_ddddN_pg / Get_Hermitian_*_pg == the tabulated polynomials at the
           rule's points (the evaluation layer of the tables).
  points   (generated) points inside / on the boundary / slightly outside the reference element, evaluated
           through _Eval_Functions: sum N = 1, sum d^kN = 0, monomial reproduction, complex-step derivative
           of table k-1 vs table k (second derivative oracle, independent of the ring).
  hermite_phys (generated) straight equispaced Euler-Bernoulli elements in 1D/2D/3D: Get_Hermitian_N_e_pg /
           dN / ddN / dddN _e_pg reproduce value, slope, 2nd and 3rd derivative of any cubic from its nodal
           values and nodal slopes (unit physical slope <=> reference slope 1/2).
"""

from functools import lru_cache

import numpy as np
from hypothesis import strategies as st

from EasyFEA import ElemType, MatrixType
from EasyFEA.FEM._gauss import Gauss
from EasyFEA.FEM._group_elem import GroupElemFactory, _GroupElem
from EasyFEA.FEM.Elems import _beam

from vlib import oracles as orc
from vlib.c06_poly import Poly
from vlib.runner import Sub

PROPERTY = "C06"
RULE = (
    "tables/span/nodes/gauss: complete enumeration of the 19 Lagrange types and 4 Hermite families x derivative "
    "order x basis function (x monomial of the element space, x quadrature rule); a table case is non-trivial "
    "when the lower-order polynomial is not constant in some direction, a span case when the monomial has "
    "degree>=1. points: Hypothesis draws a type and 1-3 points on a 1/16 grid (inside, on a face/edge, up to "
    "1/8 outside the reference element); non-trivial = at least one point is not a node. hermite_phys: "
    "Hypothesis draws order, origin, direction, 1-3 element lengths and an integer cubic; non-trivial = cubic "
    "of degree>=2. distinct = sha1 of the serialised case."
    ' beam_interpolation: generated Euler-Bernoulli members (2D/3D, inclined, graded), Get_beam_N_e_pg applied to the nodal values and slopes of cubic v, w and linear u, rx (non-trivial = a quadratic or cubic term).'
)
ASSUMPTIONS = [
    "the exact rational polynomial ring of vlib/c06_poly.py (+,-,*,/scalar,int powers, formal derivative) is the trusted base",
    "element order / space per type transcribed in the harness: P_k for SEG/TRI/TETRA, Q_k for QUAD4/9 and HEXA8/27, "
    "P_k(tri) x P_k(axis) for PRISM6/18, the serendipity types QUAD8/HEXA20/PRISM15 are held to P_2 only",
    "tables hold pure derivatives (d^k/dxi_d^k per direction d), as documented in _group_elem.py",
    "psi functions are scaled by the element length in Get_Hermitian_*_e_pg, so unit physical slope is reference "
    "slope 1/2; physical beam elements generated are straight and equispaced (constant Jacobian)",
    "float constants of the tables are accepted within 1e-12 x max|coefficient| (decimal constants of EULER_BERNOULLI4)",
]

TOL = 1e-12

# ------------------------------------------------------------------------------------------
# harness-side description of the element families (not read from EasyFEA)

LAGRANGE = ["SEG2", "SEG3", "SEG4", "SEG5", "TRI3", "TRI6", "TRI10", "TRI15", "QUAD4", "QUAD8", "QUAD9",
            "TETRA4", "TETRA10", "HEXA8", "HEXA20", "HEXA27", "PRISM6", "PRISM15", "PRISM18"]
HERMITE = ["SEG2", "SEG3", "SEG4", "SEG5"]
NPE = dict(SEG2=2, SEG3=3, SEG4=4, SEG5=5, TRI3=3, TRI6=6, TRI10=10, TRI15=15, QUAD4=4, QUAD8=8, QUAD9=9,
           TETRA4=4, TETRA10=10, HEXA8=8, HEXA20=20, HEXA27=27, PRISM6=6, PRISM15=15, PRISM18=18)
ORDER = dict(SEG2=1, SEG3=2, SEG4=3, SEG5=4, TRI3=1, TRI6=2, TRI10=3, TRI15=4, QUAD4=1, QUAD8=2, QUAD9=2,
             TETRA4=1, TETRA10=2, HEXA8=1, HEXA20=2, HEXA27=2, PRISM6=1, PRISM15=2, PRISM18=2)
DIM = dict(SEG=1, TRI=2, QUAD=2, TETRA=3, HEXA=3, PRISM=3)
SERENDIPITY = ("QUAD8", "HEXA20", "PRISM15")
# gmsh reference abscissae of SEGn nodes (end nodes first), used to place physical beam nodes
SEG_REF = {2: [-1.0, 1.0], 3: [-1.0, 1.0, 0.0], 4: [-1.0, 1.0, -1 / 3, 1 / 3], 5: [-1.0, 1.0, -0.5, 0.0, 0.5]}


def dim_of(et: str) -> int:
    return DIM[orc.shape_of(et)]


def space(et: str):
    """monomial exponents the element must reproduce; [(exps, 'Pk'|'tensor')]"""
    shape, k, dim = orc.shape_of(et), ORDER[et], dim_of(et)
    pk = orc.monomials(dim, k)
    out = [(e, "Pk") for e in pk]
    if et in SERENDIPITY or shape in ("SEG", "TRI", "TETRA"):
        return out
    if shape in ("QUAD", "HEXA"):
        full = [e for e in orc.monomials(dim, k * dim) if max(e) <= k]
    else:  # PRISM: P_k in (r,s) x P_k in t
        full = [e for e in orc.monomials(3, 2 * k) if e[0] + e[1] <= k and e[2] <= k]
    return out + [(e, "tensor") for e in full if sum(e) > k]


# ------------------------------------------------------------------------------------------
# objects under test (cached per process; pure functions of the tree)


@lru_cache(maxsize=None)
def ref_group(et: str, hermite: bool = False):
    """the reference element itself as single physical element"""
    etype = ElemType(et)
    gid, nPe, dim = GroupElemFactory.DICT_ELEMTYPE[etype][:3]
    conn = np.arange(nPe)[None, :]
    g0 = GroupElemFactory.Create(etype, conn, np.zeros((nPe, 3)))
    lc = np.asarray(g0.Get_Local_Coords(), float)
    co = np.zeros((nPe, 3))
    if lc.shape == (nPe, dim):
        co[:, :dim] = lc
    if hermite:
        return _beam.BEAM_CLASS_MAP[etype](gid, conn, co)
    return GroupElemFactory.Create(etype, conn, co)


def raw_tables(g, hermite: bool):
    if hermite:
        return [g._Hermitian_N(), g._Hermitian_dN(), g._Hermitian_ddN(), g._Hermitian_dddN()]
    return [g._N(), g._dN(), g._ddN(), g._dddN(), g._ddddN()]


@lru_cache(maxsize=None)
def tables(et: str, hermite: bool = False):
    """(lambda tables as object arrays, their shapes, exact polynomials P[k][i][d])"""
    g = ref_group(et, hermite)
    dim = dim_of(et)
    X = Poly.variables(dim)
    raws = [np.asarray(T, dtype=object) for T in raw_tables(g, hermite)]
    raws = [T.reshape(T.shape[0], -1) if T.ndim >= 1 and T.size else T for T in raws]
    polys = [[[Poly.lift(dim, f(*X)) for f in row] for row in T] for T in raws]
    return raws, [T.shape for T in raws], polys


class FPoly:
    """float image of a Poly for vectorised evaluation at many points"""

    def __init__(self, p: Poly):
        items = sorted(p.c.items())
        self.e = np.array([e for e, _ in items], dtype=int).reshape(len(items), p.nvar)
        self.c = np.array([float(v) for _, v in items], dtype=float)
        self.l1 = float(np.abs(self.c).sum())
        self.deg = int(self.e.sum(1).max()) if len(items) else 0

    def __call__(self, pts):
        pts = np.atleast_2d(np.asarray(pts, float))
        if self.c.size == 0:
            return np.zeros(pts.shape[0])
        return np.prod(pts[:, None, :] ** self.e[None, :, :], axis=2) @ self.c

    def absval(self, pts):
        pts = np.abs(np.atleast_2d(np.asarray(pts, float)))
        if self.c.size == 0:
            return np.zeros(pts.shape[0])
        return np.prod(pts[:, None, :] ** self.e[None, :, :], axis=2) @ np.abs(self.c)


@lru_cache(maxsize=None)
def ftables(et: str, hermite: bool = False):
    _, _, polys = tables(et, hermite)
    return [[[FPoly(p) for p in row] for row in T] for T in polys]


def close_lazy(rec, err, scale, tol, oracle, msgfn, **sig):
    """rec.close with a message that is only built when the comparison fails"""
    e = float(np.max(np.abs(err))) if np.size(err) else 0.0
    ok = np.isfinite(e) and e <= tol * float(scale)
    return rec.close(err, scale, tol, oracle, "" if ok else msgfn(), **sig)


def n_funcs(et, hermite):
    return NPE[et] * (2 if hermite else 1)


def fam(hermite):
    return "hermite" if hermite else "lagrange"


def tname(et, hermite):
    return ("EULER_BERNOULLI" + et[3:]) if hermite else et


def check_shapes(rec, et, hermite, sig):
    """table shapes: (nPe, 1) for N, (nPe, dim) for derivatives; Hermite (2 nPe, 1)"""
    g = ref_group(et, hermite)
    _, shapes, _ = tables(et, hermite)
    dim = dim_of(et)
    rec.require(g.nPe == NPE[et] and g.dim == dim and g.order == ORDER[et], "elem_infos",
                f"{et}: nPe/dim/order = {g.nPe}/{g.dim}/{g.order}", **sig)
    nf = n_funcs(et, hermite)
    for k, shp in enumerate(shapes):
        exp = (nf, 1) if (k == 0 or hermite) else (nf, dim)
        rec.require(tuple(shp) == exp, "table_shape", f"{tname(et, hermite)} order {k}: shape {shp}, expected {exp}",
                    **sig)


# ------------------------------------------------------------------------------------------
# 1. tables: derivative tables == formal derivatives, as polynomials (exhaustive)


def enum_tables(tier):
    for et in LAGRANGE:
        for k in range(1, 5):
            for i in range(NPE[et]):
                yield dict(family="lagrange", elemType=et, order=k, i=i)
    for et in HERMITE:
        for k in range(1, 4):
            for i in range(2 * NPE[et]):
                yield dict(family="hermite", elemType=et, order=k, i=i)


def check_tables(case, rec):
    et, k, i = case["elemType"], int(case["order"]), int(case["i"])
    hermite = case["family"] == "hermite"
    name = tname(et, hermite)
    sig = dict(elemType=name, order=k)
    rec.label(f"table:{name}:d{k}")
    check_shapes(rec, et, hermite, sig)
    _, _, P = tables(et, hermite)
    dim = dim_of(et)
    nt = False
    for d in range(dim):
        low = P[k - 1][i][0 if k == 1 else d]
        tab = P[k][i][d]
        exact = low.deriv(d)
        scale = max(low.max_abs(), tab.max_abs())
        close_lazy(rec, exact.dist(tab), scale, TOL, "derivative_table",
                   lambda: f"{name}: table of order {k}, function {i}, direction {d} is not the derivative of the "
                           f"order-{k - 1} table: tabulated {tab!r} vs d/dx{d} {low!r} = {exact!r};", **sig)
        nt = nt or not low.is_constant()
    rec.nontrivial(nt)


# ------------------------------------------------------------------------------------------
# 2. span: partition of unity and polynomial reproduction as polynomial identities (exhaustive)


def enum_span(tier):
    for et in LAGRANGE:
        for e, kind in space(et):
            yield dict(elemType=et, mono=list(e), kind=kind)


def local_coords(et, hermite=False):
    return np.asarray(ref_group(et, hermite).Get_Local_Coords(), float)


def check_span(case, rec):
    et, e, kind = case["elemType"], tuple(case["mono"]), case["kind"]
    sig = dict(elemType=et, space=kind)
    rec.label(f"span:{et}", f"space:{kind}")
    check_shapes(rec, et, False, sig)
    _, _, P = tables(et, False)
    dim = dim_of(et)
    lc = local_coords(et)
    rec.require(lc.shape == (NPE[et], dim), "local_coords_shape", f"{et}: Get_Local_Coords {lc.shape}", **sig)
    m = Poly.monomial(e)
    tot = Poly.const(dim, 0)
    scale = 1.0
    for i in range(NPE[et]):
        mi = m(*[float(v) for v in lc[i]])  # exact value of the monomial at the (float) node
        tot = tot + P[0][i][0] * mi
        scale = max(scale, P[0][i][0].max_abs() * abs(float(mi)))
    oracle = "partition_of_unity" if sum(e) == 0 else ("reproduce_Pk" if kind == "Pk" else "reproduce_tensor")
    close_lazy(rec, tot.dist(m), scale, TOL, oracle,
               lambda: f"{et}: sum_i N_i(x) m(x_i) != m(x) for m = x^{list(e)}: difference {(tot - m)!r};", **sig)
    rec.nontrivial(sum(e) >= 1)


# ------------------------------------------------------------------------------------------
# 3. nodes: Kronecker property at Get_Local_Coords; Hermite value / slope conditions (exhaustive)


def enum_nodes(tier):
    for et in LAGRANGE:
        yield dict(family="lagrange", elemType=et)
    for et in HERMITE:
        yield dict(family="hermite", elemType=et)


def check_nodes(case, rec):
    et = case["elemType"]
    hermite = case["family"] == "hermite"
    name = tname(et, hermite)
    sig = dict(elemType=name)
    rec.label(f"nodes:{name}")
    check_shapes(rec, et, hermite, sig)
    g = ref_group(et, hermite)
    raws, _, P = tables(et, hermite)
    F = ftables(et, hermite)
    dim, nPe = dim_of(et), NPE[et]
    lc = local_coords(et, hermite)
    rec.require(lc.shape == (nPe, dim), "local_coords_shape", f"{name}: Get_Local_Coords {lc.shape}", **sig)
    eye = np.eye(nPe)
    # Lagrange functions (the Hermite classes inherit them for the axial field), through the real evaluator
    N = np.asarray(_GroupElem._Eval_Functions(g._N(), lc), float)  # (point j, 1, function i)
    rec.require(N.shape == (nPe, 1, nPe), "eval_shape", f"{name}: _Eval_Functions(N) {N.shape}", **sig)
    Pl = tables(et, False)[2] if hermite else P
    scale = max(1.0, max(p[0].max_abs() for p in Pl[0]))
    bad = np.abs(N[:, 0, :] - eye)
    j, i = np.unravel_index(np.argmax(bad), bad.shape)
    rec.close(bad, scale, TOL, "kronecker", f"{name}: N_{i}(x_{j}) = {N[j, 0, i]!r}, expected {eye[j, i]};", **sig)
    # every table evaluated at the nodes *as Get_Local_Coords returns them* (an integer array for the types whose nodes sit on
    # -1 / 0 / 1) against the same evaluation at float points: the evaluator must not inherit the dtype of its points
    lc_raw = np.asarray(g.Get_Local_Coords())
    rec.label("local_coords_dtype:" + str(lc_raw.dtype))
    for k, T in enumerate(raw_tables(g, hermite)):
        T = np.asarray(T, dtype=object)
        if T.size == 0:
            continue
        v_raw = np.asarray(_GroupElem._Eval_Functions(T, lc_raw))
        v_flt = np.asarray(_GroupElem._Eval_Functions(T, lc_raw.astype(float)), float)
        sc = max(1.0, float(np.abs(v_flt).max()))
        rec.close(np.asarray(v_raw, float) - v_flt, sc, TOL, "evaluator_point_dtype",
                  f"{name}: table of order {k} evaluated at Get_Local_Coords() (dtype {lc_raw.dtype}) differs from its evaluation at "
                  "the same points given as floats;", **sig)
    # same thing on the exact polynomials (separates table content from the evaluator)
    Nex = np.array([[float(Pl[0][i][0](*[float(v) for v in lc[j]])) for i in range(nPe)] for j in range(nPe)])
    bad = np.abs(Nex - eye)
    j, i = np.unravel_index(np.argmax(bad), bad.shape)
    rec.close(bad, scale, TOL, "kronecker_poly", f"{name}: polynomial N_{i}(x_{j}) = {Nex[j, i]!r};", **sig)
    if hermite:
        H = np.asarray(_GroupElem._Eval_Functions(raws[0], lc), float)[:, 0, :]  # (node j, function)
        dH = np.asarray(_GroupElem._Eval_Functions(raws[1], lc), float)[:, 0, :]
        rec.require(H.shape == (nPe, 2 * nPe), "eval_shape", f"{name}: Hermitian N evaluated {H.shape}", **sig)
        s0 = max(1.0, max(f[0].l1 for f in F[0]))
        s1 = max(1.0, max(f[0].l1 for f in F[1]))
        phi, psi, dphi, dpsi = H[:, 0::2], H[:, 1::2], dH[:, 0::2], dH[:, 1::2]
        rec.close(phi - eye, s0, TOL, "hermite_phi_value", f"{name}: phi_i(x_j) != delta_ij\n{phi}", **sig)
        rec.close(psi, s0, TOL, "hermite_psi_value", f"{name}: psi_i(x_j) != 0\n{psi}", **sig)
        rec.close(dphi, s1, TOL, "hermite_phi_slope", f"{name}: phi_i'(x_j) != 0\n{dphi}", **sig)
        rec.close(dpsi - eye / 2, s1, TOL, "hermite_psi_slope",
                  f"{name}: psi_i'(x_j) != delta_ij/2 (unit physical slope after the L_e scaling)\n{dpsi}", **sig)
    rec.nontrivial(True)


# ------------------------------------------------------------------------------------------
# 4. gauss: the public evaluations at integration points are the tabulated polynomials (exhaustive)


def enum_gauss(tier):
    for et in LAGRANGE:
        mts = ["rigi", "mass", "beam", "beam_shear"] if et.startswith("SEG") else ["rigi", "mass"]
        for mt in mts:
            yield dict(family="lagrange", elemType=et, matrixType=mt)
    for et in HERMITE:
        yield dict(family="hermite", elemType=et, matrixType="beam")


def check_gauss(case, rec):
    et, mt = case["elemType"], MatrixType(case["matrixType"])
    hermite = case["family"] == "hermite"
    name = tname(et, hermite)
    sig = dict(elemType=name, matrixType=str(mt))
    rec.label(f"gauss:{name}:{mt}")
    check_shapes(rec, et, hermite, sig)
    g = ref_group(et, hermite)
    F = ftables(et, hermite)
    dim = dim_of(et)
    pts = np.asarray(Gauss(ElemType(et), mt).coord, float)
    nPg = pts.shape[0]
    if hermite:
        got = [g.Get_Hermitian_N_pg(), g.Get_Hermitian_dN_pg(), g.Get_Hermitian_ddN_pg(), g.Get_Hermitian_dddN_pg()]
    else:
        got = [g.Get_N_pg(mt), g.Get_dN_pg(mt), g.Get_ddN_pg(mt), g.Get_dddN_pg(mt), g.Get_ddddN_pg(mt)]
    nf = n_funcs(et, hermite)
    for k, A in enumerate(got):
        nd = 1 if (k == 0 or hermite) else dim
        rec.require(isinstance(A, np.ndarray) and A.shape == (nPg, nd, nf), "gauss_eval_shape",
                    f"{name} order {k}: {getattr(A, 'shape', None)} expected {(nPg, nd, nf)}", **sig)
        A = np.asarray(A, float)
        exp = np.zeros_like(A)
        scale = 1.0
        for i in range(nf):
            for d in range(nd):
                exp[:, d, i] = F[k][i][d](pts)
                scale = max(scale, float(F[k][i][d].absval(pts).max()))
        rec.close(A - exp, scale, TOL, "gauss_eval", f"{name}: evaluation of order {k} at the {mt} points differs "
                  f"from the tabulated polynomials;", order=k, **sig)
    rec.nontrivial(True)


# ------------------------------------------------------------------------------------------
# 5. points: generated points, float evaluation path, complex step

DEN = 16


@st.composite
def cube_coord(draw, kind):
    if kind == "out":
        return draw(st.sampled_from([-18, -17, 17, 18]))
    if kind == "bd":
        return draw(st.sampled_from([-DEN, DEN]))
    return draw(st.integers(-DEN, DEN))


@st.composite
def cube_point(draw, n, kind):
    p = [draw(st.integers(-DEN, DEN) if kind != "out" else st.integers(-18, 18)) for _ in range(n)]
    if kind in ("bd", "out"):
        p[draw(st.integers(0, n - 1))] = draw(cube_coord(kind))
    return p


@st.composite
def simplex_point(draw, n, kind):
    """n coordinates on the 1/16 grid of the unit simplex (barycentric integers summing to 16)"""
    rest = DEN
    p = []
    for _ in range(n):
        a = draw(st.integers(0, rest))
        p.append(a)
        rest -= a
    if kind == "bd":
        f = draw(st.integers(0, n))
        if f < n:
            p[f] = 0
        else:  # oblique face: sum = 16
            p[draw(st.integers(0, n - 1))] += rest
    elif kind == "out":
        f = draw(st.integers(0, n))
        s = draw(st.integers(1, 2))
        if f < n:
            p[f] = -s
        else:
            p[draw(st.integers(0, n - 1))] += rest + s
    return p


@st.composite
def ref_point(draw, shape):
    kind = draw(st.sampled_from(["in", "in", "bd", "bd", "out"]))
    if shape == "SEG":
        return draw(cube_point(1, kind))
    if shape == "QUAD":
        return draw(cube_point(2, kind))
    if shape == "HEXA":
        return draw(cube_point(3, kind))
    if shape == "TRI":
        return draw(simplex_point(2, kind))
    if shape == "TETRA":
        return draw(simplex_point(3, kind))
    # PRISM: the excursion goes either in the triangle or along the axis
    if kind == "in" or draw(st.booleans()):
        return draw(simplex_point(2, kind)) + draw(cube_point(1, "in"))
    return draw(simplex_point(2, "in")) + draw(cube_point(1, kind))


TYPES23 = [("lagrange", et) for et in LAGRANGE] + [("hermite", et) for et in HERMITE]


@st.composite
def point_cases(draw):
    family, et = draw(st.sampled_from(TYPES23))
    shape = orc.shape_of(et)
    pts = draw(st.lists(ref_point(shape), min_size=1, max_size=3))
    return dict(family=family, elemType=et, pts=pts, den=DEN)


def classify(shape, p):
    """'in' | 'bd' | 'out' of the closed reference element, from the exact grid coordinates"""
    p = np.asarray(p, float)
    if shape in ("SEG", "QUAD", "HEXA"):
        m = np.abs(p).max()
        return "out" if m > 1 else "bd" if m == 1 else "in"
    if shape in ("TRI", "TETRA"):
        b = np.append(p, 1 - p.sum())
        return "out" if b.min() < 0 else "bd" if b.min() == 0 else "in"
    b = np.append(p[:2], 1 - p[:2].sum())
    if b.min() < 0 or abs(p[2]) > 1:
        return "out"
    return "bd" if (b.min() == 0 or abs(p[2]) == 1) else "in"


def complex_step(raw, i, d, x, dvar, h=1e-30):
    z = [complex(v) for v in x]
    z[dvar] = complex(x[dvar], h)
    val = raw[i][d](*z)
    return complex(val).imag / h


def check_points(case, rec):
    et = case["elemType"]
    hermite = case["family"] == "hermite"
    name = tname(et, hermite)
    shape = orc.shape_of(et)
    sig = dict(elemType=name)
    rec.label(f"points:{name}")
    check_shapes(rec, et, hermite, sig)
    raws, _, P = tables(et, hermite)
    F = ftables(et, hermite)
    dim, nf = dim_of(et), n_funcs(et, hermite)
    pts = np.asarray(case["pts"], float) / float(case["den"])
    pts = pts.reshape(-1, dim)
    lc = local_coords(et, hermite)
    at_node = [bool((np.abs(lc - p[None, :]).max(axis=1) < 1e-12).any()) for p in pts]
    for p, nd in zip(pts, at_node):
        rec.label("pt:" + ("node" if nd else classify(shape, p)))
    xmax = max(1.0, float(np.abs(pts).max()))
    # float evaluation of every table through the real evaluator: T[k] (point, direction, function)
    T = [np.asarray(_GroupElem._Eval_Functions(R, pts), float) for R in raws]
    for k, A in enumerate(T):
        ndir = 1 if (k == 0 or hermite) else dim
        rec.require(A.shape == (pts.shape[0], ndir, nf), "eval_shape",
                    f"{name} order {k}: _Eval_Functions gave {A.shape}", **sig)
    nK = len(T) - 1

    def mag(k):  # natural magnitude of the values of table k near the element
        return max(1.0, max(f.l1 * xmax**f.deg for row in F[k] for f in row))

    if not hermite:
        N = T[0][:, 0, :]
        rec.close(N.sum(1) - 1.0, max(1.0, np.abs(N).sum(1).max()), TOL, "partition_of_unity",
                  f"{et}: sum_i N_i(x) != 1 at {pts.tolist()}: {N.sum(1)};", **sig)
        for k in range(1, nK + 1):
            S = T[k].sum(2)
            rec.close(S, max(1.0, np.abs(T[k]).sum(2).max()), TOL, "sum_derivatives_zero",
                      f"{et}: sum_i d^{k}N_i(x) != 0 at {pts.tolist()}: {S.tolist()};", order=k, **sig)
        for e, kind in space(et):
            if sum(e) == 0:
                continue
            ea = np.array(e)[None, :]
            mn = np.prod(lc**ea, axis=1)  # monomial at the nodes
            mx = np.prod(pts**ea, axis=1)
            rec.close(N @ mn - mx, max(1.0, (np.abs(N) @ np.abs(mn)).max()), TOL,
                      "reproduce_Pk" if kind == "Pk" else "reproduce_tensor",
                      f"{et}: sum_i N_i(x) m(x_i) != m(x) for m = x^{list(e)} at {pts.tolist()};", space=kind, **sig)
    # complex-step derivative of table k-1 against table k
    for k in range(1, nK + 1):
        sc = max(mag(k), mag(k - 1))
        cs = np.zeros_like(T[k])
        for ip, x in enumerate(pts):
            for i in range(nf):
                for d in range(T[k].shape[1]):
                    cs[ip, d, i] = complex_step(raws[k - 1], i, 0 if (k == 1 or hermite) else d, list(x), d)
        bad = np.abs(cs - T[k])
        ip, d, i = np.unravel_index(np.argmax(bad), bad.shape)
        rec.close(bad, sc, TOL, "complex_step",
                  f"{name}: order-{k} table, function {i}, direction {d} at {pts[ip].tolist()}: tabulated "
                  f"{T[k][ip, d, i]!r} vs complex-step derivative of the order-{k - 1} table {cs[ip, d, i]!r};",
                  order=k, **sig)
    rec.nontrivial(not all(at_node))


# ------------------------------------------------------------------------------------------
# 6. hermite_phys: physical Euler-Bernoulli elements reproduce value and slope of any cubic


@st.composite
def hermite_cases(draw):
    n = draw(st.integers(2, 5))
    embed = draw(st.sampled_from([1, 2, 3]))
    p1 = [draw(st.integers(-8, 8)) if a < embed else 0 for a in range(3)]
    d = [draw(st.integers(-4, 4)) if a < embed else 0 for a in range(3)]
    if not any(d):
        d[0] = 1
    if d[1] == 0 and d[2] == 0 and p1[1] == 0 and p1[2] == 0:
        d[0] = abs(d[0])  # on the x axis the physical coordinate is x itself: keep the element along +x
    lengths = draw(st.lists(st.integers(1, 8), min_size=1, max_size=3))
    coefs = [draw(st.integers(-3, 3)) for _ in range(4)]
    return dict(n=n, p1=p1, d=d, lengths=lengths, coefs=coefs, den=4)


def build_beam(case):
    n = int(case["n"])
    den = float(case["den"])
    p1 = np.array(case["p1"], float) / den
    d = np.array(case["d"], float)
    t = d / np.linalg.norm(d)
    L = np.array(case["lengths"], float) / den
    s_end = np.concatenate([[0.0], np.cumsum(L)])
    s_nodes, conn = [], []
    for e in range(L.size):
        ids = []
        for j, xi in enumerate(SEG_REF[n]):
            if j == 0 and e > 0:
                ids.append(conn[e - 1][1])  # shared end node
                continue
            s_nodes.append(s_end[e] + L[e] * (xi + 1) / 2)
            ids.append(len(s_nodes) - 1)
        conn.append(ids)
    s_nodes = np.array(s_nodes)
    coord = p1[None, :] + s_nodes[:, None] * t[None, :]
    etype = ElemType(f"SEG{n}")
    gid = GroupElemFactory.DICT_ELEMTYPE[etype][0]
    g = _beam.BEAM_CLASS_MAP[etype](gid, np.array(conn, dtype=int), coord)
    return g, s_nodes, np.array(conn, dtype=int), s_end, L


def check_hermite_phys(case, rec):
    n = int(case["n"])
    name = f"EULER_BERNOULLI{n}"
    sig = dict(elemType=name)
    g, s_nodes, conn, s_end, L = build_beam(case)
    c = np.array(case["coefs"], float)
    deg = int(max([k for k in range(4) if c[k] != 0], default=0))
    co = np.abs(np.asarray(g.coord, float))
    rec.label(f"hermite_phys:{name}", f"embed:{3 if co[:, 2].max() > 0 else 2 if co[:, 1].max() > 0 else 1}",
              f"cubic_deg:{deg}", f"Ne:{conn.shape[0]}")
    ders = [np.polynomial.polynomial.polyder(c, m) if m else c for m in range(4)]
    u = lambda s, m=0: np.polynomial.polynomial.polyval(s, ders[m])  # noqa: E731
    xi = np.asarray(g.Get_gauss(MatrixType.beam).coord, float)[:, 0]
    s_pg = s_end[:-1, None] + L[:, None] * (xi[None, :] + 1) / 2  # (Ne, nPg)
    # dofs per element: [u(x_1), u'(x_1), ..., u(x_n), u'(x_n)]
    dofs = np.empty((conn.shape[0], 2 * n))
    dofs[:, 0::2] = u(s_nodes[conn])
    dofs[:, 1::2] = u(s_nodes[conn], 1)
    got = [g.Get_Hermitian_N_e_pg(), g.Get_Hermitian_dN_e_pg(), g.Get_Hermitian_ddN_e_pg(),
           g.Get_Hermitian_dddN_e_pg()]
    for m, A in enumerate(got):
        A = np.asarray(A, float)
        rec.require(A.shape == (conn.shape[0], xi.size, 1, 2 * n), "hermite_phys_shape",
                    f"{name}: order {m} array {A.shape}", **sig)
        val = np.einsum("epj,ej->ep", A[:, :, 0, :], dofs)
        scale = max(1.0, float(np.einsum("epj,ej->ep", np.abs(A[:, :, 0, :]), np.abs(dofs)).max()))
        rec.close(val - u(s_pg, m), scale, TOL * 10, f"hermite_phys_d{m}",
                  f"{name}: Hermite interpolation of the cubic {c.tolist()} (nodal values and slopes) does not "
                  f"reproduce its derivative of order {m} at the beam Gauss points; lengths {L.tolist()};",
                  order=m, **sig)
    rec.nontrivial(deg >= 2)


# ------------------------------------------------------------------------------------------
# (added by the lead) the Hermite functions as the beam element uses them: the interpolation matrix Get_beam_N_e_pg of an
# Euler-Bernoulli member in 2D / 3D maps nodal values AND nodal slopes (rz = v', ry = -w' in the member's own axes) to the
# fields at the integration points.  Cubic v(s), w(s), linear u(s), rx(s) are reproduced exactly.


@st.composite
def beam_interp_cases(draw):
    from vlib import gen_beam as gb

    spec = draw(gb.member_specs(dims=(2, 3)))
    spec["timoshenko"] = False
    coefs = [[draw(st.integers(-3, 3)) / 2.0 for _ in range(4)] for _ in range(2)]  # v(s), w(s)
    lin = [[draw(st.integers(-3, 3)) / 2.0 for _ in range(2)] for _ in range(2)]  # u(s), rx(s)
    return dict(member=spec, coefs=coefs, lin=lin)


def check_beam_interp(case, rec):
    from vlib import gen_beam as gb
    from vlib import gen_mesh as gm

    spec = case["member"]
    dim = spec["dim"]
    simu, mesh, beam, frame = gb.build_member(spec)
    g = gm.main_groups(mesh)[0]
    name = str(g.elemType)
    sig = dict(elemType=name, dim=dim)
    rec.label("beam_interp:" + name, f"dim:{dim}", "graded" if spec.get("grade") else "uniform")
    p1 = np.array(spec["p1"], float)
    t = frame[0]
    pv = np.polynomial.polynomial
    cv, cw = (np.array(c, float) for c in case["coefs"])
    cu, cr = (np.array(c, float) for c in case["lin"])
    if dim == 2:
        cw, cr = 0 * cw, 0 * cr
    X = np.asarray(mesh.coord, float)
    s_n = (X - p1) @ t
    val = lambda c, s, m=0: pv.polyval(s, pv.polyder(c, m) if m else c)  # noqa: E731
    u_loc = np.column_stack([val(cu, s_n), val(cv, s_n), val(cw, s_n)])
    r_loc = np.column_stack([val(cr, s_n), -val(cw, s_n, 1), val(cv, s_n, 1)])  # rx, ry = -w', rz = v'
    U = gb.local_to_global_dofs(frame, dim, u_loc, r_loc)  # (Nn, dof_n) global dofs
    dof_n = U.shape[1]
    conn = np.asarray(g.connect, int)
    dofs_e = U[conn].reshape(conn.shape[0], -1)
    N = np.asarray(g.Get_beam_N_e_pg(simu.structure), float)
    nrow = 3 if dim == 2 else 6
    rec.require(N.shape[2:] == (nrow, dof_n * conn.shape[1]), "beam_interp_shape", f"{name} {dim}D: N has shape {N.shape}", **sig)
    got = np.einsum("epij,ej->epi", N, dofs_e)
    xg = np.asarray(g.Get_GaussCoordinates_e_pg(MatrixType.beam), float)
    s_g = (xg - p1) @ t
    if dim == 2:
        exact = np.stack([val(cu, s_g), val(cv, s_g), val(cv, s_g, 1)], axis=-1)
        rows = ["u", "v", "rz=v'"]
    else:
        exact = np.stack([val(cu, s_g), val(cv, s_g), val(cw, s_g), val(cr, s_g), -val(cw, s_g, 1), val(cv, s_g, 1)], axis=-1)
        rows = ["u", "v", "w", "rx", "ry=-w'", "rz=v'"]
    scale = max(1.0, float(np.einsum("epij,ej->epi", np.abs(N), np.abs(dofs_e)).max()))
    for i, rname in enumerate(rows):
        rec.close(got[..., i] - exact[..., i], scale, 1e-10, "beam_interpolation",
                  f"{name} {dim}D member d={spec['d']} yAxis={spec.get('yAxis')}: row '{rname}' of Get_beam_N_e_pg applied to the nodal values and "
                  f"slopes of cubic v, w (rz = v', ry = -w') and linear u, rx does not reproduce the field at the integration points", row=rname, **sig)
    rec.nontrivial(bool(np.abs(cv[2:]).max() > 0 or np.abs(cw[2:]).max() > 0))


SUBS = [
    Sub("tables", check_tables, enum=enum_tables, doc="derivative tables vs formal derivatives in an exact ring"),
    Sub("span", check_span, enum=enum_span, doc="partition of unity / reproduction as polynomial identities"),
    Sub("nodes", check_nodes, enum=enum_nodes, doc="Kronecker at Get_Local_Coords; Hermite value/slope"),
    Sub("gauss", check_gauss, enum=enum_gauss, doc="Get_*N_pg == tabulated polynomials at the rule points"),
    Sub("points", check_points, gen=point_cases, quick=1000, thorough=6000, shards=8),
    Sub("hermite_phys", check_hermite_phys, gen=hermite_cases, quick=200, thorough=3000, shards=4),
    Sub("beam_interpolation", check_beam_interp, gen=beam_interp_cases, quick=120, thorough=1500, shards=4),
]

LEVEL_TEXT = ("every derivative table, the partition of unity, the polynomial reproduction and the Kronecker/Hermite nodal "
              "conditions of all 19 Lagrange types and 4 Hermite families are decided as identities between exact rational "
              "polynomials (exhaustive over the finite set of table entries, valid at every point); the float evaluation "
              "path and physical beam elements are explored with Hypothesis-generated points and segments")
LEVEL_NOTE = ("trusts the harness polynomial ring; element spaces transcribed in the harness (serendipity types held to P_2); "
              "table constants accepted within 1e-12 relative; physical Hermite check limited to straight equispaced "
              "elements and cubics; generated sub-checks are exploration")
TECHNIQUE = ("finite-table enumeration on an exact polynomial ring + property-based testing (Hypothesis) vs formal "
             "derivatives, complex-step derivatives and closed-form cubics")
DESIGN_REF = "DESIGN.md 4/C06"
READY = True
