"""C09 - distributed loads are integrated to the correct resultant force and first moment;
point loads split their total; pressure on a planar face = p x area along the normal; beam line loads."""

import numpy as np
from hypothesis import strategies as st

from EasyFEA import ElemType, MatrixType, Models, Simulations
from EasyFEA.FEM import BiLinearForm, Field
from EasyFEA.FEM._gauss import Gauss
from EasyFEA.Geoms import Domain, Line, Point

from vlib import c09_geom as cg
from vlib import gen_beam as gb
from vlib import gen_mesh as gm
from vlib import oracles as orc
from vlib.runner import Inconclusive, Sub

PROPERTY = "C09"
RULE = (
    "line_surface_volume: Hypothesis draws a mesh recipe (segment / polygon / extruded polygon x every element type x "
    "affine image x renumbering x orphan nodes; PRISM meshes with TRI+QUAD boundary and gmsh-mixed QUAD+TRI meshes occur), "
    "a simulation (Elastic, Thermal, WeakForms) with a thickness, a load call (add_lineLoad/add_surfLoad/add_volumeLoad), a "
    "loaded region (one geometric edge / face, every edge / face, or the body) selected by Nodes_Conditions / Nodes_Line / "
    "Nodes_Domain / tags / mesh.nodes, optional polluting nodes that complete no element of the loaded dimension, and per "
    "loaded unknown a constant, a nodal array sampled from a polynomial (degree <= element order) or a polynomial lambda "
    "(degree <= exactness of the mass rule on that geometry minus one for the moment arm). Non-trivial = load of degree >= 1 "
    "or >= 2 loaded elements. point_load: random node sets x constant/array/function values x 1-2 calls. pressure: one planar "
    "edge/face per case plus all faces of the body for the sign convention. beam_lineload: one straight member at any "
    "inclination (2D/3D, SEG2-5, Euler-Bernoulli/Timoshenko) x force or couple densities of degree <= 2. distinct = sha1 of the case."
    ' Round 9: pressure_filled_inclusion enumerates volume type x sense of a filled inclusion x sense of the contour (pressure on the source face and the opposite one).'
)
ASSUMPTIONS = [
    "exact integrals over segments / planar polygons / extruded prisms of the recipe by Gauss-Legendre + Duffy of sufficient "
    "order (vlib/c09_geom.py, gen_mesh.exact_integral), independent of EasyFEA",
    "exactness of the `mass` rule taken from theory: n-point Gauss-Legendre (tensor for QUAD/HEXA, per variable) 2n-1, documented "
    "degree of the triangle/tetrahedron/prism rules (checked by C07); only straight-sided gmsh meshes and affine images",
    "a nodal-array load is the density interpolated by the element shape functions (the sampled polynomial has degree <= element "
    "order, serendipity types <= 1, so the interpolant is the polynomial itself)",
    "2D: add_lineLoad is a force per unit length (no thickness); add_surfLoad / add_volumeLoad / add_pressureLoad are multiplied "
    "by the model thickness",
]
LEVEL_TEXT = ("generated meshes x element type x simulation x region x selection x load form: resultant per unknown and first moment "
              "about a random point of Bc_vector_Neumann() against closed-form integrals over the geometric edge / face / body; "
              "rows of nodes outside the loaded elements exactly zero; point-load split, pressure resultant and beam line loads "
              "(nodal couples included) against closed forms")
LEVEL_NOTE = ("exploration; straight-sided meshes with <= a few hundred nodes; polynomial degree <= 3 and within the exactness of the "
              "mass rule; one member per beam case; sign convention of the pressure is only required to be uniform over a body")
TECHNIQUE = "property-based testing (Hypothesis) vs closed-form integrals over the recipe geometry"
DESIGN_REF = "DESIGN.md 4/C09"
READY = True

TOL = 5e-12  # identity level (x scale of the inputs); largest honest ratio 2.7e-14 over 20800 thorough cases
DEG_CAP = 3

# exactness of the rules (see ASSUMPTIONS); TRI/TETRA total degree, PRISM (triangle, axis)
TRI_DEG = {1: 1, 3: 2, 6: 3, 7: 4, 12: 5, 25: 9}
TET_DEG = {1: 1, 4: 2, 5: 3, 15: 5}
PRI_DEG = {6: (2, 3), 8: (3, 3), 21: (5, 5)}
SERENDIPITY = ("QUAD8", "HEXA20")


def func_degree_bound(elemType: str) -> int:
    """largest total degree d of f such that sum_p wJ f and sum_p wJ f x are exact with the `mass` rule of this type on
    the geometry classes generated here (affine SEG/TRI/TETRA/PRISM; bilinear QUAD; extruded-bilinear HEXA: J of degree 1
    per variable)."""
    shape = orc.shape_of(elemType)
    nPg = Gauss(ElemType(elemType), MatrixType.mass).nPg
    if shape == "SEG":
        return 2 * nPg - 1 - 1
    if shape == "TRI":
        return TRI_DEG[nPg] - 1
    if shape == "TETRA":
        return TET_DEG[nPg] - 1
    if shape == "PRISM":
        return min(PRI_DEG[nPg]) - 1
    n = round(nPg ** (1.0 / (2 if shape == "QUAD" else 3)))
    return 2 * n - 1 - 1 - 1  # moment arm (bilinear map) and Jacobian: one degree each per variable


def order_eff(elemType: str) -> int:
    """degree of the complete polynomial space (in x,y,z) contained in the element space on these geometries"""
    return 1 if elemType in SERENDIPITY else gm.ORDER[elemType]


def poly_coefs(seed: int, deg: int, use_z: bool, use_y: bool = True):
    """small integer coefficients of a polynomial of total degree exactly `deg`"""
    rng = np.random.default_rng(int(seed))
    mons = [e for e in orc.monomials(3, deg) if (use_z or e[2] == 0) and (use_y or e[1] == 0)]
    coefs = {}
    top = [e for e in mons if sum(e) == deg]
    keep = top[int(rng.integers(len(top)))]
    for e in mons:
        c = int(rng.integers(-3, 4))
        if e == keep and c == 0:
            c = 2
        if c != 0 and (e == keep or rng.integers(0, 3) > 0):
            coefs[",".join(map(str, e))] = c
    return coefs


def poly_fn(coefs):
    return lambda x, y, z: orc.poly_eval(coefs, x, y, z) + 0 * x  # noqa


def poly_bound(coefs, rho):
    return float(sum(abs(v) * rho ** sum(int(s) for s in k.split(",")) for k, v in coefs.items()))


# ------------------------------------------------------------------------------------------
# simulations


def make_simu(kind: str, mesh, dim: int, thickness: float, dof_n: int = 1):
    """-> (simu, unknowns, thickness factor used in 2D)"""
    if kind == "weakforms" and len(gm.main_groups(mesh)) != 1:
        kind = "thermal" if (dof_n == 1 or dim == 1) else "elastic"  # a Field lives on one group: mixed meshes fall back
    if kind == "elastic":
        mat = Models.Elastic.Isotropic(dim, E=3.0, v=0.25, planeStress=True, thickness=thickness) if dim == 2 else \
            Models.Elastic.Isotropic(3, E=3.0, v=0.25)
        simu = Simulations.Elastic(mesh, mat)
    elif kind == "thermal":
        simu = Simulations.Thermal(mesh, Models.Thermal(k=1.5, c=1.0, thickness=thickness))
    elif kind == "weakforms":
        field = Field(gm.main_groups(mesh)[0], dof_n)

        @BiLinearForm
        def computeK(u, v):
            return u.grad.ddot(v.grad) if dof_n > 1 else u.grad.dot(v.grad)

        simu = Simulations.WeakForms(mesh, Models.WeakForms(field, computeK, thickness=thickness))
    elif kind == "phasefield":
        # two problems in one simulation: the loads go to the displacement problem, named explicitly (`pt`)
        mat = Models.Elastic.Isotropic(dim, E=3.0, v=0.25, planeStress=False, thickness=thickness)
        simu = Simulations.PhaseField(mesh, Models.PhaseField(mat, "Miehe", "AT2", 1.0, 0.3, "History"))
        simu._verif_pt = simu.ProblemTypes.elastic
    elif kind == "hyperelastic":
        simu = Simulations.HyperElastic(mesh, Models.HyperElastic.NeoHookean(dim, K=2.0, thickness=thickness))
    else:
        raise KeyError(kind)
    pt = getattr(simu, "_verif_pt", None)
    return simu, list(simu.Get_unknowns(pt) if pt is not None else simu.Get_unknowns()), (float(thickness) if dim == 2 else 1.0), kind


def neumann(simu, mesh):
    pt = getattr(simu, "_verif_pt", None)
    if pt is not None:
        return np.asarray(simu.Bc_vector_Neumann(pt), float).reshape(mesh.Nn, simu.Get_dof_n(pt))
    dof_n = simu.Get_dof_n()
    return np.asarray(simu.Bc_vector_Neumann(), float).reshape(mesh.Nn, dof_n)


# ------------------------------------------------------------------------------------------
# (a) line / surface / volume loads


@st.composite
def recipe_any(draw, dims=("1d", "2d", "2d", "2d", "3d", "3d", "3d")):
    k = draw(st.sampled_from(list(dims)))
    if k == "1d":
        r = draw(gm.recipes1d())
    elif k == "2d":
        r = draw(gm.recipes2d())
    else:
        r = draw(gm.recipes3d())
    r["orphans"] = draw(st.integers(0, 2))
    return r


@st.composite
def lsv_cases(draw):
    r = draw(recipe_any())
    dim = gm.dim_of(r["elemType"])
    sim = draw(st.sampled_from(["thermal", "weakforms"] if dim == 1 else ["elastic", "elastic", "thermal", "weakforms", "phasefield", "hyperelastic"]))
    kind = "line" if dim == 1 else draw(st.sampled_from(["line", "surf", "surf", "vol"]))
    loads = []
    for _ in range(draw(st.integers(1, 3))):
        loads.append(dict(comp=draw(st.integers(0, 2)), form=draw(st.sampled_from(["const", "array", "func", "func"])),
                          deg=draw(st.integers(0, DEG_CAP)), seed=draw(st.integers(0, 999)),
                          cst=draw(st.sampled_from([1, -2, 3, 0.5, -1.5, 2.25]))))
    return dict(recipe=r, sim=sim, dof_n=draw(st.integers(1, 3)), thickness=draw(st.sampled_from([1.0, 0.5, 2.5])),
                kind=kind, region=draw(st.one_of(st.none(), st.integers(0, 29))), select=draw(st.integers(0, 5)),
                pollute=draw(st.one_of(st.none(), st.integers(0, 999))), loads=loads,
                O=[draw(st.integers(-4, 4)) / 2.0 for _ in range(3)])


def select_nodes(mesh, region, how: str, sel0):
    """node selection through the public API; `sel0` = the harness' own node set of the region"""
    if how == "all":
        return np.asarray(mesh.nodes, int)
    if how == "cond":
        return np.asarray(mesh.Nodes_Conditions(lambda x, y, z: region.contains(x, y, z)), int)
    if how == "line":
        P, Q = region.pts
        return np.asarray(mesh.Nodes_Line(Line(Point(*P), Point(*Q))), int)
    if how == "domain":
        c = np.asarray(mesh.coord, float)
        lo, hi = c.min(0) - 0.5, c.max(0) + 0.5
        return np.asarray(mesh.Nodes_Domain(Domain(Point(*lo), Point(*hi))), int)
    if how == "tags":
        tag = cg.find_tag(mesh, {"edge": "L", "face": "S"}.get(region.kind, "S" if mesh.dim == 2 else "V"), sel0)
        if tag is None:
            raise Inconclusive("no gmsh tag with exactly the nodes of the region")
        return np.asarray(mesh.Nodes_Tags(tag), int)
    raise KeyError(how)


def polluting_nodes(mesh, ldim, sel0, seed):
    """extra nodes (incl. orphans) that complete no element of dimension ldim together with sel0"""
    rng = np.random.default_rng(int(seed))
    others = np.setdiff1d(np.arange(mesh.Nn), sel0)
    if others.size == 0:
        return np.array([], dtype=int)
    extra = rng.choice(others, size=min(others.size, int(rng.integers(1, 7))), replace=False)
    base = cg.completed_elements(mesh, ldim, sel0)
    for _ in range(10):
        full = cg.completed_elements(mesh, ldim, np.concatenate([sel0, extra]))
        bad = set()
        for g in mesh.Get_list_groupElem(ldim):
            et = str(g.elemType)
            new = np.setdiff1d(full[et], base[et])
            if new.size:
                bad.update(np.asarray(g.connect, int)[new].ravel().tolist())
        if not bad:
            break
        extra = np.array([n for n in extra if n not in bad], dtype=int)
    return extra


def check_lsv(case, rec):
    r = case["recipe"]
    dim = gm.dim_of(r["elemType"])
    mesh = gm.build(r)
    geo = cg.Geometry(r)
    types = gm.mesh_types(mesh)
    simu, unknowns, th, simk = make_simu(case["sim"], mesh, dim, case["thickness"], min(case["dof_n"], max(dim, 1)))
    kind = case["kind"]
    ldim = 1 if kind == "line" else (dim - 1 if kind == "surf" else dim)
    fac = th if (dim == 2 and kind in ("surf", "vol")) else 1.0
    add = dict(line=simu.add_lineLoad, surf=simu.add_surfLoad, vol=simu.add_volumeLoad)[kind]
    if getattr(simu, "_verif_pt", None) is not None:
        add = (lambda f: (lambda nodes_, vals_, names_: f(nodes_, vals_, names_, problemType=simu._verif_pt)))(add)

    # region and selection
    ents = geo.regions(ldim)
    if ldim == dim:
        regions, how_list, rkind = ents, ["all", "cond", "domain", "tags"] if dim > 1 else ["all", "cond", "domain"], "body"
    elif case["region"] is None:
        regions, how_list, rkind = ents, ["all"], "every_" + ents[0].kind
    else:
        regions = [ents[case["region"] % len(ents)]]
        how_list = ["cond", "line", "tags"] if regions[0].kind == "edge" else ["cond", "tags"]
        rkind = regions[0].kind
    how = how_list[case["select"] % len(how_list)]
    if len(regions) == 1:
        sel0 = cg.nodes_in(mesh, regions[0])
        nodes = select_nodes(mesh, regions[0], how, sel0)
    else:
        sel0 = np.unique(np.concatenate([cg.nodes_in(mesh, g) for g in regions]))
        nodes = np.asarray(mesh.nodes, int)
    loaded = cg.completed_elements(mesh, ldim, nodes)
    ltypes = "+".join(sorted(k for k, v in loaded.items() if v.size))
    nel = int(sum(v.size for v in loaded.values()))
    if nel == 0:
        raise Inconclusive("selection completes no element")
    if how not in ("all", "domain") and set(nodes.tolist()) != set(sel0.tolist()):
        # the selection API returned something else than the nodes of the region: C08's business
        raise Inconclusive("node selection differs from the geometric node set")
    polluted = False
    nodes_clean = nodes
    if case["pollute"] is not None and len(regions) == 1 and ldim < dim:
        extra = polluting_nodes(mesh, ldim, sel0, case["pollute"])
        if extra.size:
            polluted = True
            nodes = np.concatenate([nodes, extra])[np.random.default_rng(case["pollute"]).permutation(nodes.size + extra.size)]
    sig0 = dict(kind=kind, sim=simk, dim=dim, loaded=ltypes)
    rec.label("mesh:" + types, "loaded:" + ltypes, f"call:{kind}{dim}d", "sim:" + simk, "select:" + how,
              "region:" + rkind, "polluted" if polluted else "clean", "affine" if r.get("A") else "plain",
              f"thickness:{case['thickness']}" if dim == 2 else "thickness:n/a")

    # loads (degree bounds from the element types actually loaded)
    dmax = min(DEG_CAP, min(func_degree_bound(t) for t in ltypes.split("+")))
    omax = min(order_eff(t) for t in ltypes.split("+"))
    coord = np.asarray(mesh.coord, float)
    use_z, use_y = dim == 3 or (dim == 1), True
    vals, vals_clean, specs, seen = [], [], [], set()
    for ld in case["loads"]:
        comp = ld["comp"] % len(unknowns)
        if comp in seen:
            continue
        seen.add(comp)
        form = ld["form"]
        if form == "const":
            coefs = {"0,0,0": ld["cst"]}
            d = 0
            v = vc = ld["cst"]
        else:
            d = min(ld["deg"], dmax if form == "func" else omax)
            coefs = poly_coefs(ld["seed"], d, use_z, use_y)
            f = poly_fn(coefs)
            if form == "func":
                v = vc = f
            else:
                v = np.asarray(f(coord[nodes, 0], coord[nodes, 1], coord[nodes, 2]), float)
                vc = np.asarray(f(coord[nodes_clean, 0], coord[nodes_clean, 1], coord[nodes_clean, 2]), float)
                if polluted:  # garbage on the polluting nodes: they must not matter
                    v = np.where(np.isin(nodes, sel0), v, 777.0)
        vals.append(v)
        vals_clean.append(vc)
        specs.append(dict(comp=comp, form=form, deg=d, coefs=coefs))
    names = [unknowns[s["comp"]] for s in specs]

    add(nodes, vals, names)
    F = neumann(simu, mesh)
    O = np.array(case["O"], float)
    rho = float(np.abs(coord[sel0]).max()) + 1e-9
    meas = sum(g.measure() for g in regions)
    arm = rho + float(np.abs(O).max())
    outside = np.setdiff1d(np.arange(mesh.Nn), sel0)
    maxdeg = 0
    for s in specs:
        c, form, d = s["comp"], s["form"], s["deg"]
        f = poly_fn(s["coefs"])
        maxdeg = max(maxdeg, d)
        scale = fac * meas * poly_bound(s["coefs"], rho)
        in_space = (form != "array") or d == 0 or (d + 1 <= omax)
        sig = dict(sig0, form=form, array_moment="n/a" if form != "array" else ("xf_in_space" if in_space else "xf_not_in_space"))
        rec.label("form:" + form, f"deg:{d}")
        ex0 = fac * sum(g.integral(f, d) for g in regions)
        rec.close(F[:, c].sum() - ex0, scale, TOL, "resultant",
                  f"{types} {kind}Load on {rkind} [{ltypes}] {form} deg={d} unknown {unknowns[c]}: sum F = {F[:, c].sum()!r}, "
                  f"exact {ex0!r} (thickness factor {fac})", **sig)
        ex1 = np.array([fac * sum(g.integral(lambda x, y, z, k=k: ((x, y, z)[k] - O[k]) * f(x, y, z), d + 1) for g in regions)
                        for k in range(3)])
        ob1 = ((coord - O) * F[:, c][:, None]).sum(0)
        rec.close(ob1 - ex1, scale * arm, TOL, "first_moment",
                  f"{types} {kind}Load on {rkind} [{ltypes}] {form} deg={d} unknown {unknowns[c]}: sum (x_i-O) F_i = {ob1}, "
                  f"exact {ex1}", **sig)
        rec.close(F[outside, c], scale, 1e-15, "unloaded_nodes_zero",
                  f"{types}: nodes outside the loaded {rkind} carry a load (max {np.abs(F[outside, c]).max() if outside.size else 0:.3e})",
                  **sig)
    other = [k for k in range(len(unknowns)) if k not in seen]
    if other:
        rec.require(not np.any(F[:, other]), "other_unknowns_zero", f"{types}: unloaded unknowns carry a load", **sig0)
    if polluted:
        simu.Bc_Init()
        add(nodes_clean, vals_clean, names)
        Fc = neumann(simu, mesh)
        sc = max(fac * meas * poly_bound(s["coefs"], rho) for s in specs)
        rec.close(F - Fc, sc, 1e-14, "pollution_invariant",
                  f"{types} {kind}Load on {rkind} [{ltypes}]: adding nodes that complete no element changes the load vector "
                  f"(max diff {np.abs(F - Fc).max():.3e})", **sig0)
    rec.nontrivial(maxdeg >= 1 or nel >= 2)


# ------------------------------------------------------------------------------------------
# (b) concentrated loads


@st.composite
def point_cases(draw):
    sim = draw(st.sampled_from(["elastic", "elastic", "thermal", "weakforms", "beam"]))
    if sim == "beam":
        geom = draw(gb.member_specs())
    else:
        geom = draw(recipe_any(("1d", "2d", "3d") if sim != "elastic" else ("2d", "3d")))
    calls = []
    for _ in range(draw(st.integers(1, 2))):
        vals = [dict(comp=draw(st.integers(0, 5)), form=draw(st.sampled_from(["const", "const", "array", "func"])),
                     deg=draw(st.integers(0, 2)), seed=draw(st.integers(0, 999)),
                     cst=draw(st.sampled_from([1, -2, 3, 0.5, -1.5, 2.25]))) for _ in range(draw(st.integers(1, 3)))]
        calls.append(dict(nsel=draw(st.integers(1, 7)), seed=draw(st.integers(0, 999)), edge=draw(st.booleans()), vals=vals))
    return dict(sim=sim, geom=geom, dof_n=draw(st.integers(1, 3)), thickness=draw(st.sampled_from([1.0, 0.5, 2.5])), calls=calls)


def check_point(case, rec):
    if case["sim"] == "beam":
        simu, mesh, _, _ = gb.build_member(case["geom"])
        unknowns = list(simu.Get_unknowns())
        dim, geo, types = 1, None, "beam:" + case["geom"]["elemType"]
    else:
        r = case["geom"]
        dim = gm.dim_of(r["elemType"])
        mesh = gm.build(r)
        geo = cg.Geometry(r)
        types = gm.mesh_types(mesh)
        simu, unknowns, _, _ = make_simu(case["sim"], mesh, dim, case["thickness"], min(case["dof_n"], dim))
    coord = np.asarray(mesh.coord, float)
    dof_n = len(unknowns)
    exp = np.zeros((mesh.Nn, dof_n))
    big = 0.0
    nmax = 0
    for call in case["calls"]:
        rng = np.random.default_rng(call["seed"])
        if call["edge"] and geo is not None and geo.edges:
            reg = geo.edges[call["seed"] % len(geo.edges)]
            nodes = np.asarray(mesh.Nodes_Conditions(lambda x, y, z: reg.contains(x, y, z)), int)
            how = "edge"
        else:
            nodes = rng.choice(mesh.Nn, size=min(mesh.Nn, call["nsel"]), replace=False)
            how = "random"
        if nodes.size == 0:
            raise Inconclusive("empty selection")
        vals, names, seen = [], [], set()
        handed = []  # (array object handed to the library, its values at that time): arrays stay the caller's
        for vd in call["vals"]:
            comp = vd["comp"] % dof_n
            if comp in seen:
                continue
            seen.add(comp)
            if vd["form"] == "const":
                v, at_nodes = vd["cst"], np.full(nodes.size, float(vd["cst"]))
            elif vd["form"] == "array" and handed and vd["seed"] % 2 == 0:
                v, at_nodes = handed[-1][0], handed[-1][1].copy()  # the same array object for another unknown
                rec.label("pform:array_shared")
            else:
                f = poly_fn(poly_coefs(vd["seed"], vd["deg"], True))
                at_nodes = np.asarray(f(coord[nodes, 0], coord[nodes, 1], coord[nodes, 2]), float)
                v = f if vd["form"] == "func" else at_nodes.copy()
                if vd["form"] == "array":
                    handed.append((v, at_nodes.copy()))
            vals.append(v)
            names.append(unknowns[comp])
            exp[nodes, comp] += at_nodes / nodes.size
            big = max(big, float(np.abs(at_nodes).max()))
            rec.label("pform:" + vd["form"])
        simu.add_neumann(nodes, vals, names)
        for arr, snap in handed:
            rec.require(np.array_equal(arr, snap), "caller_array_untouched",
                        f"{types} {case['sim']}: add_neumann modified the array of values it was given (max change "
                        f"{float(np.abs(arr - snap).max()):.3e})", sim=case["sim"])
        nmax = max(nmax, nodes.size)
        rec.label("psel:" + how, "psim:" + case["sim"])
    F = neumann(simu, mesh)
    sig = dict(sim=case["sim"], ncalls=len(case["calls"]))
    rec.close(F - exp, big, 1e-14, "point_split",
              f"{types} {case['sim']}: add_neumann vector differs from value(node)/N on the N selected nodes "
              f"(sum per unknown {F.sum(0)} vs {exp.sum(0)})", **sig)
    rec.nontrivial(nmax >= 2)


# ------------------------------------------------------------------------------------------
# (c) pressure on a planar face


@st.composite
def pressure_cases(draw):
    r = draw(recipe_any(("2d", "3d", "3d")))
    return dict(recipe=r, sim=draw(st.sampled_from(["elastic", "elastic", "weakforms"])),
                thickness=draw(st.sampled_from([1.0, 0.5, 2.5])), p=draw(st.sampled_from([1.0, -1.0, 2.5, -0.75, 3])),
                region=draw(st.integers(0, 29)), select=draw(st.integers(0, 5)),
                pollute=draw(st.one_of(st.none(), st.integers(0, 999))))


def _pressure_resultant(simu, mesh, nodes, p):
    simu.Bc_Init()
    simu.add_pressureLoad(nodes, p)
    F = neumann(simu, mesh)
    R = np.zeros(3)
    R[: F.shape[1]] = F.sum(0)
    return R, F


def check_pressure(case, rec):
    r = case["recipe"]
    dim = gm.dim_of(r["elemType"])
    mesh = gm.build(r)
    geo = cg.Geometry(r)
    types = gm.mesh_types(mesh)
    simu, unknowns, th, simk = make_simu(case["sim"], mesh, dim, case["thickness"], dim)
    ents = geo.regions(dim - 1)
    idx = case["region"] % len(ents)
    reg = ents[idx]
    how_list = ["cond", "line", "tags"] if reg.kind == "edge" else ["cond", "tags"]
    how = how_list[case["select"] % len(how_list)]
    sel0 = cg.nodes_in(mesh, reg)
    nodes = select_nodes(mesh, reg, how, sel0)
    if set(nodes.tolist()) != set(sel0.tolist()):
        raise Inconclusive("node selection differs from the geometric node set")
    loaded = cg.completed_elements(mesh, dim - 1, nodes)
    ltypes = "+".join(sorted(k for k, v in loaded.items() if v.size))
    nel = int(sum(v.size for v in loaded.values()))
    if nel == 0:
        raise Inconclusive("selection completes no element")
    polluted = False
    if case["pollute"] is not None:
        extra = polluting_nodes(mesh, dim - 1, sel0, case["pollute"])
        if extra.size:
            polluted = True
            nodes = np.concatenate([nodes, extra])
    p = case["p"]
    sig = dict(sim=simk, dim=dim, loaded=ltypes, face=reg.name.rstrip("0123456789"))
    rec.label("pmesh:" + types, "ploaded:" + ltypes, "pface:" + sig["face"], "pselect:" + how,
              "ppolluted" if polluted else "pclean", "paffine" if r.get("A") else "pplain")
    R, F = _pressure_resultant(simu, mesh, nodes, p)
    area = reg.measure()
    mag = abs(p) * area * th
    n = reg.n_out
    rec.close(np.linalg.norm(R) - mag, mag, TOL, "pressure_magnitude",
              f"{types} [{ltypes}] pressure {p} on {reg.name}: |sum F| = {np.linalg.norm(R)!r}, |p| x area x thickness = {mag!r}", **sig)
    rec.close(np.cross(R, n), mag, TOL, "pressure_direction",
              f"{types} [{ltypes}] pressure on {reg.name}: resultant {R} not parallel to the face normal {n}", **sig)
    outside = np.setdiff1d(np.arange(mesh.Nn), sel0)
    rec.close(F[outside], mag, 1e-15, "unloaded_nodes_zero", f"{types}: nodes outside {reg.name} carry a pressure load", **sig)

    # sign convention: the same on every face of the body (outward normal from the recipe geometry)
    signs = []
    for g in ents:
        nn = cg.nodes_in(mesh, g)
        if cg.n_completed(mesh, dim - 1, nn) == 0:
            signs.append(0)
            continue
        Rg, _ = _pressure_resultant(simu, mesh, nn, p)
        signs.append(int(np.sign(p * (Rg @ g.n_out))))
    nz = [s for s in signs if s != 0]
    ref = 1 if sum(nz) > 0 else -1 if sum(nz) < 0 else nz[0]
    rec.label(f"pconvention:{dim}d:{'outward' if ref > 0 else 'inward'}")
    for g, s in zip(ents, signs):
        if s == 0:
            continue
        rec.require(s == ref, "pressure_sign_uniform",
                    f"{types}: a positive pressure pushes {'outward' if s > 0 else 'inward'} on {g.name} but "
                    f"{'outward' if ref > 0 else 'inward'} on the other faces of the same body (signs {signs})",
                    sim=simk, dim=dim, face=g.name.rstrip("0123456789"), reflected=bool(r.get("A")) and
                    float(np.linalg.det(np.array(r["A"], float))) < 0)
    rec.nontrivial(nel >= 2)


# ------------------------------------------------------------------------------------------
# (d) beam line loads


@st.composite
def beam_cases(draw):
    spec = draw(gb.member_specs())
    mode = draw(st.sampled_from(["free", "free", "x+", "x+", "x-"]))
    if mode != "free":  # member on the global x axis: local and global axes of the loaded unknown coincide
        n = float(max(1.0, round(2 * float(np.linalg.norm(spec["d"]))) / 2))
        spec = dict(spec, d=[n if mode == "x+" else -n, 0.0, 0.0], yAxis=None)
    loads = [dict(comp=draw(st.integers(0, 5)), form=draw(st.sampled_from(["const", "array", "func", "func"])),
                  deg=draw(st.integers(0, 2)), seed=draw(st.integers(0, 999)),
                  cst=draw(st.sampled_from([1, -2, 3, 0.5, -1.5, 2.25]))) for _ in range(draw(st.integers(1, 3)))]
    return dict(member=spec, loads=loads, select=draw(st.integers(0, 2)), O=[draw(st.integers(-4, 4)) / 2.0 for _ in range(3)])


def check_beam(case, rec):
    spec = case["member"]
    dim = spec["dim"]
    simu, mesh, beam, frame = gb.build_member(spec)
    unknowns = list(simu.Get_unknowns())
    kind = "timo" if spec["timoshenko"] else "eb"
    P1 = np.array(spec["p1"], float)
    P2 = P1 + np.array(spec["d"], float)
    seg = cg.Region("member", "edge", 1, [P1, P2])
    how = ["all", "line", "cond"][case["select"] % 3]
    nodes = select_nodes(mesh, seg, how, None)
    coord = np.asarray(mesh.coord, float)
    O = np.array(case["O"] if dim == 3 else case["O"][:2] + [0.0], float)
    omax = gm.ORDER[spec["elemType"]]
    L = float(np.linalg.norm(P2 - P1))
    rho = float(np.abs(coord).max()) + 1e-9
    arm = rho + float(np.abs(O).max())
    rec.label(f"beam:{kind}:{spec['elemType']}:{dim}d", "bselect:" + how)
    ntr = 3 if dim == 3 else 2  # translational unknowns
    seen = set()
    maxdeg = 0
    for ld in case["loads"]:
        comp = ld["comp"] % len(unknowns)
        if comp in seen:
            continue
        seen.add(comp)
        name = unknowns[comp]
        form = ld["form"]
        if form == "const":
            coefs, d, v = {"0,0,0": ld["cst"]}, 0, ld["cst"]
        else:
            d = min(ld["deg"], 2 if form == "func" else min(omax, 2))
            coefs = poly_coefs(ld["seed"], d, dim == 3)
            f = poly_fn(coefs)
            v = f if form == "func" else np.asarray(f(coord[nodes, 0], coord[nodes, 1], coord[nodes, 2]), float)
        f = poly_fn(coefs)
        maxdeg = max(maxdeg, d)
        simu.Bc_Init()
        simu.add_lineLoad(nodes, [v], [name])
        F = neumann(simu, mesh)
        Ft = np.zeros((mesh.Nn, 3))
        Ft[:, :ntr] = F[:, :ntr]
        C = np.zeros((mesh.Nn, 3))
        if dim == 3:
            C[:] = F[:, 3:6]
        else:
            C[:, 2] = F[:, 2]
        R_obs = Ft.sum(0)
        M_obs = np.cross(coord - O, Ft).sum(0) + C.sum(0)
        # direction of the density in global axes
        e = np.zeros(3)
        is_couple = name.startswith("r")
        e["xyz".index(name[-1])] = 1.0
        q0 = seg.integral(f, d)
        q1 = np.array([seg.integral(lambda x, y, z, k=k: ((x, y, z)[k] - O[k]) * f(x, y, z), d + 1) for k in range(3)])
        if is_couple:
            R_ex, M_ex = np.zeros(3), q0 * e
        else:
            R_ex, M_ex = q0 * e, np.cross(q1, e)
        hermitian = (kind == "eb") and name not in ("x", "rx")
        # does the member's local axis of that name coincide with the global one (documented frame of gen_beam)?
        aligned = bool(np.allclose(frame["xyz".index(name[-1])], e, atol=1e-12))
        in_space = (form != "array") or hermitian or d == 0 or (d + 1 <= omax)
        scale = L * poly_bound(coefs, rho)
        sig = dict(kind=kind, dim=dim, path="hermitian" if hermitian else "lagrange", frame="aligned" if aligned else "inclined",
                   form=form, array_moment="n/a" if form != "array" else ("xf_in_space" if in_space else "xf_not_in_space"))
        rec.label("bpath:" + sig["path"] + ":" + sig["frame"], "bform:" + form, "bunknown:" + ("couple" if is_couple else "force"))
        msg = (f"{kind} {spec['elemType']} {dim}D member d={spec['d']} yAxis={spec.get('yAxis')}: {form} deg={d} line load on "
               f"'{name}' ({sig['path']} path)")
        rec.close(R_obs - R_ex, scale, TOL * 5, "beam_resultant", f"{msg}: sum of nodal forces {R_obs}, exact {R_ex}", **sig)
        rec.close(M_obs - M_ex, scale * arm, TOL * 5, "beam_moment",
                  f"{msg}: moment about {O} incl. nodal couples {M_obs}, exact {M_ex}", **sig)
    rec.nontrivial(maxdeg >= 1 or mesh.Ne >= 2)


SUBS = [
    Sub("line_surface_volume", check_lsv, gen=lsv_cases, quick=400, thorough=1500, shards=8),
    Sub("point_load", check_point, gen=point_cases, quick=150, thorough=800, shards=2),
    Sub("pressure", check_pressure, gen=pressure_cases, quick=150, thorough=800, shards=4),
    Sub("beam_lineload", check_beam, gen=beam_cases, quick=250, thorough=1000, shards=4),
]


# ------------------------------------------------------------------------------------------
# (added) every face / edge of structured boxes of several sizes under a linear traction: the element subsets of the faces come
# back from the selection in whatever order the library's sets iterate, and the load must not depend on it


def enum_box_faces(tier):
    k = 0
    for et, dims in (("HEXA8", [(2, 2), (3, 2), (4, 3)]), ("HEXA20", [(3, 2)]), ("PRISM6", [(3, 2)]), ("QUAD4", [(4, 0), (6, 0)]), ("TRI6", [(4, 0)])):
        for n, layers in dims:
            d3 = layers > 0
            L = float(n)
            r = dict(verts=[[0.0, 0.0], [L, 0.0], [L, L - 1.0], [0.0, L - 1.0]], h=1.0, elemType=et, organised=True,
                     extrude=[0.0, 0.0, float(layers)] if d3 else None, layers=layers, A=None, b=None, perm=None, orphans=0)
            for region in range(6 if d3 else 4):
                k += 1
                yield dict(recipe=r, sim="elastic", dof_n=3 if d3 else 2, thickness=0.7, kind="surf" if d3 else "line", region=region, select=0,
                           pollute=None, loads=[dict(comp=k % (3 if d3 else 2), form="func", deg=1, seed=k, cst=1)], O=[0.5, -1.0, 0.25])


SUBS.append(Sub("box_faces", check_lsv, enum=enum_box_faces, doc="linear traction on every face / edge of structured boxes"))


# ------------------------------------------------------------------------------------------
# (added by the lead, round 9) pressure on the faces of an extruded body whose source surface is made of several surfaces: a FILLED
# inclusion drawn in the same or in the opposite sense of rotation as the contour.  Resultant p x area along the face normal and
# moment of a uniform density, on the source face and on the face opposite to it


def enum_pressure_filled(tier):
    for et in ("TETRA4", "PRISM6", "HEXA8", "TETRA10"):
        for clockwise in (False, True):
            for contour_cw in (False, True):
                yield dict(elemType=et, clockwise=clockwise, contour_cw=contour_cw)


def check_pressure_filled(case, rec):
    from EasyFEA import ElemType, Mesher
    from EasyFEA.Geoms import Point, Points

    L, H, D, p = 2.0, 1.0, 1.5, 3.0
    cont = [Point(0, 0), Point(L, 0), Point(L, H), Point(0, H)]
    inc = [Point(1.2, 0.2), Point(1.8, 0.2), Point(1.8, 0.8), Point(1.2, 0.8)]
    if case["contour_cw"]:
        cont = [cont[0]] + cont[:0:-1]
    if case["clockwise"]:
        inc = [inc[0]] + inc[:0:-1]
    mesh = Mesher().Mesh_Extrude(Points(cont, 0.5), [Points(inc, 0.3, isFilled=True)], [0, 0, D], [2], ElemType(case["elemType"]))
    sig = dict(elemType=case["elemType"], inclusion="cw" if case["clockwise"] else "ccw", contour="cw" if case["contour_cw"] else "ccw")
    rec.label("filled:" + case["elemType"], "inclusion:" + sig["inclusion"], "contour:" + sig["contour"])
    rec.close(mesh.volume - L * H * D, L * H * D, 1e-10, "harness_volume", "volume of the extruded body (harness)", **sig)
    simu = Simulations.Elastic(mesh, Models.Elastic.Isotropic(3))
    X = np.asarray(mesh.coord, float)
    for name, zf in (("source face z=0", 0.0), ("opposite face z=D", D)):
        nodes = np.where(np.abs(X[:, 2] - zf) < 1e-9)[0]
        simu.Bc_Init()
        simu.add_pressureLoad(nodes, p)
        f = np.asarray(simu.Bc_vector_Neumann(), float).reshape(-1, 3)
        F = f.sum(0)
        M = np.cross(X, f).sum(0)
        A = L * H
        s2 = dict(sig, face=name)
        rec.close(np.linalg.norm(F) - p * A, p * A, 1e-10, "pressure_magnitude", f"{case['elemType']} {name}, inclusion {sig['inclusion']} / contour "
                  f"{sig['contour']}: |resultant| = {np.linalg.norm(F)!r}, p x area = {p * A!r}", **s2)
        rec.close(F[:2], p * A, 1e-10, "pressure_direction", f"{name}: resultant {F} is not along the face normal (0, 0, +-1)", **s2)
        c = np.array([L / 2, H / 2, zf])
        rec.close(M - np.cross(c, F), p * A * (L + H + D), 1e-10, "pressure_moment", f"{name}: moment {M} vs centroid x resultant {np.cross(c, F)}", **s2)
    rec.nontrivial(True)


SUBS.append(Sub("pressure_filled_inclusion", check_pressure_filled, enum=enum_pressure_filled,
                doc="volume element type x sense of rotation of a filled inclusion x sense of the contour: pressure on the source face and on the opposite one"))
