"""C04 - constraints hold exactly and the returned solution solves the stated system."""

import warnings

import numpy as np
from hypothesis import strategies as st

from EasyFEA import Models, Simulations, SolverType
from EasyFEA.FEM._boundary_conditions import LagrangeCondition

from vlib import gen_beam as gb
from vlib import gen_mesh as gm
from vlib import gen_model as gmod
from vlib import oracles as orc
from vlib.runner import Inconclusive, Sub

PROPERTY = "C04"
RULE = (
    "Hypothesis draws Elastic / Thermal / Beam / HyperElastic problems with lists of Dirichlet conditions (overlapping "
    "node windows, the same dof entered 1-3 times, constant / nodal-array / lambda values, shuffled order), point, surface "
    "and volume loads, 0-2 orphan nodes, a linear solver back-end (scipy, cg, bicg, gmres, lgmres) and Lagrange "
    "(multi-point / connection) conditions. Non-trivial = at least one dof constrained more than once or two overlapping "
    "conditions, and at least one loaded free dof; distinct = sha1 of the case."
    ' dirichlet_neumann also draws prescribed values that cancel exactly, per-unknown values listed in any order and load magnitudes 2^-30..2^20; orphans_phasefield: damage problem of a phase-field simulation on a mesh with 1-3 orphan nodes vs the same mesh without (non-trivial = non-zero damage).'
    ' Round 8: newton_residual draws a hyperelastic block, one displacement increment of any size and maxIter 2..20 (non-trivial = non-zero increment; either Solve() refuses or the returned state must solve the assembled equations); beam_connections may prescribe a settlement on one joint node; prescribed_damage enumerates element type x AT1/AT2 x damage solver x with / without driving force x prescribed value.'
    ' Round 9: lagrange cases may carry orphan nodes (constraints tie mesh nodes only); half of prescribed_damage names the damage problem by its plain name.'
)
ASSUMPTIONS = [
    "documented convention of the elimination solver: a dof constrained several times holds the sum of the entered values",
    "K and F are re-read from Get_K_C_M_F() / Bc_vector_Neumann(); residuals are computed by the harness with dense algebra",
    "iterative back-ends are held to scipy's own default stopping rule (relative residual 1e-5 on the reduced system)",
    "a rigid-body restraining clamp is always part of the generated Dirichlet set (well-posed problems only)",
    "pypardiso / PETSc are not installed here and are not exercised",
]
LEVEL_TEXT = ("generated boundary-condition sets x solver back-ends x problem types: constrained dofs compared with the sum "
              "of entered values, free-dof residual of the assembled system, orphan nodes, Lagrange conditions satisfied and "
              "consistent with elimination, Newton solves holding totals")
LEVEL_NOTE = "exploration; systems <= 450 dofs; lsq_linear only through its KKT conditions on the phase-field damage problem"
TECHNIQUE = "property-based testing (Hypothesis): residual/constraint oracles + differential testing of solver back-ends and of elimination vs Lagrange"
DESIGN_REF = "DESIGN.md 4/C04"

SOLVERS = ["scipy", "cg", "bicg", "gmres", "lgmres"]


# ------------------------------------------------------------------------------------------
# generated Dirichlet / Neumann sets on continua


@st.composite
def bc_lists(draw, ncomp):
    """list of Dirichlet condition records over 'windows' of the boundary nodes ordered by angle"""
    n = draw(st.integers(1, 4))
    out = []
    for _ in range(n):
        lo = draw(st.integers(0, 9)) / 10.0
        width = draw(st.integers(1, 5)) / 10.0
        comps = draw(st.lists(st.integers(0, ncomp - 1), min_size=1, max_size=ncomp, unique=True))
        form = draw(st.sampled_from(["const", "array", "lambda"]))
        coefs = [draw(st.integers(-3, 3)) / 20.0 for _ in range(4)]
        rep = draw(st.sampled_from([1, 1, 2, 3]))
        out.append(dict(lo=lo, width=width, comps=comps, form=form, coefs=coefs, repeat=rep))
    return out


@st.composite
def continuum_cases(draw, kinds=("elastic", "thermal", "advection")):
    kind = draw(st.sampled_from(list(kinds)))
    dim = draw(st.sampled_from([2, 2, 3]))
    if kind == "advection":
        # a user weak form with a NON-SYMMETRIC matrix (diffusion + advection), single element group
        dim = 2
        r = draw(gm.recipes2d(types=["TRI3", "TRI6", "QUAD4"], affine_ok=False, nmax=4))
        if r["elemType"] == "QUAD4":
            r["organised"] = True
            r["verts"] = r["verts"][:4] if len(r["verts"]) >= 4 else draw(gm.polygons(4, 4))
    else:
        r = draw(gm.recipes2d(affine_ok=False) if dim == 2 else gm.recipes3d(affine_ok=False))
    r["orphans"] = draw(st.sampled_from([0, 0, 1, 2]))
    ncomp = dim if kind == "elastic" else 1
    law = draw(gmod.elastic_specs(dim)) if kind == "elastic" else None
    vec = lambda lo, hi, den: [draw(st.integers(lo, hi)) / den for _ in range(ncomp)]  # noqa
    return dict(kind=kind, beta=[draw(st.integers(-4, 4)) / 2.0, draw(st.integers(-4, 4)) / 2.0], recipe=r, law=law, k=draw(st.integers(1, 12)) / 4.0, bcs=draw(bc_lists(ncomp)),
                order=draw(st.integers(0, 999)), body=vec(-4, 4, 4.0), trac=vec(-4, 4, 2.0), point=vec(-4, 4, 2.0),
                solver=draw(st.sampled_from(SOLVERS)), cancel=draw(st.sampled_from([None, None, None, None, 0.25, 0.5])),
                lmag=draw(st.sampled_from([1.0, 1.0, 1.0, 2.0**-30, 2.0**20])))


def _windows(mesh):
    """boundary nodes sorted by polar angle around the centroid (a 1D parametrisation of the boundary)"""
    bn = gm.boundary_nodes(mesh)
    c = np.asarray(mesh.coord, float)[bn]
    ctr = c.mean(axis=0)
    ang = np.arctan2(c[:, 1] - ctr[1], c[:, 0] - ctr[0]) + 0.37 * (c[:, 2] - ctr[2])
    return bn[np.argsort(ang, kind="stable")]


def _value_fn(coefs):
    a, b, c, d = coefs
    return lambda x, y, z: a + b * x + c * y + d * z


def _build_continuum(case):
    r = case["recipe"]
    dim = gm.dim_of(r["elemType"])
    mesh = gm.build(r)
    if case["kind"] == "elastic":
        mat = gmod.make_elastic(case["law"])
        simu = Simulations.Elastic(mesh, mat)
        unk = ["x", "y", "z"][:dim]
    elif case["kind"] == "advection":
        from EasyFEA.FEM import BiLinearForm, Field

        groups = gm.main_groups(mesh)
        if len(groups) != 1:
            raise Inconclusive("weak forms live on a single element group")
        bx, by = case.get("beta", [1.0, 0.5])
        k = case["k"]

        @BiLinearForm
        def computeK(u, v):
            gu = u.grad
            return k * gu.dot(v.grad) + (bx * gu[..., 0] + by * gu[..., 1]) * v()[..., 0]

        wf = Models.WeakForms(Field(groups[0], 1), computeK=computeK)
        simu = Simulations.WeakForms(mesh, wf)
        unk = ["u"]
    else:
        simu = Simulations.Thermal(mesh, Models.Thermal(k=case["k"], c=0.0, thickness=1.0))
        unk = ["t"]
    return simu, mesh, unk, dim


def _apply_bcs(simu, mesh, unk, case, expected, unique=False):
    """applies the generated conditions in a shuffled order; accumulates the expected sum per dof
    (unique=True: nodes whose dofs are already constrained are dropped from later conditions)"""
    ordered = _windows(mesh)
    nb = ordered.size
    coord = np.asarray(mesh.coord, float)
    ncomp = len(unk)
    conds = []
    # well-posedness clamp: a fifth of the boundary, all components, zero
    k = max(ncomp + 1, nb // 5)
    conds.append(dict(nodes=ordered[:k], comps=list(range(ncomp)), form="const", coefs=[0, 0, 0, 0], repeat=1))
    if case.get("cancel"):
        # prescribed values that are not zero but cancel exactly: +a and -a on two windows of the same size (a symmetric
        # stretch, walls at -T / +T), nothing else than the zero clamp
        m = max(1, (nb - k) // 3)
        a = float(case["cancel"])
        conds.append(dict(nodes=ordered[k:k + m], comps=[0], form="const", coefs=[a, 0, 0, 0], repeat=1))
        conds.append(dict(nodes=ordered[k + m:k + 2 * m], comps=[0], form="const", coefs=[-a, 0, 0, 0], repeat=1))
    for bc in ([] if case.get("cancel") else case["bcs"]):
        i0 = int(bc["lo"] * nb)
        m = max(1, int(bc["width"] * nb))
        nodes = ordered[[(i0 + j) % nb for j in range(m)]]
        conds.append(dict(nodes=nodes, comps=bc["comps"], form=bc["form"], coefs=bc["coefs"], repeat=bc["repeat"]))
    perm = np.random.default_rng(case["order"]).permutation(len(conds))
    multi = False
    for i in perm:
        cd = conds[i]
        f = _value_fn(cd["coefs"])
        nodes = np.asarray(cd["nodes"], int)
        if unique:
            keep = [n for n in nodes if all((int(n) * ncomp + c) not in expected for c in cd["comps"])]
            nodes = np.asarray(keep, int)
            if nodes.size == 0:
                continue
        vals_n = f(coord[nodes, 0], coord[nodes, 1], coord[nodes, 2]) + 0 * nodes
        # every unknown of a condition gets its own value (factor 1, 1.5, 2 for components 0, 1, 2): the unknowns may be listed
        # in any order, each must receive the value given at its position in the list
        fac = lambda c: 1.0 + 0.5 * c  # noqa: E731
        for _ in range(1 if unique else cd["repeat"]):
            if cd["form"] == "const":
                v = float(cd["coefs"][0])
                values = [v * fac(c) for c in cd["comps"]]
                vals_used = np.full(nodes.size, v)
            elif cd["form"] == "array":
                values = [vals_n * fac(c) for c in cd["comps"]]
                vals_used = vals_n
            else:
                values = [(lambda x, y, z, c=c: f(x, y, z) * fac(c)) for c in cd["comps"]]
                vals_used = vals_n
            simu.add_dirichlet(nodes, values, [unk[c] for c in cd["comps"]])
            for c in cd["comps"]:
                for n, v in zip(nodes, vals_used):
                    d = int(n) * ncomp + c
                    if d in expected:
                        multi = True
                    expected[d] = expected.get(d, 0.0) + float(v) * fac(c)
    return multi, ordered


def _scaled(case):
    """the same problem with every load and prescribed value multiplied by case['lmag'] (linear problems: the solution follows)"""
    m = float(case.get("lmag", 1.0))
    if m == 1.0:
        return case, 1.0
    case = dict(case)
    for k in ("body", "trac", "point"):
        case[k] = [m * float(v) for v in case[k]]
    case["bcs"] = [dict(bc, coefs=[m * float(c) for c in bc["coefs"]]) for bc in case["bcs"]]
    if case.get("cancel"):
        case["cancel"] = m * float(case["cancel"])
    return case, m


def check_continuum(case, rec):
    case, lmag = _scaled(case)
    if lmag != 1.0:
        rec.label(f"lmag:{lmag:g}")
    simu, mesh, unk, dim = _build_continuum(case)
    ncomp = len(unk)
    if mesh.Nn * ncomp > 450:
        raise Inconclusive("too many dofs")
    types = gm.mesh_types(mesh)
    sig = dict(kind=case["kind"], elemType=case["recipe"]["elemType"], solver=case["solver"], orphans=case["recipe"]["orphans"])
    rec.label("kind:" + case["kind"], "solver:" + case["solver"], "types:" + types, f"orphans:{case['recipe']['orphans']}")
    expected = {}
    multi, ordered = _apply_bcs(simu, mesh, unk, case, expected)
    used = gm.used_nodes(mesh)
    simu.add_volumeLoad(used, [float(v) for v in case["body"]], unk)
    loaded = ordered[ordered.size // 2: ordered.size // 2 + max(3, ordered.size // 4)]
    simu.add_surfLoad(loaded, [float(v) for v in case["trac"]], unk)
    simu.add_neumann(loaded[:2], [float(v) for v in case["point"]], unk)
    solver = case["solver"]
    if case["kind"] == "advection" and solver == "cg":
        solver = "bicg"  # conjugate gradients is only defined for symmetric positive definite systems
    case = dict(case, solver=solver)
    sig["solver"] = solver
    simu.solver = SolverType(solver)
    with warnings.catch_warnings(record=True) as wlist:
        warnings.simplefilter("always")
        try:
            u = np.asarray(simu.Solve(), float).ravel()
        except Exception as e:
            if solver != "scipy" and "did not converge" in str(e):
                # the iterative back-end reports that it reached its iteration cap (finding F19: it used to return the
                # unconverged vector silently): no solution was returned, the property decides nothing
                rec.label("iterative_backend_reports_non_convergence:" + solver)
                raise Inconclusive(f"{solver} reported non-convergence")
            raise
    sing = [w for w in wlist if "singular" in str(w.message).lower() or "MatrixRank" in type(w.message).__name__]
    rec.require(not sing, "singular_warning", f"{types}: the solve raised a singular-matrix warning "
                f"(orphans={case['recipe']['orphans']}): {sing[0].message if sing else ''}", **sig)
    rec.require(np.all(np.isfinite(u)), "finite_solution", "non-finite solution", **sig)

    # (i) constrained dofs hold the sum of the entered values
    dofs = np.array(sorted(expected), int)
    vals = np.array([expected[d] for d in dofs])
    scale_u = np.abs(u).max() + np.abs(vals).max() + 1e-6 * lmag
    rec.close(u[dofs] - vals, scale_u, 1e-12, "dirichlet_sum", f"{case['kind']} {types}: constrained dofs do not hold the sum "
              "of the entered values", **sig)

    # (ii) free dofs satisfy K u = F (re-read)
    K = orc.dense(simu.Get_K_C_M_F()[0])
    F = np.asarray(simu.Bc_vector_Neumann(), float).ravel()
    orphan_dofs = np.array([n * ncomp + c for n in mesh.orphanNodes for c in range(ncomp)], int)
    free = np.setdiff1d(np.arange(u.size), np.concatenate([dofs, orphan_dofs]))
    r = (K @ u - F)[free]
    b_red = F[free] - K[np.ix_(free, dofs)] @ vals
    if case["solver"] == "scipy":
        rec.close(r, np.abs(K).max() * np.abs(u).max() + np.abs(F).max() + 1e-9 * lmag, 1e-9, "free_residual",
                  f"{case['kind']} {types}: K u != F on free dofs (direct solver)", **sig)
    else:
        nr, nb = float(np.linalg.norm(r)), float(np.linalg.norm(b_red))
        rec.note_max("iter_rel_residual:" + case["solver"], nr / (nb + 1e-300))
        rec.require(nr <= 5e-5 * nb + 1e-12 * lmag, "free_residual_iterative", f"{case['solver']} {types}: relative residual {nr / (nb + 1e-300):.2e} "
                    "exceeds the back-end's stopping rule (1e-5)", **sig)
    if orphan_dofs.size:
        rec.close(u[orphan_dofs], scale_u, 1e-12, "orphan_dofs_zero", "orphan dofs carry a non-zero value", **sig)
    loaded_any = any(abs(v) > 0 for k in ("body", "trac", "point") for v in case[k])
    rec.nontrivial((multi or bool(case.get("cancel"))) and loaded_any)
    rec.label("multi-constrained" if multi else "single-constrained")
    if case.get("cancel"):
        rec.label("cancelling_values", f"sum_of_prescribed_values:{float(np.sum(vals))!r}")


# ------------------------------------------------------------------------------------------
# Lagrange: generic linear constraint on an elastic / thermal problem


@st.composite
def lagrange_cases(draw):
    case = draw(continuum_cases())
    # orphan nodes together with multiplier rows: the bordered system must not be singular either
    case["recipe"]["orphans"] = draw(st.sampled_from([0, 0, 1, 2])) if not case["recipe"].get("bend") else 0
    case["solver"] = "scipy"
    case["dups"] = draw(st.booleans())  # Dirichlet dofs entered several times, combined with Lagrange conditions
    case["ncons"] = draw(st.integers(1, 3))
    case["cseed"] = draw(st.integers(0, 9999))
    case["satisfied"] = draw(st.booleans())
    return case


def check_lagrange(case, rec):
    simu, mesh, unk, dim = _build_continuum(case)
    ncomp = len(unk)
    if mesh.Nn * ncomp > 450:
        raise Inconclusive("too many dofs")
    types = gm.mesh_types(mesh)
    sig = dict(kind=case["kind"], elemType=case["recipe"]["elemType"], satisfied=case["satisfied"])
    rec.label("kind:" + case["kind"], "types:" + types, "already-satisfied" if case["satisfied"] else "active-constraint")
    expected = {}
    # duplicated Dirichlet dofs combined with Lagrange conditions are a separate class (DESIGN C04/FA): labelled
    multi, ordered = _apply_bcs(simu, mesh, unk, case, expected, unique=not case.get("dups", False))
    sig["dup_dirichlet"] = bool(multi)
    rec.label("lagrange+dup-dirichlet" if multi else "lagrange+unique-dirichlet")
    used = gm.used_nodes(mesh)
    simu.add_volumeLoad(used, [float(v) for v in case["body"]], unk)
    loaded = ordered[ordered.size // 2: ordered.size // 2 + max(3, ordered.size // 4)]
    simu.add_neumann(loaded[:2], [float(v) for v in case["point"]], unk)
    ustar = np.asarray(simu.Solve(), float).ravel().copy()
    dofs_d = np.array(sorted(expected), int)
    free = np.setdiff1d(np.arange(ustar.size), dofs_d)
    if np.isin(free // ncomp, used).sum() < 4:
        raise Inconclusive("too few free dofs")  # (counted on the nodes of the mesh: orphan dofs carry no constraint)
    rng = np.random.default_rng(case["cseed"])
    cons = []
    for _ in range(case["ncons"]):
        # one dof on each of m distinct nodes (the condition object requires len(dofs) % len(nodes) == 0)
        fnodes = np.intersect1d(np.unique(free // ncomp), used)  # constraints tie nodes of the mesh, not orphan nodes
        m = int(rng.integers(2, min(5, fnodes.size) + 1))
        cn = rng.choice(fnodes, size=m, replace=False)
        cd = []
        for nn in cn:
            cand = [int(nn) * ncomp + c for c in range(ncomp) if (int(nn) * ncomp + c) in set(free.tolist())]
            cd.append(cand[int(rng.integers(0, len(cand)))])
        cd = np.array(cd, int)
        cc = rng.integers(1, 5, size=m) * rng.choice([-1.0, 1.0], size=m)
        val = float(cc @ ustar[cd]) if case["satisfied"] else float(cc @ ustar[cd]) + float(rng.integers(1, 5)) / 50.0
        cons.append((cd, cc, val))
        nodes = cd // ncomp
        simu._Bc_Add_Lagrange(LagrangeCondition(simu.problemType, nodes, cd, [unk[0]], np.array([val]), cc, "generated"))
    with warnings.catch_warnings(record=True) as wlist:
        warnings.simplefilter("always")
        u = np.asarray(simu.Solve(), float).ravel()[: ustar.size]
    sing = [w for w in wlist if "singular" in str(w.message).lower()]
    rec.require(not sing and np.all(np.isfinite(u)), "lagrange_system_singular", f"{types}: the Lagrange system is singular "
                f"(duplicated Dirichlet dofs: {multi})", **sig)
    scale = np.abs(ustar).max() + 1e-6
    for cd, cc, val in cons:
        rec.close(cc @ u[cd] - val, np.abs(cc).sum() * scale, 1e-9, "lagrange_constraint", f"{types}: sum coef_i u_i != value", **sig)
    vals = np.array([expected[d] for d in dofs_d])
    rec.close(u[dofs_d] - vals, scale, 1e-9, "dirichlet_with_lagrange", f"{types}: Dirichlet dofs not held on the Lagrange path", **sig)
    if case["satisfied"]:
        rec.close(u - ustar, scale, 1e-7, "lagrange_equals_elimination", f"{types}: adding constraints already satisfied by the "
                  "elimination solution changed the solution", **sig)
    n = ustar.size
    K = orc.dense(simu.Get_K_C_M_F()[0])[:n, :n]  # the assembled system carries extra (empty) Lagrange rows
    F = np.asarray(simu.Bc_vector_Neumann(), float).ravel()[:n]
    r = K @ u - F
    # the residual on free dofs must be a combination of the constraint vectors (multiplier forces)
    Cmat = np.zeros((len(cons), ustar.size))
    for i, (cd, cc, val) in enumerate(cons):
        Cmat[i, cd] = cc
    rf = r[free]
    Cf = Cmat[:, free]
    lam, *_ = np.linalg.lstsq(Cf.T, rf, rcond=None)
    rec.close(rf - Cf.T @ lam, np.abs(K).max() * scale + np.abs(F).max(), 1e-8, "lagrange_residual_in_span",
              f"{types}: free-dof residual is not a combination of the constraint gradients", **sig)
    rec.nontrivial(True)


# ------------------------------------------------------------------------------------------
# beams: two members joined by add_connection_fixed vs one continuous member; hinge conditions


@st.composite
def frame_cases(draw):
    spec = draw(gb.member_specs(types=("SEG2", "SEG3")))
    split = draw(st.integers(3, 7)) / 10.0
    F = [draw(st.integers(-4, 4)) / 100.0 for _ in range(3)]
    # how: the connection is entered through the named helper, or through add_connection in two calls that
    # partition the tied unknowns (mask) in either order
    return dict(member=spec, split=split, F=F, hinged=draw(st.booleans()), how=draw(st.sampled_from(["api", "api", "two_calls"])),
                mask=draw(st.lists(st.booleans(), min_size=6, max_size=6)), rev=draw(st.booleans()),
                # a settlement prescribed on ONE of the two coincident joint nodes, for one tied translation: the connection is
                # what carries it to the other member ([which of the two nodes, which translation, value / 100] or None)
                settle=draw(st.one_of(st.none(), st.none(), st.tuples(st.integers(0, 1), st.integers(0, 2), st.integers(-4, 4)).map(list))))


def check_frame(case, rec):
    from EasyFEA import ElemType, Mesher
    from EasyFEA.Geoms import Line, Point

    spec = case["member"]
    dim = spec["dim"]
    kind = "timo" if spec["timoshenko"] else "eb"
    sig = dict(elemType=spec["elemType"], dim=dim, kind=kind, hinged=case["hinged"])
    rec.label(f"frame:{kind}:{dim}d:" + ("hinged" if case["hinged"] else "fixed"))
    p1 = np.array(spec["p1"], float)
    d = np.array(spec["d"], float)
    L = float(np.linalg.norm(d))
    pm = p1 + case["split"] * d
    p2 = p1 + d
    sec = gb._section(spec["b"], spec["h"])
    y0 = tuple(spec["yAxis"]) if spec.get("yAxis") else (0.0, 1.0, 0.0)
    la = Line(Point(*p1), Point(*pm), L * case["split"] / 2)
    lb = Line(Point(*pm), Point(*p2), L * (1 - case["split"]) / 2)
    ba = Models.Beam.Isotropic(dim, la, sec.copy(), spec["E"], spec["v"], yAxis=y0)
    bb = Models.Beam.Isotropic(dim, lb, sec.copy(), spec["E"], spec["v"], yAxis=y0)
    mesh = Mesher().Mesh_Beams([ba, bb], elemType=ElemType(spec["elemType"]))
    simu = Simulations.Beam(mesh, Models.Beam.BeamStructure([ba, bb]), useTimoshenko=bool(spec["timoshenko"]))
    mesh = simu.mesh
    c = np.asarray(mesh.coord, float)
    at = lambda p: np.where(np.linalg.norm(c - p, axis=1) < 1e-9 * (1 + L))[0]  # noqa
    n1, nm, n2 = at(p1), at(pm), at(p2)
    rec.require(nm.size == 2, "duplicated_joint_nodes", f"expected 2 coincident joint nodes, found {nm.size}", **sig)
    unk = simu.Get_unknowns()
    simu.add_dirichlet(n1, [0.0] * len(unk), unk)
    two_calls = case.get("how") == "two_calls" and dim > 1
    # the unknowns the named helpers tie (add_connection_hinged ties the translations in 2D, everything in 3D)
    tied = list(unk) if (not case["hinged"] or dim == 3) else list(unk[:dim])
    if two_calls:
        first = [k for k, m in zip(tied, case["mask"]) if m]
        if not first or len(first) == len(tied):
            first = tied[:1]
        parts = [first, [k for k in tied if k not in first]]
        for part in (parts[::-1] if case.get("rev") else parts):
            simu.add_connection(nm, part, "verif")
        rec.label("frame:two_calls")
    if case["hinged"]:
        if not two_calls:
            simu.add_connection_hinged(nm)
        # a hinge needs a support at the tip to stay stable
        simu.add_dirichlet(n2, [0.0] * (dim), unk[:dim])
        Fnode = nm[:1]
    else:
        if not two_calls:
            simu.add_connection_fixed(nm)
        Fnode = n2
    _, _, _, frame = gb.build_member(spec)
    Fg = frame.T @ np.array(case["F"], float)
    tr = unk[:dim]
    simu.add_neumann(Fnode, [float(Fg[i]) for i in range(dim)], tr)
    settle = case.get("settle")
    if settle is not None:
        sn, sk, sv = int(nm[settle[0]]), unk[settle[1] % dim], settle[2] / 100.0 * L
        simu.add_dirichlet(np.array([sn]), [float(sv)], [sk])
        rec.label("frame:settlement_on_one_joint_node")
    u = np.asarray(simu.Solve(), float).ravel()
    dof_n = len(unk)
    U = u[: mesh.Nn * dof_n].reshape(mesh.Nn, dof_n)
    if not np.all(np.isfinite(U)):
        raise Inconclusive("non-finite solution")
    scale = np.abs(U).max() + 1e-9
    if settle is not None:
        rec.close(U[sn, settle[1] % dim] - sv, scale, 1e-12, "settlement_held", f"{kind} {dim}D: the settlement {sv} prescribed on joint node {sn} "
                  f"({sk}) is {U[sn, settle[1] % dim]!r}", **sig)
    ncon = dof_n if not case["hinged"] else (len(tied) if two_calls else dim)
    rec.close(U[nm[0], :ncon] - U[nm[1], :ncon], scale, 1e-9, "connection_constraint",
              f"{kind} {dim}D: connected dofs differ across the joint: {U[nm[0]]} vs {U[nm[1]]}", **sig)
    rec.close(U[n1[0]], scale, 1e-12, "clamp_held", "", **sig)
    if not case["hinged"] and settle is None:
        # same response as the single continuous member (C10 closed forms hold for it)
        ref = dict(spec)
        ref["ne"] = 4
        s2, m2, _, fr2 = gb.build_member(ref)
        a1, a2 = gb.end_nodes(m2, ref)
        s2.add_dirichlet(np.array([a1]), [0.0] * len(unk), unk)
        s2.add_neumann(np.array([a2]), [float(Fg[i]) for i in range(dim)], tr)
        u2 = np.asarray(s2.Solve(), float).reshape(m2.Nn, dof_n)
        if kind == "eb" or spec["elemType"] != "SEG2":
            rec.close(U[n2[0]] - u2[a2], np.abs(u2).max() + 1e-9, 1e-6, "connected_equals_continuous",
                      f"{kind} {spec['elemType']} {dim}D d={spec['d']}: tip dofs of two connected members {U[n2[0]]} vs one member {u2[a2]}", **sig)
    rec.nontrivial(any(case["F"]))


# ------------------------------------------------------------------------------------------
# Newton-incremental solves hold the totals


@st.composite
def newton_cases(draw):
    r = draw(gm.recipes2d(types=["TRI3", "QUAD4", "TRI6"], affine_ok=False, perm_ok=False))
    return dict(recipe=r, law=draw(st.sampled_from(["NeoHookean", "SaintVenantKirchhoff"])),
                bcs=draw(bc_lists(2)), order=draw(st.integers(0, 999)), second=draw(st.integers(1, 4)) / 2.0)


def check_newton(case, rec):
    mesh = gm.build(case["recipe"])
    if mesh.Nn > 120:
        raise Inconclusive("too large")
    types = gm.mesh_types(mesh)
    sig = dict(law=case["law"], elemType=case["recipe"]["elemType"])
    rec.label("newton:" + case["law"], "types:" + types)
    if case["law"] == "NeoHookean":
        mat = Models.HyperElastic.NeoHookean(2, K=5.0)
    else:
        mat = Models.HyperElastic.SaintVenantKirchhoff(2, 2.0, 1.0)
    simu = Simulations.HyperElastic(mesh, mat)
    unk = simu.Get_unknowns()
    total = {}
    for rnd, factor in enumerate([1.0, case["second"]]):
        simu.Bc_Init()
        expected = {}
        c2 = dict(case)
        c2["bcs"] = [dict(b, coefs=[v * 0.03 * factor for v in b["coefs"]]) for b in case["bcs"]]
        multi, ordered = _apply_bcs(simu, mesh, unk, c2, expected)
        try:
            u = np.asarray(simu.Solve(), float).ravel()
        except Exception as e:  # the claim is conditional on an admissible, converging load step
            if not ("converge" in str(e).lower() or "det(F) < 0" in str(e)):
                raise
            # differential: the same totals entered once per dof. If that converges, the failure is due to
            # the way repeated entries are handled, not to the load step.
            ref = Simulations.HyperElastic(gm.build(case["recipe"]), mat)
            if rnd == 1:
                ref._Set_solutions(ref.problemType, u_prev, np.zeros_like(u_prev), np.zeros_like(u_prev))
            dd = np.array(sorted(expected), int)
            for c in range(2):
                sel = dd[dd % 2 == c]
                if sel.size:
                    ref.add_dirichlet(sel // 2, [np.array([expected[d] for d in sel])], [unk[c]])
            try:
                ref.Solve()
                ok = True
            except Exception:
                ok = False
            rec.require(not ok, "newton_repeated_entries", f"{case['law']} {types} solve #{rnd + 1}: Newton fails ({str(e)[:60]}) with "
                        "dofs entered several times, but converges when the same totals are entered once", **sig)
            raise Inconclusive("load step does not converge (also with merged conditions)")
        u_prev = u.copy()
        dofs = np.array(sorted(expected), int)
        vals = np.array([expected[d] for d in dofs])
        scale = np.abs(u).max() + np.abs(vals).max() + 1e-6
        rec.close(u[dofs] - vals, scale, 1e-10, "newton_dirichlet_total", f"{case['law']} {types} solve #{rnd + 1}: constrained dofs hold "
                  "the increment or a stale value instead of the total", **sig)
        simu.Save_Iter()
    rec.nontrivial(True)


SUBS = [
    Sub("dirichlet_neumann", check_continuum, gen=continuum_cases, quick=120, thorough=1500, shards=8),
    Sub("lagrange", check_lagrange, gen=lagrange_cases, quick=60, thorough=600, shards=4),
    Sub("beam_connections", check_frame, gen=frame_cases, quick=50, thorough=500, shards=4),
    Sub("newton_totals", check_newton, gen=newton_cases, quick=15, thorough=150, shards=4),
]


# ------------------------------------------------------------------------------------------
# bounded least squares (the back-end used by the phase-field damage problem with bound constraints):
# the returned damage satisfies the bounds and the KKT conditions of min 1/2 |A d - b|^2, lb <= d <= ub


@st.composite
def lsq_cases(draw):
    r = draw(gm.recipes2d(types=["TRI3", "QUAD4", "TRI6"], affine_ok=False, perm_ok=False, hmin=5, hmax=8, nmax=4))
    return dict(recipe=r, regu=draw(st.sampled_from(["AT1", "AT2"])), split=draw(st.sampled_from(["Bourdin", "Amor", "Miehe"])),
                useed=draw(st.integers(0, 999)), dseed=draw(st.integers(0, 999)), amp=draw(st.integers(1, 8)) / 20.0,
                dmax=draw(st.sampled_from([0.0, 0.3, 0.9, 1.0])), Gc=draw(st.integers(1, 10)) / 100.0,
                # damage prescribed on some nodes (a pre-crack, the usual way a crack is entered): number of nodes and value
                crack=draw(st.sampled_from([0, 0, 1, 3, 6])), dcrack=draw(st.sampled_from([1.0, 1.0, 0.5])))


def check_lsq(case, rec):
    mesh = gm.build(case["recipe"])
    if mesh.Nn > 80:
        raise Inconclusive("too large")
    types = gm.mesh_types(mesh)
    sig = dict(regu=case["regu"], split=case["split"])
    rec.label("lsq:" + case["regu"] + ":" + case["split"], "types:" + types)
    mat = Models.Elastic.Isotropic(2, E=10.0, v=0.3, planeStress=False)
    pfm = Models.PhaseField(mat, case["split"], case["regu"], case["Gc"], 0.4, solver="BoundConstrain")
    simu = Simulations.PhaseField(mesh, pfm)
    X = np.asarray(mesh.coord, float)
    rng = np.random.default_rng(case["useed"])
    G = rng.uniform(-1, 1, (2, 2)) * case["amp"]
    u = (X[:, :2] @ G.T + 0.05 * case["amp"] * np.sin(3 * X[:, :2])).ravel()
    d_prev = np.clip(np.random.default_rng(case["dseed"]).uniform(-0.5, 1.0, mesh.Nn), 0.0, 1.0) * case["dmax"]
    PT = simu.ProblemTypes
    simu._Set_solutions(PT.elastic, u)
    ncrack = min(int(case.get("crack", 0)), mesh.Nn - 3)
    known = np.sort(np.random.default_rng(case["dseed"] + 1).choice(mesh.Nn, size=ncrack, replace=False)) if ncrack > 0 else np.zeros(0, int)
    dcrack = float(case.get("dcrack", 1.0))
    d_prev[known] = np.minimum(d_prev[known], dcrack)
    simu._Set_solutions(PT.damage, d_prev.copy())
    simu.Need_Update()
    if ncrack > 0:
        simu.add_dirichlet(known, [dcrack], ["d"], problemType=PT.damage)
        rec.label("lsq:prescribed_damage")
    A, _, _, b = simu.Get_K_C_M_F(PT.damage)
    A = orc.dense(A)
    b = orc.dense(b).ravel()
    simu._Solver_Solve_problemType(PT.damage)
    d = np.asarray(simu.damage, float)
    lb = np.minimum(d_prev, 1 - np.finfo(float).eps)
    ub = np.ones_like(lb)
    scale_d = 1.0
    if ncrack > 0:
        # the prescribed values hold exactly; the other nodes solve the bounded problem of the reduced system
        # A_ii d_i = b_i - A_ic d_c (the elimination the solver documents), with their own bounds
        rec.require(np.all(np.isfinite(d)), "lsq_finite", "non-finite damage", **sig)
        rec.close(d[known] - dcrack, 1.0, 1e-14, "lsq_prescribed", f"{types}: prescribed damage {dcrack} not held: {d[known]}", **sig)
        free = np.setdiff1d(np.arange(mesh.Nn), known)
        b = b[free] - A[np.ix_(free, known)] @ np.full(known.size, dcrack)
        A = A[np.ix_(free, free)]
        d, lb, ub = d[free], lb[free], ub[free]
    rec.require(np.all(np.isfinite(d)), "lsq_finite", "non-finite damage", **sig)
    rec.require(np.all(d >= lb - 1e-9) and np.all(d <= ub + 1e-9), "lsq_bounds",
                f"damage outside [previous damage, 1]: min(d-lb)={np.min(d - lb):.3e}, max(d-ub)={np.max(d - ub):.3e}", **sig)
    # reference: an independent algorithm (bounded-variable least squares, active set) at a tight tolerance. The
    # back-end stops on the relative change of the cost (tol=1e-10), so it is held to the cost, not to the gradient.
    from scipy.optimize import lsq_linear

    ref = lsq_linear(A, b, bounds=(lb, ub), method="bvls", tol=1e-14, max_iter=200 * A.shape[1])
    d_ref = ref.x
    # the reference must itself be an optimum: converged, and satisfying the KKT conditions of the bounded problem (gradient
    # zero inside, pointing outwards at active bounds); otherwise it decides nothing (observed: BVLS stopping at its
    # iteration cap with a cost above the one of the back-end under test)
    g_ref = A.T @ (A @ d_ref - b)
    gs = float(np.abs(A.T).sum(axis=1).max() * (np.abs(A) @ np.ones_like(d_ref) + np.abs(b)).max()) + 1e-300
    in_ref = (d_ref > lb + 1e-10) & (d_ref < ub - 1e-10)
    kkt = (np.all(np.abs(g_ref[in_ref]) <= 1e-9 * gs) and np.all(g_ref[d_ref <= lb + 1e-10] >= -1e-9 * gs)
           and np.all(g_ref[d_ref >= ub - 1e-10] <= 1e-9 * gs))
    if ref.status <= 0 or not kkt:
        raise Inconclusive("the reference bounded least-squares solve did not reach an optimum")
    cost = 0.5 * float(np.sum((A @ d - b) ** 2))
    cost_ref = 0.5 * float(np.sum((A @ d_ref - b) ** 2))
    cscale = 0.5 * float(np.sum(b**2)) + 0.5 * float(np.sum((np.abs(A) @ np.ones_like(d)) ** 2)) + 1e-300
    rec.note_max("lsq_cost_excess", max(cost - cost_ref, 0.0) / cscale)
    active = bool(np.any(d_ref <= lb + 1e-9) or np.any(d_ref >= ub - 1e-9))
    w = np.linalg.eigvalsh(A.T @ A)
    well = w.min() > 1e-8 * w.max()
    if not active:
        # the unconstrained least-squares solution is feasible: the back-end returns it directly (one linear solve)
        rec.require(cost <= cost_ref + 1e-12 * cscale, "lsq_cost_optimal", f"{types}: cost {cost!r} of the returned damage exceeds the cost "
                    f"{cost_ref!r} of the (feasible) unconstrained least-squares solution", active=False, **sig)
        if well:
            rec.close(d - d_ref, scale_d, 1e-8, "lsq_solution", f"{types}: damage differs from the least-squares solution", active=False, **sig)
    else:
        # active bounds: the trust-region iteration stops on the relative change of the cost (its own rule), which does
        # not bound the distance to the optimum tightly; it is held to 1 % of the optimal cost and 2e-2 on the damage
        rec.note_max("lsq_active_rel_cost_excess", max(cost - cost_ref, 0.0) / (cost_ref + 1e-300))
        # (when the optimum is a consistent solution sitting ON a bound - cost 0, e.g. d = 1 everywhere around a prescribed crack
        # without driving force - the interior iterates of the trust-region method stop 1e-7 of the cost scale above it,
        # measured in the thorough tier at seed 5: the absolute floor is 1e-6 of the cost scale)
        rec.require(cost <= cost_ref * 1.01 + 1e-6 * cscale, "lsq_cost_optimal", f"{types}: cost {cost!r} of the returned damage exceeds the cost "
                    f"{cost_ref!r} of the bounded least-squares solution by more than 1 %", active=True, **sig)
        if well:
            rec.note_max("lsq_active_solution_err", float(np.abs(d - d_ref).max()))
            rec.close(d - d_ref, scale_d, 2e-2, "lsq_solution", f"{types}: damage differs from the bounded least-squares solution", active=True, **sig)
    inside = (d_ref > lb + 1e-7) & (d_ref < ub - 1e-7)
    at_lb = d_ref <= lb + 1e-7
    rec.label("active_lower" if at_lb.any() else "no_active_lower", "inside" if inside.any() else "no_inside")
    rec.nontrivial(bool(inside.any() and at_lb.any()))


SUBS.append(Sub("bounded_lsq", check_lsq, gen=lsq_cases, quick=60, thorough=600, shards=4))


# ------------------------------------------------------------------------------------------
# orphan nodes in a problem whose number of dofs per node differs from the dimension of the simulation (the damage problem of a
# phase-field simulation: 1 dof per node in a 2D simulation): same damage as on the mesh without the orphan nodes, 0 on them


@st.composite
def orphan_pf_cases(draw):
    r = draw(gm.recipes2d(types=["TRI3", "QUAD4", "TRI6"], affine_ok=False, perm_ok=False, hmin=5, hmax=8, nmax=4))
    return dict(recipe=r, orphans=draw(st.integers(1, 3)), perm=draw(st.one_of(st.none(), st.integers(0, 999))),
                regu=draw(st.sampled_from(["AT1", "AT2"])), split=draw(st.sampled_from(["Bourdin", "Amor", "Miehe"])),
                useed=draw(st.integers(0, 999)), amp=draw(st.integers(2, 8)) / 20.0, Gc=draw(st.integers(1, 10)) / 100.0)


def check_orphan_pf(case, rec):
    r0 = dict(case["recipe"], orphans=0, perm=None)
    r1 = dict(case["recipe"], orphans=int(case["orphans"]), perm=case["perm"])
    sig = dict(regu=case["regu"], split=case["split"], orphans=int(case["orphans"]), permuted=case["perm"] is not None)
    out = []
    for r in (r0, r1):
        mesh = gm.build(r)
        if mesh.Nn > 90:
            raise Inconclusive("too large")
        mat = Models.Elastic.Isotropic(2, E=10.0, v=0.3, planeStress=False)
        pfm = Models.PhaseField(mat, case["split"], case["regu"], case["Gc"], 0.4, solver="History")
        simu = Simulations.PhaseField(mesh, pfm)
        X = np.asarray(mesh.coord, float)
        G = np.random.default_rng(case["useed"]).uniform(-1, 1, (2, 2)) * case["amp"]
        u = X[:, :2] @ G.T + 0.05 * case["amp"] * np.sin(3 * X[:, :2])
        orph = np.asarray(mesh.orphanNodes, int)
        u[orph] = 0.0
        PT = simu.ProblemTypes
        simu._Set_solutions(PT.elastic, u.ravel())
        simu.Need_Update()
        with warnings.catch_warnings(record=True) as wlist:
            warnings.simplefilter("always")
            simu._Solver_Solve_problemType(PT.damage)
        sing = [w for w in wlist if "singular" in str(w.message).lower() or "MatrixRank" in type(w.message).__name__]
        if sing and orph.size == 0:
            # the damage problem is singular on the mesh itself (AT1 with no positive energy anywhere: a pure Laplacian):
            # nothing to do with orphan nodes, the comparison decides nothing
            raise Inconclusive("the damage problem is singular without any orphan node")
        rec.require(not sing, "singular_warning", f"damage problem with {orph.size} orphan nodes: singular-matrix warning", **sig)
        out.append((X, np.asarray(simu.damage, float).copy(), orph))
    (X0, d0, _), (X1, d1, orph) = out
    rec.label("types:" + gm.mesh_types(gm.build(r0)), f"orphans:{orph.size}", "permuted" if case["perm"] is not None else "appended")
    rec.require(np.all(np.isfinite(d1)), "finite_solution", "non-finite damage with orphan nodes", **sig)
    used1 = np.setdiff1d(np.arange(X1.shape[0]), orph)
    # match the nodes of the two meshes by their coordinates (same gmsh mesh, renumbered)
    key = lambda P: [tuple(np.round(p, 9)) for p in P]  # noqa: E731
    pos = {k: i for i, k in enumerate(key(X0))}
    idx0 = np.array([pos[k] for k in key(X1[used1])], int)
    rec.close(d1[used1] - d0[idx0], max(float(np.abs(d0).max()), 1e-3), 1e-9, "damage_unchanged_by_orphans",
              f"damage problem ({case['regu']}, {case['split']}): the damage of the mesh nodes changes when {orph.size} orphan node(s) "
              "are added to the mesh", **sig)
    rec.close(d1[orph], max(float(np.abs(d0).max()), 1e-3), 1e-12, "orphan_dofs_zero", "orphan nodes carry a non-zero damage", **sig)
    rec.nontrivial(float(np.abs(d0).max()) > 1e-6)


SUBS.append(Sub("orphans_phasefield", check_orphan_pf, gen=orphan_pf_cases, quick=60, thorough=500, shards=4))


# ------------------------------------------------------------------------------------------
# (added by the lead) orphan nodes under every time scheme: the matrix a transient step inverts is a combination of K, C, M (M alone
# for the explicit scheme, C-dominated for the parabolic one); whatever it is, the orphan dofs must not make it singular, carry zero,
# and the response of the mesh nodes is the one of the mesh without orphan nodes


ORPHAN_SCHEMES = ["newmark", "midpoint", "hht", "hht_newmark", "euler_implicit", "euler_explicit", "parabolic"]


def enum_orphans_dynamic(tier):
    sq = [[0.0, 0.0], [1.2, 0.0], [1.0, 0.9], [0.1, 1.0]]
    for et in ("TRI3", "QUAD4", "TRI6"):
        r = dict(verts=sq, h=0.5, elemType=et, organised=(et == "QUAD4"), extrude=None, layers=0, A=None, b=None, perm=None, orphans=0)
        for algo in ORPHAN_SCHEMES:
            for sim in (("elastic",) if algo != "parabolic" else ("thermal", "elastic")):
                for orphans, perm in ((1, None), (3, 5)):
                    yield dict(recipe=r, algo=algo, sim=sim, orphans=orphans, perm=perm, dt=0.05)


def check_orphans_dynamic(case, rec):
    from EasyFEA import AlgoType

    r0 = dict(case["recipe"], orphans=0, perm=None)
    r1 = dict(case["recipe"], orphans=int(case["orphans"]), perm=case["perm"])
    algo, sim = case["algo"], case["sim"]
    sig = dict(algo=algo, sim=sim, orphans=int(case["orphans"]), permuted=case["perm"] is not None)
    rec.label("algo:" + algo, "sim:" + sim, f"orphans:{case['orphans']}")
    out = []
    for r in (r0, r1):
        mesh = gm.build(r)
        X = np.asarray(mesh.coord, float)
        orph = np.asarray(mesh.orphanNodes, int)
        used = np.setdiff1d(np.arange(mesh.Nn), orph)
        xs = X[used, 0]
        left = used[xs <= xs.min() + 0.25 * np.ptp(xs)]
        right = used[xs >= xs.max() - 0.25 * np.ptp(xs)]
        if sim == "thermal":
            simu = Simulations.Thermal(mesh, Models.Thermal(k=1.5, c=2.0))
            simu.rho = 1.2
            simu.add_dirichlet(left, [1.0], ["t"])
            simu.add_neumann(right, [0.5], ["t"])
            ncomp = 1
        else:
            simu = Simulations.Elastic(mesh, Models.Elastic.Isotropic(2, E=10.0, v=0.3, planeStress=True))
            simu.rho = 1.2
            simu.Set_Rayleigh_Damping_Coefs(coefM=0.3, coefK=0.05)
            simu.add_dirichlet(left, [0.0, 0.01], ["x", "y"])
            simu.add_neumann(right, [0.3, -0.2], ["x", "y"])
            ncomp = 2
        if algo == "parabolic":
            simu.Solver_Set_Parabolic_Algorithm(case["dt"], 0.5)
        else:
            simu.Solver_Set_Hyperbolic_Algorithm(case["dt"], algo=AlgoType(algo), alpha=0.1)
        steps = []
        with warnings.catch_warnings(record=True) as wlist:
            warnings.simplefilter("always")
            for _ in range(2):
                steps.append(np.asarray(simu.Solve(), float).reshape(mesh.Nn, ncomp).copy())
        sing = [w for w in wlist if "singular" in str(w.message).lower() or "MatrixRank" in type(w.message).__name__]
        if sing and orph.size == 0:
            raise Inconclusive("the step is singular without any orphan node")
        rec.require(not sing, "singular_warning", f"{sim} {algo}: singular-matrix warning with {orph.size} orphan node(s)", **sig)
        pt = simu.problemType
        rates = [np.asarray(simu._Get_v_n(pt), float).reshape(mesh.Nn, ncomp)]
        if algo != "parabolic":
            rates.append(np.asarray(simu._Get_a_n(pt), float).reshape(mesh.Nn, ncomp))
        out.append((X, steps, rates, orph, used))
    (X0, s0, q0, _, _), (X1, s1, q1, orph, used1) = out
    finite = all(np.all(np.isfinite(a)) for a in s1 + q1)
    if not rec.require(finite, "finite_solution", f"{sim} {algo}: non-finite state after two steps with {orph.size} orphan node(s)", **sig):
        return
    key = lambda P: [tuple(np.round(p, 9)) for p in P]  # noqa: E731
    pos = {k: i for i, k in enumerate(key(X0))}
    idx0 = np.array([pos[k] for k in key(X1[used1])], int)
    for name, A1, A0 in [("u_step1", s1[0], s0[0]), ("u_step2", s1[1], s0[1]), ("v", q1[0], q0[0])] + ([("a", q1[1], q0[1])] if len(q1) > 1 else []):
        scale = max(float(np.abs(A0).max()), 1e-9)
        rec.close(A1[used1] - A0[idx0], scale, 1e-8, "unchanged_by_orphans",
                  f"{sim} {algo}: {name} of the mesh nodes changes when {orph.size} orphan node(s) are added", field=name, **sig)
        rec.close(A1[orph], scale, 1e-12, "orphan_dofs_zero", f"{sim} {algo}: {name} is not zero on the orphan nodes", field=name, **sig)
    rec.nontrivial(float(np.abs(s0[1]).max()) > 0)


SUBS.append(Sub("orphans_dynamic", check_orphans_dynamic, enum=enum_orphans_dynamic,
                doc="element type x time scheme (all hyperbolic ones and the parabolic one) x elastic / thermal x orphan nodes appended or scattered"))


# ------------------------------------------------------------------------------------------
# (added by the lead) prescribed values given as ARRAYS, one value per listed node, for node lists of every size and order -
# including a list that names every node of the mesh (its array then has the size of a whole-mesh field)


def enum_dirichlet_arrays(tier):
    sq = [[0.0, 0.0], [1.2, 0.0], [1.0, 0.9], [0.1, 1.0]]
    for et in ("TRI3", "QUAD4", "TRI6"):
        r = dict(verts=sq, h=0.5, elemType=et, organised=(et == "QUAD4"), extrude=None, layers=0, A=None, b=None, perm=None, orphans=0)
        for which in ("boundary_sorted", "boundary_shuffled", "all_sorted", "all_shuffled", "all_interior_first", "all_but_one_shuffled"):
            yield dict(recipe=r, which=which)


def check_dirichlet_arrays(case, rec):
    mesh = gm.build(case["recipe"])
    X = np.asarray(mesh.coord, float)
    Nn = mesh.Nn
    bn = np.sort(gm.boundary_nodes(mesh))
    inner = np.setdiff1d(np.arange(Nn), bn)
    which = case["which"]
    shuffle = lambda a: a[np.argsort((a * 7919 + 13) % 101, kind="stable")]  # noqa: E731  (a fixed, order-scrambling permutation)
    nodes = dict(boundary_sorted=bn, boundary_shuffled=shuffle(bn), all_sorted=np.arange(Nn), all_shuffled=shuffle(np.arange(Nn)),
                 all_interior_first=np.concatenate([inner, bn]), all_but_one_shuffled=shuffle(np.arange(Nn))[:-1])[which]
    sig = dict(elemType=case["recipe"]["elemType"], which=which)
    rec.label("nodes:" + which)
    vals = 0.01 * (1.0 + X[nodes, 0] - 2.0 * X[nodes, 1] + 0.25 * np.sin(5.0 * X[nodes, 0]))  # the value meant for nodes[i] is vals[i]
    simu = Simulations.Elastic(mesh, Models.Elastic.Isotropic(2, E=10.0, v=0.3, planeStress=True))
    simu.add_dirichlet(nodes.copy(), [vals.copy()], ["x"])
    # y: clamped on the boundary (the x component alone leaves a rigid translation along y)
    simu.add_dirichlet(bn.copy(), [0.0], ["y"])
    simu.add_volumeLoad(np.arange(Nn), [0.0, -0.1], ["x", "y"])
    u = np.asarray(simu.Solve(), float).reshape(Nn, 2)
    rec.require(bool(np.all(np.isfinite(u))), "finite_solution", f"{which}: non-finite solution", **sig)
    rec.close(u[nodes, 0] - vals, float(np.abs(vals).max()), 1e-12, "dirichlet_array_values",
              f"{sig['elemType']}: add_dirichlet(nodes, [array], ['x']) with {which} ({nodes.size} of {Nn} nodes): the solution at nodes[i] is not array[i]", **sig)
    rec.close(u[bn, 1], float(np.abs(vals).max()), 1e-12, "dirichlet_held", "clamped y component moved", **sig)
    rec.nontrivial(True)


SUBS.append(Sub("dirichlet_arrays", check_dirichlet_arrays, enum=enum_dirichlet_arrays,
                doc="element type x node list (boundary / every node / all but one; sorted, shuffled, interior first) with one prescribed value per listed node"))


# ------------------------------------------------------------------------------------------
# (added by the lead, round 8) damage prescribed on nodes of a phase-field simulation (the usual way a pre-crack is entered), with and
# without a driving force, for every damage solver: the prescribed values hold after the damage solve and after a full staggered
# Solve(), and the other nodes satisfy their rows of the assembled damage system (History solvers: a plain linear solve)


def enum_prescribed_damage(tier):
    sq = [[0.0, 0.0], [1.2, 0.0], [1.0, 0.9], [0.1, 1.0]]
    for et in ("TRI3", "QUAD4"):
        r = dict(verts=sq, h=0.35, elemType=et, organised=(et == "QUAD4"), extrude=None, layers=0, A=None, b=None, perm=None, orphans=0)
        for regu in ("AT1", "AT2"):
            for solver in ("History", "HistoryDamage", "BoundConstrain"):
                for amp in (0.0, 0.02):
                    for dval, nodes in ((1.0, "line"), (0.5, "scattered")):
                        # the damage problem named by the member of simu.ProblemTypes, or by its plain name (the idiom of the examples)
                        yield dict(recipe=r, regu=regu, solver=solver, amp=amp, dval=dval, nodes=nodes, byname=(nodes == "line") == (amp > 0))


def check_prescribed_damage(case, rec):
    mesh = gm.build(case["recipe"])
    X = np.asarray(mesh.coord, float)
    Nn = mesh.Nn
    sig = dict(regu=case["regu"], solver=case["solver"], loaded=case["amp"] > 0, nodes=case["nodes"])
    rec.label("solver:" + case["solver"], "regu:" + case["regu"], "loaded" if case["amp"] > 0 else "no_driving_force",
              "problem_by_name" if case.get("byname") else "problem_by_member")
    if case["nodes"] == "line":
        known = np.argsort(np.abs(X[:, 1] - 0.45) + 0.2 * np.abs(X[:, 0] - 0.3), kind="stable")[:3]
    else:
        known = np.arange(Nn)[:: max(Nn // 4, 1)][:4]
    known = np.sort(np.unique(known))
    free = np.setdiff1d(np.arange(Nn), known)
    dval = float(case["dval"])
    mat = Models.Elastic.Isotropic(2, E=10.0, v=0.3, planeStress=False)

    def new_simu():
        pfm = Models.PhaseField(mat, "Bourdin", case["regu"], 0.05, 0.4, solver=case["solver"])
        simu = Simulations.PhaseField(mesh.copy(), pfm)
        simu.add_dirichlet(known.copy(), [dval], ["d"], problemType="damage" if case.get("byname") else simu.ProblemTypes.damage)
        return simu

    # (1) one damage solve at a given displacement (zero, or a smooth field)
    simu = new_simu()
    PT = simu.ProblemTypes
    u = case["amp"] * (X[:, :2] @ np.array([[1.0, 0.3], [-0.2, 0.6]]).T + 0.1 * np.sin(3 * X[:, :2]))
    simu._Set_solutions(PT.elastic, u.ravel())
    simu.Need_Update()
    d = np.asarray(simu._PhaseField__Solve_damage(), float)
    rec.require(bool(np.all(np.isfinite(d))), "finite_solution", "non-finite damage", **sig)
    rec.close(d[known] - dval, 1.0, 1e-14, "prescribed_damage_held",
              f"damage solve ({case['solver']}, {case['regu']}, {'with' if case['amp'] else 'without'} driving force): the damage prescribed on "
              f"nodes {known.tolist()} is {d[known]} instead of {dval}", stage="damage_solve", **sig)
    if case["solver"] != "BoundConstrain":
        A, _, _, b = simu.Get_K_C_M_F(PT.damage)
        A = orc.dense(A)
        b = orc.dense(b).ravel()
        res = (A @ d - b)[free]
        rscale = float((np.abs(A) @ np.abs(d) + np.abs(b)).max()) + 1e-300
        rec.close(res, rscale, 1e-10, "free_rows_residual", "the nodes without a prescribed damage do not satisfy their rows of Kd d = Fd",
                  stage="damage_solve", **sig)
    # (2) the full staggered step, with supports and a prescribed displacement of the same amplitude
    simu = new_simu()
    bottom = np.where(X[:, 1] <= X[:, 1].min() + 0.15)[0]
    top = np.where(X[:, 1] >= X[:, 1].max() - 0.15)[0]
    simu.add_dirichlet(bottom, [0.0, 0.0], ["x", "y"])
    simu.add_dirichlet(top, [case["amp"]], ["y"])
    out = simu.Solve()
    d2 = np.asarray(out[1], float)
    rec.require(bool(np.all(np.isfinite(d2))), "finite_solution", "non-finite damage after Solve()", **sig)
    rec.close(d2[known] - dval, 1.0, 1e-14, "prescribed_damage_held",
              f"Solve() ({case['solver']}, {case['regu']}, top displacement {case['amp']}): the damage prescribed on nodes {known.tolist()} is "
              f"{d2[known]} instead of {dval}", stage="solve", **sig)
    rec.close(np.asarray(simu.damage, float) - d2, 1.0, 1e-15, "returned_is_current", "Solve() returns another damage than simu.damage", **sig)
    rec.nontrivial(True)


SUBS.append(Sub("prescribed_damage", check_prescribed_damage, enum=enum_prescribed_damage,
                doc="element type x AT1 / AT2 x damage solver x with / without driving force x prescribed value and node set"))


# ------------------------------------------------------------------------------------------
# (added by the lead, round 8) whatever a Newton-incremental Solve() RETURNS solves the assembled equations: the residual the
# library assembles at the returned state vanishes on the free dofs to the accuracy of its own stopping rule, for generous and
# for tight iteration budgets (maxIter is a documented option; a step that cannot converge within it must not return)


@st.composite
def newton_residual_cases(draw):
    return dict(elemType=draw(st.sampled_from(["TRI3", "QUAD4", "TRI6"])), law=draw(st.sampled_from(["NeoHookean", "SaintVenantKirchhoff"])),
                maxIter=draw(st.sampled_from([2, 3, 4, 5, 6, 20])), ux=draw(st.integers(-3, 6)) / 10.0, uy=draw(st.integers(-4, 4)) / 10.0,
                unit=draw(st.sampled_from([1.0, 1.0, 1e6, 1e-3])))


def check_newton_residual(case, rec):
    sq = [[0.0, 0.0], [3.0, 0.0], [3.0, 1.0], [0.0, 1.0]]
    et = case["elemType"]
    r = dict(verts=sq, h=0.5, elemType=et, organised=True, extrude=None, layers=0, A=None, b=None, perm=None, orphans=0)
    mesh = gm.build(r)
    X = np.asarray(mesh.coord, float)
    unit = float(case["unit"])
    mat = Models.HyperElastic.NeoHookean(2, K=5.0 * unit) if case["law"] == "NeoHookean" else Models.HyperElastic.SaintVenantKirchhoff(2, 2.0 * unit, 1.0 * unit)
    absTol = min(1e-6 * unit, 0.5)  # the setter accepts 0 < absTol < 1
    simu = Simulations.HyperElastic(mesh, mat, absTol=absTol, relTol=1e-10, incTol=1e-11 , maxIter=int(case["maxIter"]))
    sig = dict(law=case["law"], elemType=et, maxIter=int(case["maxIter"]))
    rec.label("newton:" + case["law"], f"maxIter:{case['maxIter']}")
    n0 = np.where(X[:, 0] <= 1e-9)[0]
    nL = np.where(X[:, 0] >= 3.0 - 1e-9)[0]
    simu.add_dirichlet(n0, [0.0, 0.0], ["x", "y"])
    simu.add_dirichlet(nL, [float(case["ux"]) * 3.0, float(case["uy"]) * 3.0], ["x", "y"])
    try:
        u = np.asarray(simu.Solve(), float).ravel()
    except Exception as e:
        if not ("converge" in str(e).lower() or "det(F) < 0" in str(e) or "singular" in str(e).lower()):
            raise
        rec.label("newton:refused")
        rec.nontrivial(abs(case["ux"]) + abs(case["uy"]) > 0)  # a refusal decides the case as much as a returned state
        return  # the library said the step did not converge: nothing is returned, nothing to hold
    rec.label("newton:returned")
    if not np.all(np.isfinite(u)):
        raise Inconclusive("non-finite state returned")
    pt = simu.problemType
    known, unknown = simu.Bc_dofs_known_unknown(pt)
    presc = np.asarray(simu.Bc_vector_Dirichlet(), float).ravel()
    rec.close(u[known] - presc[known], float(np.abs(presc).max()) + 1e-300, 1e-12, "newton_dirichlet_held", "constrained dofs of the returned state", **sig)
    # the residual assembled by the library at the returned state (the assembly reads the current Newton state)
    state = simu._Solver_Get_Newton_Raphson_current_solution()
    state[:] = u
    simu.Need_Update()
    F = orc.dense(simu.Get_K_C_M_F(pt)[3]).ravel()
    R = -F - np.asarray(simu.Bc_vector_Neumann(pt), float).ravel()
    rf, rk = float(np.linalg.norm(R[unknown])), float(np.linalg.norm(R[known]))
    # stopping rule: |R| < absTol, or |R| / |R_0| < relTol, or |du| < incTol, all evaluated one iteration before the state that is
    # returned (Newton converges quadratically from there); 1e-6 of the reactions is far above all three
    rec.note_max("newton_rel_residual", rf / (rk + absTol))
    rec.require(rf <= 10 * absTol + 1e-6 * rk, "newton_returned_state_solves", f"{case['law']} {et} maxIter={case['maxIter']}: Solve() returned a state whose "
                f"assembled residual on the free dofs is {rf:.3e} (reactions {rk:.3e}, absTol {absTol:.1e})", **sig)
    rec.nontrivial(abs(case["ux"]) + abs(case["uy"]) > 0)


SUBS.append(Sub("newton_residual", check_newton_residual, gen=newton_residual_cases, quick=40, thorough=400, shards=4,
                doc="hyperelastic block, one prescribed displacement increment of any size, maxIter 2 .. 20: either Solve() refuses, or the returned state solves the assembled equations"))
