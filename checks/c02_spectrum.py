"""C02 - K symmetric PSD with exactly the physical kernel; M SPD and carries the mass."""

import numpy as np
from hypothesis import strategies as st

from EasyFEA import Models, Simulations

from vlib import gen_beam as gb
from vlib import gen_mesh as gm
from vlib import gen_model as gmod
from vlib import oracles as orc
from vlib.runner import Inconclusive, Sub

PROPERTY = "C02"
RULE = (
    "Hypothesis draws connected meshes with >=2 elements of every element type (1D segments, 2D polygons, extruded "
    "3D, affine images; inclined beam members EB/Timoshenko), a positive-definite law, thickness and density (scalar or "
    "per-element field); the assembled K, C, M of Get_K_C_M_F() are analysed by dense eigvalsh. Non-trivial = "
    ">=2 elements sharing >=1 node with a clear spectral gap; distinct = sha1 of the case."
    ' elastic_rows / thermal_rows: enumerated rows of 2 and 3 elements of every continuum type under an affine map (non-trivial = every case).'
    ' mass_fields: enumerated sub-meshes of n elements (n = mass points, stiffness points, 5) of every continuum type with a per-element or per-point density / capacity (non-trivial = every case). elastic_curved / thermal_curved: every 2D type on a bent mesh, reference areas from the element boundaries (Green).'
    ' Round 8: a third of the continuum / thermal cases make read-only queries on the mesh (point evaluation, measures, normals) before the simulation is built.'
)
ASSUMPTIONS = [
    "dense symmetric eigensolver (LAPACK) and analytic rigid-body modes are the oracle",
    "rank decided with a relative gap (<=1e-9 vs >=1e-6 of lambda_max), unclear gaps are inconclusive",
    "meshes <= 600 dofs; Poisson ratio <= 0.45; straight-sided meshes",
]
LEVEL_TEXT = ("generated meshes x element type x law x density/thickness: dense spectral oracle for symmetry, positive "
              "(semi-)definiteness, exact kernel (count and analytic rigid modes), total mass, and solvability once restrained")
LEVEL_NOTE = "exploration with bounded sizes (<=600 dofs); single-element hourglass modes outside the claim (>=2 assembled elements)"
TECHNIQUE = "property-based testing (Hypothesis) vs dense eigen-decomposition and analytic rigid-body modes"
DESIGN_REF = "DESIGN.md 4/C02"
READY = True

MAXDOF = 600


def _sym_psd(rec, A, name, sig, pd=False):
    rec.close(orc.sym_err(A), 1.0, 1e-12, name + "_symmetric", "", **sig)
    w = orc.spectrum(A)
    wmax = np.abs(w).max()
    if pd:
        rec.require(w.min() > 1e-10 * wmax, name + "_spd",
                    f"{sig.get('types', '')}: {name} is not positive definite: lambda_min={w.min():.3e} lambda_max={wmax:.3e} "
                    f"({int((w <= 1e-10 * wmax).sum())} non-positive eigenvalues of {w.size})", **sig)
    else:
        rec.require(w.min() >= -1e-10 * wmax, name + "_psd", f"{name} lambda_min={w.min():.3e} lambda_max={wmax:.3e}", **sig)
    return w


@st.composite
def continuum_cases(draw):
    kind = draw(st.sampled_from(["2d", "2d", "3d", "m2d", "m3d"]))
    if kind == "2d":
        r = draw(gm.recipes2d(perm_ok=True, bend_ok=True))
        law = draw(gmod.elastic_specs(2))
    elif kind == "3d":
        r = draw(gm.recipes3d(perm_ok=True, taper_ok=True, bend_ok=True))
        law = draw(gmod.elastic_specs(3))
    else:  # deliberately mixed meshes (Mesh.Merge of two blocks of different element types)
        d = 2 if kind == "m2d" else 3
        r = draw(gm.merged_recipes(d))
        law = draw(gmod.elastic_specs(d))
    rho = draw(st.integers(1, 12)) / 4.0
    rho_field = draw(st.one_of(st.none(), st.integers(0, 99)))
    load_seed = draw(st.integers(0, 999))
    # read-only queries made on the mesh before the simulation is built (0 = none): point evaluation, measures, normals
    return dict(recipe=r, law=law, rho=rho, rho_field=rho_field, load_seed=load_seed, warm=draw(st.sampled_from([0, 0, 1, 3, 5, 7])))


def _measures_e(mesh, g):
    """element measures of a main group; planar 2D meshes: from the element boundaries alone (Green's theorem on the edge
    interpolants, vlib.oracles.green_areas) - no quadrature rule of the library, so that a mass rule that is wrong on curved
    elements is not its own reference; otherwise the library's integral of 1 (exactness: C07)"""
    X = np.asarray(mesh.coord, float)
    if g.dim == 2 and float(np.ptp(X[:, 2])) == 0.0:
        return np.abs(orc.green_areas(g, X))
    return np.asarray(g.Integrate_e(lambda x, y, z: 1.0 + 0 * x), float)


def _measure(mesh):
    return sum(float(np.sum(_measures_e(mesh, g))) for g in gm.main_groups(mesh))


def check_elastic(case, rec):
    r = case["recipe"]
    dim = gm.dim_any(r)
    mesh = gm.build_any(r)
    if mesh.Nn * dim > MAXDOF:
        raise Inconclusive("too many dofs for the dense oracle")
    if mesh.Ne < 2 or not gm.is_connected(mesh):
        raise Inconclusive("needs >=2 connected elements")
    types = gm.mesh_types(mesh)
    sig = dict(elemType=r["elemType"], types=types, dim=dim, law=case["law"]["cls"])
    rec.label("types:" + types, "law:" + case["law"]["cls"])
    mat = gmod.make_elastic(case["law"])
    gm.warm_queries(mesh, case.get("warm", 0))
    rec.label("warm" if case.get("warm") else "cold")
    simu = Simulations.Elastic(mesh, mat)
    groups = gm.main_groups(mesh)
    rho = case["rho"]
    rho_exact_mass = None
    if case["rho_field"] is not None and len(groups) == 1:
        rng = np.random.default_rng(case["rho_field"])
        rho_e = rng.uniform(0.5, 2.0, groups[0].Ne)
        simu.rho = rho_e
        vol_e = _measures_e(mesh, groups[0])
        rho_exact_mass = float(rho_e @ vol_e)
        rec.label("rho:per-element")
    else:
        simu.rho = rho
        rho_exact_mass = rho * _measure(mesh)
        rec.label("rho:scalar")
    th = float(mat.thickness) if dim == 2 else 1.0
    rho_exact_mass *= th

    K, C, M, F = simu.Get_K_C_M_F()
    K, M = orc.dense(K), orc.dense(M)
    used = gm.used_nodes(mesh)
    dofs = (used[:, None] * dim + np.arange(dim)[None, :]).ravel()
    K, M = K[np.ix_(dofs, dofs)], M[np.ix_(dofs, dofs)]

    wK = _sym_psd(rec, K, "K", sig)
    k, clear = orc.nullity_gap(wK)
    if not clear:
        raise Inconclusive("rank gap of K not clear")
    nrig = 3 if dim == 2 else 6
    rec.require(k == nrig, "K_nullity", f"{types} {case['law']['cls']}: K has {k} zero-energy modes, expected {nrig} "
                f"(Ne={mesh.Ne})", **sig)
    R = orc.rigid_modes(np.asarray(mesh.coord, float)[used], dim)
    scale = np.abs(K).max() * np.abs(R).max()
    rec.close(K @ R, scale, 1e-10, "K_rigid_modes", f"{types}: K R != 0 for the analytic rigid-body modes", **sig)

    wM = _sym_psd(rec, M, "M", sig, pd=True)
    one = np.zeros((used.size, dim))
    for d in range(dim):
        e = np.zeros((used.size, dim))
        e[:, d] = 1
        tot = float(e.ravel() @ M @ e.ravel())
        rec.close(tot - rho_exact_mass, rho_exact_mass, 1e-11, "M_total_mass",
                  f"{types}: 1^T M 1 (direction {d}) = {tot!r}, rho x measure x thickness = {rho_exact_mass!r}", **sig)
    rec.close(float(simu.mass) - rho_exact_mass, rho_exact_mass, 1e-11, "simu_mass", f"simu.mass={simu.mass!r}", **sig)

    # uniquely solvable once the rigid modes are restrained: fix dofs of 1 node (+1/2 more components)
    c = np.asarray(mesh.coord, float)[used]
    i0 = 0
    far = int(np.argmax(np.linalg.norm(c - c[i0], axis=1)))
    fixed = [i0 * dim + d for d in range(dim)]
    dvec = c[far] - c[i0]
    if dim == 2:
        comp = 1 if abs(dvec[0]) >= abs(dvec[1]) else 0
        fixed.append(far * 2 + comp)
    else:
        # fix all of node 'far' that is not along the axis, plus a third node
        order = np.argsort(-np.abs(dvec[:3]))
        fixed += [far * 3 + int(order[1]), far * 3 + int(order[2])]
        # third node: farthest from the line (i0, far)
        t = dvec / np.linalg.norm(dvec)
        off = (c - c[i0]) - np.outer((c - c[i0]) @ t, t)
        third = int(np.argmax(np.linalg.norm(off, axis=1)))
        n = np.cross(t, off[third] / (np.linalg.norm(off[third]) + 1e-300))
        fixed.append(third * 3 + int(np.argmax(np.abs(n))))
    free = np.setdiff1d(np.arange(K.shape[0]), fixed)
    Kff = K[np.ix_(free, free)]
    wf = orc.spectrum(Kff)
    if wf.min() <= 1e-9 * wf.max():
        # my restraint choice did not kill all rigid modes (degenerate geometry) -> not decisive
        raise Inconclusive("harness restraint set not statically determinate")
    f = np.random.default_rng(case["load_seed"]).uniform(-1, 1, free.size)
    u = np.linalg.solve(Kff, f)
    rec.close(Kff @ u - f, np.abs(Kff).max() * np.abs(u).max() + 1, 1e-8, "restrained_solvable", "", **sig)
    rec.nontrivial(True)


@st.composite
def thermal_cases(draw):
    kind = draw(st.sampled_from(["1d", "2d", "2d", "3d"]))
    r = draw(gm.recipes1d() if kind == "1d" else gm.recipes2d(bend_ok=True) if kind == "2d" else gm.recipes3d(taper_ok=True, bend_ok=True))
    return dict(recipe=r, k=draw(st.integers(1, 20)) / 4.0, c=draw(st.integers(1, 12)) / 4.0,
                rho=draw(st.integers(1, 12)) / 4.0, thickness=draw(st.sampled_from([1.0, 0.5, 2.0])), warm=draw(st.sampled_from([0, 0, 1, 3, 5, 7])))


def check_thermal(case, rec):
    r = case["recipe"]
    dim = gm.dim_of(r["elemType"])
    mesh = gm.build(r)
    if mesh.Nn > MAXDOF:
        raise Inconclusive("too many dofs for the dense oracle")
    if mesh.Ne < 2 or not gm.is_connected(mesh):
        raise Inconclusive("needs >=2 connected elements")
    types = gm.mesh_types(mesh)
    sig = dict(elemType=r["elemType"], types=types, dim=dim)
    rec.label("types:" + types)
    gm.warm_queries(mesh, case.get("warm", 0))
    rec.label("warm" if case.get("warm") else "cold")
    simu = Simulations.Thermal(mesh, Models.Thermal(k=case["k"], c=case["c"], thickness=case["thickness"]))
    simu.rho = case["rho"]
    K, C, M, F = simu.Get_K_C_M_F()
    used = gm.used_nodes(mesh)
    K = orc.dense(K)[np.ix_(used, used)]
    C = orc.dense(C)[np.ix_(used, used)]
    wK = _sym_psd(rec, K, "K", sig)
    k, clear = orc.nullity_gap(wK)
    if not clear:
        raise Inconclusive("rank gap of K not clear")
    rec.require(k == 1, "K_nullity", f"{types}: conduction K has {k} zero modes, expected 1 (Ne={mesh.Ne})", **sig)
    rec.close(K @ np.ones(used.size), np.abs(K).max(), 1e-10, "K_constants", "K 1 != 0", **sig)
    _sym_psd(rec, C, "C", sig, pd=True)
    th = case["thickness"] if dim == 2 else 1.0
    ex = case["rho"] * case["c"] * _measure(mesh) * th
    tot = float(np.ones(used.size) @ C @ np.ones(used.size))
    rec.close(tot - ex, ex, 1e-11, "C_total_capacity", f"{types}: 1^T C 1 = {tot!r} vs rho c measure thickness = {ex!r}", **sig)
    rec.nontrivial(True)


@st.composite
def beam_cases(draw):
    spec = draw(gb.member_specs(dims=(2, 3)))
    return dict(member=spec, rho=draw(st.integers(1, 12)) / 4.0)


def check_beam(case, rec):
    spec = case["member"]
    dim = spec["dim"]
    simu, mesh, beam, frame = gb.build_member(spec)
    kind = "timo" if spec["timoshenko"] else "eb"
    sig = dict(elemType=spec["elemType"], dim=dim, kind=kind)
    rec.label(f"beam:{kind}:{spec['elemType']}:{dim}d")
    simu.rho = case["rho"]
    K, C, M, F = simu.Get_K_C_M_F()
    K, M = orc.dense(K), orc.dense(M)
    dof_n = simu.Get_dof_n()
    wK = _sym_psd(rec, K, "K", sig)
    k, clear = orc.nullity_gap(wK)
    if not clear:
        raise Inconclusive("rank gap of K not clear")
    nrig = 3 if dim == 2 else 6
    rec.require(k == nrig, "K_nullity", f"{kind} {spec['elemType']} {dim}D member d={spec['d']}: K has {k} zero-energy "
                f"modes, expected {nrig}", **sig)
    # analytic rigid modes incl. rotation dofs = omega
    c = np.asarray(mesh.coord, float)
    N = mesh.Nn
    modes = []
    for d in range(dim):
        m = np.zeros((N, dof_n))
        m[:, d] = 1
        modes.append(m.ravel())
    if dim == 2:
        m = np.zeros((N, 3))
        m[:, 0], m[:, 1], m[:, 2] = -c[:, 1], c[:, 0], 1.0
        modes.append(m.ravel())
    else:
        for w in np.eye(3):
            m = np.zeros((N, 6))
            m[:, :3] = np.cross(w[None, :], c)
            m[:, 3:] = w[None, :]
            modes.append(m.ravel())
    R = np.array(modes).T
    rec.close(K @ R, np.abs(K).max() * np.abs(R).max(), 1e-9, "K_rigid_modes", f"{kind} {spec['elemType']} d={spec['d']}: K R != 0", **sig)
    _sym_psd(rec, M, "M", sig)
    A, Iy, Iz = gb.section_props(spec["b"], spec["h"])
    L = float(np.linalg.norm(spec["d"]))
    ex = case["rho"] * A * L
    for d in range(dim):
        e = np.zeros((N, dof_n))
        e[:, d] = 1
        tot = float(e.ravel() @ M @ e.ravel())
        rec.close(tot - ex, ex, 1e-9, "M_translational_mass", f"{kind} {spec['elemType']}: direction {d}: {tot!r} vs rho A L = {ex!r}", **sig)
    rec.close(float(simu.mass) - ex, ex, 1e-10, "simu_mass", f"simu.mass={simu.mass!r} vs {ex!r}", **sig)
    rec.nontrivial(True)


SUBS = [
    Sub("elastic", check_elastic, gen=continuum_cases, quick=150, thorough=500, shards=8),
    Sub("thermal", check_thermal, gen=thermal_cases, quick=150, thorough=600, shards=4),
    Sub("beam", check_beam, gen=beam_cases, quick=120, thorough=600, shards=4),
]


# ------------------------------------------------------------------------------------------
# rows of elements (n x 1 (x 1), n = 2, 3): the meshes on which element-level mechanisms of an under-integrated stiffness are the
# most likely to survive assembly (the generated meshes are rarely one element thick in two directions); every continuum type


def _row_recipes():
    A2 = [[1.1, 0.3], [-0.2, 0.9]]
    A3 = [[1.1, 0.3, 0.1], [-0.2, 0.9, 0.2], [0.1, -0.1, 1.2]]
    for et in gm.T2D + gm.T3D:
        d3 = et in gm.T3D
        for L in (2.0, 3.0):
            yield dict(verts=[[0.0, 0.0], [L, 0.0], [L, 1.0], [0.0, 1.0]], h=1.0, elemType=et, organised=True,
                       extrude=[0.0, 0.0, 1.0] if d3 else None, layers=1 if d3 else 0, A=A3 if d3 else A2,
                       b=[0.3, -0.2, 0.1] if d3 else [0.3, -0.2], perm=None, orphans=0)


def enum_rows_elastic(tier):
    for i, r in enumerate(_row_recipes()):
        dim = gm.dim_of(r["elemType"])
        law = dict(cls="iso", dim=dim, planeStress=(i % 2 == 0) and dim == 2, thickness=0.5 if dim == 2 else 1.0, E=3.0, v=0.3,
                   angles=[0.1] * (3 if dim == 3 else 1))
        yield dict(recipe=r, law=law, rho=1.5, rho_field=None, load_seed=i)


def enum_rows_thermal(tier):
    for r in _row_recipes():
        yield dict(recipe=r, k=1.5, c=2.0, rho=0.75, thickness=0.5)


SUBS.append(Sub("elastic_rows", check_elastic, enum=enum_rows_elastic))
SUBS.append(Sub("thermal_rows", check_thermal, enum=enum_rows_thermal))


# ------------------------------------------------------------------------------------------
# (added by the lead) "carries the mass" with a density / capacity FIELD: one value per element, or one value per
# element and integration point, on meshes whose element count coincides with the number of integration points of the
# mass or stiffness rule (the sizes at which a 1-D array of coefficients is ambiguous) and on meshes where it does not


def _submesh(mesh, n):
    """n elements spread over a single-type mesh as a mesh of its own (main group only, nodes renumbered)"""
    from EasyFEA import Mesh
    from EasyFEA.FEM._group_elem import GroupElemFactory

    g = gm.main_groups(mesh)[0]
    conn = np.asarray(g.connect, int)[np.round(np.linspace(0, g.Ne - 1, n)).astype(int)]
    nodes, inv = np.unique(conn, return_inverse=True)
    return Mesh({g.elemType: GroupElemFactory.Create(g.elemType, inv.reshape(conn.shape), np.asarray(mesh.coord, float)[nodes])})


def enum_mass_fields(tier):
    from EasyFEA import ElemType, MatrixType
    from EasyFEA.FEM._gauss import Gauss

    sq = [[1.0, 0.0], [0.3, 1.2], [-1.0, 0.2], [-0.1, -0.9]]  # a general quadrangle: elements of unequal size in every mesh
    for et in gm.T2D + gm.T3D:
        d3 = et in gm.T3D
        shape = orc.shape_of(et)
        r = dict(verts=sq, h=0.4, elemType=et, organised=shape in ("QUAD", "HEXA"), extrude=[0.1, 0.0, 0.9] if d3 else None,
                 layers=3 if d3 else 0, A=None, b=None, perm=None, orphans=0)
        counts = sorted({Gauss(ElemType(et), MatrixType.mass).nPg, Gauss(ElemType(et), MatrixType.rigi).nPg, 5})
        for n in counts:
            for form in ("per_element", "per_point"):
                for sim in ("elastic", "thermal"):
                    yield dict(recipe=r, n=n, form=form, sim=sim)


def check_mass_fields(case, rec):
    from EasyFEA import MatrixType

    r = case["recipe"]
    et = r["elemType"]
    dim = gm.dim_of(et)
    full = gm.build(r)
    n = max(int(case["n"]), 2)
    if full.Ne < n:
        raise Inconclusive(f"the base mesh has {full.Ne} < {n} elements")
    mesh = _submesh(full, n)
    g = gm.main_groups(mesh)[0]
    wJ = np.asarray(g.Get_weightedJacobian_e_pg(MatrixType.mass), float)
    nPg = wJ.shape[1]
    vol_e = wJ.sum(axis=1)
    sig = dict(elemType=et, dim=dim, form=case["form"], sim=case["sim"], coincidence=("Ne==nPg" if n == nPg else "none"))
    rec.label("field:" + case["form"], "sim:" + case["sim"], "sizes:" + sig["coincidence"])
    assert float(np.ptp(vol_e)) > 1e-3 * float(vol_e.mean()), "harness: the elements of the sub-mesh have equal size"
    rho_e = 0.5 + 1.5 * (np.arange(n) % 7) / 6.0 + 0.01 * np.arange(n)
    if case["form"] == "per_element":
        field = rho_e
        exact = float(rho_e @ vol_e)
    else:
        field = rho_e[:, None] * (1.0 + 0.25 * np.arange(nPg)[None, :])
        exact = float(np.sum(field * wJ))
    th = 0.5 if dim == 2 else 1.0
    if case["sim"] == "elastic":
        mat = gmod.make_elastic(dict(cls="iso", dim=dim, planeStress=dim == 2, thickness=th, E=3.0, v=0.3, angles=[0.0] * (3 if dim == 3 else 1)))
        simu = Simulations.Elastic(mesh, mat)
        simu.rho = field.copy()
        M = orc.dense(simu.Get_K_C_M_F()[2])
        ncomp = dim
    else:
        simu = Simulations.Thermal(mesh, Models.Thermal(k=1.5, c=field.copy(), thickness=th))
        simu.rho = 2.0
        exact *= 2.0
        M = orc.dense(simu.Get_K_C_M_F()[1])
        ncomp = 1
    exact *= th
    _sym_psd(rec, M, "M", sig, pd=True)
    for d in range(ncomp):
        e = np.zeros((mesh.Nn, ncomp))
        e[:, d] = 1.0
        tot = float(e.ravel() @ M @ e.ravel())
        rec.close(tot - exact, exact, 1e-11, "M_total_mass_field",
                  f"{et} Ne={n} nPg(mass)={nPg} {case['sim']} {case['form']} coefficient: 1^T M 1 (direction {d}) = {tot!r} vs "
                  f"sum of coefficient x weighted jacobian x thickness = {exact!r}", **sig)
    if case["sim"] == "elastic":
        rec.close(float(simu.mass) - exact, exact, 1e-11, "simu_mass_field", f"simu.mass={simu.mass!r} vs {exact!r}", **sig)
    rec.nontrivial(True)


SUBS.append(Sub("mass_fields", check_mass_fields, enum=enum_mass_fields,
                doc="element type x element count (= mass points, = stiffness points, 5) x per-element / per-point density or capacity x elastic / thermal"))


# (added by the lead) curved (bent) 2D elements of every type: total mass / capacity against the boundary-based areas


def _curved_recipes():
    sq = [[1.0, 0.0], [0.3, 1.2], [-1.0, 0.2], [-0.1, -0.9]]
    for et in gm.T2D:
        for bend in (-0.12, 0.15):
            yield dict(verts=sq, h=0.7, elemType=et, organised=False, extrude=None, layers=0, A=None, b=None, perm=None, orphans=0, bend=bend)


def enum_curved_elastic(tier):
    for i, r in enumerate(_curved_recipes()):
        law = dict(cls="iso", dim=2, planeStress=(i % 2 == 0), thickness=0.5, E=3.0, v=0.3, angles=[0.1])
        yield dict(recipe=r, law=law, rho=1.5, rho_field=(7 if i % 2 else None), load_seed=i)


def enum_curved_thermal(tier):
    for r in _curved_recipes():
        yield dict(recipe=r, k=1.5, c=2.0, rho=0.75, thickness=0.5)


SUBS.append(Sub("elastic_curved", check_elastic, enum=enum_curved_elastic, doc="every 2D element type x bent geometry: spectrum of K, M SPD, total mass vs boundary-based areas"))
SUBS.append(Sub("thermal_curved", check_thermal, enum=enum_curved_thermal, doc="every 2D element type x bent geometry: conduction kernel, capacity total vs boundary-based areas"))


# (added by the lead) structures of several members with DIFFERENT sections and moduli: translational mass = rho sum A_i L_i, M
# symmetric positive semi-definite, K symmetric positive semi-definite (two unconnected members: twice the rigid-body modes)


@st.composite
def structure_cases(draw):
    spec = draw(gb.member_specs(dims=(2, 3), types=("SEG2", "SEG3", "SEG4")))
    return dict(member=spec, rho=draw(st.integers(1, 12)) / 4.0, split=draw(st.integers(3, 7)) / 10.0,
                b2=draw(st.integers(2, 6)) / 10.0, h2=draw(st.integers(2, 6)) / 10.0, E2=draw(st.integers(2, 20)) * 10.0, order=draw(st.booleans()))


def check_structure(case, rec):
    from EasyFEA import ElemType, Mesher
    from EasyFEA.Geoms import Line, Point

    spec = case["member"]
    dim = spec["dim"]
    kind = "timo" if spec["timoshenko"] else "eb"
    sig = dict(elemType=spec["elemType"], dim=dim, kind=kind)
    rec.label(f"structure:{kind}:{spec['elemType']}:{dim}d")
    p1 = np.array(spec["p1"], float)
    d = np.array(spec["d"], float)
    L = float(np.linalg.norm(d))
    pm, p2 = p1 + case["split"] * d, p1 + d
    y0 = tuple(spec["yAxis"]) if spec.get("yAxis") else (0.0, 1.0, 0.0)
    if np.linalg.norm(np.cross(d / L, y0)) <= 1e-6:
        y0 = tuple(np.cross([0, 0, 1.0], d / L)) if np.linalg.norm(np.cross([0, 0, 1.0], d / L)) > 1e-6 else (1.0, 0.0, 0.0)
    la = Line(Point(*p1), Point(*pm), L * case["split"] / 2)
    lb = Line(Point(*pm), Point(*p2), L * (1 - case["split"]) / 2)
    ba = Models.Beam.Isotropic(dim, la, gb._section(spec["b"], spec["h"]).copy(), spec["E"], spec["v"], yAxis=y0)
    bb = Models.Beam.Isotropic(dim, lb, gb._section(case["b2"], case["h2"]).copy(), case["E2"], spec["v"], yAxis=y0)
    beams = [ba, bb] if case["order"] else [bb, ba]
    mesh = Mesher().Mesh_Beams(beams, elemType=ElemType(spec["elemType"]))
    simu = Simulations.Beam(mesh, Models.Beam.BeamStructure(beams), useTimoshenko=bool(spec["timoshenko"]))
    simu.rho = case["rho"]
    mesh = simu.mesh
    K, C, M, F = simu.Get_K_C_M_F()
    K, M = orc.dense(K), orc.dense(M)
    dof_n = simu.Get_dof_n()
    N = mesh.Nn
    _sym_psd(rec, K, "K", sig)
    _sym_psd(rec, M, "M", sig)
    A1 = gb.section_props(spec["b"], spec["h"])[0]
    A2 = gb.section_props(case["b2"], case["h2"])[0]
    ex = case["rho"] * (A1 * L * case["split"] + A2 * L * (1 - case["split"]))
    rec.label("sections:equal" if abs(A1 - A2) < 1e-12 else "sections:different")
    for dd in range(dim):
        e = np.zeros((N, dof_n))
        e[:, dd] = 1
        tot = float(e.ravel() @ M[: N * dof_n, : N * dof_n] @ e.ravel())
        rec.close(tot - ex, ex, 1e-9, "M_translational_mass", f"{kind} {spec['elemType']} two members (areas {A1:.3f}, {A2:.3f}): direction {dd}: "
                  f"{tot!r} vs rho sum A_i L_i = {ex!r}", **sig)
    rec.close(float(simu.mass) - ex, ex, 1e-10, "simu_mass", f"simu.mass={simu.mass!r} vs {ex!r}", **sig)
    rec.nontrivial(abs(A1 - A2) > 1e-12)


SUBS.append(Sub("beam_structure", check_structure, gen=structure_cases, quick=80, thorough=500, shards=4))
