"""C12 - FeArray algebra equals the per-(element, Gauss point) tensor operation.

Every case builds small raw ndarrays from integers drawn by Hypothesis, views some of them as FeArray
(the code under test only ever sees copies), runs ONE FeArray expression, and compares it with explicit
python loops over (e, p) that apply the plain numpy operation to raw[e, p] and to constants as they are.
The oracle never touches FeArray code.
"""

import operator

import numpy as np
from hypothesis import strategies as st

from EasyFEA import ElemType, MatrixType
from EasyFEA.FEM import Field, GroupElemFactory
from EasyFEA.FEM._linalg import FeArray, Det, Inv, Norm, Normalize, TensorProd, Trace, Transpose

from vlib.runner import Sub

PROPERTY = "C12"
RULE = (
    "Hypothesis draws (Ne, nPg, d) in 1..4 from three regimes (collide: Ne==nPg==d; size1: at least one of "
    "them is 1; free), tensor shapes of rank 0-2 (0-4 for dot/ddot/TensorProd/.T) whose dims are d, 1 or "
    "another value, operand kinds FeArray (leading axes full/(1,1)/(1,nPg)/(Ne,1)), plain ndarray, python "
    "scalar, Field, both operand orders, operator and np.<ufunc> forms; values are integers/4 from a seed "
    "drawn by Hypothesis. Ill-typed per-point operations are generated on purpose (about 10-25 %): there the "
    "FeArray expression must raise. non-trivial = some coincidence among Ne, nPg and the tensor dims, or a "
    "size-1 axis, or mixed operand kinds; distinct = sha1 of the serialised case (op, form, kinds, leading "
    "axes, shapes, axis, value seed)."
    " Round 8: rank 3 is drawn as often as the other ranks; rank_pairs enumerates operation x rank of the left operand x rank of the right operand x operand kinds; the library's Norm wrapper is one of the reducers."
    ' Round 9: quantile / percentile among the reducers; ravel in C or Fortran order (positional / keyword).'
)
ASSUMPTIONS = [
    "numpy applied to raw[e, p] slices (np.matmul, np.tensordot axes=1/2, np.swapaxes, np.trace, np.linalg.det/inv/"
    "norm, np.<reducer>) is the trusted reference; constants are passed to it unchanged",
    "single contraction = last axis of A with first axis of B, double contraction = last two of A with first two "
    "of B (A_ij B_ij, A_ijkl B_kl), TensorProd = A_i B_j / A_ij B_kl (symmetric: (A_ik B_jl + A_il B_jk)/2), "
    "FeArray.T reverses the tensor axes",
    "documented contracts count as ill-typed: Trace/Det/Inv need square trailing matrices, TensorProd needs equal "
    "ranks 1 or 2, dot needs ranks >= 1, ddot ranks >= 2, @ needs ranks 1 or 2 (numpy's own rule)",
    "only float64 operands; / and ** on positive operands; Det/Inv on matrices with smallest singular value >= 1",
    "reshape is checked in C order only; np.where/einsum/concatenate/solve with operands already of equal rank "
    "(numpy's own broadcasting, as the class docstring states); FeArray.broadcast "
    "with tensor-valued coefficients only with tensor_ndim given (the documented way to disambiguate)",
    "Ne, nPg, dims <= 4, ranks <= 4",
]

TOL = 1e-12

# what "the FeArray expression raises" means around the single call under test
EXC_CUT = (ValueError, TypeError, KeyError, IndexError, AssertionError, AttributeError)
# numpy's own rejections of an ill-typed per-point operation (LinAlgError, AxisError derive from these)
EXC_ORACLE = (ValueError, TypeError, IndexError)


class IllTyped(Exception):
    pass


# ------------------------------------------------------------------------------------------
# shared generators


@st.composite
def fe_dims(draw):
    mode = draw(st.sampled_from(["collide", "collide", "size1", "free", "free"]))
    if mode == "collide":
        n = draw(st.integers(1, 4))
        return n, n, n
    Ne, nPg, d = (draw(st.integers(1, 4)) for _ in range(3))
    if mode == "size1":
        i = draw(st.integers(0, 2))
        Ne, nPg, d = (1 if i == 0 else Ne), (1 if i == 1 else nPg), (1 if i == 2 else d)
    return Ne, nPg, d


def tshape(draw, rank, d, p_other=5):
    """tensor shape of the given rank: dims are mostly d, sometimes 1 or another value"""
    out = []
    for _ in range(rank):
        c = draw(st.integers(0, p_other + 1))
        out.append(d if c < p_other else (1 if c == p_other else draw(st.integers(1, 4))))
    return out


SEED = st.integers(0, 2**16)


def fe_spec(t, lead="full"):
    return dict(kind="fe", lead=lead, t=list(t))


def arr_spec(t):
    return dict(kind="arr", t=list(t))


def sc_spec(v):
    return dict(kind="sc", v=int(v))


# ------------------------------------------------------------------------------------------
# operands: raw data for the oracle, a separate object for the code under test


def vals(k, shape, mode="any"):
    rng = np.random.default_rng(int(k))
    shape = tuple(int(s) for s in shape)
    if mode == "pos":
        return rng.integers(1, 9, size=shape) / 4.0
    if mode == "mat":
        a = rng.integers(-8, 9, size=shape) / 8.0
        if len(shape) >= 2 and shape[-1] == shape[-2]:
            a = a + 5.0 * np.eye(shape[-1])
        return a
    return rng.integers(-8, 9, size=shape) / 4.0


def lead_shape(lead, Ne, nPg):
    return dict(full=(Ne, nPg), one=(1, 1), row=(1, nPg), col=(Ne, 1))[lead]


class Operand:
    """raw: ndarray or float the oracle works on; obj: what the code under test receives"""

    def __init__(self, spec, Ne, nPg, k, mode="any"):
        self.kind = spec["kind"]
        self.is_fe = self.kind in ("fe", "field")
        if self.kind == "fe":
            self.raw = vals(k, lead_shape(spec["lead"], Ne, nPg) + tuple(spec["t"]), mode)
            self.obj = FeArray.asfearray(self.raw.copy())
            self.rank = len(spec["t"])
            self.dims = list(spec["t"])
        elif self.kind == "arr":
            self.raw = vals(k, tuple(spec["t"]), mode)
            self.obj = self.raw.copy()
            self.rank = len(spec["t"])
            self.dims = list(spec["t"])
        elif self.kind == "sc":
            v = int(spec["v"])
            if mode in ("pos", "mat"):
                v = abs(v) + 1
            self.raw = v / 4.0
            self.obj = v / 4.0
            self.rank = 0
            self.dims = []
        elif self.kind == "field":
            self.obj = make_field(spec["src"], spec["node"])
            self.raw = np.array(np.asarray(self.obj()), dtype=float)  # (1, nPg, 1) shape function values
            assert self.raw.shape == (1, nPg, 1), (self.raw.shape, nPg)
            self.rank = 1
            self.dims = [1]
        else:  # pragma: no cover
            raise AssertionError(spec)

    def at(self, e, p):
        if not self.is_fe:
            return self.raw
        r = self.raw
        return r[min(e, r.shape[0] - 1), min(p, r.shape[1] - 1)]

    @property
    def amax(self):
        return float(np.max(np.abs(self.raw))) if np.size(self.raw) else 0.0


def pointwise(fn, operands, Ne, nPg):
    """explicit loops over (e, p): fn(numpy slices / constants). Raises IllTyped when numpy rejects it."""
    out = []
    for e in range(Ne):
        for p in range(nPg):
            args = [o.at(e, p) for o in operands]
            try:
                r = fn(*args)
            except EXC_ORACLE as ex:
                raise IllTyped(f"{type(ex).__name__}: {ex}")
            out.append(np.asarray(r))
    return np.stack(out).reshape((Ne, nPg) + out[0].shape)


def call(fn):
    """the single call under test; a raise is an outcome that the caller compares with the oracle"""
    try:
        return True, fn()
    except EXC_CUT as ex:
        return False, ex


def classify(rec, Ne, nPg, dims, kinds):
    dims = [int(x) for x in dims]
    coll = Ne == nPg or Ne in dims or nPg in dims
    full = Ne == nPg and (Ne in dims)
    size1 = 1 in [Ne, nPg] + dims
    mixed = len(set(kinds)) > 1
    rec.label("class:collision" if coll else "class:no_collision")
    if full:
        rec.label("class:Ne==nPg==d")
    if size1:
        rec.label("class:size1")
    if coll or size1:
        rec.label("class:collision_or_size1")
    rec.nontrivial(coll or size1 or mixed)
    return bool(coll)


def judge(rec, ok, got, ref, illtyped, expect_fe, scale, sig, what):
    """compare one outcome of the code under test with the oracle. Returns False as soon as a listed
    known finding absorbed a failure (nothing more to learn from the case)."""
    if illtyped is not None:
        rec.label("illtyped")
        if not ok:
            rec.label("illtyped_raise:" + type(got).__name__)
        return rec.require(
            not ok, "illtyped_must_raise",
            lambda: f"{what}: the per-point operation is ill-typed in numpy ({illtyped}) but the FeArray "
            f"expression returned {type(got).__name__}{np.shape(got)}", **sig)
    if not ok:
        return rec.require(False, "raises_on_welltyped",
                           f"{what}: per-point operation is well-typed (result {ref.shape[2:] if ref.ndim >= 2 else ref.shape}) "
                           f"but the FeArray expression raised {type(got).__name__}: {got}"[:400], **sig)
    if expect_fe is True:
        if not rec.require(type(got) is FeArray, "type_rule",
                           f"{what}: (Ne,nPg) axes preserved but result is {type(got).__name__}{np.shape(got)}", **sig):
            return False
    elif expect_fe is False:
        if not rec.require(not isinstance(got, FeArray), "type_rule",
                           f"{what}: (Ne,nPg) axes not preserved but result is FeArray{np.shape(got)}", **sig):
            return False
    if not rec.require(tuple(np.shape(got)) == tuple(ref.shape), "shape",
                       f"{what}: shape {np.shape(got)} expected {ref.shape}", **sig):
        return False
    g = np.asarray(got)
    if ref.dtype == bool or g.dtype == bool:
        return rec.require(g.dtype == ref.dtype and np.array_equal(g, ref), "values",
                           f"{what}: boolean result differs (dtype {g.dtype} vs {ref.dtype})", **sig)
    g = g.astype(float)
    r = ref.astype(float)
    fin = np.isfinite(r)
    if not fin.all():
        if not rec.require(np.array_equal(g[~fin], r[~fin], equal_nan=True), "values",
                           f"{what}: non-finite pattern differs", **sig):
            return False
    mag = float(np.max(np.abs(r[fin]))) if fin.any() else 0.0
    return rec.close(g[fin] - r[fin], max(scale, mag, 1.0), TOL, "values", what, **sig)


# ------------------------------------------------------------------------------------------
# 1. elementwise: + - * / **, comparisons, binary / unary ufuncs, both orders, all kinds

BINARY = {
    # name: (python operator or None, numpy ufunc, value mode)
    "add": (operator.add, np.add, "any"),
    "sub": (operator.sub, np.subtract, "any"),
    "mul": (operator.mul, np.multiply, "any"),
    "div": (operator.truediv, np.divide, "pos"),
    "pow": (operator.pow, np.power, "pos"),
    "lt": (operator.lt, np.less, "any"),
    "le": (operator.le, np.less_equal, "any"),
    "gt": (operator.gt, np.greater, "any"),
    "ge": (operator.ge, np.greater_equal, "any"),
    "eq": (operator.eq, np.equal, "any"),
    "ne": (operator.ne, np.not_equal, "any"),
    "maximum": (None, np.maximum, "any"),
    "minimum": (None, np.minimum, "any"),
    "arctan2": (None, np.arctan2, "pos"),
    "hypot": (None, np.hypot, "any"),
    "copysign": (None, np.copysign, "any"),
}
UNARY = {
    "neg": (operator.neg, np.negative, "any"),
    "abs": (abs, np.absolute, "any"),
    "pos": (operator.pos, np.positive, "any"),
    "sqrt": (None, np.sqrt, "pos"),
    "exp": (None, np.exp, "any"),
    "log": (None, np.log, "pos"),
    "sin": (None, np.sin, "any"),
    "square": (None, np.square, "any"),
    "sign": (None, np.sign, "any"),
    "floor": (None, np.floor, "any"),
    "isfinite": (None, np.isfinite, "any"),
    "signbit": (None, np.signbit, "any"),
}
TUPLE_UFUNCS = {"modf": (np.modf, 1), "divmod": (np.divmod, 2)}  # several outputs

KINDS2 = [("fe", "fe"), ("fe", "fe"), ("fe", "fe"), ("fe", "arr"), ("arr", "fe"), ("fe", "sc"), ("sc", "fe")]
LEADS = ["full", "full", "full", "one", "row", "col"]
COMPLEMENT = dict(row="col", col="row")


@st.composite
def elementwise_cases(draw):
    Ne, nPg, d = draw(fe_dims())
    c = draw(st.integers(0, 9))
    if c == 0:
        op = draw(st.sampled_from(sorted(UNARY) + ["modf"]))
        lead = draw(st.sampled_from(["full", "full", "one"]))
        a = fe_spec(tshape(draw, draw(st.integers(0, 2)), d), lead)
        Ne_, nPg_ = lead_shape(lead, Ne, nPg)
        form = "np" if op == "modf" or UNARY[op][0] is None else draw(st.sampled_from(["op", "np"]))
        return dict(op=op, form=form, Ne=Ne_, nPg=nPg_, a=a, b=None, k=draw(SEED))
    op = draw(st.sampled_from(sorted(BINARY) + ["add", "sub", "mul", "div", "mul", "sub", "divmod"]))
    ka, kb = draw(st.sampled_from(KINDS2))
    specs = []
    other_lead = draw(st.sampled_from(LEADS))
    which = draw(st.integers(0, 1))
    cross = draw(st.booleans())
    for i, kind in enumerate((ka, kb)):
        if kind == "sc":
            specs.append(sc_spec(draw(st.integers(-8, 8))))
            continue
        rmax = 3 if kind == "arr" and draw(st.integers(0, 5)) == 0 else 2
        t = tshape(draw, draw(st.integers(0, rmax)), d)
        if kind == "arr":
            specs.append(arr_spec(t))
        else:
            lead = other_lead if (ka == kb == "fe" and i == which) else "full"
            if ka == kb == "fe" and i != which and other_lead in COMPLEMENT and cross:
                lead = COMPLEMENT[other_lead]  # per-element field with a per-Gauss-point field: no operand on the full (Ne, nPg)
            specs.append(fe_spec(t, lead))
    form = "np" if op == "divmod" or BINARY[op][0] is None else draw(st.sampled_from(["op", "op", "np"]))
    return dict(op=op, form=form, Ne=Ne, nPg=nPg, a=specs[0], b=specs[1], k=draw(SEED))


def check_elementwise(case, rec):
    Ne, nPg, op, k = case["Ne"], case["nPg"], case["op"], case["k"]
    unary = case["b"] is None
    if op in TUPLE_UFUNCS:
        pyop, uf, mode, nout = None, TUPLE_UFUNCS[op][0], "pos", 2
    else:
        pyop, uf, mode = (UNARY if unary else BINARY)[op]
        nout = 1
    A = Operand(case["a"], Ne, nPg, k, mode)
    ops = [A] if unary else [A, Operand(case["b"], Ne, nPg, k + 1, mode)]
    kinds = [o.kind for o in ops]
    dims = sum((o.dims for o in ops), [])
    coll = classify(rec, Ne, nPg, dims, kinds)
    rec.label("op:" + op, "kinds:" + ",".join(kinds))
    leads = ",".join(s["lead"] for s in (case["a"], case["b"]) if s and s["kind"] == "fe")
    sig = dict(op=op, form=case["form"], kinds=",".join(kinds), ranks=",".join(str(o.rank) for o in ops),
               leads=leads, collision=coll)
    what = f"{op}[{case['form']}] kinds={sig['kinds']} leads={leads} shapes={[list(np.shape(o.raw)) for o in ops]}"
    f = pyop if (case["form"] == "op" and pyop is not None) else uf
    ok, got = call(lambda: f(*[o.obj for o in ops]))
    scale = max([o.amax for o in ops] + [1.0])
    for i in range(nout):
        fn = uf if nout == 1 else (lambda *a, i=i: uf(*a)[i])
        try:
            ref, ill = pointwise(fn, ops, Ne, nPg), None
        except IllTyped as ex:
            ref, ill = None, str(ex)
        g = got if (nout == 1 or not ok) else got[i]
        if nout > 1 and ok:
            rec.require(isinstance(got, tuple) and len(got) == nout, "shape", f"{what}: not a {nout}-tuple", **sig)
        # broadcasting against a FeArray always keeps the (Ne, nPg) axes
        if not judge(rec, ok, g, ref, ill, True, scale, sig, what):
            return


# ------------------------------------------------------------------------------------------
# 2. contractions: @ (both orders), .dot, .ddot, TensorProd


def o_matmul(a, b):
    return np.matmul(a, b)


def o_dot(a, b):
    a, b = np.asarray(a), np.asarray(b)
    if a.ndim < 1 or b.ndim < 1:
        raise ValueError("single contraction needs rank >= 1")
    return np.tensordot(a, b, axes=1)


def o_ddot(a, b):
    a, b = np.asarray(a), np.asarray(b)
    if a.ndim < 2 or b.ndim < 2:
        raise ValueError("double contraction needs rank >= 2")
    return np.tensordot(a, b, axes=2)


def o_tensorprod(a, b, sym=False):
    a, b = np.asarray(a), np.asarray(b)
    if a.ndim != b.ndim or a.ndim not in (1, 2):
        raise ValueError("TensorProd: vectors or matrices of the same rank (documented contract)")
    if a.ndim == 1 or not sym:
        return np.multiply.outer(a, b)
    return 0.5 * (np.einsum("ik,jl->ijkl", a, b) + np.einsum("il,jk->ijkl", a, b))


def size1_contract(op, da, db):
    """True when the only mismatch between contracted axes is a size-1 axis against a larger one (the case
    np.einsum broadcasts silently while np.matmul / np.tensordot reject it)."""
    if op == "matmul":
        if not (1 <= len(da) <= 2 and 1 <= len(db) <= 2):
            return False
        pairs = [(da[-1], db[0] if len(db) == 1 else db[-2])]
    elif op == "dot":
        if not (da and db):
            return False
        pairs = [(da[-1], db[0])]
    elif op == "ddot":
        if len(da) < 2 or len(db) < 2:
            return False
        pairs = [(da[-2], db[0]), (da[-1], db[1])]
    else:
        return False
    return all(x == y or 1 in (x, y) for x, y in pairs) and any(x != y for x, y in pairs)


RANKS_04 = [1, 1, 2, 2, 2, 4, 4, 0, 3, 3, 3]  # every rank pair of a contraction has its own index string: rank 3 as often as the others


@st.composite
def contract_cases(draw):
    Ne, nPg, d = draw(fe_dims())
    op = draw(st.sampled_from(["matmul", "matmul", "dot", "dot", "ddot", "ddot", "tensorprod", "tensorprod_sym"]))
    if op == "matmul":
        ka, kb = draw(st.sampled_from([("fe", "fe"), ("fe", "fe"), ("fe", "arr"), ("arr", "fe"), ("fe", "sc")]))
        ra, rb = draw(st.sampled_from([1, 1, 2, 2, 2, 0])), draw(st.sampled_from([1, 1, 2, 2, 2, 0]))
    elif op in ("dot", "ddot"):
        ka, kb = "fe", draw(st.sampled_from(["fe", "fe", "arr", "arr", "sc"]))
        ra, rb = draw(st.sampled_from(RANKS_04)), draw(st.sampled_from(RANKS_04))
        if op == "ddot" and draw(st.integers(0, 3)) > 0:
            ra, rb = max(ra, 2), max(rb, 2)
    else:
        ka, kb = draw(st.sampled_from([("fe", "fe"), ("fe", "fe"), ("fe", "fe"), ("fe", "arr"), ("arr", "fe")]))
        ra = draw(st.sampled_from([1, 1, 2, 2, 2, 0, 3]))
        rb = ra if draw(st.integers(0, 5)) > 0 else draw(st.sampled_from([0, 1, 2]))
    lead_other = draw(st.sampled_from(["full", "full", "full", "one", "one", "row", "col"]))
    which = draw(st.integers(0, 1))
    cross = draw(st.booleans())
    specs = []
    for i, (kind, r) in enumerate(((ka, ra), (kb, rb))):
        if kind == "sc":
            specs.append(sc_spec(draw(st.integers(-8, 8))))
        elif kind == "arr":
            specs.append(arr_spec(tshape(draw, r, d, p_other=8)))
        else:
            lead = lead_other if (ka == kb == "fe" and i == which) else "full"
            if ka == kb == "fe" and i != which and lead_other in COMPLEMENT and cross:
                lead = COMPLEMENT[lead_other]  # (Ne, 1, ...) with (1, nPg, ...): no operand on the full (Ne, nPg)
            specs.append(fe_spec(tshape(draw, r, d, p_other=8), lead))
    return dict(op=op, Ne=Ne, nPg=nPg, a=specs[0], b=specs[1], k=draw(SEED))


def check_contract(case, rec):
    Ne, nPg, op, k = case["Ne"], case["nPg"], case["op"], case["k"]
    A = Operand(case["a"], Ne, nPg, k)
    B = Operand(case["b"], Ne, nPg, k + 1)
    ops = [A, B]
    kinds = [o.kind for o in ops]
    coll = classify(rec, Ne, nPg, A.dims + B.dims, kinds)
    rec.label("op:" + op, "kinds:" + ",".join(kinds), f"ranks:{op.split('_')[0]}:{A.rank},{B.rank}")
    leads = ",".join(s["lead"] for s in (case["a"], case["b"]) if s["kind"] == "fe")
    sig = dict(op=op, kinds=",".join(kinds), ranks=f"{A.rank},{B.rank}", leads=leads, collision=coll,
               size1_contract=size1_contract(op, A.dims, B.dims), rank3=bool(3 in (A.rank, B.rank)))
    what = f"{op} kinds={sig['kinds']} leads={leads} shapes={[list(np.shape(o.raw)) for o in ops]}"
    if op == "matmul":
        ofn, cut = o_matmul, (lambda: A.obj @ B.obj)
    elif op == "dot":
        ofn, cut = o_dot, (lambda: A.obj.dot(B.obj))
    elif op == "ddot":
        ofn, cut = o_ddot, (lambda: A.obj.ddot(B.obj))
    else:
        sym = op.endswith("_sym")
        ofn, cut = (lambda a, b: o_tensorprod(a, b, sym)), (lambda: TensorProd(A.obj, B.obj, symmetric=sym))
    try:
        ref, ill = pointwise(ofn, ops, Ne, nPg), None
    except IllTyped as ex:
        ref, ill = None, str(ex)
    ok, got = call(cut)
    scale = 16.0 * max(A.amax, 1.0) * max(B.amax, 1.0)
    judge(rec, ok, got, ref, ill, True, scale, sig, what)


# ------------------------------------------------------------------------------------------
# 3. tensor functions: .T, Transpose, Trace, Det, Inv, Norm, Normalize


def o_trace(a):
    a = np.asarray(a)
    if a.ndim < 2 or a.shape[-1] != a.shape[-2]:
        raise ValueError("Trace: must be a (..., dim, dim) array (documented contract)")
    return np.trace(a, axis1=-2, axis2=-1)


def o_normalize(a):
    a = np.asarray(a)
    n = np.linalg.norm(a, axis=-1, keepdims=True)
    return a / np.where(n == 0.0, 1.0, n)


TFN = {
    # name: (oracle per point, code under test, value mode, maximal rank generated)
    "T": (lambda a: np.asarray(a).T, lambda x: x.T, "any", 4),
    "Transpose": (lambda a: np.swapaxes(a, -1, -2), Transpose, "any", 3),
    "Trace": (o_trace, Trace, "any", 3),
    "Det": (lambda a: np.linalg.det(a), Det, "mat", 3),
    "Inv": (lambda a: np.linalg.inv(a), Inv, "mat", 3),
    "Norm_vec": (lambda a: np.linalg.norm(a, axis=-1), lambda x: Norm(x, axis=-1), "any", 2),
    "Norm_fro": (lambda a: np.linalg.norm(a, axis=(-2, -1)), lambda x: Norm(x, axis=(-2, -1)), "any", 3),
    "Normalize": (o_normalize, Normalize, "any", 2),
}


@st.composite
def tensorfn_cases(draw):
    Ne, nPg, d = draw(fe_dims())
    fn = draw(st.sampled_from(sorted(TFN) + ["Det", "Inv", "Inv"]))  # closed forms for dim 1, 2, 3 + numpy
    rmax = TFN[fn][3]
    # Normalize of a scalar field: no documented per-point meaning.  Norm along axes that are not tensor axes of the operand (a
    # scalar field with axis=-1, a vector field with axis=(-2, -1)) is a reduction over the element / Gauss-point axes: numpy's
    # meaning of the axis, decided in `reduce` (values of plain numpy, plain result), not a per-point function that must raise
    rmin = {"Normalize": 1, "Norm_vec": 1, "Norm_fro": 2}.get(fn, 0)
    rank = draw(st.sampled_from([r for r in [2, 2, 2, 2, 1, 1, 0, 3, 4] if rmin <= r <= rmax]))
    t = tshape(draw, rank, d, p_other=8)
    if rank >= 2 and draw(st.integers(0, 5)) > 0:
        t[-2] = t[-1]
    kind = "fe" if draw(st.integers(0, 7)) > 0 else "arr"
    if kind == "arr":
        if fn in ("T", "Normalize") or rank < 2:
            kind = "fe"
    lead = draw(st.sampled_from(["full", "full", "full", "one"]))
    Ne_, nPg_ = lead_shape(lead, Ne, nPg)
    a = fe_spec(t, "full") if kind == "fe" else arr_spec(t)
    # magnitude of the entries (Jacobians of meshes in micrometres, stiffnesses in Pa): the functions are homogeneous
    return dict(fn=fn, Ne=Ne_, nPg=nPg_, a=a, k=draw(SEED), mag=draw(st.sampled_from([1.0, 1.0, 1.0, 1e-8, 1e6])))


def check_tensorfn(case, rec):
    Ne, nPg, fn, k = case["Ne"], case["nPg"], case["fn"], case["k"]
    ofn, cut, mode, _ = TFN[fn]
    A = Operand(case["a"], Ne, nPg, k, mode)
    mag = float(case.get("mag", 1.0))
    if mag != 1.0:
        A.raw = A.raw * mag
        A.obj = FeArray.asfearray(A.raw.copy()) if A.is_fe else A.raw.copy()
        rec.label(f"mag:{mag:g}")
    coll = classify(rec, Ne, nPg, A.dims, [A.kind])
    rec.label("op:" + fn, "kinds:" + A.kind, f"rank:{fn}:{A.rank}")
    sig = dict(op=fn, kinds=A.kind, ranks=str(A.rank), collision=coll)
    what = f"{fn}({A.kind}{list(np.shape(A.raw))}" + (f" x {mag:g})" if mag != 1.0 else ")")
    if A.is_fe:
        try:
            ref, ill = pointwise(ofn, [A], Ne, nPg), None
        except IllTyped as ex:
            ref, ill = None, str(ex)
    else:  # a plain array stays a plain array: the same function on the constant tensor
        try:
            ref, ill = np.asarray(ofn(A.raw)), None
        except EXC_ORACLE as ex:
            ref, ill = None, f"{type(ex).__name__}: {ex}"
    ok, got = call(lambda: cut(A.obj))
    scale = {"Det": (max(A.amax, 1.0) ** max(A.dims[-1:] + [1])) * 24.0}.get(fn, max(A.amax, 1.0) * 16.0)
    if mag != 1.0 and ref is not None and np.size(ref) and np.all(np.isfinite(ref)):
        scale = 24.0 * float(np.abs(ref).max()) + 1e-300  # relative to the result itself
    judge(rec, ok, got, ref, ill, A.is_fe, scale, sig, what)


# ------------------------------------------------------------------------------------------
# 4. reducers: method and np.* forms, positive / negative axis, tuples, None; the type rule

METHOD_REDUCERS = ["sum", "prod", "mean", "std", "var", "max", "min", "argmax", "argmin", "all", "any"]
NP_ONLY_REDUCERS = ["median", "average", "amax", "amin"]
# other numpy reductions that reach the FeArray through the array protocols
# "Norm" = the library's own wrapper of np.linalg.norm (a keyword-only axis): same type rule as any other reduction
EXTRA_REDUCERS = ["nansum", "nanmax", "ptp", "count_nonzero", "add.reduce", "maximum.reduce", "linalg.norm", "Norm", "Norm", "quantile", "percentile"]
NO_TUPLE = ["argmax", "argmin", "linalg.norm", "Norm"]


def np_callable(name):
    if name == "Norm":
        return lambda x, **kw: (Norm if isinstance(x, FeArray) else np.linalg.norm)(x, **kw)
    if name == "quantile":
        return lambda x, **kw: np.quantile(x, 0.25, **kw)
    if name == "percentile":
        return lambda x, **kw: np.percentile(x, 60.0, **kw)
    f = np
    for part in name.split("."):
        f = getattr(f, part)
    return f


@st.composite
def reduce_cases(draw):
    Ne, nPg, d = draw(fe_dims())
    rank = draw(st.sampled_from([0, 1, 1, 1, 2, 2, 2, 3]))
    t = tshape(draw, rank, d)
    ndim = 2 + rank
    c = draw(st.integers(0, 9))
    if c < 4:
        fn, form = draw(st.sampled_from(METHOD_REDUCERS)), draw(st.sampled_from(["method", "method_kw"]))
    elif c < 8:
        fn, form = draw(st.sampled_from(METHOD_REDUCERS + NP_ONLY_REDUCERS)), draw(st.sampled_from(["np", "np_kw"]))
    else:
        fn, form = draw(st.sampled_from(EXTRA_REDUCERS)), "np_kw"
    # axis: tensor axes are favoured (that is where the type survives), FE axes and None stay frequent
    tens = list(range(2, ndim))
    a = draw(st.integers(0, 9))
    if a < 4 and tens:
        axes = [draw(st.sampled_from(tens))]
    elif a < 6:
        axes = [draw(st.integers(0, ndim - 1))]
    elif a < 8 and fn not in NO_TUPLE:
        pool = tens if (len(tens) >= 1 and draw(st.integers(0, 1))) else list(range(ndim))
        axes = sorted(set(draw(st.lists(st.sampled_from(pool), min_size=1, max_size=3))))
    else:
        axes = None
    if axes is None:
        axis = None
    else:
        axes = [x - ndim if draw(st.integers(0, 1)) else x for x in axes]  # negative spelling
        tup = len(axes) > 1 or (fn not in NO_TUPLE and draw(st.integers(0, 3)) == 0)
        axis = list(axes) if tup else int(axes[0])
    keepdims = draw(st.integers(0, 4)) == 0
    ord_ = None
    if fn == "linalg.norm" and draw(st.booleans()):
        # numpy's own signature norm(x, ord, axis): order and axis given positionally
        form = "np_ord_pos"
        ord_ = draw(st.sampled_from([None, 1, 2] if not isinstance(axis, list) else [None, "fro", 1]))
    return dict(fn=fn, form=form, Ne=Ne, nPg=nPg, a=fe_spec(t), axis=axis, keepdims=keepdims, k=draw(SEED), ord=ord_)


def check_reduce(case, rec):
    Ne, nPg, fn, form, k = case["Ne"], case["nPg"], case["fn"], case["form"], case["k"]
    A = Operand(case["a"], Ne, nPg, k)
    raw, fe = A.raw, A.obj
    axis = case["axis"]
    axis = tuple(axis) if isinstance(axis, list) else axis
    kw = dict(keepdims=True) if case["keepdims"] else {}
    ndim = raw.ndim
    norm = None if axis is None else [a % ndim for a in (axis if isinstance(axis, tuple) else (axis,))]
    keeps = norm is not None and all(a >= 2 for a in norm)  # decided from the operation, never from a shape
    coll = classify(rec, Ne, nPg, A.dims, ["fe"])
    spelling = "none" if axis is None else ("tuple" if isinstance(axis, tuple) else "int") + (
        "_neg" if any(a < 0 for a in (axis if isinstance(axis, tuple) else (axis,))) else "_pos")
    group = "method" if form.startswith("method") else ("np" if fn not in EXTRA_REDUCERS else "np_extra")
    rec.label("op:reduce:" + fn, "form:" + form, "axis:" + spelling, "reduce:keeps_fe" if keeps else "reduce:drops_fe")
    sig = dict(op=fn, form=form, group=group, axis=spelling, keeps=bool(keeps), rank=A.rank, collision=coll)
    what = f"{fn}[{form}] on FeArray{list(raw.shape)} axis={axis} keepdims={case['keepdims']}"
    npf = np_callable(fn)
    if form == "method":
        cut, ofn = (lambda: getattr(fe, fn)(axis, **kw)), (lambda x, ax: npf(x, ax, **kw))
    elif form == "method_kw":
        cut, ofn = (lambda: getattr(fe, fn)(axis=axis, **kw)), (lambda x, ax: npf(x, axis=ax, **kw))
    elif form == "np":
        cut, ofn = (lambda: npf(fe, axis, **kw)), (lambda x, ax: npf(x, ax, **kw))
    elif form == "np_ord_pos":
        o_ = case.get("ord")
        cut, ofn = (lambda: npf(fe, o_, axis, **kw)), (lambda x, ax: npf(x, o_, ax, **kw))
    else:
        cut, ofn = (lambda: npf(fe, axis=axis, **kw)), (lambda x, ax: npf(x, axis=ax, **kw))
    # reference 1: plain numpy on the raw array (what "the same reduction" means when FE axes are consumed)
    try:
        ref, ill = np.asarray(ofn(raw, axis)), None
    except EXC_ORACLE as ex:
        ref, ill = None, f"{type(ex).__name__}: {ex}"
    ok, got = call(cut)
    scale = max(A.amax, 1.0) * raw.size
    if not judge(rec, ok, got, ref, ill, keeps, scale, sig, what):
        return
    # reference 2: a reduction over tensor axes is the per-point reduction
    if keeps and ill is None and ok:
        pax = tuple(a - 2 for a in norm)
        pax = pax if isinstance(axis, tuple) else pax[0]
        ref2 = pointwise(lambda x: ofn(x, pax), [A], Ne, nPg)
        judge(rec, ok, got, ref2, None, True, scale, sig, what + " (per-point loop)")


# ------------------------------------------------------------------------------------------
# 5. array-function protocol: documented keepers (einsum, where, solve, concatenate, out=) and droppers

PROTO = ["reshape_keep", "reshape_merge", "ravel", "einsum", "where", "concatenate", "solve", "out", "where_out",
         "integrate"]


@st.composite
def protocol_cases(draw):
    Ne, nPg, d = draw(fe_dims())
    op = draw(st.sampled_from(PROTO))
    rank = draw(st.integers(0, 2))
    t = tshape(draw, rank, d)
    form = draw(st.sampled_from(["method", "np", "method_tuple"]))
    return dict(op=op, form=form, Ne=Ne, nPg=nPg, d=d, t=t, k=draw(SEED))


def check_protocol(case, rec):
    Ne, nPg, d, op, form, k = case["Ne"], case["nPg"], case["d"], case["op"], case["form"], case["k"]
    t = list(case["t"])
    if op in ("einsum", "concatenate") and not t:
        t = [d]
    if op == "solve":
        t = [d, d]
    A = Operand(fe_spec(t), Ne, nPg, k, "mat" if op == "solve" else "any")
    B = Operand(fe_spec(t), Ne, nPg, k + 1)
    raw, fe = A.raw, A.obj
    coll = classify(rec, Ne, nPg, A.dims, ["fe"])
    rec.label("op:proto:" + op)
    sig = dict(op=op, form=form, rank=A.rank, collision=coll)
    what = f"{op}[{form}] on FeArray{list(raw.shape)}"
    scale = 16.0 * max(A.amax, 1.0) * max(B.amax, 1.0)
    ill = None
    if op in ("reshape_keep", "reshape_merge"):
        size = int(np.prod(t)) if t else 1
        if op == "reshape_keep":
            new = (Ne, nPg) + ((size,) if len(t) != 1 else (1, size))
        else:
            new = (Ne * nPg,) + tuple(t)
        # C-order reshape: the (e, p) blocks stay in place exactly when the two leading dims are unchanged
        expect = len(new) >= 2 and new[:2] == (Ne, nPg)
        ref = raw.reshape(new)
        cut = {"method": lambda: fe.reshape(*new), "method_tuple": lambda: fe.reshape(new),
               "np": lambda: np.reshape(fe, new)}[form]
        if expect:
            ref = pointwise(lambda x: np.reshape(x, new[2:]), [A], Ne, nPg)
    elif op == "ravel":
        # in C order, or in Fortran order given positionally / by keyword (the argument of ravel is an order, not an axis)
        order = ["C", "F", "F"][k % 3]
        expect, ref = False, raw.ravel(order)
        cut = {"np": lambda: np.ravel(fe, order), "method": lambda: fe.ravel(order) if order == "F" else fe.ravel(),
               "method_tuple": lambda: fe.ravel(order=order)}[form]
        rec.label("ravel:" + order)
    elif op == "integrate":
        expect, ref = False, raw.sum(axis=1)
        cut = lambda: fe.integrate()  # noqa
    elif op == "einsum":
        sub = "...i,...i->..." if len(t) == 1 else "...ij,...ij->..."
        other = B if form != "np" else Operand(arr_spec(t), Ne, nPg, k + 1)
        expect = True
        ref = pointwise(lambda x, y: np.einsum(sub.replace("...", ""), x, y), [A, other], Ne, nPg)
        cut = lambda: np.einsum(sub, fe, other.obj)  # noqa
    elif op == "where":
        thr = 0.25
        expect = True
        ref = pointwise(lambda x, y: np.where(x > thr, y, 0.0), [A, B], Ne, nPg)
        cut = lambda: np.where(fe > thr, B.obj, 0.0)  # noqa
    elif op == "concatenate":
        expect = True
        ref = pointwise(lambda x, y: np.concatenate([x, y], axis=-1), [A, B], Ne, nPg)
        cut = lambda: np.concatenate([fe, B.obj], axis=-1)  # noqa
    elif op == "solve":
        rhs = Operand(fe_spec([d, 1]), Ne, nPg, k + 2)
        expect = True
        ref = pointwise(lambda m, r: np.linalg.solve(m, r), [A, rhs], Ne, nPg)
        cut = lambda: np.linalg.solve(fe, rhs.obj)  # noqa
        B = rhs
    elif op == "out":
        # np.multiply(field, scalar field, out=...): aligned like the operator, result written in `out`
        s = Operand(fe_spec([]), Ne, nPg, k + 2)
        out = np.zeros_like(raw) if form == "np" else FeArray.asfearray(np.zeros_like(raw))
        ref = pointwise(lambda x, y: x * y, [A, s], Ne, nPg)
        expect = None

        def cut():
            r = np.multiply(fe, s.obj, out=out)
            assert r is out
            return np.asarray(out)
    else:  # where_out
        thr = 0.25
        expect = True
        ref = pointwise(lambda x: np.where(x > thr, 1.0 / np.where(x > thr, x, 1.0), 0.0), [A], Ne, nPg)
        cut = lambda: np.divide(1.0, fe, out=FeArray.asfearray(np.zeros_like(raw)), where=fe > thr)  # noqa
    ok, got = call(cut)
    judge(rec, ok, got, ref, ill, expect, scale, sig, what)


# ------------------------------------------------------------------------------------------
# 6. FeArray.broadcast: scalar / (Ne,) / (nPg,) / (Ne,nPg) / tensor-valued coefficients

BKINDS = ["scalar", "elem", "point", "full", "full_fe", "full_t0", "const_t", "elem_t", "full_t"]


@st.composite
def broadcast_cases(draw):
    Ne, nPg, d = draw(fe_dims())
    kind = draw(st.sampled_from(BKINDS))
    tn = draw(st.integers(1, 2)) if kind.endswith("_t") or kind == "full_t0" else 0
    tail = tshape(draw, tn, d)
    if tn == 2 and draw(st.integers(0, 3)) > 0:
        tail[0] = tail[1]
    use = draw(st.sampled_from(["mul", "rmul", "matmul"])) if tn == 2 else draw(st.sampled_from(["mul", "rmul"]))
    frank = draw(st.integers(0, 2))
    ft = tshape(draw, frank, d)
    if use == "matmul":
        ft = [tail[1]] if draw(st.integers(0, 1)) else [tail[1], draw(st.sampled_from([d, 1, 2]))]
    styp = draw(st.sampled_from(["int", "float", "np.float64", "np.int64"]))
    return dict(kind=kind, Ne=Ne, nPg=nPg, tail=tail, use=use, ft=ft, styp=styp, v=draw(st.integers(-8, 8)),
                k=draw(SEED))


def check_broadcast(case, rec):
    Ne, nPg, kind, k = case["Ne"], case["nPg"], case["kind"], case["k"]
    tail = tuple(case["tail"])
    tn = 0 if kind == "full_t0" else len(tail)
    lead = dict(scalar=None, elem=(Ne,), point=(nPg,), full=(Ne, nPg), full_fe=(Ne, nPg),
                full_t0=(Ne, nPg), const_t=(), elem_t=(Ne,), full_t=(Ne, nPg))[kind]
    coll = classify(rec, Ne, nPg, list(tail) + list(case["ft"]), ["coef:" + kind, "fe"])
    rec.label("broadcast:" + kind)
    sig = dict(op="broadcast", kind=kind, NeEqnPg=bool(Ne == nPg), tensor_ndim=tn, collision=coll)
    what = f"FeArray.broadcast[{kind}] Ne={Ne} nPg={nPg} tail={list(tail)} tensor_ndim={tn}"
    if kind == "scalar":
        v = case["v"]
        value = dict(int=int(v), float=v / 4.0)[case["styp"]] if case["styp"] in ("int", "float") else (
            np.float64(v / 4.0) if case["styp"] == "np.float64" else np.int64(v))
        c_raw = np.asarray(float(value))
        coef = lambda e, p: c_raw  # noqa
    else:
        c_raw = vals(k + 7, lead + tail)
        value = c_raw.copy()
        if kind == "full_fe":
            value = FeArray.asfearray(value)
        if lead == ():
            coef = lambda e, p: c_raw  # noqa
        elif kind == "point":
            coef = lambda e, p: c_raw[p]  # noqa
        elif lead == (Ne,):
            coef = lambda e, p: c_raw[e]  # noqa
        else:
            coef = lambda e, p: c_raw[e, p]  # noqa
    ok, b = call(lambda: FeArray.broadcast(value, Ne, nPg, tn) if tn else FeArray.broadcast(value, Ne, nPg))
    ref_b = np.array([[coef(e, p) for p in range(nPg)] for e in range(Ne)], dtype=float)
    if not ok:
        rec.require(False, "raises_on_welltyped", f"{what}: raised {type(b).__name__}: {b}", **sig)
        return
    if kind == "scalar":
        if not rec.require(type(b) is float and b == float(value), "values",
                           f"{what}: scalar -> {type(b).__name__} {b!r}", **sig):
            return
    else:
        if not judge(rec, True, b, ref_b, None, True, 1.0, sig, what):
            return
    # the coefficient in use: coef * field, field * coef, C @ field
    F = Operand(fe_spec(case["ft"]), Ne, nPg, k)
    use = case["use"]
    ofn = {"mul": lambda c, x: c * x, "rmul": lambda c, x: x * c, "matmul": lambda c, x: np.matmul(c, x)}[use]
    out = []
    ill = None
    try:
        for e in range(Ne):
            for p in range(nPg):
                out.append(np.asarray(ofn(coef(e, p), F.at(e, p))))
    except EXC_ORACLE as ex:
        ill = f"{type(ex).__name__}: {ex}"
    ref = None if ill else np.stack(out).reshape((Ne, nPg) + out[0].shape)
    cut = {"mul": lambda: b * F.obj, "rmul": lambda: F.obj * b, "matmul": lambda: b @ F.obj}[use]
    ok, got = call(cut)
    sig2 = dict(sig, use=use)
    judge(rec, ok, got, ref, ill, True, 16.0 * max(F.amax, 1.0) * 2.0, sig2, what + f" then {use} with FeArray{list(F.raw.shape)}")


# ------------------------------------------------------------------------------------------
# 7. Field objects as operands: Field op X and X op Field equal Field() op X and X op Field()

FIELD_SRC = {1: "TRI3/rigi", 2: "SEG2/mass", 3: "TRI3/mass", 4: "QUAD4/mass"}  # nPg -> element / rule
_FIELD_CACHE = {}


def make_field(src, node):
    et, mt = src.split("/")
    if et not in _FIELD_CACHE:
        coords = dict(SEG2=[[0, 0, 0], [1, 0, 0]], TRI3=[[0, 0, 0], [1, 0, 0], [0, 1, 0]],
                      QUAD4=[[0, 0, 0], [1, 0, 0], [1, 1, 0], [0, 1, 0]])[et]
        coords = np.array(coords, dtype=float)
        _FIELD_CACHE[et] = GroupElemFactory.Create(ElemType(et), np.arange(len(coords))[None, :], coords)
    g = _FIELD_CACHE[et]
    u = Field(g, 1, MatrixType(mt))
    u._Set_current_active_node(int(node) % g.nPe)
    return u


FIELD_OPS = ["add", "sub", "mul", "div", "matmul", "dot", "ddot"]


@st.composite
def field_cases(draw):
    Ne, nPg, d = draw(fe_dims())
    op = draw(st.sampled_from(FIELD_OPS + ["sub", "div", "mul"]))
    order = draw(st.sampled_from(["field_first", "field_second"]))
    kind = draw(st.sampled_from(["fe", "fe", "arr", "sc", "sc"]))
    if op in ("matmul", "dot", "ddot"):
        kind = draw(st.sampled_from(["fe", "fe", "arr"]))
        rank = draw(st.sampled_from([1, 1, 2]))
        t = [1] * rank if draw(st.integers(0, 4)) > 0 else tshape(draw, rank, d)
        if rank == 2:
            t[1] = draw(st.sampled_from([1, d]))
    else:
        t = tshape(draw, draw(st.integers(0, 2)), d)
    other = sc_spec(draw(st.integers(-8, 8))) if kind == "sc" else (arr_spec(t) if kind == "arr" else fe_spec(t))
    if kind == "arr" and op in ("dot", "ddot"):
        order = "field_first"  # ndarray.dot(Field) is numpy's own method, outside the FeArray algebra
    f = dict(kind="field", src=FIELD_SRC[nPg], node=draw(st.integers(0, 3)))
    return dict(op=op, order=order, Ne=Ne, nPg=nPg, field=f, other=other, k=draw(SEED))


def check_field(case, rec):
    Ne, nPg, op, k = case["Ne"], case["nPg"], case["op"], case["k"]
    mode = "pos" if op == "div" else "any"
    U = Operand(case["field"], Ne, nPg, k)
    X = Operand(case["other"], Ne, nPg, k + 1, mode)
    first = case["order"] == "field_first"
    ops = [U, X] if first else [X, U]
    if not X.is_fe:
        Ne = 1  # Field() is a (1, nPg, 1) array: without a mesh-sized operand the result stays (1, nPg, ...)
    kinds = [o.kind for o in ops]
    coll = classify(rec, Ne, nPg, X.dims + [1], kinds)
    rec.label("op:field:" + op, "kinds:" + ",".join(kinds))
    sig = dict(op=op, kinds=",".join(kinds), ranks=f"{ops[0].rank},{ops[1].rank}", collision=coll,
               size1_contract=size1_contract(op, ops[0].dims, ops[1].dims))
    what = f"Field {op} kinds={sig['kinds']} shapes={[list(np.shape(o.raw)) for o in ops]}"
    if op in BINARY:
        pyop = BINARY[op][0]
        ofn, cut = BINARY[op][1], (lambda: pyop(ops[0].obj, ops[1].obj))
    elif op == "matmul":
        ofn, cut = o_matmul, (lambda: ops[0].obj @ ops[1].obj)
    elif op == "dot":
        ofn, cut = o_dot, (lambda: ops[0].obj.dot(ops[1].obj))
    else:
        ofn, cut = o_ddot, (lambda: ops[0].obj.ddot(ops[1].obj))
    assert not (op in ("dot", "ddot") and not ops[0].is_fe), "generator excludes ndarray.dot(Field)"
    try:
        ref, ill = pointwise(ofn, ops, Ne, nPg), None
    except IllTyped as ex:
        ref, ill = None, str(ex)
    ok, got = call(cut)
    scale = 16.0 * max(X.amax, 1.0)
    judge(rec, ok, got, ref, ill, True, scale, sig, what)


SUBS = [
    Sub("elementwise", check_elementwise, gen=elementwise_cases, quick=4000, thorough=30000, shards=6),
    Sub("contract", check_contract, gen=contract_cases, quick=3500, thorough=25000, shards=6),
    Sub("tensorfn", check_tensorfn, gen=tensorfn_cases, quick=3000, thorough=20000, shards=4),
    Sub("reduce", check_reduce, gen=reduce_cases, quick=4000, thorough=30000, shards=6),
    Sub("protocol", check_protocol, gen=protocol_cases, quick=1000, thorough=8000, shards=2),
    Sub("broadcast", check_broadcast, gen=broadcast_cases, quick=1500, thorough=10000, shards=4),
    Sub("fieldobj", check_field, gen=field_cases, quick=800, thorough=6000, shards=2),
]

LEVEL_TEXT = ("Hypothesis-generated FeArray expressions (arithmetic, ufuncs, comparisons, @, dot, ddot, TensorProd, .T, "
              "Transpose/Trace/Det/Inv/Norm/Normalize, reducers in method and np forms, array-function protocol, "
              "FeArray.broadcast, Field operands) compared value-, shape- and type-wise with explicit numpy loops over "
              "(element, Gauss point), with Ne==nPg==dim collisions and size-1 axes in the majority of cases; "
              "ill-typed per-point operations must raise")
LEVEL_NOTE = ("exploration over Ne,nPg,dims<=4 and ranks<=4, float64 only; np.where/einsum only with equal-rank operands; "
              "tensor-valued broadcast coefficients only with tensor_ndim; absence of violations on unexplored "
              "combinations is not established")
TECHNIQUE = "property-based testing (Hypothesis) vs explicit per-(e,p) numpy loop oracle"
DESIGN_REF = "DESIGN.md 4/C12"


# ------------------------------------------------------------------------------------------
# (added by the lead, round 8) every pair of tensor ranks of a contraction has its own index string in the library: the finite table
# (operation x rank of the left operand x rank of the right operand x kinds of operands) is enumerated with tensor dimensions that
# differ from the numbers of elements and of integration points and with full (non-symmetric) tensors


def enum_rank_pairs(tier):
    Ne, nPg, d = 3, 2, 2
    for op in ("dot", "ddot", "matmul", "tensorprod"):
        rmax = 2 if op in ("matmul",) else 4
        for ra in range(0, rmax + 1):
            for rb in range(0, rmax + 1):
                if op == "tensorprod" and ra != rb:
                    continue
                for ka, kb in (("fe", "fe"), ("fe", "arr"), ("arr", "fe")):
                    if op in ("dot", "ddot") and ka != "fe":
                        continue  # methods of the FeArray
                    if op == "matmul" and ka == "arr":
                        continue  # a plain array on the left of @ is known finding C12-a (decided and counted in `contract`)
                    for dd in (2, 3):
                        a = fe_spec([dd] * ra) if ka == "fe" else arr_spec([dd] * ra)
                        b = fe_spec([dd] * rb) if kb == "fe" else arr_spec([dd] * rb)
                        yield dict(op=op, Ne=Ne, nPg=nPg, a=a, b=b, k=7 * ra + rb + dd)


SUBS.append(Sub("rank_pairs", check_contract, enum=enum_rank_pairs,
                doc="dot / ddot / @ / TensorProd x every pair of tensor ranks (0..4, 0..2 for @) x operand kinds x tensor dimension 2 / 3"))
