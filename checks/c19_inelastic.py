"""C19 - history-dependent material integration: admissible, dissipative, consistent, pure."""

import numpy as np
from hypothesis import strategies as st

from EasyFEA import MatrixType, Models, Simulations
from EasyFEA.FEM._linalg import FeArray

from vlib import c19_ref as cr
from vlib import gen_mesh as gm
from vlib.runner import Inconclusive, Sub

PROPERTY = "C19"
RULE = (
    "paths_*: Hypothesis behaviour specs (elastic law x {von Mises, Hill, Drucker-Prager, none} x {perfect, "
    "linear, Voce, Swift} x 0-2 Armstrong-Frederick components x {none, Norton, Perzyna} x 0-2 Maxwell "
    "branches x solver auto/newton, units E in {210, 7e4, 2e5, 2.1e11}) in 3D / plane strain / plane stress, "
    "driven through Behavior.Integrate on a (Ne,nPg) batch of independent piecewise-linear strain paths "
    "(load, turn, reverse, unload, hold; 1-8 steps per segment, amplitudes 0.3-8 yield strains); a point's "
    "step is committed only when its converged flag is set, a batch refused by the plane-stress loop ends the "
    "path. Non-trivial = some point has a plastic step "
    "(dp>0) followed by an elastic step. tangent: same generator, shorter paths, central differences at "
    "fixed zOld; non-trivial = >=1 kept direction at a flowing point. solvers: reducible behaviours only; "
    "non-trivial = a flowing point compared. elastic_limit: behaviours without internal variables. "
    "simu_commit: Simulations.InElastic on small gmsh meshes under Solve/Save_Iter/Set_Iter op lists; "
    "non-trivial = a saved step with p>0 and a Solve not followed by a save. matpoint: MaterialPoint.Run "
    "mixed control. distinct = sha1 of the serialised case."
    ' Round 8: simu_commit may save the initial configuration before the first solve; solvers may give the elastic law its Poisson ratio after the behaviours are built.'
    ' Round 9: matpoint also requires every recorded row to be one Behavior.Integrate from the previous row.'
)
ASSUMPTIONS = [
    "the elastic stiffness C of the 3D elastic law is the trusted input (checked by C11)",
    "reference formulas for phi (von Mises, Hill 1948, Drucker-Prager), R(p), X = 2/3 C alpha and "
    "sigma = C:(eps-eps_p) - sum g_i C:eps_v_i are transcribed from the documented model definitions",
    "the local solvers are held to their documented stopping rules with a 100x margin: 1e-10 max(sigma_y,1) on f, "
    "1e-10 (absolute, dimensionless) on the strain-like rows (hence slack 1e-8 on dp, 1e-8 x stress scale on the "
    "dissipation, 1e-8 per step on tr eps_p), plane stress |sigma_zz| < max(1e-8 max(sigma_y,1), 1e-9 C_zzzz)",
    "steps whose converged flag is False (or whose plane-stress / global Newton asserts non-convergence) "
    "are outside the quantifier: the point keeps its committed state / the case is inconclusive",
    "finite-difference tangent only in directions whose perturbed points (at h, h/4 and 8h) keep the active set of "
    "the centre point; the difference quotient (h, h/4, Richardson) is evaluated on a second Behavior instance whose "
    "solver tolerances (_tol, _planeStress_tol) are tightened to 1e-13, the tangent under test comes from the "
    "untouched instance",
    "solver agreement is compared away from exact neutral loading (|f_trial| <= 1e-8 max(sigma_y,1)), where either "
    "one-sided tangent is legitimate",
    "simu_commit reads the committed state through the name-mangled attribute _InElastic__zOld and Result('p')",
]

TOL_ID = 1e-12      # identity level (pure re-orderings of flops)
TOL_F = 1e-8        # 100 x the local stopping rule 1e-10
TOL_PS = 1e-6       # 100 x the plane-stress stopping rule (scale = max(sy, 1, 0.1 Czz) -> 1e-8)
TOL_FD = 1e-5       # finite differences (honest 8e-10 over 5 seeds)
TOL_FD_PS = 1e-4    # finite differences through the plane-stress iteration: the condensed tangent assumes
#                     sigma_zz = 0 exactly while the iteration stops at its tolerance (honest 3.6e-7 over 5 seeds)
TOL_STATE = 1e-9    # returned stress vs stress of the returned state (honest 7e-14)
TOL_SOLVERS = 1e-8  # 100 x the absolute stopping tolerance of both local solvers
TOL_COMMIT = 1e-3   # committed state vs state integrated at the saved displacement: the global Newton updates u once
#                     after its last assembly, so the two differ by the last (sub-tolerance) correction, 1.5e-6 observed


# ------------------------------------------------------------------------------------------
# shared machinery


def integrate(beh, eps, zOld, dt, cls=""):
    """Behavior.Integrate; the documented non-convergence assertion of the plane-stress loop makes
    the case inconclusive (the property is quantified over step sizes that converge)."""
    try:
        return beh.Integrate(FeArray.asfearray(np.array(eps, float)), zOld, dt)
    except AssertionError as e:
        if "did not converge" in str(e):
            raise Inconclusive("plane-stress iteration did not converge " + cls)
        raise
    except np.linalg.LinAlgError as e:
        # the local Newton (Behavior.__Flow) met a singular Jacobian (stiff rate laws, large steps): the step does not converge,
        # which puts it outside the quantifier like the non-convergence the library reports through its flag / assertion
        import traceback

        if "_Flow" in traceback.format_exc():
            raise Inconclusive("local Newton: singular Jacobian " + cls)
        raise


def strain6(beh, mode, eps, zOld, dt):
    if mode == "3D":
        return np.array(eps, float)
    if mode == "PE":
        return cr.embed6(np.asarray(eps, float))
    try:
        return np.asarray(beh.Compute_strain_6d(FeArray.asfearray(np.array(eps, float)), zOld, dt), float)
    except AssertionError as e:
        if "did not converge" in str(e):
            raise Inconclusive("plane-stress iteration did not converge")
        raise


def integrate_with_strain(beh, mode, eps, zOld, dt, cls="", with_eps6=True):
    """(sig, C_alg, z, converged[, eps6]) of a batch."""
    out = integrate(beh, eps, zOld, dt, cls)
    return tuple(out) + ((strain6(beh, mode, eps, zOld, dt),) if with_eps6 else ())


def geq0(rec, values, scale, tol, oracle, msg, **sig):
    """values >= -tol*scale (records the honest negative part)."""
    v = np.asarray(values, float)
    if v.size == 0:
        return True
    bad = ~np.isfinite(v)
    neg = np.inf if bad.any() else max(0.0, float(-v.min()))
    return rec.close(neg, scale, tol, oracle, msg, **sig)


def identical(a, b):
    a, b = np.asarray(a), np.asarray(b)
    return a.shape == b.shape and a.dtype == b.dtype and np.array_equal(a, b, equal_nan=a.dtype.kind == "f")


class Scales:
    def __init__(self, spec, ref):
        self.E, self.sy = cr.stresses(spec)
        self.ey = float(spec["ey"])
        self.Cmax = float(np.max(np.abs(ref.C)))
        self.Czz = float(np.max(ref.C[..., cr.ZZ, cr.ZZ]))
        self.eps = self.ey
        self.sig = self.sy
        self.ps = max(self.sy, 1.0, 0.1 * self.Czz)
        self.f = max(self.sy, 1.0)

    def see(self, eps6):
        m = float(np.max(np.abs(eps6))) if np.size(eps6) else 0.0
        self.eps = max(self.eps, m)
        self.sig = max(self.sig, self.Cmax * m)


def step_oracles(rec, spec, ref, sc, sg, eps6, z0, z1, sig_ret, m, k):
    """All pointwise oracles of one committed step on the points of mask m.
    eps6: 6D strain seen by the material; z0/z1 committed/new state; sig_ret returned stress."""
    mode = spec["mode"]
    if not m.any():
        return np.zeros(m.shape, bool)
    sig6 = ref.sigma6(eps6, z1)
    ret6 = sig6[..., cr.IDX_2D] if mode != "3D" else sig6
    rec.require(np.isfinite(np.asarray(sig_ret)[m]).all() and np.isfinite(z1[m]).all(), "finite",
                f"step {k}: non-finite stress/state on a converged point", **sg)
    rec.close((ret6 - sig_ret)[m], sc.sig, TOL_STATE, "stress_of_state",
              f"step {k}: returned stress is not C:(eps-eps_p)-sum g C:eps_v of the returned state;", **sg)
    if mode == "PS":
        rec.close(sig6[..., cr.ZZ][m], sc.ps, TOL_PS, "plane_stress_zz",
                  f"step {k}: out-of-plane stress left by the plane-stress solve;", **sg)
    flowing = np.zeros(m.shape, bool)
    if spec["yield"] is not None:
        dp = ref.p(z1) - ref.p(z0)
        flowing = m & (dp > 0)
        # dGamma is clipped at 0 and the row dp - dGamma is solved to the documented 1e-10 (dimensionless, absolute)
        geq0(rec, dp[m], 1.0, TOL_F, "dp_nonneg", f"step {k}: plastic multiplier increment < 0;", **sg)
        if spec["rate"] is None:
            f = ref.f(sig6, z1)
            geq0(rec, -f[m], sc.f, TOL_F, "admissible", f"step {k}: f(sigma-X,R) > 0 after the return;", **sg)
        if spec["yield"]["kind"] == "vm":
            ep = ref.get(z1, "eps_p")
            # each step solves deps_p - dGamma N = 0 to the documented 1e-10 (absolute): the trace may drift by that
            rec.close(ep[..., :3].sum(-1)[m], float(k + 1), TOL_F, "eps_p_traceless",
                      f"step {k}: tr eps_p != 0 for von Mises;", **sg)
    Dp, Dv = ref.dissipation(eps6, z0, z1)
    # slack: stress scale x the documented absolute tolerance (1e-10, x100) of the strain-like residual rows
    geq0(rec, Dp[m], sc.sig, TOL_F, "dissipation_plastic",
         f"step {k}: sigma:deps_p - X:dalpha - R dp < 0;", **sg)
    geq0(rec, Dv[m], sc.sig, TOL_F, "dissipation_viscous",
         f"step {k}: Maxwell branch dissipation < 0;", **sg)
    return flowing


# ------------------------------------------------------------------------------------------
# (a) paths


def path_cases(modes, **kw):
    @st.composite
    def strat(draw):
        return dict(beh=draw(cr.behaviour_specs(modes=modes, **kw)), path=draw(cr.path_specs()))
    return strat


def check_paths(case, rec):
    spec, path = case["beh"], case["path"]
    Ne, nPg = int(path["Ne"]), int(path["nPg"])
    mode, dt = spec["mode"], float(spec["dt"])
    beh = cr.build_behaviour(spec, Ne)
    ref = cr.Ref(spec, beh.C, beh.layout.slots)
    sc = Scales(spec, ref)
    sg = cr.sig_of(spec)
    rec.label(*cr.class_label(spec))
    strains = cr.make_path(path, mode, spec["ey"])
    z = beh.State_zeros(Ne, nPg)
    rec.require(np.asarray(z).shape == (Ne, nPg, ref.n) and not np.asarray(z).any(), "state_zeros",
                "State_zeros is not a zero (Ne,nPg,n) array", **sg)
    was_plastic = np.zeros((Ne, nPg), bool)
    unloaded = np.zeros((Ne, nPg), bool)
    cls = f"[{sg['local']} rate={sg['rate_n']} kin={min(sg['nkin'], 1)} br={min(sg['nbranch'], 1)}]"
    n_ok = n_flow = n_tot = 0
    prev = np.zeros_like(strains[0])
    for k, eps in enumerate(strains):
        z0 = np.array(z, float)
        before = z0.tobytes()
        try:
            out1 = integrate_with_strain(beh, mode, eps, z, dt, cls)
            rec.require(np.asarray(z).tobytes() == before, "zOld_unchanged",
                        f"step {k}: Integrate modified the committed state it was given", **sg)
            out2 = integrate_with_strain(beh, mode, eps, z, dt, cls, with_eps6=False)
        except Inconclusive:
            # the plane-stress loop refused the whole batch: the path ends here (steps checked so far stand)
            if k == 0:
                raise
            rec.label("path_truncated:plane_stress_refused")
            break
        rec.require(np.asarray(z).tobytes() == before, "zOld_unchanged",
                    f"step {k}: Integrate modified the committed state it was given (2nd call)", **sg)
        rec.require(all(identical(a, b) for a, b in zip(out1, out2)), "repeatable",
                    f"step {k}: two identical Integrate calls returned different outputs", **sg)
        sig, Calg, zn, ok, eps6 = out1
        ok = np.asarray(ok, bool)
        z1 = np.array(zn, float)
        nc = cr.ncomp_of(mode)
        rec.require(np.asarray(sig).shape == (Ne, nPg, nc) and np.asarray(Calg).shape == (Ne, nPg, nc, nc)
                    and z1.shape == z0.shape and ok.shape == (Ne, nPg), "shapes", f"step {k}: output shapes", **sg)
        eps6 = np.where(ok[..., None], eps6, 0.0)
        z1 = np.where(ok[..., None], z1, z0)
        sc.see(eps6)
        flowing = step_oracles(rec, spec, ref, sc, sg, eps6, z0, z1, np.asarray(sig, float), ok, k)
        moved = np.abs(eps - prev).max(axis=-1) > 0
        unloaded |= ok & was_plastic & ~flowing & moved
        was_plastic |= flowing
        n_ok += int(ok.sum())
        n_flow += int(flowing.sum())
        n_tot += ok.size
        # only a converged step advances the history (point by point)
        znew = np.where(ok[..., None], z1, z0)
        z = FeArray.asfearray(znew)
        prev = eps
    if n_ok == 0:
        raise Inconclusive("no step converged")
    rec.label(f"plastic_fraction:{min(4, int(5 * n_flow / max(n_ok, 1))) * 20}%+")
    if n_ok < n_tot:
        rec.label("has_rejected_steps", f"rejected:{sg['surface']}/{sg['rate']}/kin{sg['nkin']}/br{sg['nbranch']}/{sg['local']}"
                  f":{int(10 * (1 - n_ok / n_tot)) * 10}%+")
    rec.note_max("rejected_step_fraction", 1.0 - n_ok / n_tot)
    rec.nontrivial(bool(unloaded.any()) or (spec["yield"] is None and n_ok > 0))


# ------------------------------------------------------------------------------------------
# (b) tangent


@st.composite
def tangent_cases(draw):
    return dict(beh=draw(cr.behaviour_specs()), path=draw(cr.path_specs(max_segs=3, max_n=3, max_steps=7)))


def check_tangent(case, rec):
    spec, path = case["beh"], case["path"]
    Ne, nPg = int(path["Ne"]), int(path["nPg"])
    mode, dt = spec["mode"], float(spec["dt"])
    beh = cr.build_behaviour(spec, Ne)
    # the difference quotient is taken on a second instance whose local stopping tolerances are tightened
    # (documented solver settings), so that it is the derivative of the return map and not of solver noise
    # (1e-10 C on sigma divided by 2h); the tangent under test comes from the untouched instance
    fdb = cr.build_behaviour(spec, Ne)
    fdb._tol = 1e-13
    fdb._planeStress_tol = 1e-13
    ref = cr.Ref(spec, beh.C, beh.layout.slots)
    sc = Scales(spec, ref)
    sg = cr.sig_of(spec)
    rec.label(*cr.class_label(spec))
    nc = cr.ncomp_of(mode)
    strains = cr.make_path(path, mode, spec["ey"])
    hs = np.array([1.0, 0.25, 8.0]) * 1e-3 * spec["ey"]       # h, h/4, guard
    # perturbations laid along the Gauss-point axis: one Integrate call, one iteration count
    pert = np.zeros((3, nc, 2, nc))
    for a, h in enumerate(hs):
        for j in range(nc):
            pert[a, j, 0, j] = h
            pert[a, j, 1, j] = -h
    pert = pert.reshape(-1, nc)
    K = pert.shape[0]
    z = beh.State_zeros(Ne, nPg)
    hasp = "p" in ref.slots
    kept_flow = kept = 0
    for k, eps in enumerate(strains):
        z0 = np.array(z, float)
        sig, Calg, zn, ok = integrate(beh, eps, z, dt)
        ok = np.asarray(ok, bool)
        z1 = np.array(zn, float)
        Calg = np.asarray(Calg, float)
        epsP = (eps[:, :, None, :] + pert[None, None]).reshape(Ne, nPg * K, nc)
        zP = FeArray.asfearray(np.repeat(z0, K, axis=1))
        sigP, _, znP, okP = integrate(fdb, epsP, zP, dt)
        sigP = np.asarray(sigP, float).reshape(Ne, nPg, 3, nc, 2, nc)
        okP = np.asarray(okP, bool).reshape(Ne, nPg, 3, nc, 2)
        if hasp:
            act = (ref.p(z1) - ref.p(z0)) > 0
            actP = ((ref.p(np.asarray(znP, float)) - ref.p(np.repeat(z0, K, axis=1))) > 0).reshape(Ne, nPg, 3, nc, 2)
        else:
            act = np.zeros((Ne, nPg), bool)
            actP = np.zeros((Ne, nPg, 3, nc, 2), bool)
        keep = ok[..., None] & okP.all(axis=(2, 4)) & (actP == act[..., None, None, None]).all(axis=(2, 4))
        fd = (sigP[..., 0, :] - sigP[..., 1, :]) / (2 * hs[None, None, :, None, None])  # (Ne,nPg,3,j,i)
        col = np.swapaxes(Calg, -1, -2)                                                  # [j, i] = C[i, j]
        rich = fd[:, :, 1] + (fd[:, :, 1] - fd[:, :, 0]) / 15.0                          # h^2 term removed
        cand = np.stack([fd[:, :, 0], fd[:, :, 1], rich], axis=2)
        err = np.abs(cand - col[:, :, None]).max(axis=-1)                                # (Ne,nPg,3,j)
        err = err.min(axis=2)                                   # a disagreement must persist at h, h/4 and extrapolated
        if keep.any():
            # plane stress: the condensed tangent assumes sigma_zz = 0 exactly while the iteration stops at its
            # documented tolerance (eps_zz known to ~1e-9): honest tangent error up to ~1e-5 near sharp hardening
            tol = TOL_FD_PS if mode == "PS" else TOL_FD
            if rec.is_known("tangent_fd", sg) is None:
                rec.note_max("ratio:tangent_fd:" + mode, float(err[keep].max()) / sc.Cmax)
            rec.close(err[keep], sc.Cmax, tol, "tangent_fd",
                      f"step {k}: C_alg differs from the central difference of sigma(eps) at fixed zOld;", **sg)
        kept += int(keep.sum())
        kept_flow += int((keep & act[..., None]).sum())
        z = FeArray.asfearray(np.where(ok[..., None], z1, z0))
    if kept == 0:
        raise Inconclusive("no admissible FD direction")
    rec.label("tangent:flowing" if kept_flow else "tangent:elastic_only")
    rec.nontrivial(kept_flow > 0 or (spec["yield"] is None and kept > 0))


# ------------------------------------------------------------------------------------------
# (c) solvers


@st.composite
def solver_cases(draw):
    # late_v: the Poisson ratio of the elastic law is given its value AFTER the behaviours are built (built with another one)
    return dict(beh=draw(cr.behaviour_specs(reducible=True)),
                path=draw(cr.path_specs(max_segs=4, max_n=4, max_steps=12)), late_v=draw(st.sampled_from([False, False, True])))


def check_solvers(case, rec):
    spec, path = case["beh"], case["path"]
    Ne, nPg = int(path["Ne"]), int(path["nPg"])
    mode, dt = spec["mode"], float(spec["dt"])
    late_v = bool(case.get("late_v")) and spec["elastic"]["kind"] in ("iso", "hetero")

    def mk(solver):
        if not late_v:
            return cr.build_behaviour(spec, Ne, solver=solver)
        # the behaviour is built on a law with another Poisson ratio, which is then set to its value: a parameter of the elastic
        # law changed after construction (the final configuration is the one of the spec)
        v = float(spec["elastic"]["v"])
        s2 = dict(spec, elastic=dict(spec["elastic"], v=(0.1 if v >= 0.2 else 0.35)))
        b = cr.build_behaviour(s2, Ne, solver=solver)
        b.elastic.v = v
        return b

    if late_v:
        rec.label("solvers:law_modified_after_construction")
    fast = mk("auto")
    slow = mk("newton")
    fastT, slowT = mk("auto"), mk("newton")
    for b in (fastT, slowT):
        b._tol = 1e-13
        b._planeStress_tol = 1e-13
    ref = cr.Ref(spec, fast.C, fast.layout.slots)
    sc = Scales(spec, ref)
    sg = cr.sig_of(spec, "auto")
    rec.require(getattr(fast, "_Behavior__eigen") is not None and getattr(slow, "_Behavior__eigen") is None,
                "dispatch", "solver='auto' did not select the spectral return for a reducible behaviour", **sg)
    rec.label(*[l for l in cr.class_label(spec) if not l.startswith("solver:")])
    strains = cr.make_path(path, mode, spec["ey"])
    z = fast.State_zeros(Ne, nPg)
    compared_flow = 0
    for k, eps in enumerate(strains):
        z0 = np.array(z, float)
        sF, CF, zF, okF = integrate(fast, eps, z, dt)
        sS, CS, zS, okS = integrate(slow, eps, z, dt)
        okF, okS = np.asarray(okF, bool), np.asarray(okS, bool)
        m = okF & okS            # a False flag of either solver = step outside the quantifier, nothing is compared
        if (okF != okS).any():
            rec.label("solvers:flag_false:" + ("spectral" if (~okF & okS).any() else "newton"))
        # at neutral loading (f_trial = 0 up to round-off) the two solvers may legitimately pick either side
        # of the active-set switch: same stress and state, one-sided tangents -> tangents are compared only
        # away from that tie
        eps6 = strain6(fast, mode, eps, z, dt)
        sc.see(eps6)
        same_set = np.abs(ref.f(ref.sigma6(eps6, z0), z0)) > TOL_F * sc.f
        if m.any():
            zFa, zSa = np.asarray(zF, float), np.asarray(zS, float)
            # both solvers stop on residuals: 1e-10 (dimensionless) on strain rows, 1e-10 max(sy,1) on f
            dC, mC = np.asarray(CF) - np.asarray(CS), m & same_set
            if mC.any() and np.abs(dC[mC]).max() > 1e-2 * TOL_FD * sc.Cmax:
                # the tangent of a rate law / sharp hardening at a tiny dGamma amplifies the 1e-10 stopping noise of
                # the multiplier (observed 4.5e-6): a tangent disagreement must persist when both solvers iterate to 1e-13
                outT = [integrate(b, eps, z, dt) for b in (fastT, slowT)]
                mC = mC & np.asarray(outT[0][3], bool) & np.asarray(outT[1][3], bool)
                dC = np.asarray(outT[0][1]) - np.asarray(outT[1][1])
                rec.label("solvers:tangent_rechecked_tight")
            for what, err, scale, tol in (
                ("stresses", (np.asarray(sF) - np.asarray(sS))[m], sc.Cmax * max(1.0, sc.eps) + sc.f, TOL_SOLVERS),
                ("states", (zFa - zSa)[m], max(1.0, sc.eps), TOL_SOLVERS),
                ("tangents", dC[mC], sc.Cmax, TOL_FD),
            ):
                if err.size and rec.is_known("solvers_agree", sg) is None:
                    rec.note_max("ratio:solvers_" + what, float(np.abs(err).max()) / scale)
                rec.close(err, scale, tol, "solvers_agree",
                          f"step {k}: spectral and Newton local solvers return different {what};", **sg)
            if (m & ~same_set).any():
                rec.label("solvers:active_set_tie")
            compared_flow += int((m & ((ref.p(zSa) - ref.p(z0)) > 0)).sum())
        z = FeArray.asfearray(np.where(m[..., None], np.asarray(zF, float), z0))
    rec.nontrivial(compared_flow > 0)


# ------------------------------------------------------------------------------------------
# (d) elastic limit


@st.composite
def elastic_cases(draw):
    return dict(mode=cr.pick(draw, ["3D", "PE", "PS"]), elastic=draw(cr.elastic_specs()),
                Ne=draw(st.integers(1, 4)), nPg=draw(st.integers(1, 4)), k=draw(st.integers(0, 9999)),
                amp=cr.pick(draw, [1e-9, 1e-6, 1e-3, 1e-2, 1.0]), zold=cr.pick(draw, ["none", "zeros"]),
                dt=cr.pick(draw, [0.0, 1.0]), solver=cr.pick(draw, ["auto", "newton"]))


def check_elastic(case, rec):
    Ne, nPg, mode = int(case["Ne"]), int(case["nPg"]), case["mode"]
    spec = dict(mode=mode, elastic=case["elastic"], ey=1e-3, hard=None, kin=[], rate=None, branches=[],
                solver=case["solver"], dt=case["dt"])
    spec["yield"] = None
    beh = cr.build_behaviour(spec, Ne)
    sg = dict(mode=mode, elastic=case["elastic"]["kind"])
    rec.label(f"mode:{mode}", f"elastic:{case['elastic']['kind']}")
    rec.require(beh.layout.n == 0, "no_state", "a behaviour without mechanisms has internal variables", **sg)
    C6 = np.asarray(beh.C, float)
    if C6.ndim == 2:
        C6 = np.broadcast_to(C6, (Ne, 6, 6))
    nc = cr.ncomp_of(mode)
    eps = np.random.default_rng(int(case["k"])).normal(size=(Ne, nPg, nc)) * float(case["amp"])
    zOld = None if case["zold"] == "none" else beh.State_zeros(Ne, nPg)
    sig, Calg, z, ok = integrate(beh, eps, zOld, float(case["dt"]))
    Cref = C6 if mode == "3D" else C6[:, cr.IDX_2D, :][:, :, cr.IDX_2D] if mode == "PE" else cr.condense(C6)
    Cmax = float(np.abs(C6).max())
    emax = float(np.abs(eps).max())
    rec.require(np.asarray(ok, bool).all() and np.asarray(z).shape == (Ne, nPg, 0), "elastic_flags",
                "elastic behaviour: converged flag / empty state", **sg)
    rec.close(np.asarray(Calg, float) - Cref[:, None], Cmax, TOL_ID, "elastic_tangent",
              "no internal variables: C_alg != C;", **sg)
    rec.close(np.asarray(sig, float) - np.einsum("eij,epj->epi", Cref, eps), Cmax * emax, TOL_ID, "elastic_sigma",
              "no internal variables: sigma != C eps;", **sg)
    if mode != "PS":
        rec.require(identical(np.asarray(Calg, float), np.broadcast_to(Cref[:, None], (Ne, nPg, nc, nc)).copy()),
                    "elastic_tangent_exact", "no internal variables: C_alg is not bit-identical to C", **sg)
    rec.nontrivial(emax > 0)


# ------------------------------------------------------------------------------------------
# (e) Simulations.InElastic: committed state vs Solve / Save_Iter / Set_Iter


@st.composite
def simu_cases(draw):
    dim = cr.pick(draw, [2, 2, 3])
    if dim == 2:
        r = draw(gm.recipes2d(types=["TRI3", "TRI6", "QUAD4", "QUAD8"], affine_ok=False, hmin=6, hmax=9, nmax=5))
        mode = cr.pick(draw, ["PE", "PS"])
    else:
        r = draw(gm.recipes3d(types=["TETRA4", "HEXA8", "PRISM6"], affine_ok=False, nmax=4))
        mode = "3D"
    # no Maxwell branch next to a yield surface here: a Gauss point whose unrelaxed trial stress is outside the
    # surface while the relaxed stress is inside is reported as non-converged by the local solve (active set frozen
    # at the trial state), which happens at some point of almost every FE step (observed 45 % inconclusive runs)
    spec = draw(cr.behaviour_specs(modes=(mode,), surface=["vm", "vm", "hill"], hetero_ok=False, branches_ok=False))
    nops = draw(st.integers(4, 10))
    ops, nsave = [["solve", draw(st.integers(2, 4))], ["save"]], 1
    if draw(st.integers(0, 2)) == 0:
        # the initial configuration saved as iteration 0 before anything is solved or assembled (an empty committed state)
        ops, nsave = [["save"]] + ops + [["set", 0], ["solve", 1]], 2
    for _ in range(nops - 2):
        kind = cr.pick(draw, ["solve", "save", "set", "solve", "save", "set", "solve"])
        if kind == "solve":
            ops.append(["solve", draw(st.integers(-3, 3))])     # load increment
        elif kind == "save":
            ops.append(["save"])
            nsave += 1
        elif nsave:
            ops.append(["set", draw(st.integers(0, nsave - 1))])
    return dict(recipe=r, beh=spec, ops=ops, dirv=[draw(st.integers(-4, 4)) / 4 for _ in range(3)])


SIMU_INCONCLUSIVE = ("did not converge", "did not converged")


def committed(simu, mesh, beh):
    """copy of the committed state of every main group (missing key = virgin material)."""
    store = getattr(simu, "_InElastic__zOld")
    out = {}
    for g in gm.main_groups(mesh):
        if g.elemType in store:
            out[str(g.elemType)] = np.array(store[g.elemType], float)
        else:
            out[str(g.elemType)] = np.zeros((g.Ne, g.Get_gauss(MatrixType.rigi).nPg, beh.layout.n))
    return out


def same_state(a, b):
    return a.keys() == b.keys() and all(a[k].shape == b[k].shape and a[k].tobytes() == b[k].tobytes() for k in a)


def check_simu(case, rec):
    spec = case["beh"]
    mesh = gm.build(case["recipe"])
    dim = mesh.dim
    if mesh.Ne < 2 or mesh.Ne > 400:
        raise Inconclusive("mesh size out of range")
    beh = cr.build_behaviour(spec, 1)
    sg = cr.sig_of(spec)
    sg["types"] = gm.mesh_types(mesh)
    rec.label(*cr.class_label(spec), "mesh:" + sg["types"])
    simu = Simulations.InElastic(mesh, beh)
    simu.dt = float(spec["dt"])
    used = gm.used_nodes(mesh)
    x = mesh.coord[used, 0]
    order = used[np.argsort(x, kind="stable")]
    third = max(dim + 1, len(order) // 3)
    if 2 * third > len(order):
        raise Inconclusive("too few nodes")
    left, right = order[:third], order[-third:]
    sg["free_dofs"] = "none" if 2 * third == len(order) else "some"
    rec.label("free_dofs:" + sg["free_dofs"])
    Lx = float(np.ptp(x)) or 1.0
    d = np.array(case["dirv"][:dim], float)
    d[0] = d[0] if d[0] != 0 else 1.0
    unknowns = simu.Get_unknowns()
    hasp = "p" in {str(s) for s in beh.layout.slots}
    ey = float(spec["ey"])

    def run(fn):
        try:
            return fn()
        except AssertionError as e:
            if any(s in str(e) for s in SIMU_INCONCLUSIVE):
                raise Inconclusive(f"global/local Newton did not converge [{sg['local']} rate_n={sg['rate_n']} "
                                   f"kin={min(sg['nkin'], 1)} br={min(sg['nbranch'], 1)}]: {str(e)[:24]}")
            raise
        except np.linalg.LinAlgError as e:
            # the local Newton (Behavior.__Flow) hit a singular Jacobian at a trial state of the global iteration (stiff rate law):
            # the step does not converge, which puts it outside the quantifier like the documented non-convergence assertion
            import traceback

            if "__Flow" in traceback.format_exc() or "_Flow" in traceback.format_exc():
                rec.label("simu:local_jacobian_singular")
                raise Inconclusive(f"local Newton: singular Jacobian [{sg['local']} rate_n={sg['rate_n']}]: {str(e)[:24]}")
            raise

    saved = []           # per Save_Iter: (state, displacement, load level)
    level = 0
    solved_since = False
    solve_unsaved = saved_plastic = False
    for k, op in enumerate(case["ops"]):
        before = committed(simu, mesh, beh)
        p_before = np.array(simu.Result("p", nodeValues=False), float) if hasp else None
        if op[0] == "solve":
            level += int(op[1])
            lam = level / 4.0 * ey * Lx
            simu.Bc_Init()
            simu.add_dirichlet(left, [0.0] * dim, unknowns)
            simu.add_dirichlet(right, [float(lam * c) for c in d], unknowns)
            run(simu.Solve)
            after = committed(simu, mesh, beh)
            rec.require(same_state(before, after), "solve_keeps_committed",
                        f"op {k}: Solve() changed the committed internal variables", **sg)
            if hasp:
                rec.require(identical(p_before, np.array(simu.Result("p", nodeValues=False), float)),
                            "solve_keeps_result_p", f"op {k}: Solve() changed Result('p')", **sg)
            if k + 1 >= len(case["ops"]) or case["ops"][k + 1][0] != "save":
                solve_unsaved = True
            solved_since = True
        elif op[0] == "save":
            u = np.array(simu.displacement, float)
            run(simu.Save_Iter)
            after = committed(simu, mesh, beh)
            if not solved_since:
                rec.require(same_state(before, after), "save_without_solve",
                            f"op {k}: Save_Iter() without a new converged step changed the committed state", **sg)
            else:
                # the history advances to the state of the converged step
                for g in gm.main_groups(mesh):
                    key = str(g.elemType)
                    eps = simu._Calc_Epsilon_e_pg(u, g, MatrixType.rigi)
                    _, _, zexp, ok = run(lambda: beh.Integrate(eps, FeArray.asfearray(before[key]), simu.dt))
                    if not np.asarray(ok, bool).all():
                        raise Inconclusive("local solve did not converge at the saved displacement")
                    scale = max(ey, float(np.abs(np.asarray(eps)).max()))
                    rec.close(after[key] - np.asarray(zexp, float), scale, TOL_COMMIT, "save_commits_converged_step",
                              f"op {k}: state committed by Save_Iter is not the integrated state of the saved step;", **sg)
            saved.append((after, u, level))
            if hasp and any(v[..., beh.layout.slots["p"]].max() > 0 for v in after.values()):
                saved_plastic = True
            solved_since = False
        else:
            i = int(op[1])
            run(lambda: simu.Set_Iter(i))
            after = committed(simu, mesh, beh)
            rec.require(same_state(saved[i][0], after), "set_iter_restores",
                        f"op {k}: Set_Iter({i}) did not restore the committed state saved at that iteration", **sg)
            level = saved[i][2]
            solved_since = False
    rec.nontrivial(solve_unsaved and (saved_plastic or not hasp))


# ------------------------------------------------------------------------------------------
# (f) MaterialPoint.Run (mixed stress/strain control) obeys the same pointwise oracles


@st.composite
def matpoint_cases(draw):
    spec = draw(cr.behaviour_specs(modes=("3D",), hetero_ok=False))
    driven = cr.pick(draw, [["xx"], ["xx", "yy"], ["xy"], ["xx", "xy"], ["xx", "yy", "zz", "yz", "xz", "xy"]])
    path = draw(cr.path_specs(max_segs=4, max_n=6, max_steps=16))
    path["Ne"] = path["nPg"] = 1
    return dict(beh=spec, driven=driven, path=path)


def check_matpoint(case, rec):
    spec, path = case["beh"], case["path"]
    beh = cr.build_behaviour(spec, 1)
    ref = cr.Ref(spec, beh.C, beh.layout.slots)
    sc = Scales(spec, ref)
    sg = cr.sig_of(spec)
    sg["driven"] = "+".join(case["driven"])
    rec.label(*cr.class_label(spec), "driven:" + sg["driven"])
    strains = cr.make_path(path, "3D", spec["ey"])[:, 0, 0, :]
    comp = dict(xx=0, yy=1, zz=2, yz=3, xz=4, xy=5)
    drive = {c: strains[:, comp[c]].copy() for c in case["driven"]}
    try:
        res = Models.InElastic.MaterialPoint(beh).Run(strain=drive, dt=float(spec["dt"]))
    except AssertionError as e:
        if "did not converge" in str(e):
            raise Inconclusive("MaterialPoint: behaviour did not converge")
        raise
    except np.linalg.LinAlgError:
        raise Inconclusive("MaterialPoint: singular free-component tangent")
    eps_h, sig_h, z_h = (np.asarray(res[k], float) for k in ("strain", "stress", "state"))
    if not (np.isfinite(eps_h).all() and np.isfinite(sig_h).all()):
        raise Inconclusive("MaterialPoint: stress control diverged")
    z0 = np.zeros((1, 1, ref.n))
    one = np.ones((1, 1), bool)
    free = [i for c, i in comp.items() if c not in case["driven"]]
    flowed = unloaded = False
    for k in range(len(eps_h)):
        for c in case["driven"]:
            rec.require(eps_h[k, comp[c]] == drive[c][k], "matpoint_driven", f"step {k}: driven strain not applied", **sg)
        eps6, z1 = eps_h[k][None, None], z_h[k][None, None]
        sc.see(eps6)
        # a mixed-control step is converged only if the stress-controlled components reached their (zero) target;
        # Run stops its Newton at |r| < 1e-9 (absolute) or after 50 iterations
        if free and not rec.close(sig_h[k][free], sc.sig, 1e-6, "matpoint_targets",
                                  f"step {k}: MaterialPoint.Run recorded a step whose stress-controlled components "
                                  f"are not at their target (stress control not converged, no error raised);", **sg):
            return
        # every recorded row is ONE integration of its strain from the state of the row before (the history advances once per
        # converged row, whatever iterations the stress control needed in between)
        s_once, _, z_once, ok_once = integrate(beh, eps6, FeArray.asfearray(np.array(z0, float)), float(spec["dt"]))
        if np.asarray(ok_once, bool).all():
            rec.close(np.asarray(s_once, float) - sig_h[k][None, None], sc.sig, 1e-8, "matpoint_row_is_one_integration",
                      f"step {k}: the recorded stress is not Behavior.Integrate(strain of the row, state of the previous row)", **sg)
            rec.close(np.asarray(z_once, float) - z1, max(1.0, sc.eps), 1e-8, "matpoint_row_is_one_integration",
                      f"step {k}: the recorded state is not the one Behavior.Integrate returns from the state of the previous row", **sg)
        fl = step_oracles(rec, spec, ref, sc, sg, eps6, z0, z1, sig_h[k][None, None], one, k)
        unloaded |= flowed and not fl.any()
        flowed |= bool(fl.any())
        z0 = z1
    rec.nontrivial(unloaded or spec["yield"] is None)


SUBS = [
    Sub("paths_3d", check_paths, gen=path_cases(("3D",)), quick=90, thorough=1500, shards=6,
        doc="pointwise oracles + purity along generated strain paths, 3D"),
    Sub("paths_pstrain", check_paths, gen=path_cases(("PE",)), quick=90, thorough=1500, shards=4),
    Sub("paths_pstress", check_paths, gen=path_cases(("PS",)), quick=32, thorough=800, shards=6),
    Sub("tangent", check_tangent, gen=tangent_cases, quick=100, thorough=1500, shards=6),
    Sub("solvers", check_solvers, gen=solver_cases, quick=100, thorough=1500, shards=4),
    Sub("elastic_limit", check_elastic, gen=elastic_cases, quick=200, thorough=2000, shards=2),
    Sub("simu_commit", check_simu, gen=simu_cases, quick=80, thorough=400, shards=8),
    Sub("matpoint", check_matpoint, gen=matpoint_cases, quick=100, thorough=600, shards=4),
]

LEVEL_TEXT = ("Hypothesis-generated behaviours (surface x hardening x kinematic x rate x branches x 3D/plane strain/plane "
              "stress x solver) driven along random piecewise-linear strain paths through Behavior.Integrate, "
              "MaterialPoint.Run and Simulations.InElastic; every converged step is checked against independent "
              "reference formulas (yield function, dissipation, trace, plane stress), finite differences, the other "
              "local solver, and bitwise purity / commit-only-on-Save_Iter of the committed state")
LEVEL_NOTE = ("elastic C trusted; solvers held to their documented stopping rules with 100x margin; non-converged steps "
              "excluded (counted); paths <= 30 steps, batches <= 12 points, meshes <= 400 elements; exploration never "
              "establishes absence on unexplored paths")
TECHNIQUE = ("property-based testing (Hypothesis, op-list histories) vs reference constitutive formulas, central "
             "differences, solver cross-check and bitwise state snapshots")
DESIGN_REF = "DESIGN.md 4/C19"
