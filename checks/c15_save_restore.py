"""C15 - saved iterations and saved simulations restore exactly what was saved."""

import os
import shutil
import tempfile

import numpy as np
from hypothesis import strategies as st

from EasyFEA import AlgoType, Models, Simulations
from EasyFEA.FEM._mesh import Load_Mesh
from EasyFEA.Simulations._simu import Load_Simu

from vlib import gen_beam as gb
from vlib import gen_mesh as gm
from vlib.runner import Inconclusive, Sub

PROPERTY = "C15"
RULE = (
    "Hypothesis draws a history (list of 4-16 operations) over a simulation of a generated type (Elastic dynamic, Thermal "
    "parabolic, Beam, PhaseField with history field, InElastic with internal variables, HyperElastic): load step + Solve, "
    "Save_Iter, change of save folder ('' / dir A / dir B), Set_Iter(i), Get_results(i), Result(name, iter=i), replacement "
    "of the mesh, continue-after-restore, simu.Save + Load_Simu, mesh.Save + Load_Mesh. The harness keeps deep-copied shadow "
    "snapshots taken at each Save_Iter. Non-trivial = a restore/read of an iteration older than the last with at least one "
    "solve or folder change in between; distinct = sha1 of the history."
    ' Round 8: Beam members may be dynamic (hyperbolic scheme: the rates belong to the saved state); save_load may target a folder that holds the stored iterations of an earlier run.'
    ' Round 9: after Load_Simu the results of the current state are compared before any Set_Iter; the arrays returned by Get_results are overwritten in place.'
)
ASSUMPTIONS = [
    "shadow snapshots are taken through public getters (fields), Result() values and mesh arrays at the time of Save_Iter",
    "stored data are compared exactly (array_equal); recomputed results after a restore at identity level 1e-12",
    "continuing after Set_Iter(i) with the recorded loads must reproduce the recorded step i+1 (this is what 'internal "
    "variables restored' means operationally)",
    "temporary folders are created per case under a scratch directory and removed afterwards",
]
LEVEL_TEXT = ("model-based stateful testing of the save/restore API: generated histories mixing memory and disk entries, folder "
              "changes, several meshes, restores and continued solves, checked against deep-copied shadow snapshots and a round "
              "trip through Save/Load_Simu and Save/Load_Mesh")
LEVEL_NOTE = "exploration; meshes <= 40 nodes, histories <= 16 operations, 6 simulation types; MPI paths not exercised"
TECHNIQUE = "stateful / model-based property testing (Hypothesis operation lists) with shadow-snapshot and round-trip oracles"
DESIGN_REF = "DESIGN.md 4/C15"

KINDS = ["elastic_dyn", "thermal", "beam", "phasefield", "inelastic", "hyperelastic"]
SMALL = ["TRI3", "QUAD4"]


# ------------------------------------------------------------------------------------------
# adapters: how to build / load-step / observe each simulation type


def _mesh2d(recipe):
    mesh = gm.build(recipe)
    if mesh.Nn > 45:
        raise Inconclusive("mesh too large for a history")
    return mesh


def _patches(mesh):
    bn = gm.boundary_nodes(mesh)
    c = np.asarray(mesh.coord, float)[bn]
    p = c[:, 0] + 0.31 * c[:, 1]
    lo, hi = p.min(), p.max()
    fixed, loaded = bn[p <= lo + 0.3 * (hi - lo)], bn[p >= hi - 0.3 * (hi - lo)]
    if fixed.size < 2:
        # one clamped node leaves the rigid rotation about it to the single prescribed component: the two lowest nodes instead
        fixed = bn[np.argsort(p, kind="stable")[:2]]
        loaded = np.setdiff1d(loaded, fixed)
        if loaded.size == 0:
            raise Inconclusive("mesh too small for a supported and a loaded patch")
    return fixed, loaded


class Adapter:
    def __init__(self, kind, case):
        self.kind = kind
        self.case = case

    # -- construction ---------------------------------------------------------------------
    def make(self, recipe):
        k = self.kind
        if k == "beam":
            spec = dict(self.case["member"])
            simu, mesh, beam, frame = gb.build_member(spec)
            self.spec = spec
            if self.case.get("algo"):
                # a dynamic beam analysis: the velocity and the acceleration belong to the state
                simu.rho = 2.0
                simu.Solver_Set_Hyperbolic_Algorithm(0.2, algo=AlgoType(self.case["algo"]), alpha=0.1)
            return simu
        mesh = _mesh2d(recipe)
        if k == "elastic_dyn":
            simu = Simulations.Elastic(mesh, Models.Elastic.Isotropic(2, E=10.0, v=0.3, planeStress=True))
            simu.rho = 1.5
            simu.Solver_Set_Hyperbolic_Algorithm(0.2, algo=AlgoType(self.case.get("algo", "newmark")), alpha=0.1)
        elif k == "thermal":
            simu = Simulations.Thermal(mesh, Models.Thermal(k=1.5, c=1.0))
            simu.Solver_Set_Parabolic_Algorithm(0.1, 0.5)
        elif k == "phasefield":
            mat = Models.Elastic.Isotropic(2, E=10.0, v=0.3, planeStress=False)
            pfm = Models.PhaseField(mat, self.case.get("split", "Miehe"), self.case.get("regu", "AT2"), 0.05, 0.4,
                                    solver=self.case.get("pfsolver", "History"))
            simu = Simulations.PhaseField(mesh, pfm)
        elif k == "inelastic":
            el = Models.Elastic.Isotropic(3, E=100.0, v=0.3)
            beh = Models.InElastic.Behavior(2, el, yieldSurface=Models.InElastic.Yield.VonMises(0.5),
                                            hardening=Models.InElastic.IsotropicHardening.Linear(10.0))
            simu = Simulations.InElastic(mesh, beh)
        elif k == "hyperelastic":
            simu = Simulations.HyperElastic(mesh, Models.HyperElastic.NeoHookean(2, K=5.0))
        else:
            raise KeyError(k)
        return simu

    def set_algo(self, simu, which):
        """steady (elliptic) or the transient scheme make() selects"""
        if which == "steady":
            simu.Solver_Set_Elliptic_Algorithm()
        elif self.kind == "thermal":
            simu.Solver_Set_Parabolic_Algorithm(0.1, 0.5)
        else:
            simu.Solver_Set_Hyperbolic_Algorithm(0.2, algo=AlgoType(self.case.get("algo", "newmark")), alpha=0.1)

    # -- one load step ----------------------------------------------------------------------
    def step(self, simu, lam):
        k = self.kind
        mesh = simu.mesh
        simu.Bc_Init()
        if k == "beam":
            n1, n2 = gb.end_nodes(mesh, self.spec)
            unk = simu.Get_unknowns()
            simu.add_dirichlet(np.array([n1]), [0.0] * len(unk), unk)
            simu.add_neumann(np.array([n2]), [0.01 * lam, -0.02 * lam], unk[:2])
        else:
            fixed, loaded = _patches(mesh)
            unk = simu.Get_unknowns() if k != "phasefield" else ["x", "y"]
            if k == "thermal":
                simu.add_dirichlet(fixed, [0.0], ["t"])
                simu.add_dirichlet(loaded, [1.0 * lam], ["t"])
            elif k == "elastic_dyn":
                simu.add_dirichlet(fixed, [0.0, 0.0], unk)
                simu.add_surfLoad(loaded, [0.3 * lam, -0.2 * lam], unk)
            elif k == "phasefield":
                simu.add_dirichlet(fixed, [0.0, 0.0], ["x", "y"])
                simu.add_dirichlet(loaded, [0.08 * lam], ["x"])
            elif k == "inelastic":
                simu.add_dirichlet(fixed, [0.0, 0.0], unk)
                simu.add_dirichlet(loaded, [0.02 * lam], ["x"])
            elif k == "hyperelastic":
                simu.add_dirichlet(fixed, [0.0, 0.0], unk)
                simu.add_dirichlet(loaded, [0.05 * lam], ["x"])
        try:
            if k == "phasefield" and self.case.get("conv") is not None:
                simu.Solve(convOption=int(self.case["conv"]))  # stopping rules that do not evaluate the energies
            else:
                simu.Solve()
        except Exception as e:
            if "converge" in str(e).lower() or "det(F)" in str(e):
                raise Inconclusive("load step did not converge")
            raise
        if not np.all(np.isfinite(np.asarray(simu._Get_u_n(simu.problemType), float))):
            # a singular step (the solver warns and returns NaN) is not a converged step: nothing to save or restore
            raise Inconclusive("load step singular (non-finite solution)")

    # -- observation ------------------------------------------------------------------------
    def fields(self, simu):
        k = self.kind
        out = {}
        if k == "phasefield":
            out["displacement"] = np.array(simu.displacement, float)
            out["damage"] = np.array(simu.damage, float)
        elif k == "thermal":
            out["thermal"] = np.array(simu.thermal, float)
            out["thermalDot"] = np.array(simu.thermalDot, float)
        elif k == "elastic_dyn":
            out["displacement"] = np.array(simu.displacement, float)
            out["speed"] = np.array(simu.speed, float)
            out["accel"] = np.array(simu.accel, float)
        else:
            out["displacement"] = np.array(simu.displacement, float)
            if k == "beam" and self.case.get("algo"):
                out["speed"] = np.array(simu._Get_v_n(simu.problemType), float)
                out["accel"] = np.array(simu._Get_a_n(simu.problemType), float)
        return out

    def results(self, simu):
        k = self.kind
        names = dict(elastic_dyn=["Svm", "Wdef"], thermal=["thermal"], beam=["N", "Mz"], phasefield=["psiP", "damage", "Svm", "Wdef", "Psi_Crack"],
                     inelastic=["Svm", "p"], hyperelastic=["Svm"])[k]
        out = {}
        for nm in names:
            v = simu.Result(nm, nodeValues=False) if nm not in ("Wdef", "Psi_Crack") else simu.Result(nm)
            if v is not None:
                out[nm] = np.array(v, float)
        return out


def _mesh_sig(mesh):
    d = dict(coord=np.array(mesh.coord, float))
    for et, g in mesh.dict_groupElem.items():
        d["connect:" + str(et)] = np.array(g.connect)
    return d


# ------------------------------------------------------------------------------------------
# generation


@st.composite
def op_strategy(draw):
    name = draw(st.sampled_from(["solve", "solve", "save", "save", "folder", "set_iter", "get_results", "result_iter",
                                 "replace_mesh", "continue", "save_load", "mesh_save_load"]))
    op = dict(op=name)
    if name == "solve":
        op["lam"] = draw(st.integers(-4, 8)) / 4.0
    elif name == "save":
        op["extra"] = draw(st.sampled_from([None, None, "fresh", "shared"]))
    elif name == "save_load":
        op["to"] = draw(st.sampled_from(["own", "folder"]))
        # the target folder already holds the stored iterations of an earlier run (another history, same file names)
        op["leftovers"] = draw(st.sampled_from([False, False, True]))
    elif name == "folder":
        op["to"] = draw(st.sampled_from(["", "A", "B"]))
    elif name in ("set_iter", "get_results", "result_iter", "continue"):
        op["i"] = draw(st.integers(0, 7))
        # how the iteration is addressed: its index, the same iteration counted from the end, or the last one (the default, -1)
        op["addr"] = draw(st.sampled_from(["index", "index", "from_end", "last"]))
    elif name == "replace_mesh":
        op["recipe"] = draw(gm.recipes2d(types=SMALL, affine_ok=False, perm_ok=False, hmin=7, hmax=9, nmax=4))
    return op


@st.composite
def histories(draw, kinds=KINDS):
    kind = draw(st.sampled_from(list(kinds)))
    case = dict(kind=kind, folder0=draw(st.sampled_from(["", "", "A"])),
                recipe=draw(gm.recipes2d(types=SMALL, affine_ok=False, perm_ok=False, hmin=7, hmax=9, nmax=4)),
                ops=[])
    # a prefix of solve/save pairs (with folder changes in between) so that most histories hold several stored
    # iterations in different places before the free part starts
    npairs = draw(st.integers(1, 4))
    ops = []
    xmode = draw(st.sampled_from([None, None, "fresh", "shared"]))
    for _ in range(npairs):
        ops.append(dict(op="solve", lam=draw(st.integers(-4, 8)) / 4.0))
        ops.append(dict(op="save", extra=xmode))
        if draw(st.integers(0, 2)) == 0:
            ops.append(dict(op="folder", to=draw(st.sampled_from(["", "A", "B"]))))
    if kind != "beam" and draw(st.integers(0, 4)) == 0:
        # scenario: iterations on two meshes, restore the first mesh, then a THIRD mesh is assigned while an older mesh
        # is current, saved, and every stored iteration is restored in turn
        rec2 = draw(gm.recipes2d(types=SMALL, affine_ok=False, perm_ok=False, hmin=7, hmax=9, nmax=4))
        rec3 = draw(gm.recipes2d(types=SMALL, affine_ok=False, perm_ok=False, hmin=7, hmax=9, nmax=4))
        ops = [dict(op="solve", lam=0.5), dict(op="save"), dict(op="replace_mesh", recipe=rec2), dict(op="solve", lam=0.75), dict(op="save"),
               dict(op="set_iter", i=0), dict(op="replace_mesh", recipe=rec3), dict(op="solve", lam=1.0), dict(op="save"),
               dict(op="set_iter", i=1), dict(op="set_iter", i=2), dict(op="set_iter", i=0), dict(op="get_results", i=2)]
    elif kind != "beam" and draw(st.integers(0, 5)) == 0:
        # scenario: a history on two meshes saved in a folder of its own, then the iterations folder changed by hand and the
        # simulation saved again into that folder; every iteration must be restorable from the second copy
        rec2 = draw(gm.recipes2d(types=SMALL, affine_ok=False, perm_ok=False, hmin=7, hmax=9, nmax=4))
        ops = [dict(op="solve", lam=0.5), dict(op="save"), dict(op="replace_mesh", recipe=rec2), dict(op="solve", lam=0.75), dict(op="save"),
               dict(op="save_load", to="own", leftovers=draw(st.booleans())), dict(op="folder", to="B"), dict(op="save_load", to="folder")]
    elif kind in ("thermal", "elastic_dyn") and draw(st.integers(0, 3)) == 0:
        # scenario: a steady (elliptic) first iteration, then transient steps; the steady iteration is restored under the
        # transient algorithm and the first transient step is computed again from it
        ops = [dict(op="algo", to="steady"), dict(op="solve", lam=0.5), dict(op="save"), dict(op="algo", to="transient")]
        for k in range(draw(st.integers(2, 3))):
            ops += [dict(op="solve", lam=0.5 + 0.25 * (k + 1)), dict(op="save")]
        ops += [dict(op=draw(st.sampled_from(["continue", "continue", "set_iter"])), i=0, addr="index")]
    elif kind in ("phasefield", "inelastic") and draw(st.integers(0, 3)) == 0:
        # scenario: loading up to a peak, then unloading, every step saved; the iterations saved at and just after the peak
        # (where the internal variables stop following the load) are restored and the next step is computed again
        peak = draw(st.sampled_from([1.5, 2.0]))
        ops = []
        for lam in (0.5, 1.0, peak, 0.75, 0.25):
            ops += [dict(op="solve", lam=lam), dict(op="save")]
        ops += [dict(op="set_iter", i=3, addr="index"), dict(op="continue", i=3, addr="index"), dict(op="continue", i=2, addr="index"),
                dict(op="continue", i=0, addr="index"), dict(op="set_iter", i=4, addr="index")]
    elif kind != "phasefield" and draw(st.integers(0, 5)) == 0:
        # (PhaseField.Save_Iter stores the convergence record of the last Solve and needs one)
        # scenario: the initial configuration stored as iteration 0 before anything is solved, restored after the run
        ops = [dict(op="save", initial=True)]
        for k in range(draw(st.integers(2, 4))):
            ops += [dict(op="solve", lam=0.5 * (k + 1)), dict(op="save")]
        ops += [dict(op=draw(st.sampled_from(["continue", "continue", "set_iter"])), i=0, addr="index")]
    elif draw(st.integers(0, 4)) == 0:
        # scenario: a monitoring loop that looks at the iteration it has just stored as "the last one", in memory or on disk
        how = draw(st.sampled_from(["get_results", "result_iter", "set_iter"]))
        ops = [dict(op="folder", to=draw(st.sampled_from(["A", "A", ""])))]
        for k in range(draw(st.integers(2, 4))):
            ops += [dict(op="solve", lam=0.25 * (k + 1)), dict(op="save"), dict(op=how, i=0, addr="last")]
    ops += draw(st.lists(op_strategy(), min_size=3, max_size=12))
    case["ops"] = ops
    case["audit"] = draw(st.sampled_from(["each", "end"]))
    if kind == "beam":
        case["member"] = draw(gb.member_specs(dims=(2,), types=("SEG2", "SEG3")))
        case["algo"] = draw(st.sampled_from([None, None, "newmark", "midpoint", "hht"]))  # static or dynamic member
    if kind == "elastic_dyn":
        case["algo"] = draw(st.sampled_from(["newmark", "midpoint", "hht", "hht_newmark", "euler_implicit", "euler_explicit"]))
    if kind == "phasefield":
        case["pfsolver"] = draw(st.sampled_from(["History", "HistoryDamage", "BoundConstrain"]))
        case["regu"] = draw(st.sampled_from(["AT1", "AT2"]))
        case["split"] = draw(st.sampled_from(["Miehe", "Amor", "Bourdin"]))
        case["conv"] = draw(st.sampled_from([None, None, 0, 3]))
        if any(o.get("addr") == "index" and o["op"] == "continue" and o["i"] == 3 for o in ops[:16]) and draw(st.booleans()):
            # the peak / unloading scenario with the combination under which the history field is not refreshed by an
            # energy evaluation before it is stored
            case["pfsolver"] = "History"
            case["conv"] = draw(st.sampled_from([0, 3]))
    return case


# ------------------------------------------------------------------------------------------
# interpreter


def _equal_fields(rec, got, exp, oracle, msg, sig, exact=True):
    for k, v in exp.items():
        rec.require(k in got, oracle, f"{msg}: field '{k}' missing", **sig)
        g = np.asarray(got[k], float)
        rec.require(g.shape == v.shape, oracle, f"{msg}: field '{k}' has shape {g.shape}, saved {v.shape}", **sig)
        if exact:
            rec.require(np.array_equal(g, v), oracle, f"{msg}: field '{k}' differs from what was saved "
                        f"(max diff {np.abs(g - v).max() if g.size else 0:.3e})", **sig)
        else:
            rec.close(g - v, np.abs(v).max() + 1e-9, 1e-10, oracle, f"{msg}: '{k}'", **sig)


def _stored(S, r, kind):
    """the saved fields a stored iteration must contain: all of them, except the rates of an iteration saved under the
    steady algorithm (and of thermal iterations), which are compared only when the stored iteration has them"""
    return {k: v for k, v in S["fields"].items() if k in r or not (kind == "thermal" or S.get("steady"))}


def run_history(case, rec):
    kind = case["kind"]
    sig = dict(kind=kind)
    rec.label("kind:" + kind)
    ad = Adapter(kind, case)
    root = tempfile.mkdtemp(prefix="verif_c15_")
    dirs = {"": "", "A": os.path.join(root, "A"), "B": os.path.join(root, "B")}
    try:
        simu = ad.make(case["recipe"])
        simu.folder = dirs[case["folder0"]]
        snaps = []  # shadow snapshots: dict(fields, results, mesh, lam_next, where)
        shared_extra = {}
        cur_mesh_sig = _mesh_sig(simu.mesh)
        last_lam = None
        events_since_save = 0
        nontrivial = False
        steps_log = []  # lam of every solve, for 'continue'
        steady = False  # the steady (elliptic) algorithm is selected
        for op in case["ops"]:
            name = op["op"]
            sig["op"] = name
            rec.label("op:" + name)
            if name == "solve":
                ad.step(simu, op["lam"])
                last_lam = op["lam"]
                events_since_save += 1
                if snaps and snaps[-1]["next"] is None and snaps[-1]["is_current"]:
                    snaps[-1]["next"] = dict(lam=op["lam"], fields=ad.fields(simu))
                for s in snaps:
                    s["is_current"] = False
            elif name == "save":
                if last_lam is None and not (op.get("initial") and not snaps):
                    continue
                if last_lam is None:
                    rec.label("saved:initial_configuration")
                    last_lam = 0.0
                fields = ad.fields(simu)
                extra = op.get("extra")
                if extra:
                    # extra per-iteration data handed to Save_Iter: a new dict every time, or the same dict object updated by the
                    # caller before each call (the stored iterations must not be views of it)
                    xd = shared_extra if extra == "shared" else {}
                    xd["load_level"] = float(last_lam)
                    simu.Save_Iter(xd)
                    rec.label("save_extra:" + extra)
                else:
                    simu.Save_Iter()
                # results are recorded once the step is committed (history-dependent materials commit at Save_Iter)
                res = ad.results(simu)
                _equal_fields(rec, ad.fields(simu), fields, "save_iter_pure", "Save_Iter changed the current fields", sig)
                snaps.append(dict(fields=fields, results=res, mesh=_mesh_sig(simu.mesh), next=None, is_current=True, steady=steady,
                                  where="disk" if simu.folder else "memory", extra=float(last_lam) if extra else None))
                rec.label("saved:" + snaps[-1]["where"])
                events_since_save = 0
                rec.require(simu.Niter == len(snaps), "niter", f"Niter={simu.Niter} after {len(snaps)} Save_Iter", **sig)
            elif name == "folder":
                simu.folder = dirs[op["to"]]
                events_since_save += 1
            elif name == "algo":
                ad.set_algo(simu, op["to"])
                steady = op["to"] == "steady"
                rec.label("algo:" + op["to"])
            elif name == "replace_mesh":
                m2 = _mesh2d(op["recipe"]) if kind != "beam" else None
                if m2 is None:
                    continue
                simu.mesh = m2
                last_lam = None
                events_since_save += 1
                for s in snaps:
                    s["is_current"] = False
            elif name in ("get_results", "set_iter", "result_iter", "continue"):
                if not snaps:
                    continue
                i = op["i"] % len(snaps)
                addr = op.get("addr", "index")
                if addr == "last":
                    i = len(snaps) - 1
                S = snaps[i]
                old = i < len(snaps) - 1 and events_since_save > 0
                if addr != "index":
                    i = -1 if addr == "last" else i - len(snaps)  # what the API receives
                    rec.label("addr:" + addr)
                if name == "get_results":
                    before = ad.fields(simu)
                    mesh_before = _mesh_sig(simu.mesh)
                    r = simu.Get_results(i)
                    _equal_fields(rec, r, _stored(S, r, kind), "get_results",
                                  f"Get_results({i}) [{S['where']}]", sig)
                    if S.get("extra") is not None:
                        rec.require(float(r.get("load_level", np.nan)) == S["extra"], "get_results_extra",
                                    f"Get_results({i}) [{S['where']}]: extra data load_level={r.get('load_level')!r}, {S['extra']!r} was saved", **sig)
                    _equal_fields(rec, ad.fields(simu), before, "get_results_pure", f"Get_results({i}) altered the simulation state", sig)
                    _equal_fields(rec, _mesh_sig(simu.mesh), mesh_before, "get_results_pure", f"Get_results({i}) altered the mesh", sig)
                    # what was read is the caller's: the arrays of the returned dict are overwritten (a post-processing done in
                    # place); the stored iteration and the live state must not follow
                    for v_ in r.values():
                        if isinstance(v_, np.ndarray) and v_.dtype.kind == "f" and v_.flags.writeable:
                            v_[...] = 12345.0
                    r_again = simu.Get_results(i)
                    _equal_fields(rec, r_again, _stored(S, r_again, kind), "get_results_not_shared",
                                  f"Get_results({i}) [{S['where']}] after the arrays of an earlier read were overwritten in place", sig)
                    _equal_fields(rec, ad.fields(simu), before, "get_results_not_shared", f"the live state follows the arrays returned by Get_results({i})", sig)
                    nontrivial |= old
                else:
                    if name == "result_iter":
                        nm = sorted(S["results"])[0] if S["results"] else None
                        if nm is None:
                            continue
                        v = simu.Result(nm, nodeValues=False, iter=i) if nm not in ("Wdef", "Psi_Crack") else simu.Result(nm, iter=i)
                        exp = S["results"][nm]
                        rec.require(v is not None and np.shape(v) == exp.shape, "result_iter_shape", f"Result('{nm}', iter={i}) has shape "
                                    f"{np.shape(v)}, at save time {exp.shape}", **sig)
                        rec.close(np.asarray(v, float) - exp, np.abs(exp).max() + 1e-9, 1e-10, "result_iter",
                                  f"{kind}: Result('{nm}', iter={i}) [{S['where']}] differs from the value at save time", **sig)
                    else:
                        simu.Set_Iter(i)
                    _equal_fields(rec, ad.fields(simu), S["fields"], "set_iter_fields", f"{kind}: Set_Iter({i}) [{S['where']}]", sig)
                    _equal_fields(rec, _mesh_sig(simu.mesh), S["mesh"], "set_iter_mesh", f"{kind}: Set_Iter({i}) mesh", sig)
                    res = ad.results(simu)
                    for nm, exp in S["results"].items():
                        rec.require(nm in res and res[nm].shape == exp.shape, "set_iter_results_shape", f"Result('{nm}') after Set_Iter({i})", **sig)
                        rec.close(res[nm] - exp, np.abs(exp).max() + 1e-9, 1e-10, "set_iter_results",
                                  f"{kind}: Result('{nm}') after Set_Iter({i}) [{S['where']}] differs from the value at save time", **sig)
                    for s in snaps:
                        s["is_current"] = False
                    S["is_current"] = True
                    last_lam = 0.0
                    nontrivial |= old
                    if name == "continue" and S["next"] is not None:
                        ad.step(simu, S["next"]["lam"])
                        _equal_fields(rec, ad.fields(simu), S["next"]["fields"], "continue_after_restore",
                                      f"{kind}: the step recorded after iteration {i} is not reproduced after Set_Iter({i}) "
                                      f"[{S['where']}]", sig, exact=False)
                        for s in snaps:
                            s["is_current"] = False
                        rec.label("continued")
                    events_since_save += 1
            elif name == "save_load":
                if not snaps:
                    continue
                # target: a folder of its own, or the folder the iterations are currently written to (changed by hand before)
                folder = simu.folder if (op.get("to") == "folder" and simu.folder) else os.path.join(root, "S")
                rec.label("save_to:" + ("iterations_folder" if folder == simu.folder else "own_folder"))
                if op.get("leftovers") and folder != simu.folder and not os.path.exists(folder):
                    # an earlier run of the same script, with other loads, wrote its iterations into that folder
                    try:
                        old_run = ad.make(case["recipe"])
                        old_run.folder = folder
                        for lam_ in (-1.0, 1.75, 0.375, 1.25):
                            ad.step(old_run, lam_)
                            old_run.Save_Iter()
                        rec.label("save_to:folder_with_leftovers")
                    except Inconclusive:
                        pass
                cur_fields = ad.fields(simu)
                cur_results = ad.results(simu)  # results of the current state (history-dependent ones included) before it is saved
                try:
                    simu.Save(folder)
                except AttributeError as e:
                    if "pickle" not in str(e):
                        raise
                    # classified as an oracle failure with a narrow signature (the model cannot be pickled)
                    rec.require(False, "save_pickle", f"{kind}: simu.Save raises {str(e)[:90]}", kind=kind)
                    continue
                loaded = Load_Simu(folder)
                rec.require(loaded.Niter == len(snaps), "load_niter", f"loaded Niter={loaded.Niter}, saved {len(snaps)}", **sig)
                _equal_fields(rec, _mesh_sig(loaded.mesh), _mesh_sig(simu.mesh), "load_mesh", "Load_Simu: mesh", sig)
                for g0, g1 in zip(simu.mesh.dict_groupElem.values(), loaded.mesh.dict_groupElem.values()):
                    rec.require(sorted(g0.nodeTags) == sorted(g1.nodeTags), "load_tags", "Load_Simu: node tags differ", **sig)
                _equal_fields(rec, ad.fields(loaded), cur_fields, "load_fields", "Load_Simu: current fields", sig)
                # the loaded simulation stands where the saved one stood: same results of the current state, internal variables
                # (history field, committed state) included - before any iteration is restored
                res_loaded = ad.results(loaded)
                for nm, exp in cur_results.items():
                    if nm in res_loaded and np.shape(res_loaded[nm]) == np.shape(exp):
                        rec.close(res_loaded[nm] - exp, float(np.abs(exp).max()) + 1e-9, 1e-10, "load_current_results",
                                  f"Load_Simu: Result('{nm}') of the current state differs from the one of the simulation that was saved", **sig)
                for j, S in enumerate(snaps):
                    r = loaded.Get_results(j)
                    _equal_fields(rec, r, _stored(S, r, kind), "load_history",
                                  f"Load_Simu: stored iteration {j} [{S['where']}]", sig)
                # every stored iteration can be restored in the loaded simulation, whatever mesh it was saved on
                for j in list(range(len(snaps) - 1)) + [len(snaps) - 1]:
                    loaded.Set_Iter(j)
                    _equal_fields(rec, _mesh_sig(loaded.mesh), snaps[j]["mesh"], "load_set_iter_mesh", f"Load_Simu then Set_Iter({j}): mesh", sig)
                    _equal_fields(rec, ad.fields(loaded), snaps[j]["fields"], "load_set_iter_fields", f"Load_Simu then Set_Iter({j})", sig)
                res = ad.results(loaded)
                for nm, exp in snaps[j]["results"].items():
                    rec.close(res[nm] - exp, np.abs(exp).max() + 1e-9, 1e-10, "load_results", f"Load_Simu: Result('{nm}') of iteration {j}", **sig)
                # the live simulation keeps working after Save()
                simu.Set_Iter(0)
                _equal_fields(rec, ad.fields(simu), snaps[0]["fields"], "set_iter_fields", f"{kind}: Set_Iter(0) after Save()", sig)
                for s in snaps:
                    s["is_current"] = False
                snaps[0]["is_current"] = True
                last_lam = 0.0
                nontrivial = True
            elif name == "mesh_save_load":
                mdir = os.path.join(root, "M")
                # user tags: a few scattered nodes (gauges: no element of any group is covered) and the nodes of one element
                Nn_ = simu.mesh.Nn
                gauges = np.unique(np.array([0, Nn_ // 3, (2 * Nn_) // 3, Nn_ - 1], int))
                simu.mesh.Set_Tag(gauges, "verif_gauges")
                g_main = gm.main_groups(simu.mesh)[0] if kind != "beam" else None
                if g_main is not None:
                    simu.mesh.Set_Tag(np.asarray(g_main.connect[0], int), "verif_elem0")
                rec.require(np.array_equal(np.sort(simu.mesh.Nodes_Tags(["verif_gauges"])), gauges), "mesh_user_tag",
                            "Nodes_Tags does not give back the nodes a user tag was set on", **sig)
                path = simu.mesh.Save(mdir)
                m2 = Load_Mesh(path)
                _equal_fields(rec, _mesh_sig(m2), _mesh_sig(simu.mesh), "mesh_roundtrip", "mesh.Save + Load_Mesh", sig)
                for g0 in simu.mesh.dict_groupElem.values():
                    g1 = m2.dict_groupElem[g0.elemType]
                    rec.require(sorted(g0.nodeTags) == sorted(g1.nodeTags) and sorted(g0.elementTags) == sorted(g1.elementTags),
                                "mesh_roundtrip_tags", f"tags of {g0.elemType} differ after Save/Load_Mesh", **sig)
                    for t in g0.nodeTags:
                        rec.require(np.array_equal(np.sort(g0.Get_Nodes_Tag(t)), np.sort(g1.Get_Nodes_Tag(t))), "mesh_roundtrip_tags",
                                    f"nodes of tag {t} differ", **sig)
                rec.require(np.array_equal(np.sort(m2.Nodes_Tags(["verif_gauges"])), gauges), "mesh_roundtrip_tags",
                            "user tag on scattered nodes lost or changed by Save / Load_Mesh", **sig)
            # stored iterations are never altered by what happened since: one of them is read back after every operation
            # (audit = "each"), or all of them at the end only (audit = "end": the history then contains no read of its own making,
            # so that what one read leaves behind for the next one is not wiped out by the harness)
            if snaps and case.get("audit", "each") == "each":
                j = (len(case["ops"]) + len(snaps)) % len(snaps)
                r = simu.Get_results(j)
                _equal_fields(rec, r, _stored(snaps[j], r, kind), "stored_unaltered",
                              f"{kind}: stored iteration {j} [{snaps[j]['where']}] changed after '{name}'", sig)
        if case.get("audit", "each") == "end":
            for j in range(len(snaps)):
                r = simu.Get_results(j)
                _equal_fields(rec, r, _stored(snaps[j], r, kind), "stored_unaltered",
                              f"{kind}: stored iteration {j} [{snaps[j]['where']}] changed by the end of the history", sig)
        rec.label("audit:" + case.get("audit", "each"))
        rec.nontrivial(nontrivial)
    finally:
        shutil.rmtree(root, ignore_errors=True)


SUBS = [
    Sub("history_linear", run_history, gen=lambda: histories(["elastic_dyn", "thermal", "beam"]), quick=200, thorough=900, shards=6),
    Sub("history_nonlinear", run_history, gen=lambda: histories(["phasefield", "inelastic", "hyperelastic"]), quick=120, thorough=500, shards=8),
]


# ------------------------------------------------------------------------------------------
# (added by the lead) the scenarios of the generated histories, enumerated once for every simulation kind and option, so that
# they do not depend on what a seed happens to draw


def _peak_ops(peak=2.0):
    ops = []
    for lam in (0.5, 1.0, peak, 0.75, 0.25):
        ops += [dict(op="solve", lam=lam), dict(op="save")]
    return ops + [dict(op="set_iter", i=3, addr="index"), dict(op="continue", i=3, addr="index"), dict(op="continue", i=2, addr="index"),
                  dict(op="continue", i=0, addr="index"), dict(op="set_iter", i=4, addr="index"), dict(op="result_iter", i=3, addr="index")]


def enum_scenarios(tier):
    sq = [[0.0, 0.0], [1.0, 0.0], [1.0, 1.0], [0.0, 1.0]]
    recipes = [dict(verts=sq, h=0.5, elemType=et, organised=(et == "QUAD4"), extrude=None, layers=0, A=None, b=None, perm=None, orphans=0)
               for et in ("TRI3", "QUAD4")]
    for r in recipes:
        for folder0 in ("", "A"):
            for solver in ("History", "HistoryDamage", "BoundConstrain"):
                for conv in (None, 0, 3):
                    yield dict(kind="phasefield", folder0=folder0, recipe=r, ops=_peak_ops(), audit="end", pfsolver=solver, regu="AT2", split="Miehe", conv=conv)
            for kind in ("inelastic", "hyperelastic"):
                yield dict(kind=kind, folder0=folder0, recipe=r, ops=_peak_ops(1.5), audit="end")
                yield dict(kind=kind, folder0=folder0, recipe=r, audit="end",
                           ops=[dict(op="save", initial=True), dict(op="solve", lam=1.0), dict(op="save"), dict(op="solve", lam=2.0), dict(op="save"),
                                dict(op="set_iter", i=0, addr="index"), dict(op="continue", i=0, addr="index")])
            for kind, algos in (("thermal", [None]), ("elastic_dyn", ["newmark", "midpoint", "hht"])):
                for algo in algos:
                    base = dict(kind=kind, folder0=folder0, recipe=r, audit="end")
                    if algo:
                        base["algo"] = algo
                    yield dict(base, ops=[dict(op="algo", to="steady"), dict(op="solve", lam=0.5), dict(op="save"), dict(op="algo", to="transient"),
                                          dict(op="solve", lam=0.75), dict(op="save"), dict(op="solve", lam=1.0), dict(op="save"),
                                          dict(op="set_iter", i=0, addr="index"), dict(op="continue", i=0, addr="index"), dict(op="continue", i=1, addr="index")])
                    yield dict(base, ops=[dict(op="save", initial=True), dict(op="solve", lam=0.5), dict(op="save"), dict(op="solve", lam=1.0), dict(op="save"),
                                          dict(op="continue", i=0, addr="index"), dict(op="set_iter", i=1, addr="index")])


SUBS.append(Sub("scenarios", run_history, enum=enum_scenarios,
                doc="peak / unloading, initial-configuration save and steady-then-transient scenarios x simulation kind x solver / stopping rule / scheme x memory / disk"))
