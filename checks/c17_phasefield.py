"""C17 - phase-field energy splits (finite, partition, spectral positive part vs eigh) and irreversibility
of the history field / damage along load-unload-reload histories."""

import numpy as np
from hypothesis import strategies as st

from EasyFEA import Models, Simulations
from EasyFEA.FEM import FeArray

from vlib import c17_oracle as co
from vlib import gen_mesh as gm
from vlib.runner import Inconclusive, Sub

PROPERTY = "C17"
RULE = (
    "split_pointwise_2d/3d: Hypothesis draws an FeArray strain field (1-3 elements x 1-4 Gauss points) whose "
    "points are eigenvalues on a coarse grid x 10^-{0,2,5} x (no | random) rotation, by class: generic, zero, "
    "hydrostatic, uniaxial, two equal (both orders), nearly equal (relative gap 1e-3..1e-15), one eigenvalue "
    "exactly 0; classes are mixed inside an element in half of the cases; material = isotropic (plane "
    "stress/strain, v in [-0.2,0.45]) | transversely isotropic | anisotropic (random SPD C); every split the "
    "material allows (14 / 11) is evaluated on the same field. Non-trivial = at least one degenerate Gauss "
    "point (any class but generic). history: small plate (<=60 nodes; TRI3/TRI6/QUAD4/QUAD8 incl. mixed "
    "QUAD+TRI, PRISM6/HEXA8/TETRA4), any split x AT1/AT2 x 3 solvers, 2-10 displacement-controlled steps "
    "(tension/compression, shear, biaxial) with arbitrary amplitudes on a grid; non-trivial = an unloading "
    "step after damage > 0. distinct = sha1 of the serialised case."
    ' strain_containers: enumerated split x dimension x container of the same integer-valued strain states (non-trivial = every accepted container).'
)
ASSUMPTIONS = [
    "numpy.linalg.eigh (LAPACK) is the trusted spectral decomposition; eps+ = sum <l_i>+ n_i n_i^T",
    "split definitions: Bourdin (no split); Amor psi+ = K/2<tr>+^2 + mu dev:dev with K = lambda+2mu/dim and the "
    "plane-stress lambda in 2D; Miehe psi+ = lambda/2<tr>+^2 + mu eps+:eps+; Stress psi+ = 1/2(a s+:s+ - b<tr s>+^2) "
    "with S = a Id - b IxI the compliance of the 3D / plane stress / plane strain law; Zhang psi+ = 1/2 s+:eps; "
    "He psi+ = 1/2 t+:t+ with t = C^(1/2) eps; sigma+ = d psi+/d eps = cP eps",
    "Anisot{Strain,Stress}[_PM|_MP|_NoCross] have no literature reference in the code: the combination of the "
    "++/+-/-+ blocks is taken from the split name (the only definition); what is independent is the "
    "projector / eigen-decomposition those blocks are built from",
    "the secant stiffness cP (i.e. the projector itself) is compared with d<T>+/dT only where every eigenvalue "
    "(and the trace, for the splits using <tr>+) is clear of the kink by 1e-6 of the spectral radius",
    "history energy is asserted for the History solver (the only one keeping a history field), nodal damage for "
    "HistoryDamage and BoundConstrain, as the property states; staggered convergence is not required",
    "elastic laws are taken as given (mat.C is read from the model; C11 checks the laws)",
]

TOL_ID = 1e-11   # partition: re-ordering of flops (x cond(C))
TOL_POS = 1e-8   # closed-form decomposition vs eigh (x cond(C))

# ------------------------------------------------------------------------------------------
# materials


@st.composite
def mat_specs(draw, dim, laws=("iso", "iso", "ti", "aniso")):
    law = draw(st.sampled_from(list(laws)))
    if law == "iso":
        # hetero: E and v given per element (factors on E, shifts on v), a heterogeneous isotropic material
        hetero = [[draw(st.sampled_from([0.5, 1.0, 2.0, 3.0])), draw(st.integers(-2, 2)) / 20.0] for _ in range(4)] \
            if draw(st.integers(0, 3)) == 0 else None
        return dict(law="iso", E=draw(st.sampled_from([1.0, 12.5, 210000.0])), v=draw(st.integers(-4, 9)) / 20.0,
                    ps=draw(st.booleans()) if dim == 2 else False, hetero=hetero)
    if law == "ti":
        El = draw(st.integers(4, 20)) / 2.0
        return dict(law="ti", El=El, Et=El * draw(st.integers(2, 10)) / 10.0, Gl=draw(st.integers(1, 10)) / 2.0,
                    vl=draw(st.integers(0, 8)) / 20.0, vt=draw(st.integers(0, 9)) / 20.0,
                    ax=draw(st.integers(0, 12)), ps=draw(st.booleans()) if dim == 2 else False)
    return dict(law="aniso", seed=draw(st.integers(0, 999)))


def make_mat(spec, dim, Ne=None):
    """-> (EasyFEA law, iso constants or None; a list of constants per element for a heterogeneous material)"""
    law = spec["law"]
    if law == "iso":
        if spec.get("hetero") and Ne:
            h = [spec["hetero"][e % len(spec["hetero"])] for e in range(Ne)]
            E_e = np.array([spec["E"] * f for f, _ in h], float)
            v_e = np.array([min(max(spec["v"] + dv, -0.3), 0.45) for _, dv in h], float)
            mat = Models.Elastic.Isotropic(dim, E=E_e, v=v_e, planeStress=bool(spec["ps"]))
            return mat, [co.iso_consts(float(E_e[e]), float(v_e[e]), dim, bool(spec["ps"])) for e in range(Ne)]
        mat = Models.Elastic.Isotropic(dim, E=spec["E"], v=spec["v"], planeStress=bool(spec["ps"]))
        return mat, co.iso_consts(spec["E"], spec["v"], dim, bool(spec["ps"]))
    if law == "ti":
        k = int(spec["ax"])
        if k == 12:
            al, at = (0.0, 0.0, 1.0), (1.0, 0.0, 0.0)
        else:
            t = k * np.pi / 12
            al, at = (np.cos(t), np.sin(t), 0.0), (-np.sin(t), np.cos(t), 0.0)
        mat = Models.Elastic.TransverselyIsotropic(dim, spec["El"], spec["Et"], spec["Gl"], spec["vl"], spec["vt"],
                                                   al, at, planeStress=bool(spec["ps"]))
        return mat, None
    D = 3 if dim == 2 else 6
    rng = np.random.default_rng(int(spec["seed"]))
    Q, _ = np.linalg.qr(rng.normal(size=(D, D)))
    C = (Q * rng.uniform(0.5, 5.0, D)) @ Q.T
    C = (C + C.T) / 2
    return Models.Elastic.Anisotropic(dim, C, False), None


# ------------------------------------------------------------------------------------------
# strain states

CLASSES = {2: ["generic", "zero", "hydro", "uniaxial", "near", "near"],
           3: ["generic", "generic", "zero", "hydro", "uniaxial", "two_equal", "two_equal", "near", "near", "one_zero"]}


@st.composite
def points(draw, dim, cls=None):
    g = cls or draw(st.sampled_from(CLASSES[dim]))
    nz = st.integers(1, 8).flatmap(lambda a: st.sampled_from([a, -a]))
    if g == "generic":
        lam = draw(st.lists(nz, min_size=dim, max_size=dim, unique=True))
    elif g == "zero":
        lam = [0] * dim
    elif g == "hydro":
        lam = [draw(nz)] * dim
    elif g == "uniaxial":
        lam = [draw(nz)] + [0] * (dim - 1)
    elif g == "two_equal":
        a = draw(nz)
        b = draw(st.integers(-8, 8).filter(lambda x: x != a))
        lam = [a, a, b]
    elif g == "one_zero":
        a = draw(nz)
        lam = [a, draw(nz.filter(lambda x: x != a)), 0]
    else:  # near
        a = draw(nz)
        k = draw(st.integers(3, 15))
        s = draw(st.sampled_from([1, -1]))
        lam = [a, a * (1 + s * 10.0 ** (-k))]
        if dim == 3:
            third = draw(st.sampled_from(["distinct", "distinct", "equal", "near", "zero"]))
            if third == "distinct":
                lam.append(draw(st.integers(-8, 8).filter(lambda x: x != a)))
            elif third == "equal":
                lam.append(a)
            elif third == "near":
                lam.append(a * (1 - s * 10.0 ** (-draw(st.integers(3, 15)))))
            else:
                lam.append(0)
    lam = list(draw(st.permutations(lam)))
    sc = 10.0 ** (-draw(st.sampled_from([0, 0, 2, 5, 9, 12])))
    rot = draw(st.one_of(st.none(), st.integers(0, 999)))
    return dict(g=g, lam=[float(x) / 8.0 * sc for x in lam], rot=rot)


def split_cases(dim):
    @st.composite
    def cases(draw):
        Ne = draw(st.integers(1, 3))
        nPg = draw(st.integers(1, 4))
        pts = []
        for _ in range(Ne):
            if draw(st.booleans()):  # uniform class inside the element
                g = draw(st.sampled_from(CLASSES[dim]))
                pts += [draw(points(dim, g)) for _ in range(nPg)]
            else:
                pts += [draw(points(dim)) for _ in range(nPg)]
        mat = draw(mat_specs(dim))
        allowed = [s for s in co.SPLITS if mat["law"] == "iso" or s not in co.ISO_ONLY]
        if draw(st.integers(0, 3)) == 0:
            splits = allowed  # all splits the material allows on the same field
        else:
            splits = draw(st.lists(st.sampled_from(allowed), min_size=1, max_size=5, unique=True))
        return dict(dim=dim, mat=mat, Ne=Ne, nPg=nPg, pts=pts, splits=list(splits),
                    regu=draw(st.sampled_from(["AT1", "AT2"])))

    return cases()


def point_tensor(pt, dim):
    lam = np.array(pt["lam"], float)
    if pt["rot"] is None:
        T = np.diag(lam)
    else:
        Q, _ = np.linalg.qr(np.random.default_rng(int(pt["rot"])).normal(size=(dim, dim)))
        T = (Q * lam) @ Q.T
        T = (T + T.T) / 2
    return co.to_vec(T)


def _np(a, shape):
    return np.array(np.broadcast_to(np.asarray(a, dtype=float), shape))


DEGENERATE = ("near", "two_equal", "two_equal_exact", "all_equal", "all_equal_exact")


def _cmp(rec, err, scale, tol, oracle, msg, degenerate, **sig):
    """rec.close for well-separated spectra (honest error enters the calibration table); for (nearly) repeated
    eigenvalues / mixed elements - where the closed-form decomposition is ill-conditioned and mostly a listed
    finding - same test, but the error of the points that do pass is recorded apart."""
    if not degenerate:
        return rec.close(err, scale, tol, oracle, msg, **sig)
    e = float(np.max(np.abs(err))) if np.size(err) else 0.0
    ok = bool(np.isfinite(e) and e <= tol * scale)
    if ok and scale > 0:
        rec.note_max("degenerate_pass_err:" + oracle, e / scale)
    return rec.require(ok, oracle, f"{msg} err={e:.3e} scale={scale:.3e} tol={tol:.1e}", **sig)


def check_split(case, rec):
    dim = int(case["dim"])
    D = 3 if dim == 2 else 6
    Ne, nPg = int(case["Ne"]), int(case["nPg"])
    mat, iso = make_mat(case["mat"], dim, Ne)
    law = case["mat"]["law"]
    Call = np.array(mat.C, float)
    hetero = Call.ndim == 3
    if hetero:
        rec.label("material:heterogeneous")
        law = law + ":hetero"
    Cs = [Call[e] if hetero else Call for e in range(Ne)]
    isos = iso if isinstance(iso, list) else [iso] * Ne
    wC = np.concatenate([np.linalg.eigvalsh((c + c.T) / 2) for c in Cs])
    if wC.min() <= 0:
        raise Inconclusive("generated law is not positive definite")
    nC, kappa = float(wC.max()), float(wC.max() / wC.min())
    eps = np.array([point_tensor(p, dim) for p in case["pts"]], float).reshape(Ne, nPg, D)
    rec.label("law:" + law + (":ps" if case["mat"].get("ps") else ""), f"nPg:{nPg}")
    for p in case["pts"]:
        rec.label("gen:" + p["g"] + (":rot" if p["rot"] is not None else ":axis"))
    rec.nontrivial(any(p["g"] != "generic" for p in case["pts"]))
    for split in case["splits"]:
        if hetero and split not in ("Amor", "Miehe"):
            # per-element (E, v) are only handled by the Amor and Miehe branches of the model (the other splits raise a shape
            # error on the unchanged tree); the property names isotropic and anisotropic materials, not heterogeneous ones
            rec.label("hetero:split_not_supported")
            continue
        rec.label("split:" + split)
        orcs = [co.SplitOracle(split, dim, Cs[e], isos[e]) for e in range(Ne)]
        pfm = Models.PhaseField(mat, split, case["regu"], 1.0, 0.1)
        cP, cM = pfm.Calc_C(FeArray.asfearray(eps.copy()))
        sP, sM = pfm.Calc_Sigma_e_pg(FeArray.asfearray(eps.copy()))
        pP, pM = pfm.Calc_psi_e_pg(FeArray.asfearray(eps.copy()))
        cP, cM = _np(cP, (Ne, nPg, D, D)), _np(cM, (Ne, nPg, D, D))
        sP, sM = _np(sP, (Ne, nPg, D)), _np(sM, (Ne, nPg, D))
        pP, pM = _np(pP, (Ne, nPg)), _np(pM, (Ne, nPg))

        # classes of the tensor this split decomposes, per point; "mixed" per element
        sps, clss, lodes = {}, {}, {}
        for e in range(Ne):
            for p in range(nPg):
                x = orcs[e].decomposed(eps[e, p])
                if x is None:
                    sps[e, p], clss[e, p], lodes[e, p] = None, "none", "none"
                else:
                    sp = co.Spectral(x)
                    sps[e, p] = sp
                    clss[e, p], lodes[e, p] = sp.classify()
        for e in range(Ne):
            mixed = len({lodes[e, p] for p in range(nPg)}) > 1
            if mixed and split == "Miehe":
                rec.label("elem:mixed_classes")
            C, orc = Cs[e], orcs[e]
            for p in range(nPg):
                ev = eps[e, p]
                ne = float(np.linalg.norm(ev))
                sig = dict(dim=dim, split=split, law=law, cls=clss[e, p], mixed=mixed)
                dg = clss[e, p] in DEGENERATE or (dim == 3 and mixed)
                if split in ("Miehe", "Zhang", "He"):
                    rec.label(f"cls:{clss[e, p]}")
                where = f"{split}/{law} dim={dim} e={e} p={p} cls={clss[e, p]} mixed={mixed} eps={ev.tolist()}"
                # 1. finite
                fin = all(np.isfinite(a[e, p]).all() for a in (cP, cM, sP, sM, pP, pM))
                if not rec.require(fin, "finite", "non-finite cP/cM/sigma/psi at " + where, stage="finite", **sig):
                    continue
                # 2. partition of stress and energy
                ok = rec.close((cP[e, p] + cM[e, p]) @ ev - C @ ev, kappa * nC * ne, TOL_ID, "partition_sigma",
                               "(cP+cM) eps != C eps at " + where, stage="partition", **sig)
                ok &= rec.close(sP[e, p] + sM[e, p] - C @ ev, kappa * nC * ne, TOL_ID, "partition_sigma",
                                "sigma+ + sigma- != C eps at " + where, stage="partition", **sig)
                ok &= rec.close(pP[e, p] + pM[e, p] - 0.5 * ev @ C @ ev, kappa * nC * ne**2, TOL_ID, "partition_psi",
                                "psi+ + psi- != 1/2 eps:C:eps at " + where, stage="partition", **sig)
                # API consistency stated by the docstrings: sigma+ = cP eps, psi+ = 1/2 sigma+ : eps
                ok &= rec.close(sP[e, p] - cP[e, p] @ ev, kappa * nC * ne, TOL_ID, "partition_sigma",
                                "Calc_Sigma_e_pg != Calc_C @ eps at " + where, stage="partition", **sig)
                ok &= rec.close(pP[e, p] - 0.5 * sP[e, p] @ ev, kappa * nC * ne**2, TOL_ID, "partition_psi",
                                "Calc_psi_e_pg != 1/2 sigma+ : eps at " + where, stage="partition", **sig)
                if not ok:
                    continue
                # 3. positive part vs eigh oracle and the split's formula
                o = orc.evaluate(ev, sps[e, p])
                if not _cmp(rec, pP[e, p] - o["psiP"], kappa * nC * ne**2, TOL_POS, "psiP",
                            f"psi+ {pP[e, p]!r} vs oracle {o['psiP']!r} at " + where, dg, stage="positive", **sig):
                    continue
                if o["sigP"] is not None:
                    if not _cmp(rec, sP[e, p] - o["sigP"], kappa * nC * ne, TOL_POS, "sigP",
                                f"sigma+ {sP[e, p].tolist()} vs oracle {o['sigP'].tolist()} at " + where, dg,
                                stage="positive", **sig):
                        continue
                # 4. the projector itself (secant stiffness), only where <.>+ is differentiable
                if o["cP"] is not None:
                    rec.label("projector_asserted")
                    _cmp(rec, cP[e, p] - o["cP"], kappa * nC, TOL_POS, "cP",
                         "cP differs from the stiffness built with d<T>+/dT at " + where, dg,
                         stage="positive", **sig)
                else:
                    rec.label("projector_skipped_kink")


# ------------------------------------------------------------------------------------------
# histories

SOLVERS = ["History", "HistoryDamage", "BoundConstrain"]
T2 = ["TRI3", "TRI3", "QUAD4", "QUAD4", "TRI6", "QUAD8"]
T3 = ["PRISM6", "HEXA8", "TETRA4"]


@st.composite
def history_cases(draw):
    dim = draw(st.sampled_from([2, 2, 2, 3]))
    if dim == 2:
        et = draw(st.sampled_from(T2))
        o2 = et in ("TRI6", "QUAD8")
        mesh = dict(W=draw(st.sampled_from([1.5, 2.0, 2.5])), top=draw(st.integers(10, 15)) / 10.0,
                    h=draw(st.integers(9, 12) if o2 else st.integers(8, 14)) / (10.0 if o2 else 20.0),
                    elemType=et, organised=draw(st.booleans()))
    else:
        et = draw(st.sampled_from(T3))
        mesh = dict(W=draw(st.sampled_from([1.5, 2.0])), top=1.0, h=draw(st.integers(7, 10)) / 10.0, elemType=et,
                    organised=True if et == "HEXA8" else draw(st.booleans()))
    mat = draw(mat_specs(dim, laws=("iso", "iso", "iso", "ti")))
    if mat["law"] == "iso":
        mat["E"] = 1.0
    splits = [s for s in co.SPLITS if mat["law"] == "iso" or s not in co.ISO_ONLY]
    noload = draw(st.integers(0, 9)) == 0
    n = draw(st.integers(2, 10))
    amps = [0] * min(n, 4) if noload else draw(st.lists(st.integers(-8, 8), min_size=n, max_size=n))
    return dict(dim=dim, mesh=mesh, mat=mat, split=draw(st.sampled_from(splits)),
                regu=draw(st.sampled_from(["AT1", "AT2"])), solver=draw(st.sampled_from(SOLVERS)),
                Gc=draw(st.sampled_from([5e-4, 1e-3, 2e-3])), l0=draw(st.sampled_from([0.15, 0.3])),
                load=draw(st.sampled_from(["tx", "tx", "shear", "biax"])), amps=amps,
                tol=draw(st.sampled_from([1.0, 1.0, 0.05])), peek=draw(st.booleans()),
                # revisit: between two load steps an earlier saved iteration is looked at (restored, or queried through
                # Result(iter=)), then the last one is restored before the history goes on
                revisit=draw(st.sampled_from([None, None, "set_iter", "result_iter"])))


def plate_recipe(m, dim):
    r = dict(verts=[[0.0, 0.0], [m["W"], 0.0], [m["W"], 1.0], [0.0, m["top"]]], h=m["h"], elemType=m["elemType"],
             organised=bool(m["organised"]), extrude=None, layers=0, A=None, b=None, perm=None, orphans=0)
    if dim == 3:
        r.update(extrude=[0.0, 0.0, 0.5], layers=1)
    return r


def _history_arrays(obj):
    """private history field (solver History) as {key: (Ne,nPg) array}: the tree stores one array; a
    per-element-group dict (proposed fix of C17-g) is read the same way."""
    if isinstance(obj, dict):
        return {str(k): np.array(v, float) for k, v in obj.items()}
    return {"all": np.array(obj, float)}


def check_history(case, rec):
    dim = int(case["dim"])
    mesh = gm.build(plate_recipe(case["mesh"], dim))
    if mesh.Nn > 60:
        raise Inconclusive("plate has more than 60 nodes")
    groups = gm.main_groups(mesh)
    types = gm.mesh_types(mesh)
    multi = len(groups) > 1
    mat, _ = make_mat(case["mat"], dim)
    C = np.array(mat.C, float)
    if np.linalg.eigvalsh((C + C.T) / 2).min() <= 0:
        raise Inconclusive("generated law is not positive definite")
    solver, split, regu = case["solver"], case["split"], case["regu"]
    pfm = Models.PhaseField(mat, split, regu, float(case["Gc"]), float(case["l0"]), solver)
    simu = Simulations.PhaseField(mesh, pfm)
    W = float(case["mesh"]["W"])
    n0 = mesh.Nodes_Conditions(lambda x, y, z: x <= 1e-9)
    n1 = mesh.Nodes_Conditions(lambda x, y, z: x >= W - 1e-9)
    if len(n0) < 2 or len(n1) < 2:
        raise Inconclusive("edge node sets too small")
    unk = ["x", "y", "z"][:dim]
    sig = dict(dim=dim, solver=solver, regu=regu, split=split, multi=multi)
    rec.label("solver:" + solver, "regu:" + regu, "split:" + split, "mesh:" + types, "load:" + case["load"],
              f"hist_dim:{dim}", "law:" + case["mat"]["law"])
    amps = [0.03 * int(a) for a in case["amps"]]
    hist_attr = "_PhaseField__old_psiP_e_pg"
    prev = None
    loaded = False
    nt = False
    for k, a in enumerate(amps):
        if k >= 2 and case.get("revisit"):
            j = (k * 7 + 3) % (k - 1)  # an earlier iteration, not the last one
            if case["revisit"] == "set_iter":
                simu.Set_Iter(j)
            else:
                simu.Result("damage", iter=j)
            simu.Set_Iter(-1)
            rec.label("revisit:" + case["revisit"])
        simu.Bc_Init()
        simu.add_dirichlet(n0, [0.0] * dim, unk)
        if case["load"] == "tx":
            simu.add_dirichlet(n1, [a], ["x"])
        elif case["load"] == "shear":
            simu.add_dirichlet(n1, [0.0, a], ["x", "y"])
        else:
            simu.add_dirichlet(n1, [a, -0.5 * a], ["x", "y"])
        simu.Solve(float(case["tol"]), 6)
        if case["peek"]:
            simu.Result("psiP", nodeValues=False)
        simu.Save_Iter()
        d = np.array(simu.damage, float)
        psiP = np.array(simu.Result("psiP", nodeValues=False), float).ravel()
        H = _history_arrays(getattr(simu, hist_attr))
        where = f"step {k} amp={a:+.3f} {split}/{regu}/{solver} mesh={types} dim={dim}"
        # drive0: the driving energy that entered the first damage solve of this step (psi+ of the previous
        # saved state, or the history field) is identically zero
        drive0 = prev is None or float(np.max(np.abs(prev[1]))) == 0.0
        if not rec.require(np.isfinite(d).all() and np.isfinite(psiP).all(), "history_finite",
                           "non-finite damage / psiP at " + where, drive0=drive0, **sig):
            return  # listed class: the rest of the history is poisoned
        loaded = loaded or a != 0.0
        if not loaded:
            rec.require(np.max(np.abs(d)) <= 1e-14, "noload_damage_zero",
                        f"no load applied so far but max|d|={np.max(np.abs(d)):.3e} at " + where, **sig)
        if solver == "BoundConstrain":
            rec.require(d.min() >= -1e-9 and d.max() <= 1 + 1e-9, "damage_bounds",
                        f"d in [{d.min():.3e},{d.max():.6f}] at " + where, **sig)
        if prev is not None:
            dp, pp, Hp, ap = prev
            if np.max(dp) > 1e-6 and abs(a) < abs(ap):
                nt = True
            if solver == "History":
                sc = max(float(np.max(np.abs(pp))), 1e-300)
                rec.require((psiP - pp).min() >= -1e-12 * sc, "H_result_monotone",
                            f"Result('psiP') decreased by {(pp - psiP).max():.3e} (max {sc:.3e}) at " + where, **sig)
                for key, Hk in H.items():
                    Hpk = Hp.get(key)
                    if Hpk is None or Hpk.size == 0:
                        continue
                    if not rec.require(Hk.shape == Hpk.shape, "H_private_monotone",
                                       f"history array {key} changed shape {Hpk.shape}->{Hk.shape} at " + where, **sig):
                        continue
                    sc = max(float(np.max(np.abs(Hpk))), 1e-300)
                    rec.require((Hk - Hpk).min() >= -1e-12 * sc, "H_private_monotone",
                                f"history array {key} decreased by {(Hpk - Hk).max():.3e} at " + where, **sig)
                rec.require(all(k in H for k, v in Hp.items() if v.size), "H_private_monotone",
                            "a stored history array disappeared at " + where, **sig)
            else:
                rec.require((d - dp).min() >= -1e-9, "damage_monotone",
                            f"nodal damage decreased by {(dp - d).max():.3e} (max d {dp.max():.3f}) at " + where,
                            **sig)
        prev = (d, psiP, H, a)
    rec.nontrivial(nt)
    if nt:
        rec.label("unload_after_damage:" + solver)


SUBS = [
    Sub("split_pointwise_2d", check_split, gen=split_cases(2), quick=700, thorough=6000, shards=6),
    Sub("split_pointwise_3d", check_split, gen=split_cases(3), quick=500, thorough=6000, shards=6),
    Sub("history", check_history, gen=history_cases, quick=300, thorough=2500, shards=6),
]

LEVEL_TEXT = ("Hypothesis-generated strain fields (generic and degenerate spectra, mixed inside elements) through all "
              "14 splits x allowed materials x plane stress/strain/3D are compared with an independent "
              "numpy.linalg.eigh decomposition (positive part, energies, secant stiffness) and the partition "
              "identities; generated load-unload-reload histories on small plates check that the history field "
              "(History) and the nodal damage (HistoryDamage, BoundConstrain) never decrease between saved steps")
LEVEL_NOTE = ("split formulas transcribed from the cited papers / split names; projector asserted only away from "
              "the kink of <.>+; plates <=60 nodes, <=10 steps, staggered convergence not required; exploration "
              "never establishes absence on unexplored states")
TECHNIQUE = "property-based testing (Hypothesis) vs numpy.linalg.eigh spectral oracle and step-to-step monotonicity"
DESIGN_REF = "DESIGN.md 4/C17"


# ------------------------------------------------------------------------------------------
# (added by the lead) the container of the strain field: the same strain values handed over as int64 / int32 / float32 /
# Fortran-ordered arrays, plain or FeArray.  States like (1, 0, 0) or (2, -1, 1) are naturally typed as integers by a caller;
# the split is a function of the values.


def enum_containers(tier):
    states = {2: [[1, 0, 0], [2, -1, 1], [0, 0, 3], [-2, -2, 0], [1, 1, 2], [0, 0, 0]],
              3: [[1, 0, 0, 0, 0, 0], [2, -1, 1, 1, 0, -2], [0, 0, 0, 0, 3, 0], [-1, -1, -1, 0, 0, 0], [3, 1, -2, 1, 1, 1], [0, 0, 0, 0, 0, 0]]}
    for dim in (2, 3):
        for split in co.SPLITS:
            for container in ("int64", "int32", "float32", "fortran", "plain_float"):
                yield dict(dim=dim, split=split, container=container, states=states[dim])


def check_containers(case, rec):
    dim, split = int(case["dim"]), case["split"]
    D = 3 if dim == 2 else 6
    vals = np.array(case["states"], float)  # (n, D) integer-valued Kelvin-Mandel vectors
    Ne, nPg = 2, vals.shape[0] // 2
    ref = vals.reshape(Ne, nPg, D)
    mat = Models.Elastic.Isotropic(dim, E=3.0, v=0.25, planeStress=False)
    pfm = Models.PhaseField(mat, split, "AT2", 1.0, 0.1)
    c = case["container"]
    if c == "fortran":
        arr = FeArray.asfearray(np.asfortranarray(ref.copy()))
    elif c == "plain_float":
        arr = ref.copy()
    else:
        arr = FeArray.asfearray(ref.astype(c))
    sig = dict(dim=dim, split=split, container=c)
    rec.label("container:" + c, "split:" + split)

    def run(x):
        sP, sM = pfm.Calc_Sigma_e_pg(x)
        pP, pM = pfm.Calc_psi_e_pg(x)
        return [_np(sP, (Ne, nPg, D)), _np(sM, (Ne, nPg, D)), _np(pP, (Ne, nPg)), _np(pM, (Ne, nPg))]

    try:
        got = run(arr)
    except (TypeError, ValueError, AssertionError) as e:
        # a container the model refuses is not a wrong answer
        rec.label("container_refused:" + c)
        rec.note_max("info:refused", 1.0)
        rec.nontrivial(False)
        return
    exp = run(FeArray.asfearray(ref.copy()))
    scale = float(np.abs(np.array(mat.C, float)).max() * np.abs(ref).max() ** 2)
    for name, g, x in zip(("sigma+", "sigma-", "psi+", "psi-"), got, exp):
        rec.close(g - x, scale, 1e-12, "container_independent",
                  f"{split} dim={dim}: {name} of the integer-valued strain states {case['states']} handed over as {c} differs from the "
                  f"float64 FeArray of the same values", name=name, **sig)
    rec.nontrivial(True)


SUBS.append(Sub("strain_containers", check_containers, enum=enum_containers,
                doc="split x dimension x container (int64, int32, float32, Fortran order, plain ndarray) of the same integer-valued strain states"))
