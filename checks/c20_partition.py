"""C20 - mesh partitions are true partitions with a sufficient ghost layer (row-complete assembly);
Mesh.Merge is the inverse bookkeeping."""

import numpy as np
from hypothesis import strategies as st

from EasyFEA import Mesh, Models, Simulations

from vlib import c20_part as cp
from vlib import gen_mesh as gm
from vlib import gen_model as gmod
from vlib.runner import Inconclusive, Sub

PROPERTY = "C20"
RULE = (
    "Hypothesis draws polygon / extruded-polygon gmsh recipes over the 7 surface and 8 volume element types "
    "(unstructured QUAD recipes give naturally mixed QUAD+TRI meshes), a part count Nproc in 1..min(Ne,12) "
    "(or = Ne on small meshes) and a coordinate coefficient; the partition is built in one process with "
    "Mesher._Mesh_Get_Meshes(Nproc) and compared with the Nproc=1 mesh of the same gmsh model. "
    "Non-trivial = Nproc>=2 with at least one interface node (a node used by main-dimension elements of two "
    "owners); distinct = sha1 of (recipe, Nproc, ...). merge: lists of 2-4 sub-meshes cut out of generated meshes "
    "(own numbering, coincident / partly coincident / disjoint nodes, with and without mergePoints), and the parts "
    "of a partition; non-trivial = at least two meshes sharing a coincident node or a partition with Nproc>=2."
    ' Round 8: merge shifts the pieces along x or out of the plane of a 2D mesh.'
    ' Round 9: when the pieces of merge are shifted apart, one of them may hold two nodes of its own at the same place (they stay two nodes).'
)
ASSUMPTIONS = [
    "MPI itself is absent (MPI_SIZE == 1): partitions are built in one process, owned dofs are taken from "
    "mesh._Get_mpi_owned_nodes() by the harness; collective communication is not exercised",
    "the Nproc=1 mesh of the same gmsh model (rebuilt, gmsh is deterministic in one thread) is the global reference; "
    "the global K, C, M, F of EasyFEA are the reference of the per-part systems",
    "partitions where gmsh returns fewer non-empty parts than asked are counted, not failed",
    "meshes <= ~400 main elements, Nproc <= 12 (or = Ne for Ne <= 40)",
]
LEVEL_TEXT = ("generated meshes of every surface/volume element type incl. mixed QUAD+TRI x part counts: exact set algebra "
              "of owners, ghost layer (harness-computed from the global connectivity), numbering, coordinates, tags and "
              "reproducibility; per-part assembled K, C, M and right-hand side equal the global ones on owned rows "
              "(identity level), owned-row energies and reactions sum to the global ones; Merge mapping/connectivity/"
              "measure bookkeeping and Merge(parts) = global mesh up to numbering")
LEVEL_NOTE = ("exploration; MPI absent so only the partition data and the per-part assembly are decided, not the collective "
              "reductions; sizes bounded (<=400 elements, <=12 parts)")
TECHNIQUE = "property-based testing (Hypothesis) vs harness set algebra on the global connectivity and the global assembled system"
DESIGN_REF = "DESIGN.md 4/C20"
READY = True

TOL = 1e-12
NMAX = 12
NE_MAX = 400


# ------------------------------------------------------------------------------------------
# generators


TYPES = (gm.T2D * 2 + ["TETRA4", "TETRA10", "HEXA8", "PRISM6", "PRISM15", "PRISM18"] * 2 + ["HEXA20", "HEXA27"])


@st.composite
def part_recipes(draw):
    """gmsh part of a gen_mesh recipe, with finer meshes than the shared strategies (partitions need elements)"""
    et = draw(st.sampled_from(TYPES))
    o = gm.ORDER[et]
    if gm.dim_of(et) == 2:
        verts = draw(gm.polygons(3, 6))
        organised = draw(st.booleans()) if len(verts) in (3, 4) else False
        h = draw(st.integers(2, 8)) / 10.0 * (1.0 if o <= 2 else 1.5)
        return dict(verts=verts, h=round(h, 3), elemType=et, organised=organised, extrude=None, layers=0)
    verts = draw(gm.polygons(3, 5))
    organised = draw(st.booleans()) if len(verts) in (3, 4) else False
    if et.startswith("HEXA"):
        if draw(st.integers(0, 3)) > 0:  # mostly structured bricks; otherwise HEXA+PRISM mixes
            verts = verts[:4] if len(verts) >= 4 else verts
            organised = len(verts) == 4 or organised
    if et.startswith("HEXA"):
        h = draw(st.integers(3, 7)) / 10.0  # structured bricks need a finer size to get a few elements
    else:
        h = draw(st.integers(5, 10)) / 10.0 * (1.0 if o == 1 else 1.2)
    ex = [draw(st.integers(-2, 2)) / 4.0, draw(st.integers(-2, 2)) / 4.0, draw(st.integers(2, 6)) / 4.0]
    layers = draw(st.integers(1, 3 if o == 1 else 2))
    return dict(verts=verts, h=round(h, 3), elemType=et, organised=organised, extrude=ex, layers=layers)


@st.composite
def partition_cases(draw):
    r = draw(part_recipes())
    nproc = 1 if draw(st.integers(0, 15)) == 0 else draw(st.integers(2, NMAX))
    full = draw(st.integers(0, 5)) == 0  # Nproc = Ne when the mesh is small
    coef = draw(st.sampled_from([1.0, 1.0, 0.5, 3.0]))
    return dict(recipe=r, nproc=nproc, full=full, coef=coef)


def pick_nproc(case, Ne: int) -> int:
    if case.get("full") and Ne <= 40:
        return Ne
    return max(1, min(int(case["nproc"]), Ne))


# ------------------------------------------------------------------------------------------
# (a) partition_sets


def _pdata(g):
    rank, elements, ghosts, nodes, ghostNodes = g._Get_partitioned_data()
    return int(rank), np.asarray(elements), np.asarray(ghosts), np.asarray(nodes), np.asarray(ghostNodes)


def _snapshot(parts):
    """every array a partition exposes, for the reproducibility comparison"""
    out = []
    for m in parts:
        d = {}
        for t, g in cp.groups(m).items():
            rank, el, gh, no, gn = _pdata(g)
            d[t] = (rank, el.tolist(), gh.tolist(), no.tolist(), gn.tolist(),
                    np.asarray(g.connect).tolist(), np.asarray(g.coord).tolist(),
                    {k: np.sort(np.asarray(v)).tolist() for k, v in g._dict_elements_tags.items()})
        out.append((sorted(d.items()), np.asarray(m._Get_mpi_owned_nodes()).tolist()))
    return out


def interface_nodes(gl, owner_of_elem: dict) -> np.ndarray:
    """nodes used by main-dimension elements of at least two owners"""
    Nn = gl.Nn
    lo = np.full(Nn, 10**9)
    hi = np.full(Nn, -1)
    for g in gl.Get_list_groupElem(gl.dim):
        t = str(g.elemType)
        own = owner_of_elem[t]
        c = np.asarray(g.connect, int)
        o = np.repeat(own[:, None], c.shape[1], axis=1)
        np.minimum.at(lo, c.ravel(), o.ravel())
        np.maximum.at(hi, c.ravel(), o.ravel())
    return np.nonzero((hi >= 0) & (lo < hi))[0]


def check_partition_sets(case, rec):
    r = case["recipe"]
    coef = float(case.get("coef", 1.0))
    gl, parts, Nproc = cp.build(r, lambda Ne: pick_nproc(case, Ne), coef)
    if gl.Ne > NE_MAX:
        raise Inconclusive("mesh larger than the stated bound")
    types = gm.mesh_types(gl)
    mixed = len(cp.main_types(gl)) > 1
    sig0 = dict(elemType=r["elemType"], types=types, mixed=mixed, dim=int(gl.dim))
    rec.label("types:" + types, f"Nproc:{Nproc}" if Nproc <= 12 else "Nproc:>12",
              "Nproc=Ne" if Nproc == gl.Ne else "Nproc<Ne")

    rec.require(len(parts) == Nproc, "part_count", f"{len(parts)} meshes for Nproc={Nproc}", **sig0)

    Nn = gl.Nn
    ggl = cp.groups(gl)
    gcoord = np.asarray(gl.coord, float)
    main = set(cp.main_types(gl))
    pgs = [cp.groups(m) for m in parts]

    if Nproc == 1:
        # the single part is the global mesh itself
        for t, g in ggl.items():
            pg = pgs[0].get(t)
            rec.require(pg is not None and np.array_equal(pg.connect, g.connect), "nproc1_is_global", t, **sig0)
        rec.require(np.array_equal(np.asarray(parts[0].coord), gcoord), "nproc1_is_global", "coord", **sig0)
        return

    # --- owners of nodes (mesh level) ------------------------------------------------------
    owned_nodes = [np.asarray(m._Get_mpi_owned_nodes(), int) for m in parts]
    count = np.zeros(Nn, int)
    for o in owned_nodes:
        rec.require(cp.is_strictly_sorted(o), "owned_nodes_sorted", "mesh-level owned nodes not sorted/unique", **sig0)
        rec.require(o.size == 0 or (o.min() >= 0 and o.max() < Nn), "owned_nodes_range", "", **sig0)
        np.add.at(count, o, 1)
    used = cp.used_nodes_main(gl)
    rec.require(int(count.max()) <= 1, "node_single_owner",
                lambda: f"{types} Nproc={Nproc}: nodes {np.nonzero(count > 1)[0][:8].tolist()} are owned by several parts",
                **sig0)
    rec.require(bool(np.all(count[used] == 1)) and int(count.sum()) == used.size, "node_has_owner",
                lambda: f"{types} Nproc={Nproc}: nodes {used[count[used] == 0][:8].tolist()} have no owner "
                        f"({int(count.sum())} owned, {used.size} nodes used by the main elements)", **sig0)

    owner_of_elem = {}
    n_empty = 0
    for rnk, m in enumerate(parts):
        rec.require(m.Nn == Nn, "global_numbering", f"part {rnk}: Nn={m.Nn} vs global {Nn}", **sig0)

    # --- per element type -----------------------------------------------------------------
    for t, g in ggl.items():
        level = "main" if t in main else "lower"
        sig = dict(sig0, group=t, level=level)
        gconn = np.asarray(g.connect, int)
        Ne_t = g.Ne
        cnt = np.zeros(Ne_t, int)
        own = np.full(Ne_t, -1)
        datas = []
        for rnk in range(Nproc):
            pg = pgs[rnk].get(t)
            if pg is None:
                datas.append(None)
                continue
            rank, el, gh, no, gn = _pdata(pg)
            datas.append((el, gh, no, gn))
            rec.require(rank == rnk, "rank", f"{t}: part {rnk} carries rank {rank}", **sig)
            for name, a in (("elements", el), ("ghostElements", gh), ("nodes", no), ("ghostNodes", gn)):
                rec.require(cp.is_strictly_sorted(a), "arrays_sorted", f"{t} part {rnk}: {name} not sorted/unique", **sig)
            rec.require(el.size == 0 or (el.min() >= 0 and el.max() < Ne_t), "elements_range", t, **sig)
            np.add.at(cnt, el, 1)
            own[el] = rnk
        rec.require(int(cnt.max(initial=0)) <= 1, "element_single_owner",
                    lambda: f"{types} Nproc={Nproc} {t}: elements {np.nonzero(cnt > 1)[0][:8].tolist()} owned by several parts",
                    **sig)
        rec.require(bool(np.all(cnt == 1)), "element_has_owner",
                    lambda: f"{types} Nproc={Nproc} {t}: elements {np.nonzero(cnt == 0)[0][:8].tolist()} have no owner", **sig)
        owner_of_elem[t] = own

        for rnk in range(Nproc):
            if datas[rnk] is None:
                continue
            el, gh, no, gn = datas[rnk]
            pg = pgs[rnk][t]
            O = owned_nodes[rnk]
            # connectivity rows = global rows of owned+ghost, in global order
            ge = np.asarray(pg._globalElements, int)
            exp_rows = np.union1d(el, gh)
            rec.require(np.intersect1d(el, gh).size == 0, "ghost_not_owned", f"{t} part {rnk}", **sig)
            rec.require(np.array_equal(ge, exp_rows) and pg.Ne == exp_rows.size, "connect_is_owned_plus_ghost",
                        f"{t} part {rnk}: Ne={pg.Ne}, owned {el.size} + ghost {gh.size}", **sig)
            rec.require(np.array_equal(np.asarray(pg.connect, int), gconn[exp_rows]), "global_numbering",
                        f"{t} part {rnk}: connect differs from the global rows of its elements", **sig)
            rec.require(bool(np.all(own[gh] != rnk)) and bool(np.all(own[gh] >= 0)), "ghost_owned_elsewhere", t, **sig)
            # ghost layer: exactly the elements touching an owned node
            touch = cp.touching(gconn, O, Nn)
            need = np.union1d(el, touch)
            missing = np.setdiff1d(need, exp_rows)
            extra = np.setdiff1d(exp_rows, need)
            # (class of the miss: every missing element touches only owned nodes that this group does not list as its
            #  own, i.e. nodes the part claimed through another element type)
            cause = "node_owned_via_other_type" if cp.touching(gconn[missing], no, Nn).size == 0 else "other"
            rec.require(missing.size == 0, "ghost_layer_sufficient",
                        lambda: f"{types} Nproc={Nproc} {t} part {rnk}: elements {missing[:8].tolist()} touch an owned node "
                                f"but are not in the part", cause=cause, **sig)
            rec.require(extra.size == 0, "ghost_layer_minimal",
                        lambda: f"{types} Nproc={Nproc} {t} part {rnk}: ghost elements {extra[:8].tolist()} touch no owned node",
                        **sig)
            # nodes
            pn = np.asarray(pg.nodes, int)
            rec.require(np.array_equal(pn, np.unique(gconn[exp_rows])) if exp_rows.size else pn.size == 0,
                        "group_nodes", f"{t} part {rnk}", **sig)
            rec.require(np.array_equal(gn, np.setdiff1d(pn, no)), "ghost_nodes",
                        f"{t} part {rnk}: ghostNodes != group nodes minus owned nodes", **sig)
            cause = "node_owned_via_other_type" if np.setdiff1d(no, np.intersect1d(pn, O)).size == 0 else "other"
            rec.require(np.array_equal(no, np.intersect1d(pn, O)), "group_owned_nodes",
                        lambda: f"{types} Nproc={Nproc} {t} part {rnk}: the group lists as ghost nodes {np.setxor1d(no, np.intersect1d(pn, O))[:8].tolist()} "
                                f"that the part owns (group owned nodes != nodes owned by the part that the group uses)",
                        cause=cause, **sig)
            # coordinates
            rec.require(pg.Ncoords == Nn, "global_numbering", f"{t} part {rnk}: Ncoords={pg.Ncoords}", **sig)
            rec.require(np.array_equal(np.asarray(pg.coord, float), gcoord[pn]), "coordinates",
                        f"{t} part {rnk}: coordinates of the part nodes differ from the global ones", **sig)
            # tags
            gtags_n = g._dict_nodes_tags
            gtags_e = g._dict_elements_tags
            ptags_n = pg._dict_nodes_tags
            ptags_e = pg._dict_elements_tags
            for tag, tn in gtags_n.items():
                tn = np.asarray(tn, int)
                if np.intersect1d(tn, pn).size == 0:
                    continue
                rec.require(tag in ptags_n, "tags", f"{t} part {rnk}: node tag {tag} lost", **sig)
                rec.require(np.array_equal(np.intersect1d(np.asarray(ptags_n[tag], int), pn), np.intersect1d(tn, pn)),
                            "tags", f"{t} part {rnk}: node tag {tag} differs on the part nodes", **sig)
            for tag, te in gtags_e.items():
                exp_e = np.intersect1d(np.asarray(te, int), exp_rows)
                got = np.sort(ge[np.asarray(ptags_e.get(tag, np.zeros(0, int)), int)]) if ge.size else np.zeros(0, int)
                rec.require(np.array_equal(got, exp_e), "tags",
                            lambda: f"{types} Nproc={Nproc} {t} part {rnk}: element tag {tag}: {got[:8].tolist()} vs global "
                                    f"{exp_e[:8].tolist()}", **sig)
            for tag in ptags_e:
                rec.require(tag in gtags_e, "tags", f"{t} part {rnk}: element tag {tag} unknown in the global mesh", **sig)

    # --- mesh-level coordinates -------------------------------------------------------------
    for rnk, m in enumerate(parts):
        pn = np.unique(np.concatenate([np.asarray(g.nodes, int) for g in pgs[rnk].values()] + [np.zeros(0, int)]))
        rec.require(np.array_equal(np.asarray(m.coord, float)[pn], gcoord[pn]), "coordinates",
                    f"part {rnk}: mesh.coord differs from the global coordinates on its nodes", **sig0)
        if sum(pgs[rnk][t]._Get_partitioned_data()[1].size for t in main if t in pgs[rnk]) == 0:
            n_empty += 1

    # --- reproducible ----------------------------------------------------------------------
    gl2, again, _ = cp.build(r, Nproc, coef)
    if cp.same_mesh(gl, gl2):
        rec.require(_snapshot(parts) == _snapshot(again), "reproducible",
                    f"{types} Nproc={Nproc}: two builds of the same partition differ", **sig0)
    else:  # gmsh itself produced another mesh (recombination of tiny unstructured QUAD/HEXA recipes)
        rec.label("gmsh_mesh_not_reproducible(skipped reproducibility oracle)")

    # --- every part written with Mesh.Save and read back with Load_Mesh is the same part (sets, rows, coordinates, tags) -----
    import shutil
    import tempfile

    from EasyFEA.FEM._mesh import Load_Mesh

    tmp = tempfile.mkdtemp(prefix="verif_c20_")
    try:
        loaded = [Load_Mesh(m.Save(tmp, f"part{k}")) for k, m in enumerate(parts)]
    finally:
        shutil.rmtree(tmp, ignore_errors=True)
    rec.require(_snapshot(loaded) == _snapshot(parts), "save_load_part",
                f"{types} Nproc={Nproc}: a part differs after Mesh.Save / Load_Mesh (owned / ghost sets, rows, coordinates or tags)", **sig0)

    if n_empty:
        rec.label("fewer_nonempty_parts_than_asked")
    itf = interface_nodes(gl, {t: owner_of_elem[t] for t in main})
    rec.label("mixed" if mixed else "single-type")
    rec.nontrivial(Nproc >= 2 and itf.size >= 1)



# ------------------------------------------------------------------------------------------
# (b) row_complete


@st.composite
def row_cases(draw):
    r = draw(part_recipes())
    dim = gm.dim_of(r["elemType"])
    problem = draw(st.sampled_from(["elastic", "elastic", "thermal"]))
    case = dict(recipe=r, nproc=draw(st.integers(2, NMAX)), problem=problem,
                rho=draw(st.integers(1, 12)) / 4.0, seed=draw(st.integers(0, 9999)))
    if problem == "elastic":
        case["law"] = draw(gmod.elastic_specs(dim, classes=("iso", "iso", "tiso", "aniso")))
        case["rayleigh"] = [draw(st.integers(0, 4)) / 4.0, draw(st.integers(0, 4)) / 8.0]
    else:
        case["k"] = draw(st.integers(1, 20)) / 4.0
        case["c"] = draw(st.integers(1, 12)) / 4.0
        case["thickness"] = draw(st.sampled_from([1.0, 0.5, 2.0]))
    # loads: body load (linear in x,y,z) + load on one boundary entity; Dirichlet on another
    case["body"] = [draw(st.integers(-4, 4)) for _ in range(4)]
    case["bload"] = [draw(st.integers(-4, 4)) for _ in range(3)]
    case["itag_load"] = draw(st.integers(0, 7))
    case["itag_fix"] = draw(st.integers(0, 7))
    return case


def boundary_tags(gl):
    """names of the physical groups of the boundary entities (lines in 2D, surfaces in 3D)"""
    pre = "L" if gl.dim == 2 else "S"
    names = set()
    for g in gl.Get_list_groupElem(gl.dim - 1):
        names.update(t for t in g.nodeTags if t.startswith(pre))
    return sorted(names, key=lambda s: int(s[1:]))


def make_simu(mesh, case, tag_load, tag_fix):
    dim = mesh.dim
    a0, a1, a2, a3 = case["body"]
    body = lambda x, y, z: a0 + a1 * x + a2 * y + a3 * z  # noqa: E731  (FeArray arguments)
    if case["problem"] == "elastic":
        mat = gmod.make_elastic(case["law"])
        simu = Simulations.Elastic(mesh, mat)
        simu.rho = case["rho"]
        simu.Set_Rayleigh_Damping_Coefs(*case["rayleigh"])
        unknowns = simu.Get_unknowns()
        simu.add_volumeLoad(mesh.nodes, [body] + [float(a1)] * (dim - 1), unknowns)
        bvals = [float(v) for v in case["bload"][:dim]]
    else:
        simu = Simulations.Thermal(mesh, Models.Thermal(k=case["k"], c=case["c"], thickness=case["thickness"]))
        simu.rho = case["rho"]
        unknowns = ["t"]
        simu.add_volumeLoad(mesh.nodes, [body], unknowns)
        bvals = [float(case["bload"][0])]
    nodes_load = mesh.Nodes_Tags(tag_load)
    bvals[0] = lambda x, y, z, b=bvals[0]: b + 0.5 * x - 0.25 * y  # noqa: E731
    simu.add_surfLoad(nodes_load, bvals, unknowns)
    nodes_fix = mesh.Nodes_Tags(tag_fix)
    return simu, unknowns, nodes_fix


def rhs_vector(simu):
    F = simu.Get_K_C_M_F()[3]
    return np.asarray(F.todense()).ravel() + np.asarray(simu.Bc_vector_Neumann(), float).ravel()


def ghost_diagnosis(gl, part, O, dims) -> str:
    """harness set algebra: does the part hold every element (of the groups of dimensions `dims`) of the global mesh
    that touches a node of O?  'complete' | 'incomplete:node_owned_via_other_type' | 'incomplete:other'"""
    pg = cp.groups(part)
    out = "complete"
    for d in dims:
        for g in gl.Get_list_groupElem(d):
            t = str(g.elemType)
            gconn = np.asarray(g.connect, int)
            touch = cp.touching(gconn, O, gl.Nn)
            have = np.asarray(pg[t]._globalElements, int) if t in pg else np.zeros(0, int)
            missing = np.setdiff1d(touch, have)
            if missing.size:
                no = _pdata(pg[t])[3] if t in pg else np.zeros(0, int)
                if cp.touching(gconn[missing], no, gl.Nn).size:
                    return "incomplete:other"
                out = "incomplete:node_owned_via_other_type"
    return out


def _worst(*diags):
    for d in ("incomplete:other", "incomplete:node_owned_via_other_type"):
        if d in diags:
            return d
    return "complete"


def check_row_complete(case, rec):
    r = case["recipe"]
    gl, parts, Nproc = cp.build(r, lambda Ne: pick_nproc(case, Ne))
    if gl.Ne > NE_MAX or gl.Ne < 2:
        raise Inconclusive("mesh size outside the stated bounds")
    types = gm.mesh_types(gl)
    mixed = len(cp.main_types(gl)) > 1
    problem = case["problem"]
    tags = boundary_tags(gl)
    if len(tags) < 2:
        raise Inconclusive("fewer than two boundary entities")
    tag_load = tags[case["itag_load"] % len(tags)]
    tag_fix = tags[case["itag_fix"] % len(tags)]
    if tag_fix == tag_load:
        tag_fix = tags[(case["itag_fix"] + 1) % len(tags)]
    sig0 = dict(elemType=r["elemType"], types=types, mixed=mixed, dim=int(gl.dim), problem=problem)
    rec.label("types:" + types, "problem:" + problem, f"Nproc:{Nproc}")

    # ---- global system and solution
    sg, unknowns, nodes_fix = make_simu(gl, case, tag_load, tag_fix)
    dof_n = sg.Get_dof_n()
    Kg, Cg, Mg, _ = sg.Get_K_C_M_F()
    bg = rhs_vector(sg)
    sg.add_dirichlet(nodes_fix, [0.0] * len(unknowns), unknowns)
    u = np.asarray(sg.Solve(), float).ravel().copy()
    rng = np.random.default_rng(case["seed"])
    v = rng.uniform(-1, 1, u.size)
    dofs_fix = np.asarray(sg.Bc_dofs_nodes(nodes_fix, unknowns), int)
    Rg = np.zeros(u.size)
    Rg[dofs_fix] = np.asarray(Kg[dofs_fix] @ u).ravel()  # harness: global reaction = K_global[dofs] u
    rec.require(np.all(np.isfinite(u)) and np.abs(u).max() > 0, "global_solution", "global solve failed", **sig0)
    mats_g = dict(K=Kg, C=Cg, M=Mg)
    absK = abs(Kg)
    scales = {n: float(abs(A).max()) if A.nnz else 0.0 for n, A in mats_g.items()}
    e_scale = {"K": 0.5 * float(np.abs(u) @ (absK @ np.abs(u))), "M": 0.5 * float(np.abs(v) @ (abs(Mg) @ np.abs(v))),
               "C": 0.5 * float(np.abs(v) @ (abs(Cg) @ np.abs(v)))}
    Eg = {"K": 0.5 * float(u @ (Kg @ u)), "M": 0.5 * float(v @ (Mg @ v)), "C": 0.5 * float(v @ (Cg @ v))}
    b_scale = float(np.abs(bg).max())
    r_scale = float(np.max(absK @ np.abs(u)))

    rec.require(len(parts) == Nproc, "part_count", "", **sig0)
    Esum = {"K": 0.0, "M": 0.0, "C": 0.0}
    Rsum = np.zeros(u.size)
    g_worst = "complete"
    n_owned = 0
    for rnk, part in enumerate(parts):
        O = np.asarray(part._Get_mpi_owned_nodes(), int)
        n_owned += O.size
        od = (O[:, None] * dof_n + np.arange(dof_n)[None, :]).ravel()
        g_main = ghost_diagnosis(gl, part, O, [gl.dim])
        g_all = _worst(g_main, ghost_diagnosis(gl, part, O, [gl.dim - 1]))
        g_worst = _worst(g_worst, g_all)
        sig = dict(sig0, ghost=g_main)
        sigb = dict(sig0, ghost=g_all)
        sp, _, _ = make_simu(part, case, tag_load, tag_fix)
        Kp, Cp, Mp, _ = sp.Get_K_C_M_F()
        bp = rhs_vector(sp)
        rec.require(Kp.shape == Kg.shape, "global_numbering", f"part {rnk}: K shape {Kp.shape} vs {Kg.shape}", **sig)
        for name, Ap in (("K", Kp), ("C", Cp), ("M", Mp)):
            Ag = mats_g[name]
            if scales[name] == 0.0:
                continue
            D = (Ap[od] - Ag[od])
            err = float(abs(D).max()) if D.nnz else 0.0
            rec.close(err, scales[name], TOL, f"{name}_owned_rows",
                      f"{types} {problem} Nproc={Nproc} part {rnk}: {name}_part[owned dofs,:] != {name}_global[owned dofs,:]",
                      **sig)
        rec.close(bp[od] - bg[od], b_scale, TOL, "rhs_owned_rows",
                  f"{types} {problem} Nproc={Nproc} part {rnk}: right-hand side (F + loads) differs on owned dofs "
                  f"(load on {tag_load})", **sigb)
        # owned-row energies and reactions through the simulation API with explicit owned dofs
        Esum["K"] += float(sp.Calc_Energy(Kp, u, od))
        Esum["M"] += float(sp.Calc_Energy(Mp, v, od))
        Esum["C"] += float(sp.Calc_Energy(Cp, v, od))
        sp._Set_solutions(sp.problemType, u)
        dr = np.intersect1d(dofs_fix, od)
        if dr.size:
            Rsum[dr] += np.asarray(sp.Calc_Reaction(dr), float)
    sigE = dict(sig0, ghost=g_worst)
    rec.require(n_owned == cp.used_nodes_main(gl).size, "node_has_owner", "owned nodes do not cover the mesh", **sig0)
    for name in ("K", "M", "C"):
        if e_scale[name] > 0:
            rec.close(Esum[name] - Eg[name], e_scale[name], 1e-11, f"energy_{name}",
                      f"{types} {problem} Nproc={Nproc}: sum of owned-row energies {Esum[name]!r} vs global {Eg[name]!r}", **sigE)
    rec.close(Rsum - Rg, r_scale, 1e-11, "reaction",
              f"{types} {problem} Nproc={Nproc}: owned-row reactions on {tag_fix} do not sum to the global reaction", **sigE)
    rec.close(Rsum.sum() - Rg.sum(), r_scale * max(1, dofs_fix.size), 1e-11, "reaction_resultant", "", **sigE)
    rec.label("mixed" if mixed else "single-type")
    own = {}
    for g in gl.Get_list_groupElem(gl.dim):
        t = str(g.elemType)
        o = np.full(g.Ne, -1)
        for rnk, part in enumerate(parts):
            pg = cp.groups(part).get(t)
            if pg is not None:
                o[_pdata(pg)[1]] = rnk
        own[t] = o
    rec.nontrivial(Nproc >= 2 and interface_nodes(gl, own).size >= 1)


# ------------------------------------------------------------------------------------------
# (c) merge

SHIFT = 16.0  # larger than any generated domain (diameter <= ~4)


@st.composite
def merge_cases(draw):
    mode = draw(st.sampled_from(["pieces", "pieces", "partition"]))
    r = draw(part_recipes())
    case = dict(mode=mode, recipe=r, mergePoints=True, unique=True)
    if mode == "partition":
        case["nproc"] = draw(st.integers(2, 4))
        case["perms"] = [draw(st.one_of(st.none(), st.integers(0, 999))) for _ in range(4)]
        return case
    k = draw(st.integers(2, 4))
    case["k"] = k
    case["assign"] = draw(st.integers(0, 9999))
    case["perms"] = [draw(st.one_of(st.none(), st.integers(0, 999))) for _ in range(k)]
    case["shifts"] = [draw(st.integers(0, 2)) for _ in range(k)]
    # direction of the shifts: along x, or out of the plane of a 2D mesh (the shifted pieces then live in 3D while the unshifted
    # ones are planar, and nodes of different pieces differ by their z only)
    case["shift_axis"] = draw(st.sampled_from(["x", "x", "z"]))
    # one piece holds two nodes of its own at the same place (an element with a node of its own: the lips of a crack)
    case["split"] = draw(st.sampled_from([None, None, 0, 1]))
    case["dup"] = draw(st.integers(0, 3)) == 0  # last mesh = copy of the first (fully coincident)
    case["mergePoints"] = draw(st.integers(0, 3)) > 0
    case["unique"] = draw(st.integers(0, 3)) > 0
    case["recipe2"] = draw(st.one_of(st.none(), part_recipes())) if k < 4 else None
    return case


def split_pieces(gl, k, assign_seed):
    """assign every main element to one of k pieces; lower-dimensional elements go to the first piece
    that holds all their nodes.  Returns list of {type: rows}."""
    rng = np.random.default_rng(int(assign_seed))
    Nn = gl.Nn
    pieces = [dict() for _ in range(k)]
    node_in = np.zeros((k, Nn), bool)
    # contiguous-ish blobs: sort elements along a random direction and cut, then swap a few (keeps interfaces short
    # but the assignment arbitrary)
    d = rng.normal(size=3)
    for g in gl.Get_list_groupElem(gl.dim):
        t = str(g.elemType)
        c = np.asarray(g.connect, int)
        cen = np.asarray(gl.coord, float)[c].mean(axis=1) @ d
        lab = np.minimum((np.argsort(np.argsort(cen)) * k) // max(1, c.shape[0]), k - 1)
        flip = rng.random(c.shape[0]) < 0.15
        lab[flip] = rng.integers(0, k, int(flip.sum()))
        for p in range(k):
            rows = np.nonzero(lab == p)[0]
            pieces[p][t] = rows
            node_in[p, c[rows].ravel()] = True
    for dim in range(gl.dim - 1, -1, -1):
        for g in gl.Get_list_groupElem(dim):
            t = str(g.elemType)
            c = np.asarray(g.connect, int)
            inside = node_in[:, c].all(axis=2)  # (k, Ne)
            first = np.where(inside.any(axis=0), inside.argmax(axis=0), -1)
            for p in range(k):
                pieces[p][t] = np.nonzero(first == p)[0]
    return pieces


def check_merge(case, rec):
    r = case["recipe"]
    if case["mode"] == "partition":
        gl, parts, Nproc = cp.build(r, lambda Ne: max(1, min(int(case["nproc"]), Ne)))
    else:
        gl, parts, Nproc = cp.build(r, None)
    if gl.Ne > NE_MAX:
        raise Inconclusive("mesh larger than the stated bound")
    types = gm.mesh_types(gl)
    sig = dict(elemType=r["elemType"], types=types, mode=case["mode"], mergePoints=bool(case["mergePoints"]),
               unique=bool(case["unique"]))
    rec.label("merge:" + case["mode"], "types:" + types, f"mergePoints:{case['mergePoints']}")

    # list of (mesh, source id, shift id, loc2glob, {type: global rows in local row order})
    items = []
    sources = [gl]
    if case["mode"] == "partition":
        for rnk, part in enumerate(parts):
            rows_loc, rows_glob = {}, {}
            for t, pg in cp.groups(part).items():
                el = _pdata(pg)[1]
                ge = np.asarray(pg._globalElements, int)
                loc = np.searchsorted(ge, el)
                rows_loc[t] = loc
                rows_glob[t] = el
            sub, l2g = cp.submesh(part, rows_loc, case["perms"][rnk % 4])
            if sub is None:
                rec.label("merge:empty_part_skipped")
                continue
            items.append((sub, 0, 0, l2g, {t: v for t, v in rows_glob.items() if v.size}))
        if len(items) < 2:
            raise Inconclusive("fewer than two non-empty parts")
    else:
        k = min(int(case["k"]), gl.Ne)
        pieces = split_pieces(gl, k, case["assign"])
        zshift = case.get("shift_axis") == "z"
        shift_of = (lambda n: (0.0, 0.0, SHIFT * n)) if zshift else (lambda n: (SHIFT * n, 0.0, 0.0))
        rec.label("merge:shift_" + ("z" if zshift else "x"))
        for p in range(k):
            sh = int(case["shifts"][p])
            # (only when no other mesh of the list has a node at that place - pieces shifted apart, no duplicated piece: a node of
            # another mesh that coincides with BOTH lips leaves the outcome undefined)
            apart = len(set(int(x) for x in case["shifts"][:k])) == k and not case.get("dup")
            split = (10**6 + p) if (case.get("split") == p and case["mergePoints"] and apart) else None  # identity of the duplicated node
            if split:
                rec.label("merge:piece_with_coincident_own_nodes")
            sub, l2g = cp.submesh(gl, pieces[p], case["perms"][p], shift_of(sh), split_node=split)
            if sub is None:
                continue
            items.append((sub, 0, sh, l2g, {t: v for t, v in pieces[p].items() if np.size(v)}))
        if case.get("dup") and 1 <= len(items) < 4:
            sub0, s0, sh0, l2g0, rows0 = items[0]
            sub, l2g = cp.submesh(gl, rows0, 12345, shift_of(sh0))
            items.append((sub, 0, sh0, l2g, rows0))
        if case.get("recipe2") and len(items) < 4:
            g2 = cp.build(case["recipe2"], None)[0]
            if g2.Ne <= NE_MAX:
                sources.append(g2)
                rows2 = {t: np.arange(g.Ne) for t, g in cp.groups(g2).items() if g.Ne}
                sub, l2g = cp.submesh(g2, rows2, 7, (0.0, SHIFT * 3, 0.0))
                items.append((sub, 1, 3, l2g, rows2))
                rec.label("merge:two_recipes")
        if len(items) < 2:
            raise Inconclusive("needs at least 2 non-empty meshes")

    meshes = [it[0] for it in items]
    in_coords = [np.asarray(m.coord, float).copy() for m in meshes]
    merged, mapping = Mesh.Merge(meshes, constructUniqueElements=bool(case["unique"]),
                                 mergePoints=bool(case["mergePoints"]), return_mapping=True)
    rec.require(len(mapping) == len(meshes), "mapping_shape", f"{len(mapping)} mappings for {len(meshes)} meshes", **sig)
    mcoord = np.asarray(merged.coord, float)
    scale = float(np.abs(mcoord).max()) + 1.0
    keys = {}
    shared = False
    for i, (m, src, sh, l2g, rows) in enumerate(items):
        mp = np.asarray(mapping[i], int)
        rec.require(mp.shape == (m.Nn,), "mapping_shape", f"mapping[{i}] has shape {mp.shape}, mesh has {m.Nn} nodes", **sig)
        rec.require(mp.size == 0 or (mp.min() >= 0 and mp.max() < merged.Nn), "mapping_range", "", **sig)
        rec.close(mcoord[mp] - in_coords[i], scale, TOL, "mapping_coord",
                  f"{types}: merged.coord[mapping[{i}]] != mesh_{i}.coord", **sig)
        rec.require(np.array_equal(np.asarray(m.coord, float), in_coords[i]), "inputs_untouched", "", **sig)
        # identification classes
        for j, gnode in enumerate(l2g.tolist()):
            key = (src, sh, gnode) if case["mergePoints"] else (i, j)
            if key in keys:
                shared = True
                rec.require(keys[key] == mp[j], "mapping_identifies",
                            lambda: f"{types}: coincident nodes (mesh {i} node {j}) are mapped to different merged nodes", **sig)
            else:
                keys[key] = int(mp[j])
    vals = list(keys.values())
    rec.require(len(set(vals)) == len(vals), "mapping_separates",
                f"{types}: distinct points are mapped to the same merged node", **sig)
    rec.require(merged.Nn == len(vals), "merged_node_count", f"{types}: merged.Nn={merged.Nn}, expected {len(vals)}", **sig)
    if not case["mergePoints"]:
        off = 0
        for i, m in enumerate(meshes):
            rec.require(np.array_equal(np.asarray(mapping[i], int), off + np.arange(m.Nn)), "mapping_concatenates",
                        f"mapping[{i}] is not offset+arange without mergePoints", **sig)
            off += m.Nn

    # connectivity mapped (duplicates = same node set, removed when asked)
    mg = cp.groups(merged)
    exp_rows = {}
    for i, (m, src, sh, l2g, rows) in enumerate(items):
        for t, g in cp.groups(m).items():
            exp_rows.setdefault(t, []).append(np.asarray(mapping[i], int)[np.asarray(g.connect, int)])
    rec.require(sorted(mg) == sorted(exp_rows), "merged_types", f"{sorted(mg)} vs {sorted(exp_rows)}", **sig)
    exp_measure = 0.0
    main_dim = max(g.dim for g in mg.values())
    for t, lst in exp_rows.items():
        allrows = np.vstack(lst)
        got = np.asarray(mg[t].connect, int)
        if case["unique"]:
            seen = {}
            for row in allrows:
                seen.setdefault(tuple(sorted(row.tolist())), []).append(tuple(row.tolist()))
            gotkeys = [tuple(sorted(row.tolist())) for row in got]
            rec.require(len(set(gotkeys)) == len(gotkeys) and set(gotkeys) == set(seen), "connect_mapped",
                        f"{types} {t}: merged elements (as node sets) differ from the union of the mapped input elements", **sig)
            rec.require(all(tuple(row.tolist()) in seen.get(k, ()) for row, k in zip(got, gotkeys)), "connect_mapped",
                        f"{types} {t}: a merged row is not one of the mapped input rows", **sig)
        else:
            rec.require(sorted(map(tuple, got.tolist())) == sorted(map(tuple, allrows.tolist())), "connect_mapped",
                        f"{types} {t}: merged rows are not the mapped input rows", **sig)
    # measure: additive over the distinct elements (disjoint interiors)
    seen_el = set()
    for i, (m, src, sh, l2g, rows) in enumerate(items):
        for t, g in cp.groups(m).items():
            if g.dim != main_dim:
                continue
            meas = cp.group_measures(g)
            ids = np.asarray(rows[t], int)
            for e in range(g.Ne):
                key = (src, sh, t, int(ids[e])) if (case["mergePoints"] and case["unique"]) else (i, t, e)
                if key not in seen_el:
                    seen_el.add(key)
                    exp_measure += float(meas[e])
    got_measure = sum(float(cp.group_measures(g).sum()) for g in mg.values() if g.dim == main_dim)
    rec.close(got_measure - exp_measure, exp_measure, 1e-11, "measure_additive",
              f"{types}: merged measure {got_measure!r} vs sum over distinct elements {exp_measure!r}", **sig)

    if case["mode"] == "partition":
        # Merge(owned parts) = global mesh up to numbering: identify merged nodes with global nodes by coordinates
        gcoord = np.asarray(gl.coord, float)
        lut = {tuple(c.tolist()): n for n, c in enumerate(gcoord)}
        m2g = np.array([lut.get(tuple(c.tolist()), -1) for c in mcoord], int)
        used_all = np.unique(np.concatenate([np.asarray(g.connect, int).ravel() for g in cp.groups(gl).values()]))
        rec.require(bool(np.all(m2g >= 0)) and np.array_equal(np.sort(m2g), used_all), "merge_parts_is_global",
                    f"{types}: nodes of Merge(parts) are not the nodes of the global mesh", **sig)
        for t, g in cp.groups(gl).items():
            if g.Ne == 0:
                continue
            rec.require(t in mg, "merge_parts_is_global", f"{types}: group {t} missing after Merge(parts)", **sig)
            a = sorted(map(tuple, m2g[np.asarray(mg[t].connect, int)].tolist()))
            b = sorted(map(tuple, np.asarray(g.connect, int).tolist()))
            rec.require(a == b, "merge_parts_is_global",
                        f"{types}: {t} elements of Merge(parts) differ from the global ones", **sig)
        rec.nontrivial(len(items) >= 2)
    else:
        rec.nontrivial(shared)
    rec.label("coincident" if shared else "disjoint")


SUBS = [
    Sub("partition_sets", check_partition_sets, gen=partition_cases, quick=150, thorough=250, shards=8),
    Sub("row_complete", check_row_complete, gen=row_cases, quick=80, thorough=150, shards=8),
    Sub("merge", check_merge, gen=merge_cases, quick=200, thorough=400, shards=6),
]
