"""C01 - patch test: any linear field is reproduced exactly by the full solve pipeline."""

import numpy as np
from hypothesis import strategies as st

from EasyFEA import Models, Simulations

from vlib import gen_mesh as gm
from vlib import gen_model as gmod
from vlib import oracles as orc
from vlib.runner import Inconclusive, Sub

PROPERTY = "C01"
RULE = (
    "Hypothesis draws a mesh recipe (polygon / extruded polygon / inclined segment x element type x organised flag "
    "x affine image x node renumbering), a material law (4 elastic classes with rotated axes, plane stress/strain, "
    "thickness; conductivity; beam section) and a linear field (integer-grid gradient and offset); the field is imposed "
    "with add_dirichlet on the boundary nodes (lambda or nodal-array form) and the full Solve() pipeline is run. "
    "Non-trivial = at least one free interior node and a non-zero (symmetric) gradient; distinct = sha1 of the case."
    ' large_patch (round 8): two enumerated patch tests with more than 40 000 unknowns after elimination on a sheared QUAD4 grid.'
)
ASSUMPTIONS = [
    "closed-form oracle: u = G x + c at every node; strain = sym(G); stress = material.C : sym(G) (C itself is C11's business)",
    "straight-sided gmsh meshes and affine images only (isoparametric exactness holds there); Poisson ratio <= 0.45",
    "meshes <= ~300 nodes; direct sparse solver (solve-level tolerance 1e-8 x field magnitude)",
]
LEVEL_TEXT = ("generated patch tests over element type x dimension x law x mesh x affine map x renumbering against the "
              "closed-form linear solution, its constant strain/stress and energy")
LEVEL_NOTE = ("exploration: bounded mesh sizes, moderate anisotropy/conditioning; material.C trusted here (decided by C11); "
              "absence of violations on unexplored meshes is not established")
TECHNIQUE = "property-based testing (Hypothesis) vs closed-form linear-field solution + renumbering metamorphic relation"
DESIGN_REF = "DESIGN.md 4/C01"

TOL_SOLVE = 1e-8


def grad_strategy(dim):
    return st.lists(st.lists(st.integers(-4, 4), min_size=dim, max_size=dim), min_size=dim, max_size=dim)


@st.composite
def elastic_cases(draw, dim):
    if draw(st.integers(0, 3)) == 0:
        r = draw(gm.merged_recipes(dim))  # deliberately mixed: two blocks of different element types merged
    else:
        r = draw(gm.recipes2d(hmin=4, hmax=9) if dim == 2 else gm.recipes3d(taper_ok=True))
    law = draw(gmod.elastic_specs(dim))
    G = draw(grad_strategy(dim))
    c = [draw(st.integers(-3, 3)) for _ in range(dim)]
    form = draw(st.sampled_from(["lambda", "array"]))
    return dict(recipe=r, law=law, G=G, c=c, form=form)


def check_elastic(case, rec):
    r = case["recipe"]
    dim = gm.dim_any(r)
    mesh = gm.build_any(r)
    if mesh.Nn > 450:
        raise Inconclusive("mesh too large for the quick oracle")
    types = gm.mesh_types(mesh)
    mat = gmod.make_elastic(case["law"])
    G = np.array(case["G"], float) / 8.0
    c = np.array(case["c"], float) / 4.0
    sig = dict(elemType=r["elemType"], types=types, law=case["law"]["cls"], dim=dim)
    rec.label("types:" + types, "law:" + case["law"]["cls"] + (":ps" if case["law"]["planeStress"] else ""),
              "form:" + case["form"], "affine" if r.get("A") else "plain", "perm" if r.get("perm") is not None else "noperm",
              "merged" if r.get("merged") else "gmsh")

    simu = Simulations.Elastic(mesh, mat)
    bnodes = gm.boundary_any(mesh, r)
    coord = np.asarray(mesh.coord, float)
    X = coord[:, :dim]
    uex = X @ G.T + c  # (Nn, dim)
    unknowns = ["x", "y", "z"][:dim]
    if case["form"] == "lambda":
        vals = []
        for d in range(dim):
            g = G[d]
            cd = c[d]
            if dim == 2:
                vals.append(lambda x, y, z, g=g, cd=cd: g[0] * x + g[1] * y + cd)
            else:
                vals.append(lambda x, y, z, g=g, cd=cd: g[0] * x + g[1] * y + g[2] * z + cd)
    else:
        vals = [uex[bnodes, d].copy() for d in range(dim)]
    simu.add_dirichlet(bnodes, vals, unknowns)
    u = np.asarray(simu.Solve(), float).reshape(mesh.Nn, dim)

    used = gm.used_nodes(mesh)
    interior = np.setdiff1d(used, bnodes)
    scale = np.abs(G).max() * np.ptp(X, axis=0).max() + np.abs(uex).max() + 1e-300
    rec.close((u - uex)[used], scale, TOL_SOLVE, "displacement",
              f"{types} {case['law']['cls']}: solved field differs from the linear field", **sig)

    eps = gmod.km_strain(G, dim)
    Cm = np.asarray(mat.C, float)
    sig_km = Cm @ eps
    eps_t = gmod.from_km(eps)
    sig_t = gmod.from_km(sig_km)
    # floor: a zero gradient must give strains at round-off of the O(1) field.  Strains are differences of nodal values
    # divided by node spacings: the round-off of a displacement of magnitude |u| over a spacing h is eps |u| / h, which
    # is not small against |G| on a micrometre mesh carrying an O(1) offset (thorough tier, seed 4: DESIGN 6.3); that
    # term enters at the identity level (1e-12 |u| / (h / 20), 20 = bound on the conditioning of the affine maps)
    gscale = np.abs(G).max() + 1e-3 + 1e-5 * 20.0 * np.abs(uex).max() / gm.min_node_spacing(mesh)
    sscale = np.abs(Cm).max() * gscale
    for nodeValues in (False, True):
        E = np.asarray(simu.Result("Strain", nodeValues=nodeValues), float)
        S = np.asarray(simu.Result("Stress", nodeValues=nodeValues), float)
        nrow = mesh.Nn if nodeValues else mesh.Ne
        rec.require(E.shape == (nrow, eps.size) and S.shape == (nrow, eps.size), "result_shape",
                    f"{types}: Result('Strain'/'Stress', nodeValues={nodeValues}) has shape {E.shape}/{S.shape}, "
                    f"expected {(nrow, eps.size)} (Nn={mesh.Nn}, Ne={mesh.Ne})", **sig)
        if nodeValues:
            E, S = E[used], S[used]
        rec.close(E - eps_t[None, :], gscale, 1e-7, "strain", f"{types}: Result('Strain', nodeValues={nodeValues})", **sig)
        rec.close(S - sig_t[None, :], sscale, 1e-7, "stress", f"{types}: Result('Stress', nodeValues={nodeValues})", **sig)
    names = ["xx", "yy", "xy"] if dim == 2 else ["xx", "yy", "zz", "yz", "xz", "xy"]
    for i, nm in enumerate(names):
        e_i = np.asarray(simu.Result("E" + nm, nodeValues=False), float)
        s_i = np.asarray(simu.Result("S" + nm, nodeValues=False), float)
        rec.close(e_i - eps_t[i], gscale, 1e-7, "strain_component", f"{types}: E{nm}", **sig)
        rec.close(s_i - sig_t[i], sscale, 1e-7, "stress_component", f"{types}: S{nm}", **sig)
    # energy: 1/2 eps:C:eps x measure x thickness
    meas = sum(float(np.sum(g.Integrate_e(lambda x, y, z: 1.0 + 0 * x))) for g in gm.main_groups(mesh))
    th = float(mat.thickness) if dim == 2 else 1.0
    W_ex = 0.5 * float(eps @ Cm @ eps) * meas * th
    W = float(simu.Result("Wdef"))
    rec.close(W - W_ex, 0.5 * np.abs(Cm).max() * gscale**2 * meas * th, 1e-7, "energy", f"{types}: Wdef {W!r} vs {W_ex!r}", **sig)
    rec.nontrivial(interior.size >= 1 and np.abs(G + G.T).max() > 0)
    rec.label("interior>=1" if interior.size else "interior=0")


@st.composite
def thermal_cases(draw):
    kind = draw(st.sampled_from(["1d", "2d", "2d", "3d"]))
    if kind == "1d":
        r = draw(gm.recipes1d())
    elif kind == "2d":
        r = draw(gm.recipes2d())
    else:
        r = draw(gm.recipes3d(taper_ok=True))
    g = [draw(st.integers(-4, 4)) for _ in range(3)]
    c = draw(st.integers(-3, 3))
    k = draw(st.integers(1, 20)) / 4.0
    th = draw(st.sampled_from([1.0, 0.5, 2.0]))
    form = draw(st.sampled_from(["lambda", "array"]))
    return dict(recipe=r, g=g, c=c, k=k, thickness=th, form=form)


def check_thermal(case, rec):
    r = case["recipe"]
    dim = gm.dim_of(r["elemType"])
    mesh = gm.build(r)
    if mesh.Nn > 450:
        raise Inconclusive("mesh too large for the quick oracle")
    types = gm.mesh_types(mesh)
    sig = dict(elemType=r["elemType"], types=types, dim=dim)
    rec.label("types:" + types, "form:" + case["form"])
    coord = np.asarray(mesh.coord, float)
    g = np.array(case["g"], float) / 4.0
    if dim == 2:
        g[2] = 0.0
    if dim == 1:
        # the field must be linear along the segment: any g works (restriction of a linear field)
        pass
    c = case["c"] / 2.0
    Tex = coord @ g + c
    simu = Simulations.Thermal(mesh, Models.Thermal(k=case["k"], c=0.0, thickness=case["thickness"]))
    if dim == 1:
        used = gm.used_nodes(mesh)
        # end nodes = nodes that belong to exactly one element as a vertex
        grp = gm.main_groups(mesh)[0]
        ends = np.concatenate([grp.connect[:, 0], grp.connect[:, 1]])
        vals, cnt = np.unique(ends, return_counts=True)
        bnodes = vals[cnt == 1]
    else:
        bnodes = gm.boundary_nodes(mesh)
    if case["form"] == "lambda":
        vals = [lambda x, y, z: g[0] * x + g[1] * y + g[2] * z + c]
    else:
        vals = [Tex[bnodes].copy()]
    simu.add_dirichlet(bnodes, vals, ["t"])
    T = np.asarray(simu.Solve(), float).ravel()
    used = gm.used_nodes(mesh)
    interior = np.setdiff1d(used, bnodes)
    scale = np.abs(g).max() * np.ptp(coord, axis=0).max() + np.abs(Tex).max() + 1e-300
    rec.close((T - Tex)[used], scale, TOL_SOLVE, "temperature", f"{types}: solved temperature differs from the linear field", **sig)
    # gradient along the element directions seen by the mesh
    if dim == 1:
        d = np.array(r["d"], float)
        gnz = abs(float(g @ d)) > 0
    else:
        gnz = np.abs(g).max() > 0
    rec.nontrivial(interior.size >= 1 and gnz)


SUBS = [
    Sub("elastic2d", check_elastic, gen=lambda: elastic_cases(2), quick=150, thorough=700, shards=6),
    Sub("elastic3d", check_elastic, gen=lambda: elastic_cases(3), quick=60, thorough=250, shards=6),
    Sub("thermal", check_thermal, gen=thermal_cases, quick=150, thorough=700, shards=4),
]


# ------------------------------------------------------------------------------------------
# beams: constant axial strain / constant curvature (/ constant twist rate) along an inclined member

from vlib import gen_beam as gb  # noqa: E402


@st.composite
def beam_cases(draw):
    spec = draw(gb.member_specs())
    a = draw(st.integers(-4, 4)) / 100.0
    k1 = draw(st.integers(-4, 4)) / 50.0
    k2 = draw(st.integers(-4, 4)) / 50.0 if spec["dim"] == 3 else 0.0
    tw = draw(st.integers(-4, 4)) / 50.0 if spec["dim"] == 3 else 0.0
    return dict(member=spec, a=a, k1=k1, k2=k2, tw=tw)


def beam_exact_fields(s, a, k1, k2, tw):
    """local translations (u,v,w) and local rotation vector (rx,ry,rz) at abscissa s"""
    u_loc = np.column_stack([a * s, k1 * s**2 / 2, k2 * s**2 / 2])
    r_loc = np.column_stack([tw * s, -k2 * s, k1 * s])  # ry = -w', rz = v'
    return u_loc, r_loc


def check_beam(case, rec):
    spec = case["member"]
    dim = spec["dim"]
    simu, mesh, beam, frame = gb.build_member(spec)
    kind = "timo" if spec["timoshenko"] else "eb"
    sig = dict(elemType=spec["elemType"], dim=dim, kind=kind)
    p1 = np.array(spec["p1"], float)
    coord = np.asarray(mesh.coord, float)
    s = (coord - p1) @ frame[0]
    L = float(np.linalg.norm(spec["d"]))
    inclined = abs(abs(frame[0][0]) - 1.0) > 1e-9
    rec.label(f"beam:{kind}:{spec['elemType']}:{dim}d", "inclined" if inclined else "axis-aligned")
    a, k1, k2, tw = case["a"], case["k1"], case["k2"], case["tw"]
    u_loc, r_loc = beam_exact_fields(s, a, k1, k2, tw)
    dofs_ex = gb.local_to_global_dofs(frame, dim, u_loc, r_loc)  # (Nn, dof_n)
    n1, n2 = gb.end_nodes(mesh, spec)
    unknowns = simu.Get_unknowns()
    for n in (n1, n2):
        simu.add_dirichlet(np.array([n]), [float(x) for x in dofs_ex[n]], unknowns)
    u = np.asarray(simu.Solve(), float).reshape(mesh.Nn, -1)
    scale = max(abs(a) * L, abs(k1) * L**2, abs(k2) * L**2, abs(tw) * L, abs(k1) * L, abs(k2) * L) + 1e-300
    rec.close(u - dofs_ex, scale, 1e-7, "beam_dofs", f"{kind} {spec['elemType']} {dim}D member d={spec['d']}: "
              "nodal dofs differ from the constant-strain/curvature field", **sig)
    A, Iy, Iz = gb.section_props(spec["b"], spec["h"])
    E = spec["E"]
    N = np.asarray(simu.Result("N", nodeValues=False), float)
    # member lying on the global x axis and pointing towards -x: the mesh is "1D" for EasyFEA (inDim == 1)
    p2 = p1 + np.array(spec["d"], float)
    on_neg_x = bool(np.all(p1[1:] == 0) and np.all(p2[1:] == 0) and spec["d"][0] < 0)
    rec.close(N - E * A * a, E * A * (abs(a) + 1e-3), 1e-7, "beam_N", f"N {N[:3]} vs EA*a={E*A*a}",
              on_neg_x_axis=on_neg_x, **sig)
    Mz = np.asarray(simu.Result("Mz", nodeValues=False), float)
    rec.close(Mz - E * Iz * k1, E * Iz * (abs(k1) + 1e-3), 1e-6, "beam_Mz", f"Mz {Mz[:3]} vs EIz*k={E*Iz*k1}", **sig)
    if dim == 3:
        My = np.asarray(simu.Result("My", nodeValues=False), float)
        rec.close(np.abs(My) - abs(E * Iy * k2), E * Iy * (abs(k2) + 1e-3), 1e-6, "beam_My", f"|My| {My[:3]} vs EIy*k2", **sig)
    interior = mesh.Nn - 2
    rec.nontrivial(interior >= 1 and (a != 0 or k1 != 0 or k2 != 0 or tw != 0))


SUBS.append(Sub("beam", check_beam, gen=beam_cases, quick=80, thorough=800, shards=4))
READY = True


# ------------------------------------------------------------------------------------------
# (added) frusta: wedges and bricks whose cross-section grows or shrinks along the extrusion (straight edges, planar faces, but the
# elements are not translates of their base: the Jacobian varies inside a first-order wedge). One case per type and taper.


def enum_tapered(tier):
    sq = [[1.0, 0.0], [0.1, 1.1], [-1.0, 0.2], [-0.1, -0.9]]
    k = 0
    for et in ("PRISM6", "PRISM15", "PRISM18", "HEXA8", "HEXA20", "HEXA27"):
        for taper in (-0.4, 0.6):
            k += 1
            r = dict(verts=sq, h=1.2 if et in ("PRISM6", "HEXA8") else 1.5, elemType=et, organised=et.startswith("HEXA"), extrude=[0.25, -0.25, 1.0],
                     layers=2 if et in ("PRISM6", "HEXA8") else 1, A=None, b=None, perm=None, orphans=0, taper=taper)
            law = dict(cls="iso", dim=3, planeStress=False, thickness=1.0, E=3.0, v=0.3, angles=[0.1, 0.1, 0.1])
            yield dict(kind="elastic", recipe=r, law=law, G=[[1, -2, 3], [2, 1, -1], [-3, 2, 2]], c=[1, -2, 3], form="lambda" if k % 2 else "array")
            yield dict(kind="thermal", recipe=r, g=[2, -3, 1], c=1, k=1.5, thickness=1.0, form="lambda" if k % 2 else "array")


def check_tapered(case, rec):
    rec.label("tapered:" + case["recipe"]["elemType"])
    (check_elastic if case["kind"] == "elastic" else check_thermal)(case, rec)


SUBS.append(Sub("tapered", check_tapered, enum=enum_tapered, doc="patch tests on frusta meshed with wedges / bricks"))


# (added by the lead) every beam family on a graded member, bending about both local axes, in both theories: the constant
# curvature patch test on unequal element lengths (a shear term that is not reduced cancels on equal lengths only)


def enum_beam_graded(tier):
    for dim in (2, 3):
        for et in ("SEG2", "SEG3", "SEG4", "SEG5"):
            for tim in (False, True):
                for grade in (-0.5, 0.4):
                    for d in ([2.0, 0.0, 0.0], [-2.0, 0.0, 0.0], [1.0, 2.0, 0.0] if dim == 2 else [1.0, -1.0, 2.0]):
                        spec = dict(dim=dim, elemType=et, p1=[0.5, 0.0, 0.0], d=d, ne=3, b=0.3, h=0.5, E=80.0, v=0.3, timoshenko=tim,
                                    yAxis=None, grade=grade)
                        yield dict(member=spec, a=0.02, k1=0.04, k2=-0.06 if dim == 3 else 0.0, tw=0.04 if dim == 3 else 0.0)


SUBS.append(Sub("beam_graded", check_beam, enum=enum_beam_graded,
                doc="dimension x SEG2..SEG5 x Euler-Bernoulli / Timoshenko x grading x direction (on the x axis both ways, inclined): constant strain / curvature / twist fields"))


# ------------------------------------------------------------------------------------------
# (added by the lead, round 8) the patch test on LARGE systems (more than 40 000 unknowns after elimination): whatever route the
# solver takes for such a size, the linear field comes back at round-off, not at the tolerance of an iterative method


def enum_large_patch(tier):
    yield dict(problem="elastic", n=153)  # 151**2 interior nodes x 2 = 45 602 unknowns
    yield dict(problem="thermal", n=204)  # 202**2 = 40 804 unknowns
    if tier == "thorough":
        yield dict(problem="elastic", n=260)


def check_large_patch(case, rec):
    from EasyFEA import Mesh
    from EasyFEA.FEM._group_elem import GroupElemFactory

    n = case["n"]
    xs = np.linspace(0.0, 1.0, n)
    X, Y = np.meshgrid(xs, xs, indexing="ij")
    A = np.array([[1.0, 0.3], [-0.2, 0.8]])
    P = np.column_stack([X.ravel(), Y.ravel()]) @ A.T + np.array([0.5, -0.25])
    coord = np.column_stack([P, np.zeros(n * n)])
    idx = np.arange(n * n).reshape(n, n)
    conn = np.column_stack([idx[:-1, :-1].ravel(), idx[1:, :-1].ravel(), idx[1:, 1:].ravel(), idx[:-1, 1:].ravel()])
    mesh = Mesh({"QUAD4": GroupElemFactory.Create("QUAD4", conn, coord)})
    bnd = np.unique(np.concatenate([idx[0, :], idx[-1, :], idx[:, 0], idx[:, -1]]))
    sig = dict(problem=case["problem"], n=n)
    if case["problem"] == "elastic":
        simu = Simulations.Elastic(mesh, Models.Elastic.Isotropic(2, E=3.0, v=0.25, planeStress=True))
        G = np.array([[0.02, -0.01], [0.015, 0.03]])
        c = np.array([0.1, -0.2])
        uex = P @ G.T + c
        simu.add_dirichlet(bnd, [uex[bnd, 0].copy(), uex[bnd, 1].copy()], ["x", "y"])
        u = np.asarray(simu.Solve(), float).reshape(-1, 2)
        nunk = 2 * (n * n - bnd.size)
        eps = np.array([G[0, 0], G[1, 1], 0.5 * (G[0, 1] + G[1, 0])])
        E = np.asarray(simu.Result("Strain", nodeValues=False), float)
        rec.close(E - eps[None, :], float(np.abs(G).max()), 1e-7, "large_strain", f"strain of a {nunk}-unknown patch test", **sig)
    else:
        simu = Simulations.Thermal(mesh, Models.Thermal(k=1.5, c=1.0))
        g = np.array([0.4, -0.7])
        uex = (P @ g + 0.3)[:, None]
        simu.add_dirichlet(bnd, [uex[bnd, 0].copy()], ["t"])
        u = np.asarray(simu.Solve(), float).reshape(-1, 1)
        nunk = n * n - bnd.size
    rec.label(f"large:{case['problem']}:unknowns={nunk}")
    rec.close(u - uex, float(np.abs(uex).max()), TOL_SOLVE, "large_displacement",
              f"{case['problem']} patch test with {nunk} unknowns: the solved field differs from the linear field", **sig)
    rec.nontrivial(nunk > 40000)


SUBS.append(Sub("large_patch", check_large_patch, enum=enum_large_patch, doc="elastic (45 602 unknowns) and thermal (40 804 unknowns) patch tests on a sheared QUAD4 grid"))
