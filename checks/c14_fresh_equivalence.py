"""C14 - after any sequence of changes a simulation behaves like a freshly built one."""

import numpy as np
from hypothesis import strategies as st

from EasyFEA import AlgoType, Models, Simulations

from vlib import gen_mesh as gm
from vlib import gen_model as gmod
from vlib import oracles as orc
from vlib.runner import Inconclusive, Sub

PROPERTY = "C14"
RULE = (
    "Hypothesis draws a history (list of 3-14 public operations) for an Elastic or Thermal simulation, or for two "
    "simulations sharing one model: set a law parameter, density, Rayleigh damping, Translate/Rotate/Symmetry of the "
    "mesh, direct re-coordination `mesh.coord = ...`, replacement of the mesh, Bc_Init + new boundary conditions, switch "
    "of time scheme, Get_K_C_M_F, Solve, Save_Iter, Set_Iter. The harness keeps a declarative model of the final "
    "configuration and after every step builds a fresh simulation from it. Non-trivial = an invalidating change applied "
    "after the matrices were built at least once; distinct = sha1 of the history."
)
ASSUMPTIONS = [
    "reference = a new simulation built from the declarative model (new law object, new Mesh object rebuilt from arrays, "
    "boundary conditions re-applied, state injected with _Set_solutions)",
    "documented reset semantics are mirrored by the model: replacing the mesh clears boundary conditions and solutions; "
    "a mesh moved in place is the same mesh object for every saved iteration that refers to it",
    "identity-level comparison of K, C, M, F (same code path, same arithmetic) and solve-level comparison of solutions",
]
LEVEL_TEXT = ("model-based stateful testing: generated operation histories interpreted against a declarative model; after "
              "each operation the live simulation's matrices, next solution and results are compared with a fresh build")
LEVEL_NOTE = "exploration; meshes <= 60 nodes, histories <= 14 operations; Elastic, Thermal and shared-model pairs (PhaseField/HyperElastic variants in the thorough list when present)"
TECHNIQUE = "stateful / model-based property testing (Hypothesis operation lists) with a fresh-rebuild differential oracle"
DESIGN_REF = "DESIGN.md 4/C14"

SMALL = ["TRI3", "QUAD4", "TRI6", "QUAD8"]


# ------------------------------------------------------------------------------------------
# generation


def _recipe(draw):
    r = draw(gm.recipes2d(types=SMALL, affine_ok=False, perm_ok=False, hmin=6, hmax=9, nmax=4))
    return r


@st.composite
def op_strategy(draw, kind):
    names = ["param", "rho", "translate", "rotate", "symmetry", "set_coord", "replace_mesh", "bc", "matrices", "solve",
             "solve", "save", "set_iter", "algo"]
    if kind != "thermal":
        names.append("damping")
    name = draw(st.sampled_from(names))
    op = dict(op=name)
    if name == "param":
        if kind == "thermal":
            op.update(name=draw(st.sampled_from(["k", "c", "thickness"])), value=draw(st.integers(1, 12)) / 4.0)
        else:
            pn = draw(st.sampled_from(["E", "v", "thickness", "planeStress"]))
            val = dict(E=draw(st.integers(2, 20)) / 2.0, v=draw(st.integers(0, 8)) / 20.0,
                       thickness=draw(st.integers(1, 8)) / 4.0, planeStress=draw(st.booleans()))[pn]
            op.update(name=pn, value=val)
    elif name == "rho":
        op.update(value=draw(st.integers(1, 12)) / 4.0)
    elif name == "damping":
        op.update(cm=draw(st.integers(0, 4)) / 10.0, ck=draw(st.integers(0, 4)) / 10.0)
    elif name == "translate":
        op.update(t=[draw(st.integers(-4, 4)) / 2.0, draw(st.integers(-4, 4)) / 2.0, 0.0])
    elif name == "rotate":
        op.update(theta=draw(st.integers(1, 35)) * 10.0 + 3.0, center=[draw(st.integers(-2, 2)) / 2.0, draw(st.integers(-2, 2)) / 2.0, 0.0])
    elif name == "symmetry":
        a = draw(st.integers(0, 11)) * 15.0 + 5.0
        op.update(n=[float(np.cos(np.deg2rad(a))), float(np.sin(np.deg2rad(a))), 0.0],
                  point=[draw(st.integers(-2, 2)) / 2.0, draw(st.integers(-2, 2)) / 2.0, 0.0])
    elif name == "set_coord":
        for _ in range(10):
            A = [[draw(st.integers(-6, 6)) / 4.0 for _ in range(2)] for _ in range(2)]
            if abs(np.linalg.det(np.array(A))) > 0.4 and np.linalg.cond(np.array(A)) < 8:
                break
        else:
            A = [[1.5, 0.0], [0.0, 0.5]]
        op.update(A=A, b=[draw(st.integers(-2, 2)) / 2.0, draw(st.integers(-2, 2)) / 2.0])
    elif name == "replace_mesh":
        op.update(recipe=_recipe(draw))
    elif name == "bc":
        op.update(seed=draw(st.integers(0, 99)))
    elif name == "set_iter":
        op.update(i=draw(st.integers(0, 5)))
    elif name == "algo":
        op.update(name=draw(st.sampled_from(["elliptic", "newmark", "midpoint", "hht"] if kind != "thermal" else ["elliptic", "parabolic"])),
                  dt=draw(st.integers(1, 10)) / 10.0)
    return op


@st.composite
def histories(draw, kind):
    ops = draw(st.lists(op_strategy(kind), min_size=3, max_size=14))
    case = dict(kind=kind, recipe=_recipe(draw), ops=ops, bc0=draw(st.integers(0, 99)))
    if kind != "thermal":
        case["law"] = dict(cls="iso", dim=2, planeStress=draw(st.booleans()), thickness=1.0, angles=[0.0],
                           E=draw(st.integers(2, 20)) / 2.0, v=draw(st.integers(0, 8)) / 20.0)
    else:
        case["law"] = dict(k=draw(st.integers(1, 12)) / 4.0, c=draw(st.integers(1, 12)) / 4.0, thickness=1.0)
    if kind == "shared":
        case["recipe2"] = _recipe(draw)
    return case


# ------------------------------------------------------------------------------------------
# declarative model + live simulation


def _rodrigues(theta_deg, axis=(0, 0, 1.0)):
    a = np.array(axis, float)
    a /= np.linalg.norm(a)
    th = np.deg2rad(theta_deg)
    Kx = np.array([[0, -a[2], a[1]], [a[2], 0, -a[0]], [-a[1], a[0], 0]])
    return np.eye(3) + np.sin(th) * Kx + (1 - np.cos(th)) * Kx @ Kx


class Slot:
    """one mesh object of the history: the object given to EasyFEA and the coordinates the harness expects"""

    def __init__(self, mesh):
        self.base = mesh.copy()  # pristine copy used to rebuild fresh meshes (connectivity, tags)
        self.coord = np.array(mesh.coord, float)


def _make_model(kind, law):
    if kind == "thermal":
        return Models.Thermal(k=law["k"], c=law["c"], thickness=law["thickness"])
    return gmod.make_elastic(law)


def _apply_bc(simu, mesh, coord, seed, kind):
    """Bc_Init + a clamp patch + loads, all chosen from the expected coordinates (node numbering is shared)"""
    simu.Bc_Init()
    rng = np.random.default_rng(seed)
    bn = gm.boundary_nodes(mesh)
    ang = rng.uniform(0, 2 * np.pi)
    dv = np.array([np.cos(ang), np.sin(ang), 0.0])
    p = coord[bn] @ dv
    fixed = bn[p <= p.min() + 0.35 * (p.max() - p.min())]
    loaded = bn[p >= p.max() - 0.35 * (p.max() - p.min())]
    unk = simu.Get_unknowns()
    ud = [float(x) for x in np.round(rng.uniform(-0.1, 0.1, len(unk)), 3)]
    simu.add_dirichlet(fixed, ud, unk)
    simu.add_surfLoad(loaded, [float(x) for x in np.round(rng.uniform(-1, 1, len(unk)), 2)], unk)
    simu.add_volumeLoad(gm.used_nodes(mesh), [float(x) for x in np.round(rng.uniform(-1, 1, len(unk)), 2)], unk)
    return fixed.size


class Live:
    def __init__(self, kind, recipe, model, law, bc0):
        self.kind = kind
        self.law = dict(law)
        mesh = gm.build(recipe)
        if mesh.Nn > 60:
            raise Inconclusive("mesh too large for a history")
        self.slots = [Slot(mesh)]
        self.cur = 0
        self.model = model
        self.simu = (Simulations.Thermal if kind == "thermal" else Simulations.Elastic)(mesh, model)
        self.rho = 1.0
        self.damping = (0.0, 0.0)
        self.bc = bc0
        self.algo = ("elliptic", 0.1)
        self.saved = []  # (slot index, u, v, a)
        _apply_bc(self.simu, mesh, self.slots[0].coord, bc0, kind)
        self.built_once = False
        self.invalidated_after_build = False

    @property
    def slot(self):
        return self.slots[self.cur]

    def state(self):
        pt = self.simu.problemType
        return [np.array(f(pt), float).copy() for f in (self.simu._Get_u_n, self.simu._Get_v_n, self.simu._Get_a_n)]

    def fresh(self, model=None):
        """a new simulation in the current configuration, from the declarative model alone"""
        mesh = gm.rebuild(self.slot.base, self.slot.coord)
        model = model if model is not None else _make_model(self.kind, self.law)
        f = (Simulations.Thermal if self.kind == "thermal" else Simulations.Elastic)(mesh, model)
        f.rho = self.rho
        if self.kind != "thermal":
            f.Set_Rayleigh_Damping_Coefs(*self.damping)
        _set_algo(f, self.kind, *self.algo)
        if self.bc is not None:
            _apply_bc(f, mesh, self.slot.coord, self.bc, self.kind)
        u, v, a = self.state()
        n = mesh.Nn * f.Get_dof_n()
        if u.size == n:
            f._Set_solutions(f.problemType, u, v, a)
        return f


def _set_algo(simu, kind, name, dt):
    if name == "elliptic":
        simu.Solver_Set_Elliptic_Algorithm()
    elif name == "parabolic":
        simu.Solver_Set_Parabolic_Algorithm(dt)
    else:
        simu.Solver_Set_Hyperbolic_Algorithm(dt, algo=AlgoType(name), alpha=0.1 if name == "hht" else 0.5)


def _compare_matrices(rec, live, fresh, tag, sig):
    A = live.simu.Get_K_C_M_F()
    B = fresh.Get_K_C_M_F()
    for nm, a, b in zip("KCMF", A, B):
        a, b = orc.dense(a), orc.dense(b)
        rec.require(a.shape == b.shape, "matrix_shape", f"after {tag}: {nm} has shape {a.shape}, a fresh simulation {b.shape}", **sig)
        sc = max(np.abs(b).max(), np.abs(a).max(), 1e-9)
        rec.close(a - b, sc, 1e-11, "stale_" + nm, f"after {tag}: {nm} differs from a freshly built simulation "
                  f"(max|live|={np.abs(a).max():.3e}, max|fresh|={np.abs(b).max():.3e})", **sig)
    fa = np.asarray(live.simu.Bc_vector_Neumann(), float)
    fb = np.asarray(fresh.Bc_vector_Neumann(), float)
    rec.require(fa.shape == fb.shape, "neumann_shape", f"after {tag}: Neumann vector shapes {fa.shape} vs {fb.shape}", **sig)
    rec.close(fa - fb, max(np.abs(fb).max(), 1e-9), 1e-11, "stale_neumann", f"after {tag}: Neumann vector differs", **sig)


def run_history(case, rec):
    kind = case["kind"]
    base_kind = "elastic" if kind == "shared" else kind
    law = case["law"]
    model = _make_model(base_kind, law)
    lives = [Live(base_kind, case["recipe"], model, law, case["bc0"])]
    if kind == "shared":
        lives.append(Live(base_kind, case["recipe2"], model, law, case["bc0"] + 1))
    sig0 = dict(kind=kind, elemType=case["recipe"]["elemType"])
    rec.label("kind:" + kind)
    prev = "init"
    for k, op in enumerate(case["ops"]):
        name = op["op"]
        L = lives[k % len(lives)] if name not in ("param",) else lives[0]
        tag = f"{prev}->{name}"
        sig = dict(sig0, op=name, prev=prev)
        invalidating = name in ("param", "rho", "damping", "translate", "rotate", "symmetry", "set_coord", "replace_mesh")
        if name == "param":
            pn, val = op["name"], op["value"]
            if base_kind == "elastic" and pn == "planeStress":
                model.planeStress = bool(val)
            else:
                setattr(model, pn, val)
            for l in lives:
                l.law[pn] = val
        elif name == "rho":
            L.simu.rho = op["value"]
            L.rho = op["value"]
        elif name == "damping":
            L.simu.Set_Rayleigh_Damping_Coefs(op["cm"], op["ck"])
            L.damping = (op["cm"], op["ck"])
        elif name == "translate":
            L.simu.mesh.Translate(*op["t"])
            L.slot.coord = L.slot.coord + np.array(op["t"], float)
        elif name == "rotate":
            L.simu.mesh.Rotate(op["theta"], tuple(op["center"]), (0, 0, 1))
            c = np.array(op["center"], float)
            L.slot.coord = (L.slot.coord - c) @ _rodrigues(op["theta"]).T + c
        elif name == "symmetry":
            L.simu.mesh.Symmetry(tuple(op["point"]), tuple(op["n"]))
            n = np.array(op["n"], float)
            n /= np.linalg.norm(n)
            p = np.array(op["point"], float)
            L.slot.coord = (L.slot.coord - p) @ (np.eye(3) - 2 * np.outer(n, n)).T + p
        elif name == "set_coord":
            A3 = np.eye(3)
            A3[:2, :2] = np.array(op["A"], float)
            b3 = np.array(list(op["b"]) + [0.0], float)
            new = L.slot.coord @ A3.T + b3
            L.simu.mesh.coord = new
            L.slot.coord = new
        elif name == "replace_mesh":
            m2 = gm.build(op["recipe"])
            if m2.Nn > 60:
                raise Inconclusive("replacement mesh too large")
            L.simu.mesh = m2
            L.slots.append(Slot(m2))
            L.cur = len(L.slots) - 1
            L.bc = None  # documented: the setter re-initialises the boundary conditions and the solutions
        elif name == "bc":
            _apply_bc(L.simu, L.simu.mesh, L.slot.coord, op["seed"], base_kind)
            L.bc = op["seed"]
        elif name == "algo":
            _set_algo(L.simu, base_kind, op["name"], op["dt"])
            L.algo = (op["name"], op["dt"])
        elif name == "save":
            u, v, a = L.state()
            L.simu.Save_Iter()
            L.saved.append((L.cur, u, v, a, L.algo[0]))
        elif name == "set_iter":
            if not L.saved:
                prev = name
                continue
            i = op["i"] % len(L.saved)
            L.simu.Set_Iter(i)
            L.cur = L.saved[i][0]
            u, v, a, algo_saved = L.saved[i][1:]
            pt = L.simu.problemType
            got = L.state()
            hyper = L.algo[0] in ("newmark", "midpoint", "hht")
            exp = [u, v if (hyper or base_kind == "thermal") else 0 * v, a if hyper else 0 * a]
            if base_kind == "thermal":
                exp = [u, v, 0 * a]
            if got[0].shape == exp[0].shape:
                rec.close(got[0] - exp[0], np.abs(u).max() + 1e-9, 1e-13, "set_iter_state", f"Set_Iter({i}) did not restore u", **sig)
        elif name == "solve":
            if L.bc is None:
                prev = name
                continue
            F = L.fresh(model=None)
            try:
                u_live = np.array(L.simu.Solve(), float).copy()
            except Exception as e:
                # a fresh simulation must fail the same way, otherwise the live one is stale
                try:
                    F.Solve()
                    fresh_ok = True
                except Exception:
                    fresh_ok = False
                rec.require(not fresh_ok, "solve_raises_only_live", f"after {tag}: Solve() raised {type(e).__name__}: {str(e)[:80]} "
                            "while a freshly built simulation solves", **sig)
                raise Inconclusive("ill-posed generated problem (both fail)")
            u_fresh = np.array(F.Solve(), float)
            rec.require(u_live.shape == u_fresh.shape, "solution_shape", f"after {tag}: solution shapes differ", **sig)
            if not (np.all(np.isfinite(u_fresh)) and np.abs(u_fresh).max() < 1e8):
                raise Inconclusive("ill-conditioned generated problem")
            sc = np.abs(u_fresh).max() + 1e-6
            rec.close(u_live - u_fresh, sc, 1e-7, "stale_solution", f"after {tag}: Solve() differs from a freshly built simulation", **sig)
            if base_kind == "elastic":
                w1, w2 = float(L.simu.Result("Wdef")), float(F.Result("Wdef"))
                rec.close(w1 - w2, abs(w2) + 1e-6, 1e-6, "stale_result_Wdef", f"after {tag}: Wdef {w1!r} vs fresh {w2!r}", **sig)
                s1 = np.asarray(L.simu.Result("Svm", nodeValues=False), float)
                s2 = np.asarray(F.Result("Svm", nodeValues=False), float)
                rec.close(s1 - s2, np.abs(s2).max() + 1e-6, 1e-6, "stale_result_Svm", f"after {tag}: Svm differs", **sig)
        # Boundary-condition values are evaluated when they are entered (loads are integrated on the geometry and
        # multiplied by the thickness at that time). After a change of geometry or thickness the history therefore
        # clears and re-adds the same conditions (a listed operation), so that both simulations carry conditions
        # entered in the final configuration; the eager evaluation itself is not asserted.
        if name in ("translate", "rotate", "symmetry", "set_coord") or (name == "param" and op["name"] == "thickness"):
            for l in (lives if name == "param" else [L]):
                if l.bc is not None:
                    _apply_bc(l.simu, l.simu.mesh, l.slot.coord, l.bc, base_kind)
        # after every step: the matrices of every live simulation equal those of a fresh one
        for j, l in enumerate(lives):
            f = l.fresh(model=None)
            _compare_matrices(rec, l, f, tag + (f" [simulation {j}]" if len(lives) > 1 else ""), sig)
            if invalidating and l.built_once:
                l.invalidated_after_build = True
            l.built_once = True
        rec.label("op:" + name, "bigram:" + prev + ">" + name)
        prev = name
    rec.nontrivial(any(l.invalidated_after_build for l in lives))


SUBS = [
    Sub("elastic_history", run_history, gen=lambda: histories("elastic"), quick=60, thorough=800, shards=8),
    Sub("thermal_history", run_history, gen=lambda: histories("thermal"), quick=50, thorough=600, shards=6),
    Sub("shared_model", run_history, gen=lambda: histories("shared"), quick=40, thorough=500, shards=6),
]
