"""C14 - after any sequence of changes a simulation behaves like a freshly built one."""

import numpy as np
from hypothesis import strategies as st

from EasyFEA import AlgoType, Models, Simulations

from vlib import gen_mesh as gm
from vlib import gen_model as gmod
from vlib import oracles as orc
from vlib.runner import Inconclusive, Sub

PROPERTY = "C14"
RULE = (
    "Hypothesis draws a history (list of 3-14 public operations) for an Elastic or Thermal simulation, or for two "
    "simulations sharing one model: set a law parameter, density, Rayleigh damping, Translate/Rotate/Symmetry of the "
    "mesh, direct re-coordination `mesh.coord = ...`, replacement of the mesh, Bc_Init + new boundary conditions, switch "
    "of time scheme, Get_K_C_M_F, Solve, Save_Iter, Set_Iter. The harness keeps a declarative model of the final "
    "configuration and after every step builds a fresh simulation from it. Non-trivial = an invalidating change applied "
    "after the matrices were built at least once; distinct = sha1 of the history."
    ' phasefield_history: parameter / mesh modifications of a PhaseField simulation with an injected (u, d) state, matrices of both problems and energies vs a fresh simulation (non-trivial = a modification after a first read). inelastic_history: plastic steps committed, mesh replaced (same or other size), first step vs a new simulation (non-trivial = plastic flow before the replacement).'
    ' restore_then_solve: a run of saved load steps up to a peak and back, Set_Iter(j), one more step - against a new simulation replayed up to iteration j (non-trivial = j is not the last iteration and the response is non-zero).'
    ' Round 8: operation copy_mesh (the mesh replaced by a copy of itself made with warm caches) and phasefield_replace (damaged saved history, mesh replaced by one of the same or another size, light load vs a new simulation).'
    ' Round 9: beam histories may give a member another section; elastic / thermal histories may save the simulation to disk (save_simu) so that older meshes are read back from their files.'
    ' hyperelastic_changes (round 9) enumerates element type x kind of change for the scenario dynamic step / one change / dynamic step.'
)
ASSUMPTIONS = [
    "reference = a new simulation built from the declarative model (new law object, new Mesh object rebuilt from arrays, "
    "boundary conditions re-applied, state injected with _Set_solutions)",
    "documented reset semantics are mirrored by the model: replacing the mesh clears boundary conditions and solutions; "
    "a mesh moved in place is the same mesh object for every saved iteration that refers to it",
    "identity-level comparison of K, C, M, F (same code path, same arithmetic) and solve-level comparison of solutions",
]
LEVEL_TEXT = ("model-based stateful testing: generated operation histories interpreted against a declarative model; after "
              "each operation the live simulation's matrices, next solution and results are compared with a fresh build")
LEVEL_NOTE = "exploration; meshes <= 60 nodes, histories <= 14 operations; Elastic, Thermal and shared-model pairs (PhaseField/HyperElastic variants in the thorough list when present)"
TECHNIQUE = "stateful / model-based property testing (Hypothesis operation lists) with a fresh-rebuild differential oracle"
DESIGN_REF = "DESIGN.md 4/C14"

SMALL = ["TRI3", "QUAD4", "TRI6", "QUAD8"]


# ------------------------------------------------------------------------------------------
# generation


def _recipe(draw):
    r = draw(gm.recipes2d(types=SMALL, affine_ok=False, perm_ok=False, hmin=6, hmax=9, nmax=4))
    return r


@st.composite
def op_strategy(draw, kind):
    names = ["param", "rho", "translate", "rotate", "symmetry", "set_coord", "replace_mesh", "bc", "matrices", "solve",
             "solve", "save", "set_iter", "algo", "copy_mesh", "save_simu"]
    if kind != "thermal":
        names.append("damping")
    name = draw(st.sampled_from(names))
    op = dict(op=name)
    if name == "param":
        if kind == "thermal":
            op.update(name=draw(st.sampled_from(["k", "c", "thickness"])),
                      value=draw(st.sampled_from([0.25, 0.75, 1.5, 3.0, 1.5 * (1 + 3e-6), 4e-9, 4e-9 * (1 + 5e-6)])))
        else:
            pn = draw(st.sampled_from(["E", "v", "thickness", "planeStress"]))
            val = dict(E=draw(st.sampled_from([1.0, 2.5, 5.0, 10.0, 10.0 * (1 + 3e-6), 2.1e-4, 2.1e-4 * (1 + 5e-6)])), v=draw(st.integers(0, 8)) / 20.0,
                       thickness=draw(st.integers(1, 8)) / 4.0, planeStress=draw(st.booleans()))[pn]
            op.update(name=pn, value=val)
    elif name == "rho":
        # O(1) values, values of another unit system (tonne/mm^3) and tiny relative changes: an update must never be
        # skipped because the new value "looks like" the old one
        op.update(value=draw(st.sampled_from([0.25, 0.5, 1.0, 1.75, 3.0, 7.85e-9, 2.7e-9, 1.0 + 3e-6, 7.85e-9 * (1 + 4e-6)])))
    elif name == "damping":
        op.update(cm=draw(st.integers(0, 4)) / 10.0, ck=draw(st.integers(0, 4)) / 10.0)
    elif name == "translate":
        op.update(t=[draw(st.integers(-4, 4)) / 2.0, draw(st.integers(-4, 4)) / 2.0, 0.0])
    elif name == "rotate":
        op.update(theta=draw(st.integers(1, 35)) * 10.0 + 3.0, center=[draw(st.integers(-2, 2)) / 2.0, draw(st.integers(-2, 2)) / 2.0, 0.0])
    elif name == "symmetry":
        a = draw(st.integers(0, 11)) * 15.0 + 5.0
        op.update(n=[float(np.cos(np.deg2rad(a))), float(np.sin(np.deg2rad(a))), 0.0],
                  point=[draw(st.integers(-2, 2)) / 2.0, draw(st.integers(-2, 2)) / 2.0, 0.0])
    elif name == "set_coord":
        for _ in range(10):
            A = [[draw(st.integers(-6, 6)) / 4.0 for _ in range(2)] for _ in range(2)]
            if abs(np.linalg.det(np.array(A))) > 0.4 and np.linalg.cond(np.array(A)) < 8:
                break
        else:
            A = [[1.5, 0.0], [0.0, 0.5]]
        op.update(A=A, b=[draw(st.integers(-2, 2)) / 2.0, draw(st.integers(-2, 2)) / 2.0])
    elif name == "replace_mesh":
        op.update(recipe=_recipe(draw))
    elif name == "bc":
        op.update(seed=draw(st.integers(0, 99)))
    elif name == "set_iter":
        op.update(i=draw(st.integers(0, 5)))
    elif name == "algo":
        op.update(name=draw(st.sampled_from(["elliptic", "newmark", "midpoint", "hht"] if kind != "thermal" else ["elliptic", "parabolic"])),
                  dt=draw(st.integers(1, 10)) / 10.0)
    return op


@st.composite
def histories(draw, kind):
    ops = draw(st.lists(op_strategy(kind), min_size=3, max_size=14))
    # scenario prefixes: multi-step interplays that a uniform draw of operations reaches too rarely
    tpl = draw(st.integers(0, 7))
    if tpl == 0:  # save on the first mesh, replace it, restore the first mesh, then move it
        mv = draw(st.sampled_from([dict(op="rotate", theta=37.0, center=[0.0, 0.0, 0.0]), dict(op="translate", t=[0.5, -1.0, 0.0]),
                                   dict(op="set_coord", A=[[1.5, 0.0], [0.25, 0.75]], b=[0.0, 0.5])]))
        ops = [dict(op="solve"), dict(op="save"), dict(op="replace_mesh", recipe=_recipe(draw)), dict(op="bc", seed=draw(st.integers(0, 99))),
               dict(op="set_iter", i=0), mv, dict(op="solve")] + ops
    elif tpl == 3:  # the mesh replaced by a COPY of itself (made while its geometric caches are warm), the copy moved and used,
        # then the iteration saved on the original mesh restored: two mesh objects of the same size used in turn
        mv = draw(st.sampled_from([dict(op="rotate", theta=37.0, center=[0.0, 0.0, 0.0]), dict(op="symmetry", point=[0.0, 0.0, 0.0], n=[1.0, 0.5, 0.0]),
                                   dict(op="set_coord", A=[[1.5, 0.0], [0.25, 0.75]], b=[0.0, 0.5])]))
        sd = draw(st.integers(0, 99))
        ops = [dict(op="solve"), dict(op="save"), dict(op="copy_mesh"), mv, dict(op="bc", seed=sd), dict(op="solve"), dict(op="save"),
               dict(op="set_iter", i=0), dict(op="solve"), dict(op="set_iter", i=1), dict(op="solve")] + ops
    elif tpl == 4:  # iterations on two meshes, the simulation saved to disk (its older meshes are then read back from their files when
        # an iteration is restored), the first mesh restored, moved and used
        mv = draw(st.sampled_from([dict(op="rotate", theta=37.0, center=[0.0, 0.0, 0.0]), dict(op="translate", t=[0.5, -1.0, 0.0]),
                                   dict(op="set_coord", A=[[1.5, 0.0], [0.25, 0.75]], b=[0.0, 0.5])]))
        ops = [dict(op="solve"), dict(op="save"), dict(op="replace_mesh", recipe=_recipe(draw)), dict(op="bc", seed=draw(st.integers(0, 99))),
               dict(op="solve"), dict(op="save"), dict(op="save_simu"), dict(op="set_iter", i=0), mv, dict(op="solve")] + ops
    elif tpl == 1:  # two condition sets with the same counts on other dofs, solved one after the other
        sd = draw(st.integers(0, 32)) * 3
        ops = [dict(op="bc", seed=sd), dict(op="solve"), dict(op="bc", seed=sd + 1), dict(op="solve")] + ops
    elif tpl == 2 and kind != "thermal":  # a static iteration, then dynamic steps, then back to the static iteration
        ops = [dict(op="solve"), dict(op="save"), dict(op="algo", name=draw(st.sampled_from(["newmark", "midpoint", "hht"])), dt=0.1),
               dict(op="solve"), dict(op="solve"), dict(op="set_iter", i=0), dict(op="solve")] + ops
    case = dict(kind=kind, recipe=_recipe(draw), ops=ops, bc0=draw(st.integers(0, 99)))
    if kind != "thermal":
        case["law"] = dict(cls="iso", dim=2, planeStress=draw(st.booleans()), thickness=1.0, angles=[0.0],
                           E=draw(st.integers(2, 20)) / 2.0, v=draw(st.integers(0, 8)) / 20.0)
    else:
        case["law"] = dict(k=draw(st.integers(1, 12)) / 4.0, c=draw(st.integers(1, 12)) / 4.0, thickness=1.0)
    if kind == "shared":
        case["recipe2"] = _recipe(draw)
    return case


# ------------------------------------------------------------------------------------------
# declarative model + live simulation


def _rodrigues(theta_deg, axis=(0, 0, 1.0)):
    a = np.array(axis, float)
    a /= np.linalg.norm(a)
    th = np.deg2rad(theta_deg)
    Kx = np.array([[0, -a[2], a[1]], [a[2], 0, -a[0]], [-a[1], a[0], 0]])
    return np.eye(3) + np.sin(th) * Kx + (1 - np.cos(th)) * Kx @ Kx


class Slot:
    """one mesh object of the history: the object given to EasyFEA and the coordinates the harness expects"""

    def __init__(self, mesh):
        self.base = mesh.copy()  # pristine copy used to rebuild fresh meshes (connectivity, tags)
        self.coord = np.array(mesh.coord, float)


def _make_model(kind, law):
    if kind == "thermal":
        return Models.Thermal(k=law["k"], c=law["c"], thickness=law["thickness"])
    return gmod.make_elastic(law)


def _apply_bc(simu, mesh, coord, seed, kind):
    """Bc_Init + a clamp patch + loads, all chosen from the expected coordinates (node numbering is shared)"""
    simu.Bc_Init()
    rng = np.random.default_rng(seed)
    bn = gm.boundary_nodes(mesh)
    # few distinct directions: successive condition sets often constrain the same nodes (same counts) on other
    # components, or the same number of dofs elsewhere
    ang = (seed // 3 % 4) * np.pi / 2 + 0.3
    dv = np.array([np.cos(ang), np.sin(ang), 0.0])
    p = coord[bn] @ dv
    fixed = bn[p <= p.min() + 0.35 * (p.max() - p.min())]
    loaded = bn[p >= p.max() - 0.35 * (p.max() - p.min())]
    unk = simu.Get_unknowns()
    simu.add_dirichlet(loaded[-2:], [0.01], [unk[seed % len(unk)]])
    # Dirichlet values and point loads as functions of position (evaluated on the current coordinates when entered),
    # constants and nodal arrays for the others
    cf = np.round(rng.uniform(-0.05, 0.05, (len(unk), 3)), 3)
    ud = [(lambda x, y, z, c=c: c[0] + c[1] * x + c[2] * y) for c in cf]
    simu.add_dirichlet(fixed, ud, unk)
    simu.add_surfLoad(loaded, [float(x) for x in np.round(rng.uniform(-1, 1, len(unk)), 2)], unk)
    simu.add_volumeLoad(gm.used_nodes(mesh), [float(x) for x in np.round(rng.uniform(-1, 1, len(unk)), 2)], unk)
    cp = np.round(rng.uniform(-0.5, 0.5, (len(unk), 3)), 2)
    simu.add_neumann(loaded[:2], [(lambda x, y, z, c=c: c[0] + c[1] * x + c[2] * y) for c in cp], unk)
    simu.add_dirichlet(fixed[:1], [coord[fixed[:1], 0] * 0.01], unk[:1])  # nodal-array form (adds to the first condition)
    return fixed.size


class Live:
    def __init__(self, kind, recipe, model, law, bc0):
        self.kind = kind
        self.law = dict(law)
        mesh = gm.build(recipe)
        if mesh.Nn > 60:
            raise Inconclusive("mesh too large for a history")
        self.slots = [Slot(mesh)]
        self.cur = 0
        self.model = model
        self.simu = (Simulations.Thermal if kind == "thermal" else Simulations.Elastic)(mesh, model)
        self.rho = 1.0
        self.damping = (0.0, 0.0)
        self.bc = bc0
        self.algo = ("elliptic", 0.1)
        self.saved = []  # (slot index, u, v, a)
        _apply_bc(self.simu, mesh, self.slots[0].coord, bc0, kind)
        self.built_once = False
        self.invalidated_after_build = False

    @property
    def slot(self):
        return self.slots[self.cur]

    def state(self):
        pt = self.simu.problemType
        return [np.array(f(pt), float).copy() for f in (self.simu._Get_u_n, self.simu._Get_v_n, self.simu._Get_a_n)]

    def fresh(self, model=None):
        """a new simulation in the current configuration, from the declarative model alone"""
        mesh = gm.rebuild(self.slot.base, self.slot.coord)
        model = model if model is not None else _make_model(self.kind, self.law)
        f = (Simulations.Thermal if self.kind == "thermal" else Simulations.Elastic)(mesh, model)
        f.rho = self.rho
        if self.kind != "thermal":
            f.Set_Rayleigh_Damping_Coefs(*self.damping)
        _set_algo(f, self.kind, *self.algo)
        if self.bc is not None:
            _apply_bc(f, mesh, self.slot.coord, self.bc, self.kind)
        u, v, a = self.state()
        n = mesh.Nn * f.Get_dof_n()
        if u.size == n:
            f._Set_solutions(f.problemType, u, v, a)
        return f


def _set_algo(simu, kind, name, dt):
    if name == "elliptic":
        simu.Solver_Set_Elliptic_Algorithm()
    elif name == "parabolic":
        simu.Solver_Set_Parabolic_Algorithm(dt)
    else:
        simu.Solver_Set_Hyperbolic_Algorithm(dt, algo=AlgoType(name), alpha=0.1 if name == "hht" else 0.5)


def _compare_matrices(rec, live, fresh, tag, sig):
    A = live.simu.Get_K_C_M_F()
    B = fresh.Get_K_C_M_F()
    for nm, a, b in zip("KCMF", A, B):
        a, b = orc.dense(a), orc.dense(b)
        rec.require(a.shape == b.shape, "matrix_shape", f"after {tag}: {nm} has shape {a.shape}, a fresh simulation {b.shape}", **sig)
        sc = max(np.abs(b).max(), np.abs(a).max())  # no absolute floor: parameters may live in any unit system
        if sc == 0:
            continue
        rec.close(a - b, sc, 1e-11, "stale_" + nm, f"after {tag}: {nm} differs from a freshly built simulation "
                  f"(max|live|={np.abs(a).max():.3e}, max|fresh|={np.abs(b).max():.3e})", **sig)
    fa = np.asarray(live.simu.Bc_vector_Neumann(), float)
    fb = np.asarray(fresh.Bc_vector_Neumann(), float)
    rec.require(fa.shape == fb.shape, "neumann_shape", f"after {tag}: Neumann vector shapes {fa.shape} vs {fb.shape}", **sig)
    rec.close(fa - fb, max(np.abs(fb).max(), 1e-9), 1e-11, "stale_neumann", f"after {tag}: Neumann vector differs", **sig)


def run_history(case, rec):
    import shutil

    tmpdirs = []
    try:
        return _run_history(case, rec, tmpdirs)
    finally:
        for t_ in tmpdirs:
            shutil.rmtree(t_, ignore_errors=True)


def _run_history(case, rec, tmpdirs):
    kind = case["kind"]
    base_kind = "elastic" if kind == "shared" else kind
    law = case["law"]
    model = _make_model(base_kind, law)
    lives = [Live(base_kind, case["recipe"], model, law, case["bc0"])]
    if kind == "shared":
        lives.append(Live(base_kind, case["recipe2"], model, law, case["bc0"] + 1))
    sig0 = dict(kind=kind, elemType=case["recipe"]["elemType"])
    rec.label("kind:" + kind)
    prev = "init"
    for k, op in enumerate(case["ops"]):
        name = op["op"]
        L = lives[k % len(lives)] if name not in ("param",) else lives[0]
        tag = f"{prev}->{name}"
        sig = dict(sig0, op=name, prev=prev)
        invalidating = name in ("param", "rho", "damping", "translate", "rotate", "symmetry", "set_coord", "replace_mesh", "copy_mesh")
        if name == "save_simu":
            import tempfile

            tmp = tempfile.mkdtemp(prefix="verif_c14_")
            tmpdirs.append(tmp)
            L.simu.Save(tmp)  # the meshes of the history now live in files; the simulation goes on being used
            # from now on a restore that switches to one of these meshes reads it back from its file: as it was when saved
            # (a mesh that already lives in a file keeps that file: what was read back from it and moved since is another object)
            for sl in L.slots:
                if getattr(sl, "coord_saved", None) is None:
                    sl.coord_saved = sl.coord.copy()
        elif name == "copy_mesh":
            m2 = L.simu.mesh.copy()  # Mesh.copy(): an independent mesh with the same nodes and elements
            cur = L.slot.coord.copy()
            L.simu.mesh = m2
            L.slots.append(Slot(m2))
            L.slots[-1].coord = cur
            L.cur = len(L.slots) - 1
            L.bc = None
        elif name == "param":
            pn, val = op["name"], op["value"]
            if base_kind == "elastic" and pn == "planeStress":
                model.planeStress = bool(val)
            else:
                setattr(model, pn, val)
            for l in lives:
                l.law[pn] = val
        elif name == "rho":
            L.simu.rho = op["value"]
            L.rho = op["value"]
        elif name == "damping":
            L.simu.Set_Rayleigh_Damping_Coefs(op["cm"], op["ck"])
            L.damping = (op["cm"], op["ck"])
        elif name == "translate":
            L.simu.mesh.Translate(*op["t"])
            L.slot.coord = L.slot.coord + np.array(op["t"], float)
        elif name == "rotate":
            L.simu.mesh.Rotate(op["theta"], tuple(op["center"]), (0, 0, 1))
            c = np.array(op["center"], float)
            L.slot.coord = (L.slot.coord - c) @ _rodrigues(op["theta"]).T + c
        elif name == "symmetry":
            L.simu.mesh.Symmetry(tuple(op["point"]), tuple(op["n"]))
            n = np.array(op["n"], float)
            n /= np.linalg.norm(n)
            p = np.array(op["point"], float)
            L.slot.coord = (L.slot.coord - p) @ (np.eye(3) - 2 * np.outer(n, n)).T + p
        elif name == "set_coord":
            A3 = np.eye(3)
            A3[:2, :2] = np.array(op["A"], float)
            b3 = np.array(list(op["b"]) + [0.0], float)
            new = L.slot.coord @ A3.T + b3
            L.simu.mesh.coord = new
            L.slot.coord = new
        elif name == "replace_mesh":
            m2 = gm.build(op["recipe"])
            if m2.Nn > 60:
                raise Inconclusive("replacement mesh too large")
            L.simu.mesh = m2
            L.slots.append(Slot(m2))
            L.cur = len(L.slots) - 1
            L.bc = None  # documented: the setter re-initialises the boundary conditions and the solutions
        elif name == "bc":
            _apply_bc(L.simu, L.simu.mesh, L.slot.coord, op["seed"], base_kind)
            L.bc = op["seed"]
        elif name == "algo":
            _set_algo(L.simu, base_kind, op["name"], op["dt"])
            L.algo = (op["name"], op["dt"])
        elif name == "save":
            u, v, a = L.state()
            L.simu.Save_Iter()
            L.saved.append((L.cur, u, v, a, L.algo[0]))
        elif name == "set_iter":
            if not L.saved:
                prev = name
                continue
            i = op["i"] % len(L.saved)
            L.simu.Set_Iter(i)
            slot_changed = L.cur != L.saved[i][0]
            L.cur = L.saved[i][0]
            if slot_changed and getattr(L.slot, "coord_saved", None) is not None:
                L.slot.coord = L.slot.coord_saved.copy()  # the mesh comes back from its file
            if slot_changed and L.bc is not None:
                # boundary conditions are lists of node ids of the mesh they were entered on: after a restore that
                # switches to another mesh the history re-enters them (what they mean on the other mesh is not defined,
                # and not asserted)
                _apply_bc(L.simu, L.simu.mesh, L.slot.coord, L.bc, base_kind)
            u, v, a, algo_saved = L.saved[i][1:]
            pt = L.simu.problemType
            got = L.state()
            hyper = L.algo[0] in ("newmark", "midpoint", "hht")
            exp = [u, v if (hyper or base_kind == "thermal") else 0 * v, a if hyper else 0 * a]
            if base_kind == "thermal":
                exp = [u, v, 0 * a]
            if got[0].shape == exp[0].shape:
                rec.close(got[0] - exp[0], np.abs(u).max() + 1e-9, 1e-13, "set_iter_state", f"Set_Iter({i}) did not restore u", **sig)
                HYP = ("newmark", "midpoint", "hht")
                if base_kind != "thermal" and L.algo[0] in HYP:
                    # rates of the restored iteration: the saved ones when it was a dynamic iteration, none (zero) when it was a
                    # static one - a simulation placed on that iteration carries nothing from the steps made after it
                    ev, ea = (v, a) if algo_saved in HYP else (0 * v, 0 * a)
                    for nm_, g_, e_ in (("v", got[1], ev), ("a", got[2], ea)):
                        if g_.shape == e_.shape:
                            rec.close(g_ - e_, max(float(np.abs(e_).max()), float(np.abs(g_).max()) * 1e-3, 1e-9), 1e-12, "set_iter_rates",
                                      f"Set_Iter({i}) (iteration saved under '{algo_saved}', current scheme '{L.algo[0]}'): {nm_} is not the "
                                      "one of that iteration", **sig)
        elif name == "solve":
            if L.bc is None:
                prev = name
                continue
            F = L.fresh(model=None)
            try:
                u_live = np.array(L.simu.Solve(), float).copy()
            except Exception as e:
                # a fresh simulation must fail the same way, otherwise the live one is stale
                try:
                    F.Solve()
                    fresh_ok = True
                except Exception:
                    fresh_ok = False
                rec.require(not fresh_ok, "solve_raises_only_live", f"after {tag}: Solve() raised {type(e).__name__}: {str(e)[:80]} "
                            "while a freshly built simulation solves", **sig)
                raise Inconclusive("ill-posed generated problem (both fail)")
            u_fresh = np.array(F.Solve(), float)
            rec.require(u_live.shape == u_fresh.shape, "solution_shape", f"after {tag}: solution shapes differ", **sig)
            if not (np.all(np.isfinite(u_fresh)) and np.abs(u_fresh).max() < 1e8):
                raise Inconclusive("ill-conditioned generated problem")
            sc = np.abs(u_fresh).max() + 1e-6
            rec.close(u_live - u_fresh, sc, 1e-7, "stale_solution", f"after {tag}: Solve() differs from a freshly built simulation", **sig)
            if base_kind == "elastic":
                w1, w2 = float(L.simu.Result("Wdef")), float(F.Result("Wdef"))
                rec.close(w1 - w2, abs(w2) + 1e-6, 1e-6, "stale_result_Wdef", f"after {tag}: Wdef {w1!r} vs fresh {w2!r}", **sig)
                s1 = np.asarray(L.simu.Result("Svm", nodeValues=False), float)
                s2 = np.asarray(F.Result("Svm", nodeValues=False), float)
                rec.close(s1 - s2, np.abs(s2).max() + 1e-6, 1e-6, "stale_result_Svm", f"after {tag}: Svm differs", **sig)
        # Boundary-condition values are evaluated when they are entered (loads are integrated on the geometry and
        # multiplied by the thickness at that time). After a change of geometry or thickness the history therefore
        # clears and re-adds the same conditions (a listed operation), so that both simulations carry conditions
        # entered in the final configuration; the eager evaluation itself is not asserted.
        if name in ("translate", "rotate", "symmetry", "set_coord") or (name == "param" and op["name"] == "thickness"):
            for l in (lives if name == "param" else [L]):
                if l.bc is not None:
                    _apply_bc(l.simu, l.simu.mesh, l.slot.coord, l.bc, base_kind)
        # after every step: the matrices of every live simulation equal those of a fresh one
        for j, l in enumerate(lives):
            f = l.fresh(model=None)
            _compare_matrices(rec, l, f, tag + (f" [simulation {j}]" if len(lives) > 1 else ""), sig)
            if invalidating and l.built_once:
                l.invalidated_after_build = True
            l.built_once = True
        rec.label("op:" + name, "bigram:" + prev + ">" + name)
        prev = name
    rec.nontrivial(any(l.invalidated_after_build for l in lives))


SUBS = [
    Sub("elastic_history", run_history, gen=lambda: histories("elastic"), quick=100, thorough=800, shards=8),
    Sub("thermal_history", run_history, gen=lambda: histories("thermal"), quick=80, thorough=600, shards=6),
    Sub("shared_model", run_history, gen=lambda: histories("shared"), quick=60, thorough=500, shards=6),
]


# ------------------------------------------------------------------------------------------
# HyperElastic (dynamic, cached element mass) and Beam (Lagrange connections) histories


@st.composite
def hyper_histories(draw):
    names = ["param", "rho", "thickness", "translate", "rotate", "set_coord", "bc", "solve", "solve", "matrices", "replace_mesh",
             "save", "set_iter"]
    ops = []
    # two cases out of three start with: dynamic step, one invalidating change, dynamic step (the uniform draw rarely lines them up)
    plan = [None] * draw(st.integers(3, 9))
    pick = draw(st.integers(0, 3))
    if pick in (1, 2):
        plan = ["solve", draw(st.sampled_from(["param", "rho", "thickness", "translate", "rotate", "set_coord"])), "solve"] + plan[3:]
    elif pick == 3:  # dynamic steps saved, an earlier one restored, the run continued from it
        plan = ["solve", "save", "solve", "save", "set_iter", "solve"] + plan[6:]
    for forced in plan:
        name = forced or draw(st.sampled_from(names))
        op = dict(op=name)
        if name == "param":
            op.update(value=draw(st.integers(4, 20)) / 2.0)
        elif name == "rho":
            op.update(value=draw(st.integers(1, 12)) / 4.0)
        elif name == "thickness":
            op.update(value=draw(st.sampled_from([0.25, 0.5, 2.0, 3.0])))
        elif name == "translate":
            op.update(t=[draw(st.integers(-4, 4)) / 2.0, draw(st.integers(-4, 4)) / 2.0, 0.0])
        elif name == "rotate":
            op.update(theta=draw(st.integers(1, 35)) * 10.0 + 3.0, center=[0.0, 0.0, 0.0])
        elif name == "set_coord":
            sc = draw(st.sampled_from([0.5, 1.5, 2.0]))
            op.update(A=[[sc, 0.0], [draw(st.integers(-2, 2)) / 4.0, 1.0]], b=[0.0, 0.0])
        elif name == "bc":
            op.update(seed=draw(st.integers(0, 99)))
        elif name == "replace_mesh":
            op.update(recipe=_recipe(draw))
        elif name == "set_iter":
            op.update(i=draw(st.integers(0, 5)))
        ops.append(op)
    return dict(kind="hyperelastic", recipe=_recipe(draw), ops=ops, bc0=draw(st.integers(0, 99)), K=draw(st.integers(4, 20)) / 2.0,
                dt=draw(st.integers(1, 5)) / 10.0)


def _hyper_bc(simu, mesh, coord, seed):
    simu.Bc_Init()
    rng = np.random.default_rng(seed)
    bn = gm.boundary_nodes(mesh)
    ang = rng.uniform(0, 2 * np.pi)
    p = coord[bn] @ np.array([np.cos(ang), np.sin(ang), 0.0])
    fixed = bn[p <= p.min() + 0.35 * (p.max() - p.min())]
    loaded = bn[p >= p.max() - 0.35 * (p.max() - p.min())]
    simu.add_dirichlet(fixed, [0.0, 0.0], ["x", "y"])
    simu.add_surfLoad(loaded, [float(x) for x in np.round(rng.uniform(-0.05, 0.05, 2), 3)], ["x", "y"])


def run_hyper_history(case, rec):
    sig = dict(kind="hyperelastic", elemType=case["recipe"]["elemType"])
    rec.label("kind:hyperelastic")
    mesh = gm.build(case["recipe"])
    if mesh.Nn > 50:
        raise Inconclusive("mesh too large for a history")
    mat = Models.HyperElastic.NeoHookean(2, K=case["K"])
    simu = Simulations.HyperElastic(mesh, mat)
    simu.Solver_Set_Hyperbolic_Algorithm(case["dt"])
    slot = Slot(mesh)
    st8 = dict(K=case["K"], rho=1.0, bc=case["bc0"], thickness=1.0)
    _hyper_bc(simu, mesh, slot.coord, st8["bc"])
    built = False
    inval = False
    prev = "init"
    saved = []  # (slot, u, v, a) at Save_Iter

    def state():
        pt_ = simu.problemType
        return [np.array(g(pt_), float).copy() for g in (simu._Get_u_n, simu._Get_v_n, simu._Get_a_n)]

    def fresh():
        m = gm.rebuild(slot.base, slot.coord)
        f = Simulations.HyperElastic(m, Models.HyperElastic.NeoHookean(2, K=st8["K"], thickness=st8["thickness"]))
        f.rho = st8["rho"]
        f.Solver_Set_Hyperbolic_Algorithm(case["dt"])
        if st8["bc"] is not None:
            _hyper_bc(f, m, slot.coord, st8["bc"])
        pt = simu.problemType
        u, v, a = (np.array(g(pt), float) for g in (simu._Get_u_n, simu._Get_v_n, simu._Get_a_n))
        if u.size == m.Nn * 2:
            f._Set_solutions(pt, u, v, a)
        return f

    for op in case["ops"]:
        name = op["op"]
        tag = f"{prev}->{name}"
        s2 = dict(sig, op=name, prev=prev)
        if name == "param":
            mat.K = op["value"]
            st8["K"] = op["value"]
        elif name == "rho":
            simu.rho = op["value"]
            st8["rho"] = op["value"]
        elif name == "thickness":
            mat.thickness = op["value"]
            st8["thickness"] = op["value"]
        elif name == "translate":
            simu.mesh.Translate(*op["t"])
            slot.coord = slot.coord + np.array(op["t"], float)
        elif name == "rotate":
            simu.mesh.Rotate(op["theta"], (0, 0, 0), (0, 0, 1))
            slot.coord = slot.coord @ _rodrigues(op["theta"]).T
        elif name == "set_coord":
            A3 = np.eye(3)
            A3[:2, :2] = np.array(op["A"], float)
            new = slot.coord @ A3.T
            simu.mesh.coord = new
            slot.coord = new
        elif name == "replace_mesh":
            m2 = gm.build(op["recipe"])
            if m2.Nn > 50:
                raise Inconclusive("replacement mesh too large")
            simu.mesh = m2
            slot = Slot(m2)
            st8["bc"] = None
        elif name == "bc":
            _hyper_bc(simu, simu.mesh, slot.coord, op["seed"])
            st8["bc"] = op["seed"]
        elif name == "save":
            simu.Save_Iter()
            saved.append((slot, *state()))
        elif name == "set_iter":
            if not saved:
                prev = name
                continue
            i_ = op["i"] % len(saved)
            simu.Set_Iter(i_)
            changed = saved[i_][0] is not slot
            slot = saved[i_][0]
            got = state()
            for nm_, g_, e_ in zip("uva", got, saved[i_][1:]):
                if g_.shape == e_.shape:
                    rec.close(g_ - e_, max(float(np.abs(e_).max()), 1e-9), 1e-12, "set_iter_state",
                              f"after {tag}: Set_Iter({i_}) did not bring back {nm_} of that iteration", **s2)
            if changed and st8["bc"] is not None:
                _hyper_bc(simu, simu.mesh, slot.coord, st8["bc"])
        if name in ("translate", "rotate", "set_coord", "thickness") and st8["bc"] is not None:
            _hyper_bc(simu, simu.mesh, slot.coord, st8["bc"])  # conditions re-entered in the final configuration
        if name == "solve":
            if st8["bc"] is None:
                prev = name
                continue
            F = fresh()
            try:
                u1 = np.array(simu.Solve(), float).copy()
                ok1 = True
            except Exception as e:
                if not ("converge" in str(e).lower() or "det(F)" in str(e)):
                    raise
                ok1 = False
            try:
                u2 = np.array(F.Solve(), float)
                ok2 = True
            except Exception as e:
                if not ("converge" in str(e).lower() or "det(F)" in str(e)):
                    raise
                ok2 = False
            rec.require(ok1 == ok2, "solve_converges_like_fresh", f"after {tag}: live converged={ok1}, fresh converged={ok2}", **s2)
            if not ok1:
                raise Inconclusive("load step does not converge (neither does the fresh simulation)")
            rec.close(u1 - u2, np.abs(u2).max() + 1e-6, 1e-6, "stale_solution", f"after {tag}: dynamic step differs from a freshly built simulation", **s2)
        # (the tangent system of a Newton simulation only exists inside Solve(): the comparison is made on the
        # solution of the next step, which goes through K, M and the residual)
        if name == "solve":
            built = True
        if built and name in ("param", "rho", "thickness", "translate", "rotate", "set_coord", "replace_mesh"):
            inval = True
        rec.label("op:" + name)
        prev = name
    rec.nontrivial(inval)


SUBS.append(Sub("hyperelastic_history", run_hyper_history, gen=hyper_histories, quick=60, thorough=400, shards=6))


def enum_hyper_changes(tier):
    """(added by the lead, round 9) the scenario 'dynamic step, ONE change, dynamic step' for every kind of change and two element
    types, enumerated: the generated histories line it up with a given change only at some seeds (seeded change C14_C, re-run
    at the end of round 9)"""
    sq = [[0.0, 0.0], [1.0, 0.0], [1.0, 1.0], [0.0, 1.0]]
    changes = [dict(op="param", value=7.5), dict(op="rho", value=2.5), dict(op="thickness", value=0.5), dict(op="thickness", value=3.0),
               dict(op="translate", t=[1.5, -0.5, 0.0]), dict(op="rotate", theta=53.0, center=[0.0, 0.0, 0.0]),
               dict(op="set_coord", A=[[1.5, 0.0], [0.25, 1.0]], b=[0.0, 0.0])]
    for et in ("TRI3", "QUAD4"):
        r = dict(verts=sq, h=0.5, elemType=et, organised=True, extrude=None, layers=0, A=None, b=None, perm=None, orphans=0)
        for ch in changes:
            yield dict(kind="hyperelastic", recipe=r, ops=[dict(op="solve"), ch, dict(op="solve"), dict(op="matrices")], bc0=3, K=6.0, dt=0.2)


SUBS.append(Sub("hyperelastic_changes", run_hyper_history, enum=enum_hyper_changes,
                doc="element type x kind of change: dynamic step, one change, dynamic step vs a new simulation"))


# ------------------------------------------------------------------------------------------
# Beam frames: parameters of the members, boundary-condition sets that change the number of Dirichlet dofs
# while Lagrange connections exist (the size of the system follows them)

from vlib import gen_beam as gb  # noqa: E402


@st.composite
def beam_histories(draw):
    spec = draw(gb.member_specs(types=("SEG2", "SEG3")))
    ops = []
    for _ in range(draw(st.integers(3, 10))):
        name = draw(st.sampled_from(["E", "v", "rho", "yaxis", "stretch", "section", "bc", "bc", "solve", "solve", "matrices"]))
        op = dict(op=name)
        if name == "section":
            # another cross-section given to one member (area, inertias and shear correction factors follow it)
            op.update(which=draw(st.integers(0, 1)), b=draw(st.integers(2, 8)) / 20.0, h=draw(st.integers(2, 8)) / 20.0)
        elif name == "stretch":
            op.update(value=draw(st.sampled_from([0.5, 1.5, 2.0])))
        elif name == "E":
            op.update(which=draw(st.integers(0, 1)), value=draw(st.integers(2, 20)) * 10.0)
        elif name == "v":
            op.update(which=draw(st.integers(0, 1)), value=draw(st.integers(0, 4)) / 10.0)
        elif name == "rho":
            op.update(value=draw(st.integers(1, 12)) / 4.0)
        elif name == "yaxis":
            op.update(which=draw(st.integers(0, 1)), value=[draw(st.integers(-3, 3)) for _ in range(3)])
        elif name == "bc":
            op.update(variant=draw(st.integers(0, 3)))
        ops.append(op)
    return dict(kind="beam", member=spec, split=draw(st.integers(3, 7)) / 10.0, ops=ops, F=[draw(st.integers(-4, 4)) / 100.0 for _ in range(3)])


def _frame(spec, split, params):
    from EasyFEA import ElemType, Mesher
    from EasyFEA.Geoms import Line, Point

    dim = spec["dim"]
    p1 = np.array(spec["p1"], float)
    d = np.array(spec["d"], float)
    L = float(np.linalg.norm(d))
    pm, p2 = p1 + split * d, p1 + d
    beams = []
    for (a, b, n), pr in zip(((p1, pm, split), (pm, p2, 1 - split)), params):
        line = Line(Point(*a), Point(*b), L * n / 2)
        sec = gb._section(*pr["sec"]) if pr.get("sec") else gb._section(spec["b"], spec["h"])
        beams.append(Models.Beam.Isotropic(dim, line, sec.copy(), pr["E"], pr["v"], yAxis=tuple(pr["y"])))
    mesh = Mesher().Mesh_Beams(beams, elemType=ElemType(spec["elemType"]))
    simu = Simulations.Beam(mesh, Models.Beam.BeamStructure(beams), useTimoshenko=bool(spec["timoshenko"]))
    c = np.asarray(simu.mesh.coord, float)
    at = lambda p: np.where(np.linalg.norm(c - p, axis=1) < 1e-9 * (1 + L))[0]  # noqa
    return simu, beams, (at(p1), at(pm), at(p2))


def _frame_bc(simu, nodes, variant, Fg, dim):
    n1, nm, n2 = nodes
    unk = simu.Get_unknowns()
    simu.Bc_Init()
    simu.add_dirichlet(n1, [0.0] * len(unk), unk)
    if variant in (0, 2):
        simu.add_connection_fixed(nm)
        simu.add_neumann(n2, [float(Fg[i]) for i in range(dim)], unk[:dim])
        if variant == 2:
            simu.add_dirichlet(n2, [0.001], [unk[0]])  # one more Dirichlet dof: the system grows by one row
    else:
        simu.add_connection_hinged(nm)
        simu.add_dirichlet(n2, [0.0] * dim, unk[:dim])
        simu.add_neumann(nm[:1], [float(Fg[i]) for i in range(dim)], unk[:dim])
        if variant == 3:
            simu.add_dirichlet(n2, [0.0], [unk[-1]])


def run_beam_history(case, rec):
    spec = case["member"]
    dim = spec["dim"]
    sig = dict(kind="beam", dim=dim, timo=bool(spec["timoshenko"]))
    rec.label(f"kind:beam:{dim}d")
    y0 = list(spec["yAxis"]) if spec.get("yAxis") else [0.0, 1.0, 0.0]
    params = [dict(E=spec["E"], v=spec["v"], y=list(y0)), dict(E=spec["E"], v=spec["v"], y=list(y0))]
    simu, beams, nodes = _frame(spec, case["split"], params)
    _, _, _, frame = gb.build_member(spec)
    Fg = frame.T @ np.array(case["F"], float)
    st8 = dict(rho=1.0, bc=0)
    _frame_bc(simu, nodes, 0, Fg, dim)
    built = inval = False
    prev = "init"
    d = np.array(spec["d"], float)
    for op in case["ops"]:
        name = op["op"]
        tag = f"{prev}->{name}"
        s2 = dict(sig, op=name, prev=prev)
        if name == "E":
            beams[op["which"]].E = op["value"]
            params[op["which"]]["E"] = op["value"]
        elif name == "v":
            beams[op["which"]].v = op["value"]
            params[op["which"]]["v"] = op["value"]
        elif name == "rho":
            simu.rho = op["value"]
            st8["rho"] = op["value"]
        elif name == "section":
            beams[op["which"]].section = gb._section(op["b"], op["h"])
            params[op["which"]]["sec"] = [op["b"], op["h"]]
        elif name == "yaxis":
            y = np.array(op["value"], float)
            if dim == 2 or np.linalg.norm(np.cross(y, d)) < 1e-6:
                prev = name
                continue
            beams[op["which"]].yAxis = tuple(y)
            params[op["which"]]["y"] = list(y)
        elif name == "bc":
            _frame_bc(simu, nodes, op["variant"], Fg, dim)
            st8["bc"] = op["variant"]
        elif name == "stretch":
            # the whole frame scaled about its first end through the coord setter (element lengths change, directions do not);
            # conditions re-entered in the final configuration
            c = np.asarray(simu.mesh.coord, float)
            p1_ = np.array(spec["p1"], float)
            simu.mesh.coord = p1_ + op["value"] * (c - p1_)
            st8["scale"] = st8.get("scale", 1.0) * op["value"]
            _frame_bc(simu, nodes, st8["bc"], Fg, dim)
        spec_now = dict(spec, d=[float(x) * st8.get("scale", 1.0) for x in spec["d"]])
        f, fb, fn = _frame(spec_now, case["split"], params)
        f.rho = st8["rho"]
        _frame_bc(f, fn, st8["bc"], Fg, dim)
        if name == "solve":
            u1 = np.array(simu.Solve(), float).copy()
            u2 = np.array(f.Solve(), float)
            rec.require(u1.shape == u2.shape, "solution_shape", f"after {tag}: {u1.shape} vs {u2.shape}", **s2)
            if not np.all(np.isfinite(u2)):
                raise Inconclusive("ill-posed frame")
            rec.close(u1 - u2, np.abs(u2).max() + 1e-9, 1e-7, "stale_solution", f"after {tag}: frame solution differs from a freshly built simulation", **s2)
        A, B = simu.Get_K_C_M_F(), f.Get_K_C_M_F()
        for nm_, a, b in zip("KCMF", A, B):
            a, b = orc.dense(a), orc.dense(b)
            rec.require(a.shape == b.shape, "matrix_shape", f"after {tag}: {nm_} has shape {a.shape}, a fresh simulation {b.shape}", **s2)
            rec.close(a - b, max(np.abs(b).max(), 1e-9), 1e-11, "stale_" + nm_, f"after {tag}: {nm_} differs from a freshly built simulation", **s2)
        if built and name in ("E", "v", "rho", "yaxis", "bc", "stretch", "section"):
            inval = True
        built = True
        rec.label("op:" + name)
        prev = name
    rec.nontrivial(inval)


SUBS.append(Sub("beam_history", run_beam_history, gen=beam_histories, quick=60, thorough=500, shards=6))


# ------------------------------------------------------------------------------------------
# PhaseField (two coupled problems, two update flags): after every modification the matrices of BOTH problems and the
# energies equal those of a new simulation built in the final configuration with the same (u, d) state


PF_SPLITS = ["Bourdin", "Amor", "Miehe", "Stress", "He", "Zhang", "AnisotStrain", "AnisotStress"]


@st.composite
def pf_histories(draw):
    names = ["split", "regu", "Gc", "l0", "E", "v", "thickness", "rotate", "set_coord", "replace_mesh", "read", "read"]
    ops = []
    plan = [None] * draw(st.integers(2, 7))
    for forced in ["read"] + plan:
        name = forced or draw(st.sampled_from(names))
        op = dict(op=name)
        if name == "split":
            op["value"] = draw(st.sampled_from(PF_SPLITS))
        elif name == "regu":
            op["value"] = draw(st.sampled_from(["AT1", "AT2"]))
        elif name in ("Gc", "l0"):
            op["value"] = draw(st.integers(1, 12)) / 8.0
        elif name == "E":
            op["value"] = draw(st.integers(4, 40)) / 4.0
        elif name == "v":
            op["value"] = draw(st.integers(0, 8)) / 20.0
        elif name == "thickness":
            op["value"] = draw(st.sampled_from([0.25, 0.5, 2.0]))
        elif name == "rotate":
            op["theta"] = draw(st.integers(1, 35)) * 10.0 + 3.0
        elif name == "set_coord":
            op["A"] = [[draw(st.sampled_from([0.5, 1.5, 2.0])), 0.0], [draw(st.integers(-2, 2)) / 4.0, 1.0]]
        elif name == "replace_mesh":
            op["recipe"] = _recipe(draw)
        ops.append(op)
    return dict(kind="phasefield", recipe=_recipe(draw), ops=ops, seed=draw(st.integers(0, 999)),
                model=dict(E=draw(st.integers(4, 40)) / 4.0, v=draw(st.integers(0, 8)) / 20.0, planeStress=draw(st.booleans()),
                           thickness=1.0, split=draw(st.sampled_from(PF_SPLITS)), regu=draw(st.sampled_from(["AT1", "AT2"])),
                           Gc=draw(st.integers(1, 12)) / 8.0, l0=draw(st.integers(1, 12)) / 8.0))


def _pf_make(mesh, m):
    el = Models.Elastic.Isotropic(2, E=float(m["E"]), v=float(m["v"]), planeStress=bool(m["planeStress"]), thickness=float(m["thickness"]))
    pfm = Models.PhaseField(el, m["split"], m["regu"], float(m["Gc"]), float(m["l0"]), "History")
    return Simulations.PhaseField(mesh, pfm), el, pfm


def _pf_state(simu, seed):
    """an arbitrary (u, d) state, a function of the node coordinates (so that it can be given to any simulation on the same mesh)"""
    X = np.asarray(simu.mesh.coord, float)
    rng = np.random.default_rng(int(seed))
    G = rng.uniform(-0.05, 0.05, (2, 3))
    u = (X - X.mean(axis=0)) @ G.T + 0.002 * np.sin(7.0 * X[:, :2] + 1.0)
    d = 0.05 + 0.8 * (0.5 + 0.5 * np.sin(3.0 * X[:, 0] + 2.0 * X[:, 1] + 0.3 * rng.uniform()))
    PT = simu.ProblemTypes
    simu._Set_solutions(PT.elastic, u.ravel().copy())
    simu._Set_solutions(PT.damage, d.copy())
    simu.Need_Update()


def _pf_read(simu):
    PT = simu.ProblemTypes
    out = {}
    Ku, _, _, Fu = simu.Get_K_C_M_F(PT.elastic)
    Kd, _, _, Fd = simu.Get_K_C_M_F(PT.damage)
    out["Ku"], out["Kd"], out["Fd"] = orc.dense(Ku), orc.dense(Kd), orc.dense(Fd).ravel()
    out["Wdef"] = np.array([float(simu.Result("Wdef"))])
    out["Psi_Crack"] = np.array([float(simu.Result("Psi_Crack"))])
    return out


def run_pf_history(case, rec):
    sig = dict(kind="phasefield", elemType=case["recipe"]["elemType"])
    rec.label("kind:phasefield")
    mesh = gm.build(case["recipe"])
    if mesh.Nn > 60:
        raise Inconclusive("mesh too large for a history")
    m = dict(case["model"])
    simu, el, pfm = _pf_make(mesh, m)
    slot = Slot(mesh)
    _pf_state(simu, case["seed"])
    built = inval = False
    prev = "init"
    for op in case["ops"]:
        name = op["op"]
        tag = f"{prev}->{name}"
        s2 = dict(sig, op=name, prev=prev)
        try:
            if name == "split":
                pfm.split = op["value"]
                m["split"] = op["value"]
            elif name == "regu":
                pfm.regularization = op["value"]
                m["regu"] = op["value"]
            elif name == "Gc":
                pfm.Gc = op["value"]
                m["Gc"] = op["value"]
            elif name == "l0":
                pfm.l0 = op["value"]
                m["l0"] = op["value"]
            elif name == "E":
                el.E = op["value"]
                m["E"] = op["value"]
            elif name == "v":
                el.v = op["value"]
                m["v"] = op["value"]
            elif name == "thickness":
                el.thickness = op["value"]
                m["thickness"] = op["value"]
        except AssertionError:
            raise Inconclusive("parameter combination rejected by the model")
        if name == "rotate":
            simu.mesh.Rotate(op["theta"], (0, 0, 0), (0, 0, 1))
            slot.coord = slot.coord @ _rodrigues(op["theta"]).T
        elif name == "set_coord":
            A3 = np.eye(3)
            A3[:2, :2] = np.array(op["A"], float)
            new = slot.coord @ A3.T
            simu.mesh.coord = new
            slot.coord = new
        elif name == "replace_mesh":
            m2 = gm.build(op["recipe"])
            if m2.Nn > 60:
                raise Inconclusive("replacement mesh too large")
            simu.mesh = m2
            slot = Slot(m2)
        if name in ("rotate", "set_coord", "replace_mesh"):
            _pf_state(simu, case["seed"])  # the state is a function of the coordinates: given again in the final configuration
        try:
            fresh, _, _ = _pf_make(gm.rebuild(slot.base, slot.coord), m)
        except AssertionError:
            raise Inconclusive("parameter combination rejected by the model")
        _pf_state(fresh, case["seed"])
        A, B = _pf_read(simu), _pf_read(fresh)
        for k in A:
            rec.require(A[k].shape == B[k].shape, "matrix_shape", f"after {tag}: {k} has shape {A[k].shape}, a fresh simulation {B[k].shape}", **s2)
            rec.close(A[k] - B[k], max(float(np.abs(B[k]).max()), 1e-12), 1e-10, "stale_" + k,
                      f"after {tag}: {k} of the phase-field simulation differs from a freshly built one", **s2)
        if built and name not in ("read",):
            inval = True
        built = True
        rec.label("op:" + name)
        prev = name
    rec.nontrivial(inval)


SUBS.append(Sub("phasefield_history", run_pf_history, gen=pf_histories, quick=60, thorough=500, shards=6))


# ------------------------------------------------------------------------------------------
# InElastic (history-dependent material): once the mesh is replaced, the simulation behaves like a new one on the new mesh (the
# committed internal variables belong to the integration points of the old mesh) - also when both meshes have the same number of
# elements


@st.composite
def inel_histories(draw):
    r = draw(gm.recipes2d(types=["TRI3", "QUAD4", "TRI6"], affine_ok=False, perm_ok=False, hmin=6, hmax=9, nmax=4))
    same = draw(st.integers(0, 2)) > 0  # replacement with the same connectivity on another geometry (same Ne, same nPg)
    r2 = dict(r, A=[[draw(st.sampled_from([0.5, 1.5, 2.0])), draw(st.integers(-2, 2)) / 4.0], [0.0, draw(st.sampled_from([0.75, 1.0, 2.0]))]],
              b=[0.0, 0.0]) if same else draw(gm.recipes2d(types=[r["elemType"]], affine_ok=False, perm_ok=False, hmin=6, hmax=9, nmax=4))
    return dict(kind="inelastic", recipe=r, recipe2=r2, same=same, nsteps=draw(st.integers(1, 3)),
                model=dict(E=draw(st.sampled_from([210.0, 70.0])), v=draw(st.integers(0, 8)) / 20.0, ey=1e-3,
                           H=draw(st.sampled_from([None, 0.0, 0.1])), nkin=draw(st.integers(0, 1)), nbranch=0,
                           planeStress=draw(st.integers(0, 3)) == 0, thickness=draw(st.sampled_from([1.0, 0.5]))),
                amp=draw(st.integers(3, 8)), amp2=draw(st.integers(-6, 6)))


def _inel_bc(simu, mesh, lam):
    simu.Bc_Init()
    X = np.asarray(mesh.coord, float)
    bn = gm.boundary_nodes(mesh)
    p = X[bn, 0]
    lo, hi = p.min(), p.max()
    fixed = bn[p <= lo + 0.3 * (hi - lo)]
    moved = bn[p >= hi - 0.3 * (hi - lo)]
    simu.add_dirichlet(fixed, [0.0, 0.0], ["x", "y"])
    simu.add_dirichlet(moved, [float(lam) * (hi - lo), 0.0], ["x", "y"])


def run_inel_history(case, rec):
    from vlib import c16_sims as cs16

    sig = dict(kind="inelastic", elemType=case["recipe"]["elemType"], same=bool(case["same"]))
    rec.label("kind:inelastic", "replacement:same_size" if case["same"] else "replacement:other_mesh")
    mesh = gm.build(case["recipe"])
    mesh2 = gm.build(case["recipe2"])
    if max(mesh.Nn, mesh2.Nn) > 60:
        raise Inconclusive("mesh too large for a history")
    m = dict(case["model"])
    ey = float(m["ey"])

    def solve(s):
        try:
            return np.array(s.Solve(), float).copy()
        except AssertionError as e:
            if "converge" in str(e).lower():
                raise Inconclusive("Newton / local solve did not converge")
            raise

    simu = Simulations.InElastic(mesh, cs16.inelastic_law(m, 2))
    flowed = False
    for k in range(int(case["nsteps"])):
        _inel_bc(simu, mesh, case["amp"] * ey * (k + 1) / case["nsteps"])
        solve(simu)
        simu.Save_Iter()
        p = simu.Result("p", nodeValues=False) if "p" in simu.Results_Available() else None
        flowed = flowed or (p is not None and float(np.max(p)) > 0)
    rec.label("history:plastic" if flowed else "history:elastic")
    simu.mesh = mesh2
    lam2 = case["amp2"] * ey
    _inel_bc(simu, mesh2, lam2)
    u1 = solve(simu)
    fresh = Simulations.InElastic(gm.build(case["recipe2"]), cs16.inelastic_law(m, 2))
    _inel_bc(fresh, fresh.mesh, lam2)
    u2 = solve(fresh)
    rec.require(u1.shape == u2.shape, "solution_shape", f"{u1.shape} vs {u2.shape}", **sig)
    rec.close(u1 - u2, np.abs(u2).max() + 1e-9, 1e-7, "stale_state_after_mesh_replacement",
              f"{sig['elemType']} (same number of elements: {case['same']}): the first step on the replacement mesh differs from the one of "
              "a new simulation on that mesh", **sig)
    for nm in ("Svm", "p"):
        if nm in simu.Results_Available():
            a, b = np.asarray(simu.Result(nm, nodeValues=False), float), np.asarray(fresh.Result(nm, nodeValues=False), float)
            rec.close(a - b, np.abs(b).max() + ey * m["E"] * (1.0 if nm == "Svm" else 1.0 / m["E"]), 1e-6, "stale_result_" + nm,
                      f"Result('{nm}') after the replacement differs from a new simulation", **sig)
    rec.nontrivial(flowed)


SUBS.append(Sub("inelastic_history", run_inel_history, gen=inel_histories, quick=40, thorough=300, shards=4))


# ------------------------------------------------------------------------------------------
# (added by the lead) "restoring an earlier iteration": a run of saved load steps, an earlier iteration restored, one more
# step solved from it - against a NEW simulation that replays the steps up to that iteration and then solves the same step.
# History-dependent simulations (phase field with each of its solvers, inelastic, hyperelastic) and the transient linear ones.


@st.composite
def restore_histories(draw):
    from checks import c15_save_restore as c15

    kind = draw(st.sampled_from(["phasefield", "phasefield", "inelastic", "inelastic", "hyperelastic", "thermal", "elastic_dyn"]))
    n = draw(st.integers(3, 5))
    peak = draw(st.integers(1, n))
    loads = [round(0.5 * (k + 1), 3) if k < peak else round(0.5 * peak - 0.4 * (k + 1 - peak), 3) for k in range(n)]
    case = dict(kind=kind, recipe=draw(gm.recipes2d(types=c15.SMALL, affine_ok=False, perm_ok=False, hmin=7, hmax=9, nmax=4)),
                # PhaseField.Save_Iter stores the convergence record of the last Solve and needs one: no initial save there
                loads=loads, initial_save=draw(st.booleans()) and kind != "phasefield", j=draw(st.integers(0, n - 1)),
                lam_next=draw(st.sampled_from([0.25, 0.75, 1.25, 2.0, 2.5])))
    if kind == "elastic_dyn":
        case["algo"] = draw(st.sampled_from(["newmark", "midpoint", "hht", "euler_implicit"]))
    if kind == "phasefield":
        case["pfsolver"] = draw(st.sampled_from(["History", "HistoryDamage", "BoundConstrain"]))
        case["regu"] = draw(st.sampled_from(["AT1", "AT2"]))
        case["split"] = draw(st.sampled_from(["Miehe", "Amor", "Bourdin"]))
        case["conv"] = draw(st.sampled_from([None, None, 0, 3]))
    return case


def run_restore_history(case, rec):
    from checks import c15_save_restore as c15

    kind = case["kind"]
    ad = c15.Adapter(kind, case)
    sig = dict(kind=kind, solver=case.get("pfsolver", "-"), initial_save=bool(case["initial_save"]))
    rec.label("kind:" + kind, "initial_save" if case["initial_save"] else "no_initial_save")
    if kind == "phasefield":
        rec.label("pfsolver:" + case["pfsolver"])
    n0 = 1 if case["initial_save"] else 0
    j = int(case["j"]) % (len(case["loads"]) + n0)  # index of the restored iteration
    last = len(case["loads"]) + n0 - 1

    def run(upto_iter):
        """a new simulation with the saved history up to iteration `upto_iter` (None: the whole run)"""
        s = ad.make(case["recipe"])
        if case["initial_save"]:
            s.Save_Iter()
        for k, lam in enumerate(case["loads"]):
            if upto_iter is not None and k + n0 > upto_iter:
                break
            ad.step(s, lam)
            s.Save_Iter()
        return s

    simu = run(None)
    simu.Set_Iter(j)
    ad.step(simu, case["lam_next"])
    A = ad.fields(simu)
    fresh = run(j)
    ad.step(fresh, case["lam_next"])
    B = ad.fields(fresh)
    rec.label("restored:last" if j == last else "restored:earlier", "restored:initial" if (j == 0 and n0) else "restored:solved")
    for k in B:
        rec.require(A[k].shape == B[k].shape, "restore_shape", f"{kind}: '{k}' {A[k].shape} vs {B[k].shape}", **sig)
        # damage lives in [0, 1]; the other fields are of the order of the imposed values (1e-2 .. 1): absolute floors accordingly
        rec.close(A[k] - B[k], float(np.abs(B[k]).max()) + (1e-3 if k == "damage" else 1e-8), 1e-9, "step_after_restore",
                  f"{kind} ({sig['solver']}): the step solved after Set_Iter({j}) of a run of {last + 1} saved iterations differs in '{k}' from "
                  f"the same step of a new simulation replayed up to iteration {j} (loads {case['loads']}, next {case['lam_next']})", field=k, **sig)
    ra, rb = ad.results(simu), ad.results(fresh)
    for nm in rb:
        if nm in ra and ra[nm].shape == rb[nm].shape:
            rec.close(ra[nm] - rb[nm], float(np.abs(rb[nm]).max()) + 1e-9, 1e-8, "result_after_restore",
                      f"{kind}: Result('{nm}') after the step solved from the restored iteration {j}", name=nm, **sig)
    rec.nontrivial(j < last and float(max(np.abs(v).max() for v in B.values())) > 0)


SUBS.append(Sub("restore_then_solve", run_restore_history, gen=restore_histories, quick=60, thorough=500, shards=6))


def enum_restore(tier):
    sq = [[0.0, 0.0], [1.0, 0.0], [1.0, 1.0], [0.0, 1.0]]
    loads = [0.5, 1.0, 1.5, 1.1, 0.7]
    for et in ("TRI3", "QUAD4"):
        r = dict(verts=sq, h=0.5, elemType=et, organised=(et == "QUAD4"), extrude=None, layers=0, A=None, b=None, perm=None, orphans=0)
        for j in (0, 2, 3):
            for solver in ("History", "HistoryDamage", "BoundConstrain"):
                for conv in (None, 0):
                    yield dict(kind="phasefield", recipe=r, loads=loads, initial_save=False, j=j, lam_next=0.75, pfsolver=solver, regu="AT2",
                               split="Miehe", conv=conv)
            for kind in ("inelastic", "hyperelastic", "thermal", "elastic_dyn"):
                for init in (False, True):
                    yield dict(kind=kind, recipe=r, loads=loads, initial_save=init, j=j, lam_next=0.75, algo="newmark")


SUBS.append(Sub("restore_grid", run_restore_history, enum=enum_restore,
                doc="simulation kind x solver / stopping rule x restored iteration (first, peak, after the peak) x initial-configuration save"))


# ------------------------------------------------------------------------------------------
# (added by the lead) "material or model parameters" of every elastic law class, not only the isotropic one: moduli, Poisson
# ratios, thickness, plane-stress flag, and Anisotropic.Set_C with each combination of its options - each change made AFTER the
# matrices were assembled, the next matrices and solution against a new simulation built with the final parameters


LAW_PARAMS = dict(iso=["E", "v"], tiso=["El", "Et", "Gl", "vl", "vt"], ortho=["E1", "E2", "E3", "G23", "G13", "G12", "v23", "v13", "v12"])


@st.composite
def law_histories(draw):
    dim = draw(st.sampled_from([2, 2, 3]))
    spec = draw(gmod.elastic_specs(dim))
    spec["unit"] = 1.0
    ops = []
    for _ in range(draw(st.integers(1, 4))):
        if spec["cls"] == "aniso":
            kind = draw(st.sampled_from(["set_c", "set_c", "thickness", "read"]))
        else:
            kind = draw(st.sampled_from(["param", "param", "thickness", "planeStress", "read"]))
        op = dict(op=kind)
        if kind == "param":
            op["name"] = draw(st.sampled_from(LAW_PARAMS[spec["cls"]]))
            op["factor"] = draw(st.sampled_from([0.5, 0.8, 1.25, 2.0, 1.0 + 3e-6]))
        elif kind == "thickness":
            op["value"] = draw(st.sampled_from([0.25, 0.75, 1.5, 3.0]))
        elif kind == "set_c":
            op.update(Cseed=draw(st.integers(0, 9999)), voigt=draw(st.booleans()), update_S=draw(st.booleans()), how=draw(st.sampled_from(["kw", "pos"])))
        ops.append(op)
    if dim == 2:
        r = draw(gm.recipes2d(types=["TRI3", "QUAD4", "TRI6"], affine_ok=False, perm_ok=False, hmin=6, hmax=9, nmax=4))
    else:
        r = draw(gm.recipes3d(types=["TETRA4", "HEXA8", "PRISM6"], affine_ok=False, perm_ok=False, nmax=3))
    return dict(kind="law", recipe=r, law=spec, ops=ops, shared=draw(st.booleans()))


def _law_problem(mesh, mat, dim):
    simu = Simulations.Elastic(mesh, mat)
    X = np.asarray(mesh.coord, float)
    used = gm.used_nodes(mesh)
    xs = X[used, 0]
    left = used[xs <= xs.min() + 0.3 * np.ptp(xs)]
    if left.size < dim + 1:  # enough clamped nodes to hold the rigid rotations
        left = used[np.argsort(xs, kind="stable")[: dim + 1]]
    right = np.setdiff1d(used[xs >= xs.max() - 0.3 * np.ptp(xs)], left)
    if right.size == 0:
        raise Inconclusive("mesh too small for a clamped and a loaded patch")
    unk = simu.Get_unknowns()
    simu.add_dirichlet(left, [0.0] * dim, unk)
    simu.add_neumann(right, [0.3, -0.2, 0.1][:dim], unk)
    return simu


def run_law_history(case, rec):
    dim = int(case["law"]["dim"])
    spec = dict(case["law"])
    mesh = gm.build(case["recipe"])
    if mesh.Nn * dim > 400:
        raise Inconclusive("mesh too large")
    mat = gmod.make_elastic(spec)
    simu = _law_problem(mesh, mat, dim)
    other = _law_problem(mesh.copy(), mat, dim) if case.get("shared") else None  # a second simulation observing the same law
    sig = dict(kind="law", cls=spec["cls"], dim=dim)
    rec.label("law:" + spec["cls"], f"dim:{dim}", "shared_law" if other is not None else "own_law")
    changed = False
    for sim in [simu] + ([other] if other is not None else []):
        sim.Get_K_C_M_F()  # matrices assembled before any change
        sim.Solve()
    for op in case["ops"]:
        name = op["op"]
        s2 = dict(sig, op=name)
        try:
            if name == "param":
                spec[op["name"]] = float(spec[op["name"]]) * op["factor"]
                setattr(mat, op["name"], spec[op["name"]])
                s2["param"] = op["name"]
                changed = True
            elif name == "thickness":
                spec["thickness"] = op["value"]
                mat.thickness = op["value"]
                changed = True
            elif name == "planeStress" and dim == 2:
                spec["planeStress"] = not spec["planeStress"]
                mat.planeStress = spec["planeStress"]
                changed = True
            elif name == "set_c":
                spec.update(Cseed=op["Cseed"], voigt=op["voigt"])
                n = 3 if dim == 2 else 6
                B = np.random.default_rng(op["Cseed"]).uniform(-1, 1, (n, n))
                C = B @ B.T + 1.5 * np.eye(n)
                if op["voigt"]:
                    w = np.array([1.0] * (n // 2 if dim == 3 else 2) + [np.sqrt(2)] * (3 if dim == 3 else 1))
                    C = C / np.outer(w, w)
                if op["how"] == "kw":
                    mat.Set_C(C, useVoigtNotation=bool(op["voigt"]), update_S=bool(op["update_S"]))
                else:
                    mat.Set_C(C, bool(op["voigt"]), bool(op["update_S"]))
                s2.update(update_S=bool(op["update_S"]))
                rec.label("set_c:update_S" if op["update_S"] else "set_c:keep_S")
                changed = True
        except AssertionError:
            raise Inconclusive("parameter value rejected by the law")
        try:
            fresh_law = gmod.make_elastic(spec)
        except AssertionError:
            # the laws check the admissibility of their parameters when the stiffness is read (not in the setters): a generated
            # change that leaves the admissible set (e.g. E1 halved twice with v13 kept: |s13| >= sqrt(s11 s33)) is rejected there,
            # for a new law as for the modified one - outside the quantifier (thorough tier, seed 5: DESIGN 6.3)
            raise Inconclusive("the final parameters are outside the admissible set of the law")
        fresh = _law_problem(gm.build(case["recipe"]), fresh_law, dim)
        Kf = orc.dense(fresh.Get_K_C_M_F()[0])
        uf = np.asarray(fresh.Solve(), float)
        if not np.all(np.isfinite(uf)):
            raise Inconclusive("the reference problem is singular")
        for tag, sim in [("", simu)] + ([("(second simulation sharing the law) ", other)] if other is not None else []):
            K = orc.dense(sim.Get_K_C_M_F()[0])
            rec.close(K - Kf, float(np.abs(Kf).max()), 1e-10, "stale_K_after_law_change",
                      f"{tag}{spec['cls']} {dim}D after '{name}' {op}: K differs from the one of a simulation built with the final parameters", **s2)
            u = np.asarray(sim.Solve(), float)
            rec.close(u - uf, float(np.abs(uf).max()) + 1e-12, 1e-8, "stale_solution_after_law_change",
                      f"{tag}{spec['cls']} {dim}D after '{name}': the solution differs from the one of a new simulation", **s2)
        rec.label("op:" + name)
    rec.nontrivial(changed)


SUBS.append(Sub("law_parameters", run_law_history, gen=law_histories, quick=80, thorough=600, shards=6))


# ------------------------------------------------------------------------------------------
# (added by the lead, round 8) a phase-field simulation loaded until it is damaged (history committed by Save_Iter), then given ANOTHER
# mesh - the same mesh built again (same numbers of elements and points), a moved copy, or a mesh of another size - and loaded
# lightly: the damage is the one of a new simulation on that mesh (none), for every damage solver


def enum_pf_replace(tier):
    sq = [[0.0, 0.0], [1.0, 0.0], [1.0, 1.0], [0.0, 1.0]]
    for et in ("TRI3", "QUAD4"):
        r = dict(verts=sq, h=0.34, elemType=et, organised=True, extrude=None, layers=0, A=None, b=None, perm=None, orphans=0)
        for solver in ("History", "HistoryDamage", "BoundConstrain"):
            for how in ("same_rebuilt", "copy_moved", "other_size"):
                yield dict(recipe=r, solver=solver, how=how)


def check_pf_replace(case, rec):
    sig = dict(elemType=case["recipe"]["elemType"], solver=case["solver"], how=case["how"])
    rec.label("pf_replace:" + case["how"], "solver:" + case["solver"])
    el = Models.Elastic.Isotropic(2, E=210.0, v=0.3, planeStress=False)
    pfm = Models.PhaseField(el, "Miehe", "AT2", 2.7e-3, 0.2, case["solver"])

    def load(simu, mesh, uy):
        X = np.asarray(mesh.coord, float)
        s = X[:, 1]
        simu.Bc_Init()
        simu.add_dirichlet(np.where(s <= s.min() + 1e-9)[0], [0.0, 0.0], ["x", "y"])
        simu.add_dirichlet(np.where(s >= s.max() - 1e-9)[0], [float(uy)], ["y"])

    mesh = gm.build(case["recipe"])
    simu = Simulations.PhaseField(mesh, pfm)
    for _ in range(3):
        load(simu, mesh, 2e-2)
        simu.Solve()
        simu.Save_Iter()
    d_before = float(np.max(simu.damage))
    if case["how"] == "same_rebuilt":
        m2 = gm.rebuild(mesh, np.asarray(mesh.coord, float))
    elif case["how"] == "copy_moved":
        m2 = mesh.copy()
        m2.Translate(0.5, 0.25, 0.0)
    else:
        m2 = gm.build(dict(case["recipe"], h=0.26))
    simu.mesh = m2
    load(simu, m2, 1e-5)
    simu.Solve()
    fresh = Simulations.PhaseField(gm.rebuild(m2, np.asarray(m2.coord, float)), pfm)
    load(fresh, fresh.mesh, 1e-5)
    fresh.Solve()
    d1, d2 = np.asarray(simu.damage, float), np.asarray(fresh.damage, float)
    rec.require(d1.shape == d2.shape, "pf_replace_shape", f"damage {d1.shape} vs {d2.shape}", **sig)
    rec.close(d1 - d2, 1.0, 1e-9, "pf_replace_damage", f"{case['solver']}: after a damaged history (max d = {d_before:.3f}) the mesh is replaced "
              f"({case['how']}) and a light load applied: max damage {d1.max():.3e}, a new simulation on that mesh gives {d2.max():.3e}", **sig)
    u1, u2 = np.asarray(simu.displacement, float), np.asarray(fresh.displacement, float)
    rec.close(u1 - u2, float(np.abs(u2).max()) + 1e-300, 1e-8, "pf_replace_displacement", "displacement after the replacement vs a new simulation", **sig)
    rec.nontrivial(d_before > 0.1)


SUBS.append(Sub("phasefield_replace", check_pf_replace, enum=enum_pf_replace,
                doc="element type x damage solver x replacement (same mesh rebuilt / moved copy / other size) after a damaged, saved history"))
