"""C18 - hyperelasticity: S = dW/dE, C = dS/dE, objectivity, stress-free reference state, tangent =
d(residual)/d(step unknown) for every nonlinear operator, discrete energy balance of the
energy-conserving stress options under the midpoint scheme."""

import contextlib
import io

import numpy as np
from hypothesis import strategies as st

from EasyFEA import AlgoType, MatrixType, Simulations
from EasyFEA.FEM import Operators
from EasyFEA.FEM._linalg import FeArray
from EasyFEA.Models.HyperElastic._state import HyperElasticState
from EasyFEA.Simulations.Solvers import ResolType

from vlib import c18_hyper as hx
from vlib import gen_mesh as gm
from vlib.runner import Inconclusive, Sub, env_seed

PROPERTY = "C18"
RULE = (
    "law_derivatives: Hypothesis draws (element type of every 2D/3D kind, 1-12 element organised cell, smooth warp + "
    "affine image) x (law record of NeoHookean/MooneyRivlin/CiarletGeymonat/SaintVenantKirchhoff/HolzapfelOgden with "
    "random orthonormal fibre frame or per-Gauss-point fibre field / AutoDiff user energies yeoh, fung, fibre) x "
    "homogeneous F = R U (stretches 0.6..1.6 on a 0.1 grid, random R) x direction dF x superposed rotation Q; "
    "non-trivial = |F-I|>0.05, R != I, Q != I and dE = sym(F^T dF) != 0. law_grid / operator_grid: one case per "
    "(law, element type) and per (operator, element type) pair, all pairs enumerated, remaining parameters derived "
    "from VERIF_SEED. autodiff: the five shipped laws restated in jax on homogeneous and smooth non-homogeneous states "
    "with det F>0.1. operators / system: operator (or stress option x time scheme x viscosity x active stress) x "
    "element type x law x random smooth states (u_n, u_{n+1}, v, a) x direction d; non-trivial = non-zero residual, "
    "tangent and step. energy_conservation: free-motion midpoint runs (gonzalez / adaptive quadrature / fixed "
    "quadrature with a quadratic energy) x law x mesh x initial state and velocity x dt in 0.02..0.4 x 20-100 steps, "
    "free or clamped on one face; non-trivial = converged run with E0>0 and a strain-energy exchange > 1e-4 of the "
    "energy scale. distinct = sha1 of the serialised case."
    ' energy_units: enumerated free motions with the adaptive path quadrature in three unit systems (moduli and density x 1e-12, 1, 1e6).'
)
ASSUMPTIONS = [
    "jax (CPU, float64) present for the AutoDiff law; kinematics of the oracle (F, E, Kelvin-Mandel vectors) written "
    "from the definitions in vlib/c18_hyper.py",
    "finite-difference oracle: central differences with two step sizes, a disagreement must persist at both",
    "deformation states restricted to principal stretches in [0.6, 1.6] (homogeneous) or det F > 0.1 (smooth fields)",
    "follower pressure and penalty contact follow their documented slot convention (K_e -> K, R_e -> F): K = -dR_e/du; "
    "contact is checked against planar rigid obstacles (the operator drops curvature terms by design) with no Gauss "
    "point within the FD step of the contact threshold",
    "mass matrix and midpoint update rule are trusted here (C02/C05); energy bound uses the Newton residual norm the "
    "solver itself tested (its stopping rule) and the per-element energyTol of the quadrature option",
]

FD_TOL = 1e-5
ID_TOL = 1e-11


def _np(x):
    return np.asarray(x, dtype=float)


def _main_group(mesh):
    gs = gm.main_groups(mesh)
    if len(gs) != 1:
        raise Inconclusive("mixed main groups")
    return gs[0]


def _drop_known_crash(lawp, adaptive, case, rec):
    """finding C18-b: the adaptive path quadrature evaluates the law on element subsets and raises
    with per-Gauss-point fibre fields.  The class is excluded by construction (the fibre frame is made
    constant) and counted; `probe` in a case (regress replay) keeps it."""
    if adaptive and lawp.get("field") is not None and not case.get("probe"):
        rec.label("excluded:adaptive_quadrature+fibre_field")
        return dict(lawp, field=None)
    return lawp


def _nt(x, eps=1e-12):
    return float(np.max(np.abs(x))) > eps if np.size(x) else False


# ------------------------------------------------------------------------------------------
# (a) law_derivatives


@st.composite
def law_cases(draw):
    mr = draw(hx.mesh_recipes())
    dim = gm.dim_of(mr["elemType"])
    user = draw(st.integers(0, 9)) == 0
    law = draw(hx.law_records(dim, names=hx.USER if user else hx.LAWS, tilted_ok=True))
    return dict(mesh=mr, law=law, U=draw(hx.stretches(dim)), R=draw(hx.rotations(dim)),
                Q=draw(hx.rotations(dim)), dF=draw(st.integers(0, 999)),
                mt=draw(st.sampled_from(["rigi", "mass"])))


def _eval(mat, g, u, mt):
    stt = HyperElasticState(g, u, mt)
    return _np(mat.Compute_W(stt)), _np(mat.Compute_dWde(stt)), stt


def check_law(case, rec):
    mr, lawp = case["mesh"], case["law"]
    dim = gm.dim_of(mr["elemType"])
    mesh = hx.build_mesh(mr)
    g = _main_group(mesh)
    mt = MatrixType(case["mt"])
    nPg = g.Get_gauss(mt).nPg
    mat = hx.make_law(lawp, dim, g.Ne, nPg)
    name = lawp["name"]
    kind = ("AutoDiff:" + name) if name in hx.USER else name
    sig = dict(law=kind, dim=dim)
    frame = hx.frame_kind(lawp, dim)
    sigf = dict(sig, frame=frame)  # class of the reference-state oracles (see findings/C18.json)
    rec.label("law:" + kind, "elem:" + mr["elemType"], f"dim:{dim}")
    if lawp.get("field") is not None:
        rec.label("fibre:field")
    if name == "HolzapfelOgden":
        rec.label("fibre:" + frame)
    mod = hx.moduli(lawp)

    U = hx.stretch_tensor(case["U"], dim)
    R = hx.rotation(case["R"], dim)
    Q = hx.rotation(case["Q"], dim)
    F = R @ U
    dF = hx.random_dF(case["dF"], dim)
    dE = 0.5 * (F.T @ dF + dF.T @ F)
    dEv = hx.kelvin(dE, dim)

    # the imposed state really is homogeneous with the gradient the oracle uses
    u = hx.homogeneous_u(mesh, F, dim)
    W0, S0, st0 = _eval(mat, g, u, mt)
    Fe = _np(st0.Compute_F())
    rec.close(Fe - F, 1.0 + np.abs(F).max(), 1e-11, "state_F", "Compute_F of u=(F-I)X differs from F", **sig)
    C0 = _np(mat.Compute_d2Wde(st0))
    nS = float(np.abs(S0).max())
    nC = float(np.abs(C0).max())
    nE = float(np.linalg.norm(dEv))

    # d2W symmetric
    rec.close(C0 - np.swapaxes(C0, -1, -2), nC + mod, 1e-12, "tangent_symmetric", f"{kind}", **sig)

    # central differences along dF, two step sizes; the disagreement must persist at both
    SdE = S0 @ dEv  # (Ne,nPg)
    CdE = C0 @ dEv  # (Ne,nPg,d)
    eW, eS = [], []
    for h in (1e-5, 1e-6):
        Wp, Sp, _ = _eval(mat, g, hx.homogeneous_u(mesh, F + h * dF, dim), mt)
        Wm, Sm, _ = _eval(mat, g, hx.homogeneous_u(mesh, F - h * dF, dim), mt)
        eW.append(float(np.abs((Wp - Wm) / (2 * h) - SdE).max()))
        eS.append(float(np.abs((Sp - Sm) / (2 * h) - CdE).max()))
    rec.close(min(eW), (nS + mod) * nE, FD_TOL, "stress_is_dW",
              f"{kind} dim={dim}: dW/dh vs S:dE at both steps {eW}", **sig)
    rec.close(min(eS), (nC + nS + mod) * nE, FD_TOL, "tangent_is_dS",
              f"{kind} dim={dim}: dS/dh vs C:dE at both steps {eS}", **sig)

    # objectivity
    Wq, Sq, _ = _eval(mat, g, hx.homogeneous_u(mesh, Q @ F, dim), mt)
    rec.close(Wq - W0, nS + mod, ID_TOL, "objective_W", f"{kind} W(QF) != W(F)", **sig)
    rec.close(Sq - S0, nC + nS + mod, ID_TOL, "objective_S", f"{kind} S(QF) != S(F)", **sig)

    # reference configuration (and, with objectivity, every pure rotation of it)
    Wr, Sr, _ = _eval(mat, g, 0 * u, mt)
    rec.close(Wr, mod, 1e-12, "reference_W", f"{kind} dim={dim} frame={frame}: W(I) != 0", **sigf)
    rec.close(Sr, mod, 1e-12, "reference_S", f"{kind} dim={dim} frame={frame}: S(I) != 0", **sigf)
    Wr, Sr, _ = _eval(mat, g, hx.homogeneous_u(mesh, Q, dim), mt)
    rec.close(Wr, mod, ID_TOL, "rotation_W", f"{kind} dim={dim} frame={frame}: W(Q) != 0", **sigf)
    rec.close(Sr, mod, ID_TOL, "rotation_S", f"{kind} dim={dim} frame={frame}: S(Q) != 0", **sigf)

    rec.nontrivial(np.abs(F - np.eye(3)).max() > 0.05 and np.abs(R - np.eye(3)).max() > 1e-6
                   and np.abs(Q - np.eye(3)).max() > 1e-6 and nE > 1e-3)


def enum_law_grid(tier):
    """every built-in law x every 2D/3D element type (plus each user energy on two types per
    dimension): one deterministic case per pair, parameters derived from VERIF_SEED"""
    seed = env_seed()
    i = 0
    for name in hx.LAWS + hx.USER:
        types = gm.T2D + gm.T3D if name in hx.LAWS else ["TRI6", "QUAD4", "TETRA4", "HEXA8"]
        for et in types:
            i += 1
            rng = np.random.default_rng([seed, 18, i])
            dim = gm.dim_of(et)
            lam = [0.6 + int(k) / 10.0 for k in rng.integers(0, 11, dim)]
            yield dict(mesh=hx.mesh_recipe_rng(et, rng), law=hx.law_record_rng(name, dim, rng),
                       U=dict(lam=lam, Q=hx.rot_record_rng(dim, rng)), R=hx.rot_record_rng(dim, rng),
                       Q=hx.rot_record_rng(dim, rng), dF=int(rng.integers(0, 1000)),
                       mt=["rigi", "mass"][int(rng.integers(0, 2))])


# ------------------------------------------------------------------------------------------
# (b) autodiff: the AutoDiff law of an energy equals the hand-coded law of the same energy


@st.composite
def autodiff_cases(draw):
    mr = draw(hx.mesh_recipes())
    dim = gm.dim_of(mr["elemType"])
    law = draw(hx.law_records(dim, names=hx.LAWS, tilted_ok=True))
    homog = draw(st.booleans())
    c = dict(mesh=mr, law=law, homog=homog, mt=draw(st.sampled_from(["rigi", "mass"])))
    if homog:
        c.update(U=draw(hx.stretches(dim)), R=draw(hx.rotations(dim)))
    else:
        c.update(seed=draw(st.integers(0, 999)), amp=draw(st.integers(1, 8)) / 20.0)
    return c


def _state_J_ok(g, u, mt, jmin=0.1):
    stt = HyperElasticState(g, u, mt)
    return float(_np(stt.Compute_J()).min()) > jmin


def _safe_u(mesh, g, dim, seed, amp, mt, base=None):
    """smooth field, halved (deterministically) until det F > 0.1 everywhere"""
    for k in range(5):
        u = hx.smooth_u(mesh, dim, seed, amp / 2 ** k)
        if _state_J_ok(g, u if base is None else base + u, mt):
            return u
    raise Inconclusive("no admissible state (det F <= 0.1)")


def check_autodiff(case, rec):
    mr, lawp = case["mesh"], case["law"]
    dim = gm.dim_of(mr["elemType"])
    mesh = hx.build_mesh(mr)
    g = _main_group(mesh)
    mt = MatrixType(case["mt"])
    nPg = g.Get_gauss(mt).nPg
    name = lawp["name"]
    frame = hx.frame_kind(lawp, dim)
    sig = dict(law=name, dim=dim, frame=frame)
    rec.label("law:" + name, "elem:" + mr["elemType"], f"dim:{dim}", "homog" if case["homog"] else "smooth")
    if name == "HolzapfelOgden":
        rec.label("fibre:" + frame)
    hand = hx.make_law(lawp, dim, g.Ne, nPg)
    auto = hx.autodiff_law(lawp, dim, g.Ne, nPg)
    mod = hx.moduli(lawp)
    if case["homog"]:
        F = hx.rotation(case["R"], dim) @ hx.stretch_tensor(case["U"], dim)
        u = hx.homogeneous_u(mesh, F, dim)
    else:
        u = _safe_u(mesh, g, dim, case["seed"], case["amp"], mt)
    stt = HyperElasticState(g, u, mt)
    Wh, Sh, Ch = _np(hand.Compute_W(stt)), _np(hand.Compute_dWde(stt)), _np(hand.Compute_d2Wde(stt))
    stt = HyperElasticState(g, u, mt)
    Wa, Sa, Ca = _np(auto.Compute_W(stt)), _np(auto.Compute_dWde(stt)), _np(auto.Compute_d2Wde(stt))
    rec.require(Wa.shape == Wh.shape and Sa.shape == Sh.shape and Ca.shape == Ch.shape, "shapes",
                f"{Wa.shape}{Sa.shape}{Ca.shape} vs {Wh.shape}{Sh.shape}{Ch.shape}", **sig)
    nS, nC = float(np.abs(Sh).max()), float(np.abs(Ch).max())
    rec.close(Wa - Wh, nS + mod, 1e-10, "autodiff_W", f"{name} dim={dim} frame={frame}", **sig)
    rec.close(Sa - Sh, nC + nS + mod, 1e-10, "autodiff_S", f"{name} dim={dim} frame={frame}", **sig)
    rec.close(Ca - Ch, nC + nS + mod, 1e-9, "autodiff_C", f"{name} dim={dim} frame={frame}", **sig)
    rec.nontrivial(np.abs(_np(stt.Compute_F()) - np.eye(3)).max() > 0.05)



# ------------------------------------------------------------------------------------------
# (c) operators: assembled residual / tangent pairs of NonLinear.py against central differences
#
# step unknown of each operator (read from NonLinear.py / _hyperelastic.py):
#   spk, active          R(u),            K = dR/du
#   kelvin               R(u, v) = C(u)v, Kgeo = dR/du at fixed v, C = dR/dv at fixed u
#   gonzalez             R(u_{n+1}) with u_mid = (u_n+u_{n+1})/2, u_n fixed; dR/du_{n+1} = 0.5 K (built for coefK=0.5)
#   quadrature           R(u_{n+1}) with u_t = u_n + coefK (u_{n+1}-u_n);      dR/du_{n+1} = coefK K
#   pressure, contact    slot convention K_e -> K, R_e -> F (right-hand side):  K = -dR_e/du

OPS = ["spk", "gonzalez", "quadrature", "active", "kelvin", "pressure", "contact"]
SURF = ["TRI3", "TRI6", "TRI10", "TRI15", "QUAD4", "QUAD8", "QUAD9"]


@st.composite
def operator_cases(draw):
    op = draw(st.sampled_from(OPS))
    c = dict(op=op, d=draw(st.integers(0, 999)), seed=draw(st.integers(0, 999)),
             amp=draw(st.integers(1, 8)) / 20.0, mt=draw(st.sampled_from(["rigi", "mass"])))
    if op == "pressure":
        # surface group: a 2D mesh of any surface type placed in 3D, or the faces of a 3D mesh
        if draw(st.booleans()):
            c["mesh"] = draw(hx.mesh_recipes(types=SURF))
            c["embed"] = draw(hx.rotations(3))
        else:
            c["mesh"] = draw(hx.mesh_recipes(dims=(3,)))
            c["embed"] = None
        c["pfield"] = draw(st.one_of(st.none(), st.integers(0, 99)))
        c["p"] = draw(st.integers(-8, 8).filter(lambda k: k != 0)) / 4.0
        c["subset"] = draw(st.one_of(st.none(), st.integers(0, 99)))
        return c
    if op == "contact":
        c["mesh"] = draw(hx.mesh_recipes())
        dim = gm.dim_of(c["mesh"]["elemType"])
        c["normal"] = draw(hx.rotations(dim))
        c["offset"] = draw(st.integers(-4, 4)) / 20.0
        c["penalty"] = draw(st.integers(1, 40)) / 4.0
        c["subset"] = draw(st.one_of(st.none(), st.integers(0, 99)))
        return c
    c["mesh"] = draw(hx.mesh_recipes())
    dim = gm.dim_of(c["mesh"]["elemType"])
    c["law"] = draw(hx.law_records(dim))
    c["thickness"] = draw(st.sampled_from([1.0, 0.5, 2.0])) if dim == 2 else 1.0
    if op in ("gonzalez", "quadrature"):
        c["seed2"] = draw(st.integers(0, 999))
        c["step"] = draw(st.sampled_from([1.0, 0.3, 0.03]))  # size of u_{n+1}-u_n relative to amp
    if op == "quadrature":
        c["coefK"] = draw(st.sampled_from([0.5, 1.0, 0.75, 0.9]))
        c["nPoints"] = draw(st.integers(1, 8))
        c["tol"] = draw(st.sampled_from([None, None, 1e-2, 1e-4, 1e-8]))
    if op == "active":
        c["tau"] = draw(st.integers(-8, 8).filter(lambda k: k != 0)) / 4.0
        c["tau_kind"] = draw(st.sampled_from(["scalar", "elem", "gauss"]))
        c["fib"] = draw(st.integers(0, 99))
    if op == "kelvin":
        c["eta"] = draw(st.integers(1, 12)) / 4.0
        c["vseed"] = draw(st.integers(0, 999))
    return c


def enum_operator_grid(tier):
    """every operator x every element type it applies to: one deterministic case per pair"""
    seed = env_seed()
    i = 0
    for op in OPS:
        if op == "pressure":
            types = [(t, True) for t in SURF] + [(t, False) for t in gm.T3D]
        else:
            types = [(t, None) for t in gm.T2D + gm.T3D]
        for et, embed in types:
            i += 1
            rng = np.random.default_rng([seed, 1818, i])
            dim = gm.dim_of(et)
            c = dict(op=op, d=int(rng.integers(0, 1000)), seed=int(rng.integers(0, 1000)),
                     amp=int(rng.integers(2, 9)) / 20.0, mt=["rigi", "mass"][int(rng.integers(0, 2))],
                     mesh=hx.mesh_recipe_rng(et, rng))
            sub = None if rng.integers(0, 2) else int(rng.integers(0, 100))
            if op == "pressure":
                c.update(embed=hx.rot_record_rng(3, rng) if embed else None, p=[-1.5, 0.75, 2.0][int(rng.integers(0, 3))],
                         pfield=None if rng.integers(0, 2) else int(rng.integers(0, 100)), subset=sub)
            elif op == "contact":
                c.update(normal=hx.rot_record_rng(dim, rng), offset=int(rng.integers(-4, 5)) / 20.0,
                         penalty=int(rng.integers(1, 41)) / 4.0, subset=sub)
            else:
                c.update(law=hx.law_record_rng(hx.LAWS[i % len(hx.LAWS)], dim, rng),
                         thickness=[1.0, 0.5, 2.0][int(rng.integers(0, 3))] if dim == 2 else 1.0,
                         seed2=int(rng.integers(0, 1000)), step=[1.0, 0.3, 0.03][int(rng.integers(0, 3))],
                         coefK=[0.5, 1.0, 0.75][int(rng.integers(0, 3))], nPoints=int(rng.integers(1, 9)),
                         tol=[None, 1e-4][int(rng.integers(0, 2))], tau=[-1.0, 0.75, 2.0][int(rng.integers(0, 3))],
                         tau_kind=["scalar", "elem", "gauss"][int(rng.integers(0, 3))], fib=int(rng.integers(0, 100)),
                         eta=int(rng.integers(1, 13)) / 4.0, vseed=int(rng.integers(0, 1000)))
            yield c


def _dofs(connect, dof_n):
    c = np.asarray(connect)
    return (c[:, :, None] * dof_n + np.arange(dof_n)[None, None, :]).reshape(c.shape[0], -1)


def _asm(Ndof, dofs, R_e):
    out = np.zeros(Ndof)
    np.add.at(out, dofs, _np(R_e))
    return out


def _asm_Kd(Ndof, dofs, K_e, d):
    return _asm(Ndof, dofs, np.einsum("eij,ej->ei", _np(K_e), d[dofs]))


def _direction(seed, n):
    d = np.random.default_rng(int(seed) + 7919).normal(size=n)
    return d / np.abs(d).max()


def _fd_pair(rec, resid, x, d, Kd, absKd, oracle, msg, sig, factor=1.0, steps=(1e-5, 1e-6), guard=None):
    """central differences of resid along d at two step sizes against factor*K d"""
    errs = []
    for h in steps:
        if guard is not None:
            guard(h)
        fd = (resid(x + h * d) - resid(x - h * d)) / (2 * h)
        errs.append(float(np.abs(fd - factor * Kd).max()))
    scale = float(np.abs(absKd).max())
    rec.close(min(errs), scale, FD_TOL, oracle, f"{msg}: |FD - K d| at both steps {errs}", **sig)
    return scale


def check_operator(case, rec):
    op = case["op"]
    mr = case["mesh"]
    mesh = hx.build_mesh(mr)
    mt = MatrixType(case["mt"])
    rec.label("op:" + op, f"op:{op}:{mr['elemType']}")
    if op == "pressure":
        return _check_pressure(case, rec, mesh, mt)
    if op == "contact":
        return _check_contact(case, rec, mesh, mt)

    dim = gm.dim_of(mr["elemType"])
    g = _main_group(mesh)
    nPg = g.Get_gauss(mt).nPg
    lawp = _drop_known_crash(case["law"], op == "quadrature" and bool(case.get("tol")), case, rec)
    mat = hx.make_law(lawp, dim, g.Ne, nPg, thickness=case["thickness"])
    sig = dict(op=op, law=lawp["name"], dim=dim, elemType=mr["elemType"])
    rec.label("law:" + lawp["name"])
    N = mesh.Nn * dim
    dofs = _dofs(g.connect, dim)
    d = _direction(case["d"], N)
    u = _safe_u(mesh, g, dim, case["seed"], case["amp"], mt)
    NL = Operators.NonLinear

    def state(x):
        return HyperElasticState(g, x, mt)

    if op == "spk":
        K_e, R_e = NL.SecondPiolaKirchhoffStressTensor(mat, state(u))
        resid = lambda x: _asm(N, dofs, NL.SecondPiolaKirchhoffStressTensor(mat, state(x))[1])  # noqa
        sc = _fd_pair(rec, resid, u, d, _asm_Kd(N, dofs, K_e, d), _asm_Kd(N, dofs, np.abs(K_e), np.abs(d)),
                      "tangent_spk", f"{lawp['name']} {mr['elemType']}", sig)
        rec.nontrivial(sc > 0 and _nt(R_e))

    elif op == "active":
        rng = np.random.default_rng(case["fib"])
        T = rng.normal(size=(g.Ne, nPg, 3))
        if dim == 2:
            T[..., :2] += 0.2 * np.sign(T[..., :2])  # keep an in-plane part
        mat.Set_active_stress_vec(FeArray.asfearray(T))
        tau = case["tau"]
        if case["tau_kind"] == "elem":
            tau = tau * rng.uniform(0.2, 1.0, g.Ne)
        elif case["tau_kind"] == "gauss":
            tau = tau * rng.uniform(0.2, 1.0, (g.Ne, nPg))
        mat.active_stress = tau
        rec.label("tau:" + case["tau_kind"])
        K_e, R_e = NL.ActiveStressTensor(mat, state(u))
        resid = lambda x: _asm(N, dofs, NL.ActiveStressTensor(mat, state(x))[1])  # noqa
        sc = _fd_pair(rec, resid, u, d, _asm_Kd(N, dofs, K_e, d), _asm_Kd(N, dofs, np.abs(K_e), np.abs(d)),
                      "tangent_active", f"{mr['elemType']} tau={case['tau_kind']}", sig)
        rec.nontrivial(sc > 0 and _nt(R_e))

    elif op == "kelvin":
        mat.eta = case["eta"]
        v = hx.smooth_u(mesh, dim, case["vseed"], 1.0, noise=0.05)
        Kg_e, R_e, C_e = NL.KelvinVoigtDamping(mat, state(u), v)
        absR = _asm(N, dofs, np.einsum("eij,ej->ei", np.abs(_np(C_e)), np.abs(v[dofs])))
        rec.close(_asm(N, dofs, R_e) - _asm_Kd(N, dofs, C_e, v), np.abs(absR).max(), 1e-12, "kelvin_R_is_Cv",
                  f"{mr['elemType']}", **sig)
        resid_u = lambda x: _asm(N, dofs, NL.KelvinVoigtDamping(mat, state(x), v)[1])  # noqa
        sc = _fd_pair(rec, resid_u, u, d, _asm_Kd(N, dofs, Kg_e, d), _asm_Kd(N, dofs, np.abs(Kg_e), np.abs(d))
                      + np.abs(absR).max(), "tangent_kelvin_u", f"{mr['elemType']}", sig)
        resid_v = lambda x: _asm(N, dofs, NL.KelvinVoigtDamping(mat, state(u), x)[1])  # noqa
        _fd_pair(rec, resid_v, v, d, _asm_Kd(N, dofs, C_e, d), _asm_Kd(N, dofs, np.abs(C_e), np.abs(d)),
                 "tangent_kelvin_v", f"{mr['elemType']}", sig)
        rec.nontrivial(sc > 0 and _nt(R_e) and _nt(Kg_e))

    else:  # gonzalez / quadrature: u_n fixed, unknown u_{n+1}
        u_n = u
        du = _safe_u(mesh, g, dim, case["seed2"], case["amp"] * case["step"], mt, base=u_n)
        u_np1 = u_n + du
        rec.label(f"step:{case['step']}")
        if op == "gonzalez":
            coefK = 0.5

            def call(x):
                return NL.GonzalezStressTensor(mat, state(u_n), state(u_n + coefK * (x - u_n)), state(x), True)
        else:
            coefK = case["coefK"]
            tol = case["tol"]
            rec.label(f"coefK:{coefK}", "quad:adaptive" if tol else f"quad:n{case['nPoints']}")

            def call(x):
                return NL.TimeQuadratureStressTensor(mat, state(u_n), state(u_n + coefK * (x - u_n)), state(x),
                                                     coefK, case["nPoints"], tol)
        if not _state_J_ok(g, u_n + coefK * du, mt):
            raise Inconclusive("no admissible state (det F <= 0.1)")
        out = call(u_np1)
        K_e, R_e = out[0], out[1]
        guard = None
        if op == "quadrature" and tol:
            n0 = np.asarray(out[2]).copy()
            rec.label(f"quad:adaptive:max{int(n0.max())}")

            def guard(h):  # the accepted rule per element must not change inside the FD stencil
                for s in (+1, -1):
                    if not np.array_equal(np.asarray(call(u_np1 + s * h * d)[2]), n0):
                        raise Inconclusive("adaptive rule changes inside the FD stencil")
        resid = lambda x: _asm(N, dofs, call(x)[1])  # noqa
        if op == "quadrature" and not tol:
            # (added by the lead) consistency of the fixed path rule itself - the finite-difference oracle below only
            # ties the tangent to whatever residual the rule produces:
            # (i) a zero step leaves the pointwise stress: R_quad(u_n -> u_n) = R_spk(u_n), i.e. the weights sum to 1
            R0 = _asm(N, dofs, call(u_n)[1])
            Rs = _asm(N, dofs, NL.SecondPiolaKirchhoffStressTensor(mat, state(u_n))[1])
            absRs = _asm(N, dofs, np.abs(_np(NL.SecondPiolaKirchhoffStressTensor(mat, state(u_n))[1])))
            rec.close(R0 - Rs, np.abs(absRs).max() + 1e-300, 1e-10, "quadrature_zero_step",
                      f"{lawp['name']} {mr['elemType']} nPoints={case['nPoints']}: the path-quadrature stress of a zero step is not "
                      "the pointwise stress", nPoints=int(case["nPoints"]), **sig)
            # (ii) for a stored energy quadratic in E (Saint-Venant-Kirchhoff) dW/ds is cubic along the step: every rule
            # of degree >= 3 is exact, so with the midpoint evaluation R.du = W(u_{n+1}) - W(u_n)
            if lawp["name"] == "SaintVenantKirchhoff" and coefK == 0.5 and case["nPoints"] >= 3:
                wJ = _np(g.Get_weightedJacobian_e_pg(mt))
                th = float(getattr(mat, "thickness", 1.0)) if dim == 2 else 1.0
                Wint = lambda x: th * float(np.sum(wJ * _np(mat.Compute_W(state(x)))))  # noqa
                dW = Wint(u_np1) - Wint(u_n)
                work = float(_asm(N, dofs, R_e) @ du)
                absW = th * float(np.sum(wJ * (np.abs(_np(mat.Compute_W(state(u_np1)))) + np.abs(_np(mat.Compute_W(state(u_n)))))))
                rec.close(work - dW, absW + 1e-300, 1e-9, "quadrature_energy_identity",
                          f"SVK {mr['elemType']} nPoints={case['nPoints']}: R.du = {work!r} but W(u_n+1)-W(u_n) = {dW!r}",
                          nPoints=int(case["nPoints"]), **sig)
        sc = _fd_pair(rec, resid, u_np1, d, _asm_Kd(N, dofs, K_e, d), _asm_Kd(N, dofs, np.abs(K_e), np.abs(d)),
                      "tangent_" + op, f"{lawp['name']} {mr['elemType']} coefK={coefK}", sig, factor=coefK,
                      guard=guard)
        Ksym = _np(K_e)
        rec.label("nonsym" if np.abs(Ksym - np.swapaxes(Ksym, 1, 2)).max() > 1e-8 * np.abs(Ksym).max() else "sym")
        rec.nontrivial(sc > 0 and _nt(R_e) and _nt(du))


def _surface_groups(mesh, dimg):
    gs = mesh.Get_list_groupElem(dimg)
    if not gs:
        raise Inconclusive("no boundary group")
    return gs


def _subset(seed, Ne):
    if seed is None:
        return None
    rng = np.random.default_rng(int(seed))
    k = int(rng.integers(1, Ne + 1))
    return np.sort(rng.choice(Ne, size=k, replace=False))


def _check_pressure(case, rec, mesh, mt):
    NL = Operators.NonLinear
    mr = case["mesh"]
    if case["embed"] is not None:
        mesh = gm.rebuild(mesh, _np(mesh.coord) @ hx.rotation(case["embed"], 3).T)
        groups = gm.main_groups(mesh)
        rec.label("pressure:embedded")
    else:
        groups = _surface_groups(mesh, 2)
        rec.label("pressure:faces")
    N = mesh.Nn * 3
    L = np.ptp(_np(mesh.coord), axis=0).max()
    u = hx.smooth_u(mesh, 3, case["seed"], case["amp"])
    d = _direction(case["d"], N)
    nt = False
    for g in groups:
        et = str(g.elemType)
        sig = dict(op="pressure", elemType=et)
        rec.label("op:pressure:" + et)
        nPg = g.Get_gauss(mt).nPg
        elems = _subset(case["subset"], g.Ne)
        Na = g.Ne if elems is None else elems.size
        p = case["p"]
        if case["pfield"] is not None:
            p = p * np.random.default_rng(case["pfield"]).uniform(0.2, 1.0, (Na, nPg))
            rec.label("pressure:field")
        dofs = _dofs(g.connect, 3)
        K_e, R_e = NL.FollowingPressure(g, u, p, elems, mt)
        if elems is not None:
            off = np.setdiff1d(np.arange(g.Ne), elems)
            rec.require(not _nt(_np(K_e)[off], 0) and not _nt(_np(R_e)[off], 0), "pressure_outside_zero",
                        "non-zero contribution outside `elements`", **sig)
        resid = lambda x: -_asm(N, dofs, NL.FollowingPressure(g, x, p, elems, mt)[1])  # noqa
        sc = _fd_pair(rec, resid, u, d, _asm_Kd(N, dofs, K_e, d),
                      _asm_Kd(N, dofs, np.abs(K_e), np.abs(d)) + np.abs(_asm(N, dofs, np.abs(_np(R_e)))).max() / L,
                      "tangent_pressure", f"{et}", sig)
        Kn = _np(K_e)
        rec.label("nonsym" if np.abs(Kn - np.swapaxes(Kn, 1, 2)).max() > 1e-8 * np.abs(Kn).max() else "sym")
        nt = nt or (sc > 0 and _nt(R_e) and _nt(K_e))
    rec.nontrivial(nt)


def _check_contact(case, rec, mesh, mt):
    NL = Operators.NonLinear
    mr = case["mesh"]
    dim = gm.dim_of(mr["elemType"])
    N = mesh.Nn * dim
    X = _np(mesh.coord)
    L = np.ptp(X, axis=0).max()
    n = np.zeros(3)
    n[:dim] = hx.rotation(case["normal"], dim)[:dim, 0]
    n /= np.linalg.norm(n)
    p0 = X.mean(axis=0) + case["offset"] * L * n  # plane through the body: part of the boundary penetrates
    u = hx.smooth_u(mesh, dim, case["seed"], case["amp"])
    d = _direction(case["d"], N)
    pen = case["penalty"]
    nt = False
    for g in _surface_groups(mesh, dim - 1):
        et = str(g.elemType)
        sig = dict(op="contact", elemType=et, dim=dim)
        rec.label("op:contact:" + et)
        rec.require(g.inDim == dim, "contact_inDim", f"boundary group inDim={g.inDim}", **sig)
        elems = _subset(case["subset"], g.Ne)
        idx = np.arange(g.Ne) if elems is None else elems
        nPg = g.Get_gauss(mt).nPg
        Npg = _np(g.Get_N_pg(mt))[:, 0, :]
        Xpg = _np(g.Get_GaussCoordinates_e_pg(mt))[idx]
        conn = np.asarray(g.connect)[idx]
        nrm = FeArray.asfearray(np.tile(n, (idx.size, nPg, 1)))
        dofs = _dofs(g.connect, dim)

        def gap_of(x):
            xe = x.reshape(-1, dim)[conn]  # (Na, nPe, dim)
            xpg = Xpg.copy()
            xpg[..., :dim] += np.einsum("pn,enc->epc", Npg, xe)
            return (xpg - p0) @ n

        def call(x):
            return NL.PenaltyContact(g, pen, FeArray.asfearray(gap_of(x)), nrm, elems, mt)

        gap0 = gap_of(u)

        def guard(h):
            if np.abs(gap0).min() <= 4 * h * np.abs(d).max():
                raise Inconclusive("a Gauss point sits at the contact threshold")

        K_e, R_e = call(u)
        if elems is not None:
            off = np.setdiff1d(np.arange(g.Ne), elems)
            rec.require(not _nt(_np(K_e)[off], 0) and not _nt(_np(R_e)[off], 0), "contact_outside_zero",
                        "non-zero contribution outside `elements`", **sig)
        resid = lambda x: -_asm(N, dofs, call(x)[1])  # noqa
        sc = _fd_pair(rec, resid, u, d, _asm_Kd(N, dofs, K_e, d),
                      _asm_Kd(N, dofs, np.abs(K_e), np.abs(d)) + pen * np.abs(_np(g.Get_weightedJacobian_e_pg(mt))).max(),
                      "tangent_contact", f"{et}", sig, guard=guard)
        active = (gap0 < 0)
        rec.label("contact:mixed" if active.any() and not active.all() else "contact:all" if active.all() else "contact:none")
        nt = nt or (active.any() and _nt(K_e) and _nt(R_e))
    rec.nontrivial(nt)



# ------------------------------------------------------------------------------------------
# (c') system: the Newton matrix of Simulations.HyperElastic is the derivative of the complete
# residual (internal force + viscosity + active stress + inertia) w.r.t. the step unknown u_{n+1}

ALGOS = ["elliptic", "midpoint", "newmark", "hht", "hht_newmark", "euler_implicit"]


@st.composite
def system_cases(draw):
    mr = draw(hx.mesh_recipes())
    dim = gm.dim_of(mr["elemType"])
    stress = draw(st.sampled_from(["pointwise", "gonzalez", "quadrature"]))
    if stress == "gonzalez":
        algo = "midpoint"
    elif stress == "quadrature":
        algo = draw(st.sampled_from(ALGOS[1:]))
    else:
        algo = draw(st.sampled_from(ALGOS))
    c = dict(mesh=mr, law=draw(hx.law_records(dim)), stress=stress, algo=algo,
             thickness=draw(st.sampled_from([1.0, 0.5, 2.0])) if dim == 2 else 1.0,
             dt=draw(st.sampled_from([0.02, 0.1, 0.5])), alpha=draw(st.integers(0, 6)) / 20.0,
             rho=draw(st.integers(2, 8)) / 4.0, eta=draw(st.sampled_from([0.0, 0.0, 0.5, 2.0])),
             tau=draw(st.sampled_from([0.0, 0.0, -1.0, 0.75])), fib=draw(st.integers(0, 99)),
             nPoints=draw(st.integers(1, 5)), tol=draw(st.sampled_from([None, 1e-3, 1e-8, 0.0, 0.0])) if stress == "quadrature" else None,
             seed=draw(st.integers(0, 999)), seed2=draw(st.integers(0, 999)), vseed=draw(st.integers(0, 999)),
             amp=draw(st.integers(1, 8)) / 20.0, step=draw(st.sampled_from([1.0, 0.3, 0.03])),
             d=draw(st.integers(0, 999)))
    return c


def _quiet():
    return contextlib.redirect_stdout(io.StringIO())


def _make_simu(case, mesh, g, dim, absTol=1e-9, rec=None):
    nPg = g.Get_gauss(MatrixType.rigi).nPg
    lawp = case["law"]
    if rec is not None:
        lawp = _drop_known_crash(lawp, case["stress"] == "quadrature" and case.get("tol") is not None, case, rec)
    mat = hx.make_law(lawp, dim, g.Ne, nPg, thickness=case.get("thickness", 1.0))
    if case.get("eta"):
        mat.eta = case["eta"]
    if case.get("tau"):
        T = np.random.default_rng(case["fib"]).normal(size=(g.Ne, nPg, 3))
        if dim == 2:
            T[..., :2] += 0.2 * np.sign(T[..., :2])
        mat.Set_active_stress_vec(FeArray.asfearray(T))
        mat.active_stress = case["tau"]
    simu = Simulations.HyperElastic(mesh, mat, absTol=absTol, maxIter=case.get("maxIter", 20), verbosity=False)
    simu.rho = case["rho"]
    algo = AlgoType(case["algo"])
    if algo != AlgoType.elliptic:
        simu.Solver_Set_Hyperbolic_Algorithm(case["dt"], algo=algo, alpha=case.get("alpha", 0.5)
                                             if case["algo"] in ("hht", "hht_newmark") else 0.5)
    if case["stress"] == "gonzalez":
        simu.Solver_Set_Stress(simu.StressType.gonzalez)
    elif case["stress"] == "quadrature":
        simu.Solver_Set_Stress(simu.StressType.quadrature, nPoints=case["nPoints"], energyTol=case["tol"])
    return simu, mat


def check_system(case, rec):
    mr = case["mesh"]
    dim = gm.dim_of(mr["elemType"])
    mesh = hx.build_mesh(mr)
    g = _main_group(mesh)
    mt = MatrixType.rigi
    simu, mat = _make_simu(case, mesh, g, dim, rec=rec)
    pt = simu.problemType
    N = mesh.Nn * dim
    sig = dict(stress=case["stress"], algo=case["algo"], law=case["law"]["name"], dim=dim,
               eta=bool(case["eta"]), active=bool(case["tau"]))
    rec.label("sys:" + case["stress"], "algo:" + case["algo"], "elem:" + mr["elemType"],
              "law:" + case["law"]["name"], "eta" if case["eta"] else "no_eta", "active" if case["tau"] else "no_active")
    u_n = _safe_u(mesh, g, dim, case["seed"], case["amp"], mt)
    du = _safe_u(mesh, g, dim, case["seed2"], case["amp"] * case["step"], mt, base=u_n)
    u_np1 = u_n + du
    for w in (0.25, 0.5, 0.75):  # every scheme evaluates between u_n and u_{n+1}
        if not _state_J_ok(g, u_n + w * du, mt):
            raise Inconclusive("no admissible state (det F <= 0.1)")
    v_n = hx.smooth_u(mesh, dim, case["vseed"], 1.0, noise=0.05)
    a_n = hx.smooth_u(mesh, dim, case["vseed"] + 1, 1.0, noise=0.05)
    simu._Set_solutions(pt, u_n.copy(), v_n, a_n)
    d = _direction(case["d"], N)
    adaptive = case["stress"] == "quadrature" and case["tol"] is not None  # 0.0 is a tolerance (refine to the cap), not "unset"

    def rhs(x):
        simu._Simu__Solver_Set_Newton_Raphson_current_solution(x)
        simu.Need_Update()
        b = simu._Solver_Apply_Neumann(pt)
        n = None if not adaptive else np.asarray(simu._HyperElastic__nPts_e).copy()
        return b, n

    b0, n0 = rhs(u_np1.copy())
    if adaptive and len(gm.main_groups(mesh)) == 1:
        # the simulation hands nPoints / energyTol to the path-quadrature operator as they were given: the per-element
        # point counts of its assembly are those of a direct call of the operator with the same options
        coefK = float(simu._Solver_Get_K_C_M_coefs_for_time_scheme()[0])
        u_t = np.asarray(simu._Solver_Evaluate_u_v_a_for_time_scheme(pt, u_np1.copy())[0], float)
        sts = [HyperElasticState(g, x, mt) for x in (u_n, u_t, u_np1)]
        n_op = np.asarray(Operators.NonLinear.TimeQuadratureStressTensor(mat, *sts, coefK, case["nPoints"], case["tol"])[2])
        rec.label("quad_tol:" + ("zero" if case["tol"] == 0 else "positive"))
        rec.require(n0 is not None and np.array_equal(np.asarray(n0).ravel(), n_op.ravel()), "quadrature_options_passed_on",
                    f"{case['law']['name']} {mr['elemType']} nPoints={case['nPoints']} energyTol={case['tol']!r}: points per element in the "
                    f"simulation's assembly {None if n0 is None else np.asarray(n0).ravel().tolist()} vs a direct call of "
                    f"TimeQuadratureStressTensor with the same options {n_op.ravel().tolist()}", tol_zero=bool(case["tol"] == 0), **sig)
    A = simu._Solver_Apply_Dirichlet(pt, b0, ResolType.r1)[0]
    A = A.toarray() if hasattr(A, "toarray") else np.asarray(A)
    Ad = A @ d
    errs = []
    for h in (1e-5, 1e-6):
        bp, n_p = rhs(u_np1 + h * d)
        bm, n_m = rhs(u_np1 - h * d)
        if adaptive and not (np.array_equal(n_p, n0) and np.array_equal(n_m, n0)):
            raise Inconclusive("adaptive rule changes inside the FD stencil")
        fd = _np((bp - bm).toarray()).ravel() / (2 * h)
        errs.append(float(np.abs(fd + Ad).max()))
    scale = float((np.abs(A) @ np.abs(d)).max())
    rec.close(min(errs), scale, FD_TOL, "newton_matrix",
              f"{case['stress']}/{case['algo']} {case['law']['name']} {mr['elemType']}: |d(-b)/du - A d| {errs}", **sig)
    rec.nontrivial(scale > 0 and _nt(du))


# ------------------------------------------------------------------------------------------
# (d) energy conservation of free motion: midpoint + gonzalez / quadrature


HEAVY = ("HEXA20", "HEXA27", "PRISM15", "PRISM18", "TETRA10", "TRI15")


@st.composite
def energy_cases(draw):
    light = [t for t in gm.T2D + gm.T3D if t not in HEAVY]
    mr = draw(hx.mesh_recipes(types=light if draw(st.integers(0, 3)) else None))
    dim = gm.dim_of(mr["elemType"])
    heavy = mr["elemType"] in HEAVY
    option = draw(st.sampled_from(["gonzalez", "gonzalez", "quadrature_tol", "quadrature_svk"]))
    if option == "quadrature_svk":  # quadratic energy in E: every Clenshaw-Curtis rule is exact
        law = draw(hx.law_records(dim, names=["SaintVenantKirchhoff"]))
        law["K"] = 0.0
    else:
        law = draw(hx.law_records(dim, fields_ok=False))
    dt = draw(st.sampled_from([0.02, 0.05, 0.1, 0.2, 0.4]))
    # velocity gradients 0.05..0.3 (moduli and density are O(1)): strains stay moderate so that most runs
    # converge; laws without volumetric stiffness get a bulk term (K>=0.5) for the same reason
    vamp = draw(st.integers(1, 6)) / 20.0
    if law["name"] in ("MooneyRivlin", "CiarletGeymonat", "HolzapfelOgden"):
        law["K"] = max(law["K"], 0.5)
    return dict(mesh=mr, law=law, option=option, algo="midpoint",
                stress="gonzalez" if option == "gonzalez" else "quadrature",
                nPoints=draw(st.integers(1, 4)),
                tol=draw(st.sampled_from([1e-5, 1e-8])) if option == "quadrature_tol" else None,
                thickness=draw(st.sampled_from([1.0, 0.5, 2.0])) if dim == 2 else 1.0,
                dt=dt, rho=draw(st.integers(2, 8)) / 4.0,
                nsteps=draw(st.integers(20, 40 if heavy else 60 if option == "quadrature_tol" else 100)),
                vseed=draw(st.integers(0, 999)), vamp=round(vamp, 6), seed=draw(st.integers(0, 999)),
                amp=draw(st.integers(0, 3)) / 20.0, clamp=draw(st.booleans()),
                emag=draw(st.sampled_from([1.0, 1e-12, 1e-12, 1e6] if option == "quadrature_tol" else [1.0, 1.0, 1e-12, 1e6])))


def _int_abs_dW(mat, groups, u0, u1, thickness):
    tot = 0.0
    for g in groups:
        wJ = _np(g.Get_weightedJacobian_e_pg(MatrixType.rigi))
        W0 = _np(mat.Compute_W(HyperElasticState(g, u0, MatrixType.rigi)))
        W1 = _np(mat.Compute_W(HyperElasticState(g, u1, MatrixType.rigi)))
        tot += thickness * float(np.sum(wJ * np.abs(W1 - W0)))
    return tot


def check_energy(case, rec):
    """E_{n+1}-E_n = r_{n+1}.(u_{n+1}-u_n) for a discrete-gradient stress under the midpoint rule, r the
    residual left by Newton: |E_n-E_0| <= sum_k rho_k |du_k| (+ energyTol * int|dW| per step for the
    adaptive path quadrature), rho_k the residual norm the stopping rule tested last (an upper bound of
    the accepted one for a converging iteration; factor 2 of slack)."""
    mr = case["mesh"]
    dim = gm.dim_of(mr["elemType"])
    mesh = hx.build_mesh(mr)
    g = _main_group(mesh)
    # unit of the moduli (and of the density, so that the motion is the same): every energy scales by emag, displacements do not
    emag = float(case.get("emag", 1.0))
    if emag != 1.0 and case["law"]["name"] in ("NeoHookean", "MooneyRivlin", "CiarletGeymonat", "SaintVenantKirchhoff"):
        law = dict(case["law"])
        for k_ in ("K", "K1", "K2", "lmbda", "mu"):
            if k_ in law:
                law[k_] = law[k_] * emag
        case = dict(case, law=law, rho=case["rho"] * emag)
        rec.label(f"emag:{emag:g}")
    else:
        emag = 1.0
    simu, mat = _make_simu(case, mesh, g, dim, absTol=1e-8 * emag)
    pt = simu.problemType
    sig = dict(option=case["option"], law=case["law"]["name"], dim=dim)
    rec.label("energy:" + case["option"], "law:" + case["law"]["name"], "elem:" + mr["elemType"], f"dt:{case['dt']}",
              "clamped" if case["clamp"] else "free")
    u = _safe_u(mesh, g, dim, case["seed"], case["amp"], MatrixType.rigi) if case["amp"] else np.zeros(mesh.Nn * dim)
    v = hx.smooth_u(mesh, dim, case["vseed"], 1.0, noise=0.05)
    nodes = None
    if case["clamp"]:  # clamp the x=0 face of the base cell (reactions do no work); fields ramp up from it
        base = hx._base(mr["elemType"], int(mr["cells"]), int(mr["layers"]))
        xb = _np(base.coord)[:, 0]
        nodes = np.where(np.abs(xb) < 1e-9)[0]
        ramp = np.repeat(xb / xb.max(), dim)
        u = u * ramp
        v = v * ramp
    gv = _np(HyperElasticState(g, v, MatrixType.rigi).Compute_F()) - np.eye(3)
    v *= case["vamp"] / np.abs(gv).max()  # largest velocity-gradient entry = vamp
    if not _state_J_ok(g, u, MatrixType.rigi, 0.5):
        raise Inconclusive("no admissible initial state")
    if nodes is not None:
        simu.add_dirichlet(nodes, [0.0] * dim, simu.Get_unknowns())
    simu._Set_solutions(pt, u.copy(), v.copy(), np.zeros_like(u))
    thick = case["thickness"] if dim == 2 else 1.0
    groups = gm.main_groups(mesh)

    M = None
    E, Wn, bound = [], [], [0.0]
    for k in range(int(case["nsteps"])):
        u_old = simu._Get_u_n(pt).copy()
        try:
            with _quiet():
                simu.Solve()
        except AssertionError as e:  # the claim is conditional on convergence of the step
            msg = str(e)
            if "did not converged" in msg:
                raise Inconclusive("Newton did not converge in a step")
            if "det(F) < 0" in msg:
                raise Inconclusive("det F < 0 during a step")
            raise
        u_new = simu._Get_u_n(pt)
        v_new = simu._Get_v_n(pt)
        if M is None:
            M = simu.Get_K_C_M_F(pt)[2]
            W0 = _int_W(mat, groups, u, thick)
            E.append(0.5 * float(v @ (M @ v)) + W0)
            Wn.append(W0)
        W = float(simu._Calc_W())
        Wn.append(W)
        E.append(0.5 * float(v_new @ (M @ v_new)) + W)
        rho_k = float(simu._Simu__list_norm_r[-1])  # residual norm the stopping rule tested last
        step = rho_k * float(np.linalg.norm(u_new - u_old))
        if case["tol"]:
            if np.asarray(simu._HyperElastic__nPts_e).max() >= 33:
                raise Inconclusive("adaptive quadrature hit its point cap")
            step += case["tol"] * _int_abs_dW(mat, groups, u_old, u_new, thick)
        bound.append(bound[-1] + step)
    E = np.array(E)
    Wn = np.array(Wn)
    scale = float(0.5 * float(v @ (M @ v)) + np.abs(Wn).max())
    drift = np.abs(E - E[0])
    allowed = 2.0 * np.array(bound) + 1e-9 * scale
    rec.note_max("energy_drift_rel:" + case["option"], float(drift.max() / scale))
    rec.note_max("energy_drift_over_allowed:" + case["option"], float(np.max(drift / allowed)))
    kw = int(np.argmax(drift / allowed))
    rec.require(bool(np.all(drift <= allowed)), "energy_conserved",
                f"{case['option']} {case['law']['name']} {mr['elemType']} dt={case['dt']} steps={case['nsteps']}: "
                f"|E_n-E_0|={drift[kw]:.3e} at step {kw} (E_0={E[0]:.3e}, max drift {drift.max():.3e}) exceeds the bound "
                f"{allowed[kw]:.3e} implied by the Newton stopping rule", **sig)
    rec.nontrivial(E[0] > 0 and float(Wn.max() - Wn.min()) > 1e-4 * scale)


def _int_W(mat, groups, u, thickness):
    tot = 0.0
    for g in groups:
        wJ = _np(g.Get_weightedJacobian_e_pg(MatrixType.rigi))
        tot += thickness * float(np.sum(wJ * _np(mat.Compute_W(HyperElasticState(g, u, MatrixType.rigi)))))
    return tot


SUBS = [
    Sub("law_derivatives", check_law, gen=law_cases, quick=110, thorough=500, shards=8),
    Sub("law_grid", check_law, enum=enum_law_grid, doc="every law x every element type"),
    Sub("autodiff", check_autodiff, gen=autodiff_cases, quick=26, thorough=150, shards=4),
    Sub("operators", check_operator, gen=operator_cases, quick=160, thorough=600, shards=8),
    Sub("operator_grid", check_operator, enum=enum_operator_grid, doc="every operator x every element type"),
    Sub("system", check_system, gen=system_cases, quick=90, thorough=400, shards=6),
    Sub("energy_conservation", check_energy, gen=energy_cases, quick=20, thorough=60, shards=10),
]

LEVEL_TEXT = ("Hypothesis-generated deformation states, laws, element types, operator states and free-motion runs checked "
              "against central finite differences (two step sizes), exact invariance identities and the discrete energy "
              "balance implied by the Newton stopping rule")
LEVEL_NOTE = ("stretches in [0.6,1.6] / det F>0.1, meshes of 1-12 elements, planar contact obstacles, runs of 20-100 steps; "
              "exploration never establishes absence on unexplored states")
TECHNIQUE = "property-based testing (Hypothesis) vs finite-difference, invariance and energy-balance oracles"
DESIGN_REF = "DESIGN.md 4/C18"


# ------------------------------------------------------------------------------------------
# (added) the adaptive path quadrature in several unit systems: the same free motion with moduli and density multiplied by emag
# (energies from 1e-17 to 1e+1): the acceptance test of the refinement must be relative


def enum_energy_units(tier):
    k = 0
    for et, law in (("TRI3", dict(name="NeoHookean", K=0.25)), ("QUAD4", dict(name="MooneyRivlin", K1=0.5, K2=0.25, K=1.0)),
                    ("TETRA4", dict(name="NeoHookean", K=0.5))):
        for emag in (1e-12, 1.0, 1e6):
            for tol in (1e-5, 1e-8):
                k += 1
                yield dict(mesh=dict(elemType=et, cells=1, layers=1, A=None, warp=0.0, wseed=0), law=dict(law), option="quadrature_tol",
                           algo="midpoint", stress="quadrature", nPoints=1, tol=tol, thickness=1.0, dt=0.02, rho=0.5, nsteps=20, vseed=k,
                           vamp=0.05 + 0.05 * (k % 3), seed=0, amp=0.0, clamp=bool(k % 2), emag=emag)


SUBS.append(Sub("energy_units", check_energy, enum=enum_energy_units, doc="adaptive quadrature: the same motion in three unit systems"))
