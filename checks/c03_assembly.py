"""C03 - assembly is the exact scatter-add of element contributions, for any numbering."""

import numpy as np
from hypothesis import strategies as st

from EasyFEA import Models, Simulations
from EasyFEA.FEM import BiLinearForm, Field, LagrangeCondition, LinearForm, Sym_Grad

from vlib import c03_simu as cs
from vlib import gen_beam as gb
from vlib import gen_mesh as gm
from vlib import gen_model as gmod
from vlib import oracles as orc
from vlib.runner import Inconclusive, Sub, load_known

PROPERTY = "C03"
RULE = (
    "custom_simu_history: Hypothesis draws a mesh recipe (1D/2D/3D, every element type, naturally mixed QUAD+TRI), "
    "a user subclass of _Simu with 1-2 problem types of 1-6 dofs per node whose Construct_local_matrix_system returns "
    "seeded O(1) element arrays (real / complex / mixed) for any subset of main-dimension and boundary groups x any "
    "subset of (K,C,M,F), and a list of <=14 operations (new values, toggle a slot, switch complex, Lagrange condition, "
    "add/clear Dirichlet, replace / renumber / move the mesh); after every operation Assembly() and Get_K_C_M_F() are "
    "compared with the dense re-summation. A step is non-trivial when it re-assembles with a cached reduction map (key "
    "seen before) or changes the key (dof_n, Ndof, contributing groups); a case is non-trivial when it has such a step. "
    "real_simus: Elastic/Thermal/Beam/WeakForms/PhaseField on generated meshes, first assembly and a re-assembly after a parameter "
    "change; non-trivial = >=2 elements sharing a node. renumbering: Elastic/Thermal with Dirichlet+Neumann on a mesh and "
    "its random renumbering; non-trivial = non-identity permutation, free dofs and a non-zero load. distinct = sha1 of the case."
    ' Round 8: large_system has a HEXA8 block with more than 2**22 element entries per slot; connect_dtypes enumerates narrow integer types of the connectivity on a grid whose dof numbers leave their range.'
    ' Round 9: a third of the elastic / thermal cases of real_simus carry 1-2 orphan nodes.'
)
ASSUMPTIONS = [
    "oracle = dense element-by-element re-summation written from groupElem.connect with dof = node*dof_n + component "
    "(no call to Get_assembly_e/Get_rows_e/Get_columns_e, no scipy.sparse)",
    "element values are O(1) floats, so bincount re-ordering noise is ~1e-16 and identity level 1e-12 applies",
    "expected Ndof = Nn*dof_n + (number of Lagrange conditions + number of distinct Dirichlet dofs, when a Lagrange "
    "condition exists), as documented by _Bc_Lagrange_dim / __Get_Ndof (one multiplier per constrained dof)",
    "the harness subclass calls model.Need_Update() when it changes its own element values (as built-in models do)",
    "meshes <= ~900 dofs, histories <= 14 operations; renumbering solutions at solve level 1e-8 with cond(K_ff) <= 1e10",
]
LEVEL_TEXT = ("generated meshes x dofs-per-node x contributing group/slot subsets x real/complex values x operation "
              "histories: every assembled K, C, M, F (value, shape incl. Lagrange rows, dtype, canonical CSR) equals an "
              "independent dense scatter-add; real simulations equal the scatter-add of their own local systems; a node "
              "renumbering permutes system, load and solution and changes nothing else")
LEVEL_NOTE = "exploration with bounded sizes (<=900 dofs, <=14 operations per history); serial (no MPI) assembly only"
TECHNIQUE = "property-based testing (Hypothesis, operation histories inside the case) vs dense loop re-summation from connect; metamorphic node renumbering"
DESIGN_REF = "DESIGN.md 4/C03"
READY = True

TOL = 1e-12
MAXDOF = 900
SLOTS = cs.SLOTS


def _known_ids():
    return {e["id"] for e in load_known(PROPERTY) if e.get("status") == "known"}


# ------------------------------------------------------------------------------------------
# comparison of one assembled system with the dense oracle


def _compare(rec, got, local, dof_n, Ndof, sig, api, allow_stale=None):
    """got = (K, C, M, F) sparse; local = oracle-side {group: 4-tuple}; identity-level comparison of
    values, exact comparison of shape / dtype / CSR structure."""
    n0 = None
    for s, name in enumerate(SLOTS):
        A = got[s]
        shape = (Ndof, Ndof) if s < 3 else (Ndof, 1)
        ok = rec.require(
            tuple(A.shape) == shape, "shape",
            f"{api} {name}: shape {tuple(A.shape)}, documented (Nn*dof_n + Lagrange dim) gives {shape} [{sig}]",
            api=api, slot=name, cause=str(allow_stale), **sig)
        if not ok:
            n0 = min(A.shape[0], Ndof)  # known stale-shape class: compare the common block
    dense, cplx = cs.dense_system(local, dof_n, Ndof)
    for s, name in enumerate(SLOTS):
        A = got[s]
        msg = cs.csr_wellformed(A)
        rec.require(msg == "", "csr_wellformed", f"{api} {name}: {msg}", api=api, slot=name, **sig)
        rec.require(np.iscomplexobj(A.data) == cplx[s], "dtype",
                    f"{api} {name}: dtype {A.dtype} but the element data is {'complex' if cplx[s] else 'real'}",
                    api=api, slot=name, **sig)
        D = dense[s]
        G = orc.dense(A)
        if s == 3:
            G = G.ravel() if G.shape[1:] == (1,) else G
        if n0 is not None:
            if s < 3:
                G, D = G[:n0, :n0], D[:n0, :n0]
            else:
                G, D = G[:n0], D[:n0]
        elif G.shape != D.shape:
            continue  # already reported through "shape"
        scale = max(1.0, float(np.abs(D).max()) if D.size else 1.0)
        diff = np.asarray(G - D)
        # complex path: real and imaginary parts separately
        e = max(float(np.abs(diff.real).max()), float(np.abs(diff.imag).max())) if diff.size else 0.0
        rec.close(e, scale, TOL, "scatter_add",
                  f"{api} {name} differs from the dense sum of the element arrays [{sig}]", api=api, slot=name, **sig)


# ------------------------------------------------------------------------------------------
# (a) user subclass + operation history


@st.composite
def mesh_recipes(draw):
    kind = draw(st.sampled_from(["1d", "2d", "2d", "2d", "3d"]))
    if kind == "1d":
        return draw(gm.recipes1d())
    if kind == "2d":
        return draw(gm.recipes2d(hmin=6, hmax=11, nmax=5))
    return draw(gm.recipes3d(types=["TETRA4", "HEXA8", "PRISM6", "TETRA10", "PRISM15", "HEXA20"], affine_ok=False, nmax=4))


@st.composite
def history_cases(draw):
    nprob = draw(st.sampled_from([1, 1, 1, 2]))
    dof_n = [draw(st.integers(1, 6)) for _ in range(nprob)]
    ngr = draw(st.integers(1, 5))
    # masks[p][g] : bit s set = group g contributes to slot s (K, C, M, F) of problem p
    masks = [[draw(st.integers(0, 15)) for _ in range(ngr)] for _ in range(nprob)]
    if all(m == 0 for m in masks[0]):
        masks[0][0] = draw(st.integers(1, 15))
    nops = draw(st.integers(1, 14))
    ops = []
    for _ in range(nops):
        k = draw(st.sampled_from(["values", "values", "toggle", "toggle", "complex", "lagrange", "lagrange", "dirichlet",
                                  "dirichlet", "bc_init", "mesh", "renumber", "move", "noop", "scribble"]))
        op = dict(op=k, p=draw(st.integers(0, nprob - 1)))
        if k == "values":
            op["seed"] = draw(st.integers(0, 999))
        elif k == "toggle":
            op["g"] = draw(st.integers(0, ngr - 1))
            op["slot"] = draw(st.integers(0, 3))
        elif k == "complex":
            op["mode"] = draw(st.integers(0, 2))
        elif k == "lagrange":
            op["n"] = draw(st.integers(1, 3))
            op["seed"] = draw(st.integers(0, 999))
        elif k == "dirichlet":
            op["n"] = draw(st.integers(1, 4))
            op["ncomp"] = draw(st.integers(1, 2))
            op["seed"] = draw(st.integers(0, 999))
        elif k == "mesh":
            op["recipe"] = draw(mesh_recipes())
        elif k == "renumber":
            op["perm"] = draw(st.integers(0, 999))
        elif k == "move":
            op["d"] = [draw(st.integers(-4, 4)) / 2.0 for _ in range(3)]
            op["rot"] = draw(st.integers(0, 3)) * 30.0
        ops.append(op)
    return dict(mesh=draw(mesh_recipes()), dof_n=dof_n, masks=masks, rot=draw(st.integers(0, 4)),
                keep_empty=draw(st.booleans()), fshape=draw(st.integers(0, 1)), cmode=draw(st.sampled_from([0, 0, 1, 2])),
                seed=draw(st.integers(0, 999)), ops=ops)


def _local_system(mesh, p, dof_n, st_):
    """{group: (K_e, C_e, M_e, F_e)} for problem p in the current harness state (pure function)."""
    groups = cs.candidate_groups(mesh)
    n = len(groups)
    order = [(i + st_["rot"]) % n for i in range(n)]
    out = {}
    for gi in order:
        g = groups[gi]
        mask = st_["masks"][p][gi] if gi < len(st_["masks"][p]) else 0
        if mask == 0 and not st_["keep_empty"]:
            continue
        cplx = st_["cmode"] == 1 or (st_["cmode"] == 2 and gi % 2 == 1)
        tup = []
        for s in range(4):
            if (mask >> s) & 1:
                tup.append(cs.element_values(st_["seed"], st_["version"], p, gi, s, g.Ne, g.nPe * dof_n, cplx, st_["fshape"]))
            else:
                tup.append(None)
        out[g] = tuple(tup)
    return out


def _keys(mesh, local, dof_n, Ndof):
    ids = {id(g): i for i, g in enumerate(cs.candidate_groups(mesh))}
    out = []
    for s in range(4):
        gs = tuple(ids[id(g)] for g, t in local.items() if t[s] is not None and g.Ne > 0)
        if gs:
            out.append((dof_n, s < 3, Ndof, gs))
    return out


def check_history(case, rec):
    mesh = gm.build(case["mesh"])
    dofs = case["dof_n"]
    nprob = len(dofs)
    if mesh.Nn * max(dofs) > MAXDOF:
        raise Inconclusive("too many dofs for the dense oracle")
    st_ = dict(masks=[list(m) for m in case["masks"]], rot=case["rot"], keep_empty=case["keep_empty"], fshape=case["fshape"],
               cmode=case["cmode"], seed=case["seed"], version=0)

    def provider(simu, p):
        return _local_system(simu.mesh, p, dofs[p], st_)

    simu = cs.HarnessSimu(mesh, dofs, provider)
    pts = simu.Get_problemTypes()
    nlag = [0] * nprob
    ddofs = [set() for _ in range(nprob)]  # distinct Dirichlet dofs (one multiplier per constrained dof)
    seen = set()
    stale = None  # why Get_K_C_M_F may legitimately... no: why its shape is *expected by the known finding* to be stale
    any_nt = False
    rec.label(f"dof_n:{dofs[0]}", f"nprob:{nprob}", "cmode:" + ["real", "complex", "mixed"][case["cmode"]])

    def verify(step):
        nonlocal any_nt
        m = simu.mesh
        types = gm.mesh_types(m)
        for p in range(nprob):
            Ndof = m.Nn * dofs[p] + ((nlag[p] + len(ddofs[p])) if nlag[p] > 0 else 0)
            local = _local_system(m, p, dofs[p], st_)
            sig = dict(types=types, dof_n=dofs[p], step=step)
            # class labels / non-triviality
            keys = _keys(m, local, dofs[p], Ndof)
            for k in keys:
                if k in seen:
                    rec.label("step:cached_map")
                    any_nt = True
                elif seen:
                    rec.label("step:key_change")
                    any_nt = True
            contributing = {}
            for g, t in local.items():
                for s in range(4):
                    if t[s] is not None:
                        contributing.setdefault(id(g), set()).add(s)
            if len(contributing) >= 2 and len({frozenset(v) for v in contributing.values()}) >= 2:
                rec.label("groups:>=2_with_different_slots")
            if len([g for g in local if g.dim < m.dim and any(t is not None for t in local[g])]):
                rec.label("groups:boundary_contributes")
            if len(gm.main_groups(m)) > 1:
                rec.label("mesh:mixed_main_groups")
            got = simu.Assembly(pts[p])
            _compare(rec, got, local, dofs[p], Ndof, sig, "Assembly")
            seen.update(keys)
            if nprob == 1:
                got = simu.Get_K_C_M_F()
                _compare(rec, got, local, dofs[p], Ndof, sig, "Get_K_C_M_F", allow_stale=stale)
                # second call returns the stored copy: must be the same system again
                got2 = simu.Get_K_C_M_F()
                for a, b in zip(got, got2):
                    rec.require(a.shape == b.shape and (a != b).nnz == 0, "get_twice", "two consecutive Get_K_C_M_F differ",
                                api="Get_K_C_M_F", **sig)

    verify("init")
    for i, op in enumerate(case["ops"]):
        k = op["op"]
        p = op["p"]
        m = simu.mesh
        rec.label("op:" + k)
        if k == "values":
            st_["seed"] = op["seed"]
            st_["version"] += 1
            simu.model.Need_Update()
            stale = None
        elif k == "toggle":
            if op["g"] < len(st_["masks"][p]):
                st_["masks"][p][op["g"]] ^= 1 << op["slot"]
            simu.model.Need_Update()
            stale = None
        elif k == "complex":
            st_["cmode"] = op["mode"]
            simu.model.Need_Update()
            stale = None
        elif k == "lagrange":
            rng = np.random.default_rng(op["seed"])
            n = min(op["n"], m.Nn)
            nodes = rng.choice(m.Nn, size=n, replace=False)
            comp = int(rng.integers(0, dofs[p]))
            simu._Bc_Add_Lagrange(LagrangeCondition(pts[p], nodes, nodes * dofs[p] + comp, [cs.UNKNOWNS[comp]],
                                                    np.array([0.0]), rng.uniform(-1, 1, n), "harness"))
            nlag[p] += 1
            stale = None
        elif k == "dirichlet":
            rng = np.random.default_rng(op["seed"])
            n = min(op["n"], m.Nn)
            nodes = rng.choice(m.Nn, size=n, replace=False)
            nc = min(op["ncomp"], dofs[p])
            comps = sorted(rng.choice(dofs[p], size=nc, replace=False).tolist())
            simu.add_dirichlet(nodes, [float(c) for c in comps], [cs.UNKNOWNS[c] for c in comps], problemType=pts[p])
            before = len(ddofs[p])
            ddofs[p].update(int(a) * dofs[p] + int(c) for a in nodes for c in comps)
            if nlag[p] > 0 and len(ddofs[p]) != before:
                stale = "dirichlet_with_lagrange"
        elif k == "bc_init":
            if any(x > 0 for x in nlag):
                stale = "bc_init_with_lagrange"
            simu.Bc_Init()
            nlag = [0] * nprob
            ddofs = [set() for _ in range(nprob)]
        elif k in ("mesh", "renumber"):
            if k == "mesh":
                new = gm.build(op["recipe"])
            else:
                perm = np.random.default_rng(op["perm"]).permutation(m.Nn)
                new = gm.rebuild(m, np.array(m.coord, float), perm)
            if new.Nn * max(dofs) > MAXDOF:
                raise Inconclusive("too many dofs for the dense oracle")
            simu.mesh = new  # documented: resets the matrices, the boundary conditions and the solutions
            nlag = [0] * nprob
            ddofs = [set() for _ in range(nprob)]
            seen.clear()
            stale = None
        elif k == "move":
            m.Translate(*op["d"])
            if op["rot"]:
                m.Rotate(op["rot"], (0, 0, 0), (0, 0, 1))
        elif k == "scribble":
            # (added by the lead) the caller modifies the matrices it was handed IN PLACE: they are its own copies,
            # the stored system and the cached sparsity pattern must not be reachable through them
            pt_ = simu.Get_problemTypes()[op["p"] % nprob]
            for A_ in simu.Assembly(pt_):
                A_ *= 0.5  # values only: the matrices Assembly() returns are built on the cached pattern arrays (the library itself copies them before any structural change), so structural edits are only made on the copies Get_K_C_M_F returns
            if nprob == 1:
                for A_ in simu.Get_K_C_M_F():  # documented copies: any in-place modification is the caller's business
                    A_ *= 0.5
                    A_.eliminate_zeros()
                    if A_.nnz:
                        A_.data[:] = 7.0
                        A_.indices[:] = 0
                    A_.indptr[:] = 0
        verify(f"{i}:{k}")
    rec.nontrivial(any_nt)


# ------------------------------------------------------------------------------------------
# (b) real simulations: assembled system = scatter-add of their own local system


@st.composite
def real_cases(draw):
    kind = draw(st.sampled_from(["elastic", "elastic", "thermal", "thermal", "beam", "beam", "weakforms", "weakforms", "phasefield"]))
    c = dict(kind=kind, seed=draw(st.integers(0, 999)))
    if kind == "elastic":
        dim = draw(st.sampled_from([2, 2, 3]))
        c["recipe"] = draw(gm.recipes2d(hmin=5, hmax=10, bend_ok=True) if dim == 2 else gm.recipes3d(nmax=4, bend_ok=True))
        c["law"] = draw(gmod.elastic_specs(dim, classes=("iso", "aniso")))
        c["rho"] = draw(st.integers(1, 12)) / 4.0
        c["rayleigh"] = [draw(st.integers(0, 4)) / 4.0, draw(st.integers(0, 4)) / 8.0]
    elif kind == "thermal":
        d = draw(st.sampled_from([1, 2, 2, 3]))
        c["recipe"] = draw(gm.recipes1d() if d == 1 else gm.recipes2d(hmin=5, hmax=10) if d == 2 else gm.recipes3d(nmax=4))
        c["k"] = draw(st.integers(1, 20)) / 4.0
        c["c"] = draw(st.integers(1, 12)) / 4.0
        c["thickness"] = draw(st.sampled_from([1.0, 0.5, 2.0]))
    elif kind == "phasefield":
        c["recipe"] = draw(gm.recipes2d(hmin=5, hmax=10))
        c["split"] = draw(st.sampled_from(["Bourdin", "Amor", "Miehe"]))
        c["regu"] = draw(st.sampled_from(["AT1", "AT2"]))
        c["E"] = draw(st.integers(2, 20)) / 2.0
        c["v"] = draw(st.integers(0, 4)) / 10.0
    elif kind == "beam":
        c["member"] = draw(gb.member_specs(dims=(2, 3)))
        c["rho"] = draw(st.integers(1, 12)) / 4.0
        c["tie"] = draw(st.booleans())
        c["ndir"] = draw(st.integers(0, 2))
    else:
        c["recipe"] = draw(st.one_of(
            gm.recipes2d(types=["TRI3", "TRI6"], hmin=5, hmax=10),
            gm.recipes2d(types=["QUAD4", "QUAD8"], hmin=5, hmax=10, nmax=4).filter(lambda r: len(r["verts"]) == 4)
            .map(lambda r: dict(r, organised=True)),
            gm.recipes3d(types=["TETRA4", "PRISM6", "HEXA8"], nmax=4)))
        # vector fields only on first-order elements (the form is evaluated (nPe*dof_n)^2 times: cost)
        c["vector"] = draw(st.booleans()) and gm.ORDER[c["recipe"]["elemType"]] == 1
        c["slots"] = draw(st.integers(0, 7))  # bit0 C, bit1 M, bit2 F
        c["thickness"] = draw(st.sampled_from([1.0, 0.5]))
        c["coef"] = draw(st.integers(1, 8)) / 2.0
    return c


def _check_real_simu(rec, simu, sig, tag, extra_lagrange=0):
    pt = simu.problemType
    dof_n = simu.Get_dof_n(pt)
    mesh = simu.mesh
    Ndof = mesh.Nn * dof_n + extra_lagrange
    local = simu.Construct_local_matrix_system(pt)
    # harness-side copy as plain arrays (FeArray -> ndarray) so the oracle arithmetic is numpy's
    local = {g: tuple(None if a is None else np.array(np.asarray(a)) for a in t) for g, t in local.items()}
    got = simu.Get_K_C_M_F()
    _compare(rec, got, local, dof_n, Ndof, dict(sig, step=tag), "Get_K_C_M_F")
    got = simu.Assembly(pt)
    _compare(rec, got, local, dof_n, Ndof, dict(sig, step=tag), "Assembly")


def check_real(case, rec):
    kind = case["kind"]
    if kind == "beam":
        spec = case["member"]
        simu, mesh, beam, frame = gb.build_member(spec)
        sig = dict(kind=kind, types=spec["elemType"], timo=bool(spec["timoshenko"]), dim=spec["dim"])
        rec.label(f"beam:{spec['elemType']}:{'timo' if spec['timoshenko'] else 'eb'}:{spec['dim']}d")
        simu.rho = case["rho"]
        nlag = 0
        if case["ndir"]:
            n1, n2 = gb.end_nodes(mesh, spec)
            unk = simu.Get_unknowns()
            simu.add_dirichlet(np.array([n1]), [0.0] * case["ndir"], unk[: case["ndir"]])
            nlag_dir = case["ndir"]
        else:
            nlag_dir = 0
        if case["tie"]:
            n1, n2 = gb.end_nodes(mesh, spec)
            simu.add_connection_fixed(np.array([n1, n2]))
            nlag = simu.Get_dof_n() + nlag_dir
            rec.label("beam:lagrange_rows")
        _check_real_simu(rec, simu, sig, "first", nlag)
        simu.rho = case["rho"] * 1.5 + 0.25
        _check_real_simu(rec, simu, sig, "reassembly", nlag)
        rec.nontrivial(mesh.Ne >= 2)
        return
    mesh = gm.build(case["recipe"])
    types = gm.mesh_types(mesh)
    rec.label(f"{kind}:{types}")
    if len(gm.main_groups(mesh)) > 1:
        rec.label("mesh:mixed_main_groups")
    if kind == "elastic":
        dim = gm.dim_of(case["recipe"]["elemType"])
        if mesh.Nn * dim > MAXDOF:
            raise Inconclusive("too many dofs for the dense oracle")
        mat = gmod.make_elastic(case["law"])
        simu = Simulations.Elastic(mesh, mat)
        sig = dict(kind=kind, types=types, dim=dim)
        simu.rho = case["rho"]
        simu.Set_Rayleigh_Damping_Coefs(*case["rayleigh"])
        _check_real_simu(rec, simu, sig, "first")
        simu.rho = case["rho"] + 0.5
        simu.Set_Rayleigh_Damping_Coefs(case["rayleigh"][0] + 0.25, case["rayleigh"][1])
        _check_real_simu(rec, simu, sig, "reassembly")
    elif kind == "phasefield":
        if mesh.Nn * 2 > MAXDOF:
            raise Inconclusive("too many dofs for the dense oracle")
        mat = Models.Elastic.Isotropic(2, E=case["E"], v=case["v"], planeStress=True, thickness=0.5)
        simu = Simulations.PhaseField(mesh, Models.PhaseField(mat, case["split"], case["regu"], 1.0, 0.2))
        sig = dict(kind=kind, types=types, dim=2)
        rec.label(f"phasefield:{case['split']}:{case['regu']}")
        rng = np.random.default_rng(case["seed"])
        # two problem types with different dofs per node in one object, assembled alternately (cached maps reused)
        for rnd in ("first", "reassembly"):
            for pt in simu.Get_problemTypes():
                dn = simu.Get_dof_n(pt)
                vals = 0.01 * rng.uniform(-1, 1, mesh.Nn * dn) if dn > 1 else rng.uniform(0, 0.6, mesh.Nn)
                simu._Set_solutions(pt, vals)
            for pt in simu.Get_problemTypes():
                dn = simu.Get_dof_n(pt)
                local = simu.Construct_local_matrix_system(pt)
                local = {g: tuple(None if a is None else np.array(np.asarray(a)) for a in t) for g, t in local.items()}
                _compare(rec, simu.Assembly(pt), local, dn, mesh.Nn * dn, dict(sig, step=rnd, dof_n=dn), "Assembly")
    elif kind == "thermal":
        if mesh.Nn > MAXDOF:
            raise Inconclusive("too many dofs for the dense oracle")
        model = Models.Thermal(k=case["k"], c=case["c"], thickness=case["thickness"])
        simu = Simulations.Thermal(mesh, model)
        sig = dict(kind=kind, types=types, dim=mesh.dim)
        _check_real_simu(rec, simu, sig, "first")
        model.k = case["k"] + 1.0
        _check_real_simu(rec, simu, sig, "reassembly")
    else:
        groups = gm.main_groups(mesh)
        if len(groups) != 1:
            raise Inconclusive("Simulations.WeakForms is single-group by contract (mesh.groupElem)")
        g = groups[0]
        dof_n = mesh.dim if case["vector"] else 1
        if mesh.Nn * dof_n > MAXDOF:
            raise Inconclusive("too many dofs for the dense oracle")
        field = Field(g, dof_n)
        coef = {"v": float(case["coef"])}
        if dof_n == 1:
            fK = BiLinearForm(lambda u, v: coef["v"] * u.grad.dot(v.grad))
        else:
            fK = BiLinearForm(lambda u, v: coef["v"] * Sym_Grad(u).ddot(Sym_Grad(v)))
        fC = BiLinearForm(lambda u, v: 0.5 * u.dot(v)) if case["slots"] & 1 else None
        fM = BiLinearForm(lambda u, v: coef["v"] * u.dot(v)) if case["slots"] & 2 else None
        fF = LinearForm(lambda v: coef["v"] * v) if (case["slots"] & 4 and dof_n == 1) else None
        model = Models.WeakForms(field, fK, fC, fM, fF, thickness=case["thickness"])
        simu = Simulations.WeakForms(mesh, model)
        sig = dict(kind=kind, types=types, dim=mesh.dim, dof_n=dof_n)
        rec.label(f"weakforms:dof_n={dof_n}:slots={case['slots']}")
        _check_real_simu(rec, simu, sig, "first")
        coef["v"] += 1.0
        model.thickness = case["thickness"] * 2.0
        _check_real_simu(rec, simu, sig, "reassembly")
        # the forms' own Assemble (same scatter-add contract, Ndof = Ncoords*dof_n)
        Ndof = mesh.Nn * dof_n
        A = fK.Assemble(field)
        Ke = np.array(np.asarray(fK.Integrate_e(field)))
        D = cs.scatter_matrix(np.zeros((Ndof, Ndof)), g.connect, dof_n, Ke)
        rec.require(tuple(A.shape) == (Ndof, Ndof), "shape", f"BiLinearForm.Assemble shape {A.shape}", api="BiLinearForm.Assemble", **sig)
        rec.close(orc.dense(A) - D, max(1.0, np.abs(D).max()), TOL, "scatter_add", "BiLinearForm.Assemble vs dense sum",
                  api="BiLinearForm.Assemble", **sig)
        if case.get("linear_assemble"):
            wts = np.arange(1.0, dof_n + 1.0)
            fL = LinearForm(lambda v: 2.0 * v) if dof_n == 1 else LinearForm(lambda v: (v * wts).sum(axis=-1, keepdims=True))
            Fe = np.array(np.asarray(fL.Integrate_e(field)))
            Dv = cs.scatter_vector(np.zeros(Ndof), g.connect, dof_n, Fe)
            V = fL.Assemble(field)
            rec.require(tuple(V.shape) == (Ndof, 1), "shape", f"LinearForm.Assemble shape {V.shape}", api="LinearForm.Assemble", **sig)
            rec.close(orc.dense(V).ravel() - Dv, max(1.0, np.abs(Dv).max()), TOL, "scatter_add", "LinearForm.Assemble vs dense sum",
                      api="LinearForm.Assemble", **sig)
    shared = any(np.unique(g.connect).size < g.connect.size for g in gm.main_groups(mesh))
    rec.nontrivial(mesh.Ne >= 2 and shared)


def real_cases_gen():
    """LinearForm.Assemble raises on every field (finding C03-b); while it is listed as known the class is
    excluded by construction and only its regress replay exercises it."""
    excluded = "C03-b" in _known_ids()

    def add(c):
        if c["kind"] == "weakforms":
            c = dict(c, linear_assemble=(not excluded) and c["seed"] % 2 == 0)
        if c["kind"] in ("elastic", "thermal") and c["seed"] % 3 == 0 and not c["recipe"].get("bend"):
            # orphan nodes (coordinate rows no element uses): the assembled matrices hold nothing for them
            c = dict(c, recipe=dict(c["recipe"], orphans=1 + c["seed"] % 2))
        return c

    return real_cases().map(add)


# ------------------------------------------------------------------------------------------
# (c) renumbering: P K P^T, P F, P u


@st.composite
def renum_cases(draw):
    kind = draw(st.sampled_from(["elastic", "elastic", "thermal"]))
    if kind == "elastic":
        dim = draw(st.sampled_from([2, 2, 3]))
        r = draw(gm.recipes2d(perm_ok=False, hmin=5, hmax=9) if dim == 2 else gm.recipes3d(perm_ok=False, nmax=4))
        c = dict(kind=kind, recipe=r, law=draw(gmod.elastic_specs(dim, classes=("iso", "aniso"))))
    else:
        d = draw(st.sampled_from([1, 2, 2, 3]))
        r = draw(gm.recipes1d() if d == 1 else gm.recipes2d(perm_ok=False, hmin=5, hmax=9) if d == 2 else gm.recipes3d(perm_ok=False, nmax=4))
        r = dict(r, perm=None)
        c = dict(kind=kind, recipe=r, k=draw(st.integers(1, 20)) / 4.0, thickness=draw(st.sampled_from([1.0, 0.5])))
    c["perm"] = draw(st.integers(0, 9999))
    c["dir"] = [draw(st.integers(-4, 4)) for _ in range(3)]
    c["fd"] = draw(st.sampled_from([0.25, 0.35, 0.5]))
    c["fn"] = draw(st.sampled_from([0.2, 0.3, 0.5]))
    c["load"] = [draw(st.integers(-6, 6)) / 2.0 for _ in range(4)]
    c["dval"] = [draw(st.integers(-4, 4)) / 4.0 for _ in range(3)]
    c["boundary_load"] = draw(st.booleans())
    # mapped: the node sets of the renumbered mesh are the images perm[nodes] of the sets of the original mesh, in the original
    # order (what a caller who renumbers a model does) - not sorted; otherwise they are selected again on the renumbered mesh
    c["sets"] = draw(st.sampled_from(["selected", "mapped"]))
    return c


def _renum_build(case, mesh, mapped=None):
    """simulation with Dirichlet + Neumann conditions selected geometrically (so that the same physical
    nodes are selected whatever the numbering); returns (simu, dof_n).  mapped = (perm, mesh0): the sets are selected on
    mesh0 and mapped through perm."""
    if mapped is not None:
        perm, mesh0 = mapped
        sel = mesh0
    else:
        perm, sel = None, mesh
    P = (lambda nodes: perm[np.asarray(nodes, int)]) if perm is not None else (lambda nodes: np.asarray(nodes, int))  # noqa: E731
    _all_nodes = P(np.asarray(sel.nodes, int))
    kind = case["kind"]
    coord = np.asarray(sel.coord, float)
    n = np.array(case["dir"], float)
    dimc = sel.inDim
    n[dimc:] = 0
    if np.linalg.norm(n) == 0:
        n[0] = 1.0
    used = gm.used_nodes(sel)
    s = coord @ n
    lo, hi = s[used].min(), s[used].max()
    nodesD = used[s[used] <= lo + case["fd"] * (hi - lo)]
    nodesN = used[s[used] >= hi - case["fn"] * (hi - lo)]
    nodesN = np.setdiff1d(nodesN, nodesD)
    bnodes = np.setdiff1d(gm.boundary_nodes(sel), nodesD)
    nodesD, nodesN, bnodes = P(nodesD), P(nodesN), P(bnodes)
    a, b, c_, d_ = case["load"]
    if kind == "elastic":
        dim = mesh.dim
        simu = Simulations.Elastic(mesh, gmod.make_elastic(case["law"]))
        unk = simu.Get_unknowns()
        dv = case["dval"]
        simu.add_dirichlet(nodesD, [(lambda x, y, z, q=dv[i]: q * (1 + 0.5 * x - 0.25 * y + 0.125 * z)) for i in range(dim)], unk)
        if nodesN.size:
            vals = [lambda x, y, z: a + b * x + c_ * y, d_, lambda x, y, z: c_ - a * z]
            simu.add_neumann(nodesN, vals[:dim], unk)
        if case["boundary_load"]:
            bn = bnodes
            if bn.size:
                if dim == 2:
                    simu.add_lineLoad(bn, [lambda x, y, z: b + a * y], ["x"])
                else:
                    simu.add_surfLoad(bn, [lambda x, y, z: b + a * y], ["z"])
        simu.add_volumeLoad(_all_nodes, [d_ + 0.5], [unk[-1]])
        return simu, dim
    simu = Simulations.Thermal(mesh, Models.Thermal(k=case["k"], c=1.0, thickness=case["thickness"]))
    simu.add_dirichlet(nodesD, [lambda x, y, z, q=case["dval"][0]: q * (1 + 0.5 * x - 0.25 * y + 0.125 * z)], ["t"])
    if nodesN.size:
        simu.add_neumann(nodesN, [lambda x, y, z: a + b * x + c_ * y], ["t"])
    # body source (add_volumeLoad documents dim 2 and 3 only; a 1D bar takes it as a line load)
    if mesh.dim == 1:
        simu.add_lineLoad(_all_nodes, [d_ + 0.5], ["t"])
    else:
        simu.add_volumeLoad(_all_nodes, [d_ + 0.5], ["t"])
    return simu, 1


def check_renumbering(case, rec):
    kind = case["kind"]
    mesh0 = gm.build(dict(case["recipe"], perm=None))
    Nn = mesh0.Nn
    types = gm.mesh_types(mesh0)
    sig = dict(kind=kind, types=types, dim=mesh0.dim)
    rec.label(f"{kind}:{types}")
    dof_guess = mesh0.dim if kind == "elastic" else 1
    if Nn * dof_guess > MAXDOF:
        raise Inconclusive("too many dofs for the dense oracle")
    perm = np.random.default_rng(case["perm"]).permutation(Nn)
    mesh1 = gm.rebuild(mesh0, np.array(mesh0.coord, float), perm)
    simu0, dof_n = _renum_build(case, mesh0)
    simu1, _ = _renum_build(case, mesh1, mapped=(perm, mesh0) if case.get("sets") == "mapped" else None)
    rec.label("sets:" + case.get("sets", "selected"))
    pd = (perm[:, None] * dof_n + np.arange(dof_n)[None, :]).ravel()  # new dof of old dof

    K0, C0, M0, F0 = [orc.dense(A) for A in simu0.Get_K_C_M_F()]
    K1, C1, M1, F1 = [orc.dense(A) for A in simu1.Get_K_C_M_F()]
    for name, A0, A1 in (("K", K0, K1), ("C", C0, C1), ("M", M0, M1)):
        rec.require(A0.shape == A1.shape, "shape", f"{name}: {A0.shape} vs {A1.shape}", api="renumber", slot=name, **sig)
        rec.close(A1[np.ix_(pd, pd)] - A0, max(np.abs(A0).max(), 1e-300) if np.abs(A0).max() > 0 else 1.0, TOL, "permuted_system",
                  f"{types}: {name} of the renumbered mesh is not P {name} P^T", slot=name, **sig)
    # loads and prescribed values
    b0 = np.asarray(simu0.Bc_vector_Neumann(), float).ravel()
    b1 = np.asarray(simu1.Bc_vector_Neumann(), float).ravel()
    rec.close(b1[pd] - b0, max(1.0, np.abs(b0).max()), 1e-11, "permuted_load", f"{types}: Neumann vector not permuted", **sig)
    d0 = np.sort(np.asarray(simu0.Bc_dofs_Dirichlet(), int))
    d1 = np.sort(np.asarray(simu1.Bc_dofs_Dirichlet(), int))
    rec.require(np.array_equal(np.sort(pd[d0]), d1), "permuted_dirichlet_dofs", f"{types}: Dirichlet dofs not permuted", **sig)
    g0 = np.asarray(simu0.Bc_vector_Dirichlet(), float).ravel()
    g1 = np.asarray(simu1.Bc_vector_Dirichlet(), float).ravel()
    rec.close(g1[pd] - g0, max(1.0, np.abs(g0).max()), 1e-12, "permuted_dirichlet_values", "", **sig)

    # solvability decided by the harness (dense), then the real solves
    free = np.setdiff1d(np.arange(Nn * dof_n), d0)
    used = gm.used_nodes(mesh0)
    ud = (used[:, None] * dof_n + np.arange(dof_n)[None, :]).ravel()
    free = np.intersect1d(free, ud)
    if free.size == 0:
        raise Inconclusive("no free dof")
    Kff = K0[np.ix_(free, free)]
    if np.linalg.cond(Kff) > 1e10:
        raise Inconclusive("restrained system ill-conditioned (Dirichlet set does not remove the kernel)")
    u0 = np.asarray(simu0.Solve(), float).ravel()
    u1 = np.asarray(simu1.Solve(), float).ravel()
    # independent dense solve of the stated system on the original numbering
    rhs = b0[free] - K0[np.ix_(free, d0)] @ g0[d0]
    uref = g0.copy()
    uref[free] = np.linalg.solve(Kff, rhs)
    scale = max(np.abs(uref).max(), 1e-3)
    tol = 1e-8 * (1.0 + np.linalg.cond(Kff) / 1e6)
    rec.close(u1[pd] - u0, scale, tol, "permuted_solution", f"{types}: solution of the renumbered mesh is not the permuted solution", **sig)
    rec.close(u0 - uref, scale, tol, "solution_of_scatter_system", f"{types}: Solve() differs from the dense solve of the assembled system", **sig)
    nontriv = (not np.array_equal(perm, np.arange(Nn))) and free.size > 0 and np.abs(rhs).max() > 0 and mesh0.Ne >= 2
    rec.nontrivial(nontriv)


SUBS = [
    Sub("custom_simu_history", check_history, gen=history_cases, quick=250, thorough=800, shards=8),
    Sub("real_simus", check_real, gen=real_cases_gen, quick=200, thorough=600, shards=4),
    Sub("renumbering", check_renumbering, gen=renum_cases, quick=200, thorough=600, shards=4),
]


# ------------------------------------------------------------------------------------------
# large systems (added by the lead): size-dependent index arithmetic. The dense oracle does not scale, so the
# reference is scipy's COO scatter-add of the same element arrays with indices built from `connect` only.


def enum_large(tier):
    # Ndof just below / above 2**15.5 ~ 46341 (row*Ndof+col leaves int32), and a larger one in the thorough tier
    yield dict(n=151, dof_n=2, problem="elastic")  # 22801 nodes -> 45602 dofs
    yield dict(n=154, dof_n=2, problem="elastic")  # 23716 nodes -> 47432 dofs
    yield dict(n=217, dof_n=1, problem="thermal")  # 47089 dofs
    # number of element ENTRIES of one slot just above 2**22 (block-wise reductions of the value array): 20 x 20 x 19 HEXA8 in
    # elasticity = 7600 x 24 x 24 = 4 377 600 entries; above 2**24 in the thorough tier (31**3 elements)
    yield dict(n=[21, 21, 20], dof_n=3, problem="elastic3d")
    if tier == "thorough":
        yield dict(n=260, dof_n=2, problem="elastic")  # 135200 dofs
        yield dict(n=[32, 32, 32], dof_n=3, problem="elastic3d")


def check_large(case, rec):
    import scipy.sparse as sp
    from EasyFEA import Mesh
    from EasyFEA.FEM._group_elem import GroupElemFactory

    n = case["n"]
    if case["problem"] == "elastic3d":
        nx, ny, nz = n
        X, Y, Z = np.meshgrid(np.linspace(0.0, 1.0, nx), np.linspace(0.0, 1.2, ny), np.linspace(0.0, 0.9, nz), indexing="ij")
        coord = np.column_stack([X.ravel(), Y.ravel(), Z.ravel()])
        idx = np.arange(nx * ny * nz).reshape(nx, ny, nz)
        c = lambda i, j, k: idx[i:nx - 1 + i, j:ny - 1 + j, k:nz - 1 + k].ravel()  # noqa: E731
        conn = np.column_stack([c(0, 0, 0), c(1, 0, 0), c(1, 1, 0), c(0, 1, 0), c(0, 0, 1), c(1, 0, 1), c(1, 1, 1), c(0, 1, 1)])
        mesh = Mesh({"HEXA8": GroupElemFactory.Create("HEXA8", conn, coord)})
        simu = Simulations.Elastic(mesh, Models.Elastic.Isotropic(3, E=3.0, v=0.25))
        n = 0
    else:
        xs = np.linspace(0.0, 1.0, n)
        X, Y = np.meshgrid(xs, xs, indexing="ij")
        coord = np.column_stack([X.ravel(), Y.ravel(), np.zeros(n * n)])
        idx = np.arange(n * n).reshape(n, n)
        conn = np.column_stack([idx[:-1, :-1].ravel(), idx[1:, :-1].ravel(), idx[1:, 1:].ravel(), idx[:-1, 1:].ravel()])
        mesh = Mesh({"QUAD4": GroupElemFactory.Create("QUAD4", conn, coord)})
    if case["problem"] == "elastic3d":
        pass
    elif case["problem"] == "elastic":
        simu = Simulations.Elastic(mesh, Models.Elastic.Isotropic(2, E=3.0, v=0.25))
    else:
        simu = Simulations.Thermal(mesh, Models.Thermal(k=1.5, c=2.0))
    dof_n = case["dof_n"]
    Ndof = mesh.Nn * dof_n
    sig = dict(problem=case["problem"], Ndof=int(Ndof))
    rec.label(f"large:{case['problem']}:Ndof={Ndof}")
    rec.label("entries:" + str(int(sum(g.Ne * (g.nPe * dof_n) ** 2 for g in mesh.Get_list_groupElem(mesh.dim)))))
    local = simu.Construct_local_matrix_system(simu.problemType)
    got = simu.Get_K_C_M_F()
    for slot, name in enumerate("KCM"):
        rows, cols, vals = [], [], []
        for g, arrs in local.items():
            A_e = arrs[slot]
            if A_e is None:
                continue
            A_e = np.asarray(A_e)
            dofs = (g.connect[:, :, None] * dof_n + np.arange(dof_n)[None, None, :]).reshape(g.Ne, -1)
            m = dofs.shape[1]
            rows.append(np.repeat(dofs, m, axis=1).ravel())
            cols.append(np.tile(dofs, (1, m)).ravel())
            vals.append(A_e.reshape(g.Ne, -1).ravel())
        if not rows:
            continue
        ref = sp.coo_matrix((np.concatenate(vals), (np.concatenate(rows).astype(np.int64), np.concatenate(cols).astype(np.int64))),
                            shape=(Ndof, Ndof)).tocsr()
        A = got[slot].tocsr()
        rec.require(A.shape == ref.shape, "large_shape", f"{name}: {A.shape} vs {ref.shape}", **sig)
        diff = abs(A - ref)
        err = diff.max() if diff.nnz else 0.0
        rec.close(err, abs(ref).max(), 1e-12, "large_scatter_add", f"{name} of a {Ndof}-dof system differs from the COO scatter-add of "
                  f"its element matrices ({int((diff > 1e-12 * abs(ref).max()).sum())} entries)", **sig)
        rec.require(A.nnz == ref.nnz or abs(A.nnz - ref.nnz) <= 0.01 * ref.nnz, "large_pattern", f"{name}: nnz {A.nnz} vs {ref.nnz}", **sig)
    rec.nontrivial(True)


SUBS.append(Sub("large_system", check_large, enum=enum_large))


# ------------------------------------------------------------------------------------------
# (added by the lead, round 8) the connectivity handed over in a narrow integer type (what a mesh file reader may return): the dof
# numbers node * dof_n + d leave the range of the type (169 nodes fit uint8, 338 dofs do not); same matrices as with int64


def enum_connect_dtypes(tier):
    for dt in ("uint8", "int16", "uint16", "int32"):
        for problem in ("elastic", "thermal"):
            yield dict(dtype=dt, problem=problem, n=13 if dt == "uint8" else 14)


def check_connect_dtypes(case, rec):
    from EasyFEA import Mesh
    from EasyFEA.FEM._group_elem import GroupElemFactory

    n = case["n"]
    xs = np.linspace(0.0, 1.0, n)
    X, Y = np.meshgrid(xs, xs * 0.8, indexing="ij")
    coord = np.column_stack([X.ravel() + 0.1 * Y.ravel(), Y.ravel(), np.zeros(n * n)])
    idx = np.arange(n * n).reshape(n, n)
    conn = np.column_stack([idx[:-1, :-1].ravel(), idx[1:, :-1].ravel(), idx[1:, 1:].ravel(), idx[:-1, 1:].ravel()])
    sig = dict(dtype=case["dtype"], problem=case["problem"])
    rec.label("connect:" + case["dtype"], "problem:" + case["problem"])
    out = []
    for dt in (case["dtype"], "int64"):
        mesh = Mesh({"QUAD4": GroupElemFactory.Create("QUAD4", conn.astype(dt), coord.copy())})
        if case["problem"] == "elastic":
            simu = Simulations.Elastic(mesh, Models.Elastic.Isotropic(2, E=3.0, v=0.25))
        else:
            simu = Simulations.Thermal(mesh, Models.Thermal(k=1.5, c=2.0))
        simu.rho = 1.5
        K, C, M, _ = simu.Get_K_C_M_F()
        out.append([orc.dense(A) for A in (K, C, M)])
    dof_n = 2 if case["problem"] == "elastic" else 1
    for name, A, B in zip("KCM", out[0], out[1]):
        rec.require(A.shape == B.shape == (n * n * dof_n,) * 2, "connect_dtype_shape", f"{name}: shape {A.shape} vs {B.shape}", **sig)
        rec.close(A - B, float(np.abs(B).max()) + 1e-300, 1e-13, "connect_dtype_same_matrix",
                  f"{name} assembled from a {case['dtype']} connectivity ({n * n} nodes, {n * n * dof_n} dofs) differs from the one assembled "
                  "from the same connectivity as int64", slot=name, **sig)
    rec.nontrivial(True)


SUBS.append(Sub("connect_dtypes", check_connect_dtypes, enum=enum_connect_dtypes,
                doc="integer type of the connectivity array x elastic / thermal on a grid whose dof numbers exceed the range of the narrow types"))
