"""C05 - every time scheme satisfies its documented update relations and the discrete equation of motion;
system-matrix weights are the derivatives of the evaluation-point states; energy behaviour of
average-acceleration Newmark / midpoint / backward Euler."""

import contextlib
import io

import numpy as np
from hypothesis import strategies as st

from EasyFEA import AlgoType, ElemType, MatrixType, Mesher, Models, Simulations
from EasyFEA.FEM import Operators
from EasyFEA.Geoms import Line, Point
from EasyFEA.Models.HyperElastic._state import HyperElasticState

from vlib import c05_schemes as cs
from vlib import c18_hyper as hx
from vlib import gen_beam as gb
from vlib import gen_mesh as gm
from vlib import gen_model as gmod
from vlib import oracles as orc
from vlib.runner import Inconclusive, Sub

PROPERTY = "C05"
RULE = (
    "Hypothesis draws a small problem (Elastic 2D/3D with Rayleigh damping, Thermal 1D/2D, one inclined beam member "
    "EB/Timoshenko, two-member beam frame with a Lagrange connection; <=400 dofs), 0-2 disjoint Dirichlet sets "
    "(homogeneous / constant / nodal array, any component subset), 0-2 nodal load sets, an arbitrary prior state "
    "(u_n, v_n, a_n) by seed and magnitude, one of the 7 algorithms with dt on a log grid 1e-3..25 and "
    "(alpha, beta, gamma) on grids inside the ranges the setters accept; histories are operation lists inside the "
    "case (per step: optional new scheme / loads / damping / Dirichlet scale). Non-trivial = prior state non-zero in "
    "u and v (and a for second-order schemes) and a non-zero load, damping or imposed value, with at least one free "
    "dof; energy runs: E_0 > 0. distinct = sha1 of the case."
)
ASSUMPTIONS = [
    "K, C, M of Get_K_C_M_F() and the load vector Bc_vector_Neumann()+F are the trusted inputs of the scheme (C02/C03/C09)",
    "update relations transcribed from the AlgoType docstrings (Solvers.py): newmark (predictor/update), midpoint (update), "
    "hht ('update identical to newmark', evaluation points x_t=(1-alpha)x_{n+1}+alpha x_n), hht_newmark (only u_t shifted, "
    "beta=(1+alpha)^2/4, gamma=1/2+alpha, newmark update since 'alpha=0 recovers newmark exactly'), euler_implicit "
    "(u_t, v_t, a_t formulas), euler_explicit (M a^n = F - C v^n - K u^n, u^{n+1}=u^n+dt v^n, v^{n+1}=v^n+dt a^n)",
    "newmark evaluation point from the Solver_Set_Hyperbolic_Algorithm docstring (K u^{n+1} + C v^{n+1} + M a^{n+1} = F^{n+1}); "
    "midpoint evaluation point from 'hht with alpha=1/2, beta=1/4, gamma=1/2' (averages of the n and n+1 states)",
    "parabolic theta-scheme from the Solver_Set_Parabolic_Algorithm docstring: K u^{n+1} + C v^{n+1} = F^{n+1}, "
    "u^{n+1} = u^n + dt[(1-alpha) v^n + alpha v^{n+1}] (the AlgoType.parabolic one-liner 'K u^{n+alpha} + ...' is the "
    "equivalent generalized-midpoint reading and is not used)",
    "the load of a step is the vector currently applied (no time interpolation of F is offered by the API)",
    "free dofs = not in Bc_dofs_Dirichlet; with Lagrange connections the residual is required to lie in the span of the "
    "connection rows (multiplier forces)",
    "system matrices with cond(A_ff) > 1e10 are outside the decidable domain (inconclusive); dense LAPACK is the reference",
    "energy: a_0 = -M_ff^{-1} K_ff u_0 (or u_0 = 0, a_0 = 0) for Newmark, which its conservation proof needs",
    "parabolic alpha = 0 (documented 'forward Euler') divides by zero in the implicit form: excluded class, one regress replay",
    "forward Euler is not generated where M_ff is singular (beams carry no rotary inertia) nor in Newton form (setter rejects it)",
]
LEVEL_TEXT = ("generated problems x 7 algorithms x parameter grids x arbitrary prior states and step histories: documented update "
              "relations, discrete equation of motion on free dofs, K/C/M weights = derivatives of the evaluation states "
              "(code and documentation), Newton form = direct form, exact energy conservation / decay over 50-200 steps")
LEVEL_NOTE = ("exploration with bounded sizes (<=400 dofs, <=200 steps); direct sparse solver only; documented formulas are the "
              "oracle; WeakForms front-end and MPI not exercised")
TECHNIQUE = "property-based testing (Hypothesis, operation-list histories) vs an independent transcription of the documented schemes"
DESIGN_REF = "DESIGN.md 4/C05"
READY = True

MAXDOF = 400
COND_MAX = 1e10
TOL_ID = 1e-12       # update relations / derivative identities (observed <= 1e-15)
TOL_RES = 1e-10      # residual relative to |K| s_u + |C| s_v + |M| s_a + |F| per row (observed <= 4e-13)
TOL_SOL = 1e-8       # solution vs solution, x (1 + cond/1e6)
TOL_E = 1e-9         # energy drift relative to 1/2|u|'|K||u| + 1/2|v|'|M||v|, x (1 + cond/1e4) (observed <= 1.5e-12)
TOL_HYPER = 1e-6     # Newton stopping level for the hyperelastic residual

DTS = [0.001, 0.01, 0.05, 0.1, 0.5, 1.0, 4.0, 25.0]
BETAS = [1 / 12, 1 / 6, 0.25, 0.3025, 0.5, 1.0, 2.0]
GAMMAS = [0.0, 0.25, 0.5, 0.6, 1.0, 1.5]
ALPHAS_HHT = [0.0, 0.05, 0.1, 1 / 3, 0.5, 0.7, 0.95]
ALPHAS_HN = [0.0, 0.05, 1 / 6, 0.3, 1 / 3]
ALPHAS_PAR = [0.05, 0.25, 0.5, 2 / 3, 1.0]
DIRS = np.array([[1, 0, 0], [0, 1, 0], [0, 0, 1], [1, 1, 0], [1, -1, 0], [1, 1, 1]], float)

T2 = ["TRI3", "TRI6", "QUAD4", "QUAD8", "QUAD9", "TRI10"]
T3 = ["TETRA4", "HEXA8", "PRISM6", "TETRA10"]


def _quiet():
    return contextlib.redirect_stdout(io.StringIO())


def _mx(*xs):
    return float(max((np.abs(np.asarray(x)).max() if np.size(x) else 0.0) for x in xs))


# ------------------------------------------------------------------------------------------
# generators


@st.composite
def schemes(draw, algos):
    algo = draw(st.sampled_from(list(algos)))
    s = dict(algo=algo, dt=draw(st.sampled_from(DTS)), alpha=0.5, beta=0.25, gamma=0.5, defaults=False,
             byname=draw(st.integers(0, 3)) == 0)
    if algo == "parabolic":
        s["alpha"] = draw(st.sampled_from(ALPHAS_PAR))
        s["defaults"] = draw(st.integers(0, 5)) == 0
    elif algo == "hht_newmark":
        s["alpha"] = draw(st.sampled_from(ALPHAS_HN))
        # beta/gamma given by the user are documented to be overwritten
        s["beta"] = draw(st.sampled_from(BETAS))
        s["gamma"] = draw(st.sampled_from(GAMMAS))
    elif algo in ("newmark", "hht"):
        s["defaults"] = draw(st.integers(0, 5)) == 0
        if not s["defaults"]:
            s["beta"] = draw(st.sampled_from(BETAS))
            s["gamma"] = draw(st.sampled_from(GAMMAS))
        s["alpha"] = draw(st.sampled_from(ALPHAS_HHT))
    else:
        # midpoint / euler: the other parameters are accepted and documented as unused
        s["alpha"] = draw(st.sampled_from(ALPHAS_HHT))
        s["beta"] = draw(st.sampled_from(BETAS))
        s["gamma"] = draw(st.sampled_from(GAMMAS))
    return s


@st.composite
def bc_sets(draw, ncomp, nmax=2, kinds=("zero", "const", "array"), nmin=0):
    n = draw(st.integers(nmin, nmax))
    out = []
    k = draw(st.integers(0, len(DIRS) - 1))
    for i in range(n):
        mask = [draw(st.booleans()) for _ in range(ncomp)]
        if not any(mask):
            mask[draw(st.integers(0, ncomp - 1))] = True
        out.append(dict(dir=k, side=i % 2, frac=draw(st.sampled_from([0.0, 0.15, 0.3])), comps=mask,
                        mode=draw(st.sampled_from(list(kinds))), val=draw(st.integers(-8, 8)) / 4.0,
                        seed=draw(st.integers(0, 999))))
    return out


@st.composite
def load_sets(draw, ncomp, nmax=2):
    n = draw(st.integers(0, nmax))
    out = []
    for i in range(n):
        mask = [draw(st.booleans()) for _ in range(ncomp)]
        if not any(mask):
            mask[draw(st.integers(0, ncomp - 1))] = True
        out.append(dict(dir=draw(st.integers(0, len(DIRS) - 1)), side=draw(st.integers(0, 1)),
                        frac=draw(st.sampled_from([0.0, 0.3, 1.0])), comps=mask,
                        amp=draw(st.sampled_from([1.0, 1.0, 10.0, 0.1])), seed=draw(st.integers(0, 999))))
    return out


@st.composite
def states(draw):
    return dict(seed=draw(st.integers(0, 9999)), su=draw(st.sampled_from([1.0, 1.0, 1.0, 0.1, 0.1, 10.0, 0.0])),
                sv=draw(st.sampled_from([1.0, 1.0, 1.0, 10.0, 0.1, 0.1, 0.0])),
                sa=draw(st.sampled_from([1.0, 1.0, 1.0, 100.0, 0.1, 10.0, 0.0])))


@st.composite
def frame_specs(draw):
    dim = draw(st.sampled_from([2, 3]))
    m = draw(gb.member_specs(dims=(dim,), types=("SEG2", "SEG3", "SEG4")))
    for _ in range(30):
        d2 = [draw(st.integers(-6, 6)) / 2.0 for _ in range(dim)] + [0.0] * (3 - dim)
        if np.linalg.norm(d2) >= 1.0:
            break
    else:
        d2 = [0.0, 1.5, 0.0]
    m["d2"] = d2
    m["ne"] = min(m["ne"], 3)
    m["conn"] = draw(st.sampled_from(["fixed", "hinged"]))
    return m


def ncomp_of(p):
    k = p["kind"]
    if k == "elastic":
        return gm.dim_of(p["recipe"]["elemType"])
    if k == "thermal":
        return 1
    return 3 if p["member"]["dim"] == 2 else 6


@st.composite
def problems(draw, kinds=("elastic2d", "elastic2d", "elastic3d", "thermal", "beam", "frame"), damping=True):
    kind = draw(st.sampled_from(list(kinds)))
    if kind in ("elastic2d", "elastic3d"):
        if kind == "elastic2d":
            r = draw(gm.recipes2d(types=T2, hmin=6, hmax=10, nmax=5))
            law = draw(gmod.elastic_specs(2, classes=("iso", "iso", "aniso", "ortho")))
        else:
            r = draw(gm.recipes3d(types=T3, nmax=4))
            law = draw(gmod.elastic_specs(3, classes=("iso", "iso", "aniso")))
        p = dict(kind="elastic", recipe=r, law=law, rho=draw(st.integers(1, 12)) / 4.0)
        if damping:
            p["rayleigh"] = [draw(st.sampled_from([0.0, 0.5, 2.0])), draw(st.sampled_from([0.0, 0.05, 1.0]))]
            # gyro = [gC, gK]: a skew (gyroscopic / circulatory) part added to the element C and K, so that the system
            # matrix of the step is not symmetric ("for all K/C/M")
            p["gyro"] = draw(st.sampled_from([None, None, [0.5, 0.0], [2.0, 0.3]]))
        else:
            p["rayleigh"] = [0.0, 0.0]
        return p
    if kind == "thermal":
        r = draw(st.one_of(gm.recipes1d(), gm.recipes2d(types=T2, hmin=6, hmax=10, nmax=5)))
        return dict(kind="thermal", recipe=r, k=draw(st.integers(1, 20)) / 4.0, c=draw(st.integers(1, 12)) / 4.0,
                    rho=draw(st.integers(1, 12)) / 4.0, thickness=draw(st.sampled_from([1.0, 0.5, 2.0])))
    if kind == "beam":
        return dict(kind="beam", member=draw(gb.member_specs(dims=(2, 3), types=("SEG2", "SEG3", "SEG4"))),
                    rho=draw(st.integers(1, 12)) / 4.0)
    return dict(kind="frame", member=draw(frame_specs()), rho=draw(st.integers(1, 12)) / 4.0)


def algos_for(p, newton=False):
    if p["kind"] == "thermal":
        return ("parabolic",)
    if p["kind"] in ("beam", "frame"):
        # no C (parabolic form singular), M without rotary inertia (forward Euler matrix singular)
        return ("newmark", "hht", "hht_newmark", "midpoint", "euler_implicit")
    a = ["newmark", "hht", "hht_newmark", "midpoint", "euler_implicit"]
    if not newton:
        a.append("euler_explicit")
    if p["rayleigh"][0] > 0:
        a.append("parabolic")  # K u + C v = F with C = cK K + cM M positive definite
    return tuple(a)


# ------------------------------------------------------------------------------------------
# building


class _NewtonMixin:
    """The same linear problem posed in incremental form as the base-class docstring of
    Construct_local_matrix_system prescribes for a nonlinear problem: the unknown is delta u and F_e is the
    complete residual -R_e = -(K_e u_t + C_e v_t + M_e a_t), with (u_t, v_t, a_t) from
    _Solver_Evaluate_u_v_a_for_time_scheme at the current Newton iterate."""

    def Construct_local_matrix_system(self, problemType):
        out = super().Construct_local_matrix_system(problemType)
        if not self.isNonLinear:
            return out
        dof_n = self.Get_dof_n(problemType)
        u = self._Solver_Get_Newton_Raphson_current_solution()
        u_t, v_t, a_t = self._Solver_Evaluate_u_v_a_for_time_scheme(problemType, u)
        new = {}
        for g, (K_e, C_e, M_e, F_e) in out.items():
            asm = g.Get_assembly_e(dof_n)
            R_e = np.einsum("eij,ej->ei", np.asarray(K_e), u_t[asm])
            if C_e is not None and v_t is not None:
                R_e = R_e + np.einsum("eij,ej->ei", np.asarray(C_e), v_t[asm])
            if M_e is not None and a_t is not None:
                R_e = R_e + np.einsum("eij,ej->ei", np.asarray(M_e), a_t[asm])
            new[g] = (K_e, C_e, M_e, -R_e)
        return new


class NewtonElastic(_NewtonMixin, Simulations.Elastic):
    pass


class _GyroMixin:
    """element matrices with a skew part: C_e += gC (U_M - U_M^T), K_e += gK (U_K - U_K^T), U_X the strict upper
    triangle of X_e.  x^T (U - U^T) x = 0, so definiteness (hence solvability of the step) is unchanged."""

    _verif_gyro = (0.0, 0.0)

    def Construct_local_matrix_system(self, problemType):
        out = super().Construct_local_matrix_system(problemType)
        gC, gK = self._verif_gyro
        new = {}
        for g, (K_e, C_e, M_e, F_e) in out.items():
            K_e, M_e = np.asarray(K_e), np.asarray(M_e)
            UM, UK = np.triu(M_e, 1), np.triu(K_e, 1)
            C2 = (0.0 if C_e is None else np.asarray(C_e)) + gC * (UM - UM.transpose(0, 2, 1))
            K2 = K_e + gK * (UK - UK.transpose(0, 2, 1))
            new[g] = (K2, C2, M_e, F_e)
        return new


class GyroElastic(_GyroMixin, Simulations.Elastic):
    pass


class NewtonGyroElastic(_NewtonMixin, _GyroMixin, Simulations.Elastic):
    pass


class NewtonThermal(_NewtonMixin, Simulations.Thermal):
    pass


class NewtonBeam(_NewtonMixin, Simulations.Beam):
    pass


def _frame(spec, cls):
    dim = spec["dim"]
    p1 = np.array(spec["p1"], float)
    d1, d2 = np.array(spec["d"], float), np.array(spec["d2"], float)
    pj, p3 = p1 + d1, p1 + d1 + d2
    if np.linalg.norm(np.cross(d1, d2)) < 1e-9 and float(d1 @ d2) < 0:
        raise Inconclusive("frame members fold back on each other")
    beams = []
    for a, b in ((p1, pj), (pj, p3)):
        L = float(np.linalg.norm(b - a))
        line = Line(Point(*a), Point(*b), L / spec["ne"])
        sec = gb._section(spec["b"], spec["h"]).copy()
        y0 = np.array(spec["yAxis"], float) if spec.get("yAxis") else np.array([0.0, 1.0, 0.0])
        i = (b - a) / L
        if np.linalg.norm(np.cross(i, y0)) <= 1e-6:
            y0 = np.cross([0, 0, 1.0], i)
            if np.linalg.norm(y0) <= 1e-6:
                y0 = np.array([1.0, 0.0, 0.0])
        beams.append(Models.Beam.Isotropic(dim, line, sec, spec["E"], spec["v"], yAxis=tuple(y0)))
    mesh = Mesher().Mesh_Beams(beams, elemType=ElemType(spec["elemType"]))
    simu = cls(mesh, Models.Beam.BeamStructure(beams), useTimoshenko=bool(spec["timoshenko"]))
    c = np.asarray(simu.mesh.coord, float)
    joint = np.where(np.linalg.norm(c - pj, axis=1) < 1e-9)[0]
    if joint.size != 2:
        raise Inconclusive("joint nodes not found")
    if spec["conn"] == "fixed":
        simu.add_connection_fixed(joint)
    else:
        simu.add_connection_hinged(joint)
    return simu


def build(p, newton=False):
    """simulation object of the problem record (no BCs yet, except the frame's connection)"""
    k = p["kind"]
    with _quiet():
        if k == "elastic":
            mesh = gm.build(p["recipe"])
            dim = gm.dim_of(p["recipe"]["elemType"])
            if mesh.Nn * dim > MAXDOF:
                raise Inconclusive("too many dofs")
            mat = gmod.make_elastic(p["law"])
            if p.get("gyro"):
                simu = (NewtonGyroElastic if newton else GyroElastic)(mesh, mat)
                simu._verif_gyro = tuple(p["gyro"])
            else:
                simu = (NewtonElastic if newton else Simulations.Elastic)(mesh, mat)
            simu.rho = p["rho"]
            cM, cK = p["rayleigh"]
            if cM or cK:
                simu.Set_Rayleigh_Damping_Coefs(coefM=cM, coefK=cK)
        elif k == "thermal":
            mesh = gm.build(p["recipe"])
            if mesh.Nn > MAXDOF:
                raise Inconclusive("too many dofs")
            simu = (NewtonThermal if newton else Simulations.Thermal)(
                mesh, Models.Thermal(k=p["k"], c=p["c"], thickness=p["thickness"]))
            simu.rho = p["rho"]
        elif k == "beam":
            spec = p["member"]
            if newton:
                simu0, mesh, beam, _ = gb.build_member(spec)
                simu = NewtonBeam(mesh, Models.Beam.BeamStructure([beam]), useTimoshenko=bool(spec["timoshenko"]))
            else:
                simu = gb.build_member(spec)[0]
            simu.rho = p["rho"]
        else:
            simu = _frame(p["member"], NewtonBeam if newton else Simulations.Beam)
            simu.rho = p["rho"]
    if newton:
        simu._Solver_Set_Newton_Raphson_Algorithm()
    return simu


def _pool(simu, p):
    if p["kind"] in ("elastic", "thermal"):
        return gm.used_nodes(simu.mesh)
    return np.arange(simu.mesh.Nn)


def _select(coord, pool, k, side, frac):
    c = coord[pool]
    ext = c.max(axis=0) - c.min(axis=0)
    d = DIRS[k % len(DIRS)]
    q = c @ d
    if q.max() - q.min() < 1e-9 * (1.0 + ext.max()):
        d = np.eye(3)[int(np.argmax(ext))]
        q = c @ d
    lo, hi = q.min(), q.max()
    eps = 1e-9 * (1.0 + abs(hi - lo))
    sel = q <= lo + frac * (hi - lo) + eps if side == 0 else q >= hi - frac * (hi - lo) - eps
    return pool[sel]


def apply_bcs(simu, p, dirichlet, loads, dscale=1.0):
    """(re)applies Dirichlet sets and nodal loads; returns the classes hit"""
    unknowns = simu.Get_unknowns()
    coord = np.asarray(simu.mesh.coord, float)
    pool = _pool(simu, p)
    taken = np.zeros(simu.mesh.Nn, bool)
    dof_n = simu.Get_dof_n(simu.problemType)
    for lc in simu.Bc_Lagrange:
        # a Dirichlet value on both coupled dofs duplicates the connection row (redundant constraints make the
        # bordered matrix singular: a question for C04, not for the time scheme): keep joints free of Dirichlet
        taken[np.asarray(lc.dofs, int) // dof_n] = True
    kinds = set()
    for bc in dirichlet:
        nodes = _select(coord, pool, bc["dir"], bc["side"], bc["frac"])
        nodes = nodes[~taken[nodes]]  # every dof constrained at most once
        if nodes.size == 0:
            continue
        taken[nodes] = True
        comps = [u for u, m in zip(unknowns, bc["comps"]) if m]
        vals = []
        rng = np.random.default_rng(bc["seed"])
        for _ in comps:
            if bc["mode"] == "zero":
                vals.append(0.0)
            elif bc["mode"] == "const":
                vals.append(bc["val"] * dscale)
            else:
                vals.append(rng.uniform(-1, 1, nodes.size) * dscale)
        kinds.add(bc["mode"])
        simu.add_dirichlet(nodes, vals, comps)
    for ld in loads:
        nodes = _select(coord, pool, ld["dir"], ld["side"], ld["frac"])
        comps = [u for u, m in zip(unknowns, ld["comps"]) if m]
        rng = np.random.default_rng(ld["seed"])
        vals = [ld["amp"] * nodes.size * rng.uniform(-1, 1, nodes.size) for _ in comps]  # add_neumann shares by len(nodes)
        simu.add_neumann(nodes, vals, comps)
    return kinds


def reset_bcs(simu, p):
    """Bc_Init drops the Lagrange connection of a frame as well: re-add it"""
    lag = simu.Bc_Lagrange
    simu.Bc_Init()
    for lc in lag:
        simu._Bc_Add_Lagrange(lc)


def system(simu):
    """dense K, C, M (physical dofs), load vector, free dofs, Lagrange rows restricted to the physical dofs"""
    pt = simu.problemType
    N = simu.mesh.Nn * simu.Get_dof_n(pt)
    with _quiet():
        K, C, M, F = simu.Get_K_C_M_F(pt)
    K, C, M = (orc.dense(X)[:N, :N] for X in (K, C, M))
    F = np.asarray(orc.dense(F), float).ravel()[:N] + np.asarray(simu.Bc_vector_Neumann(pt), float)
    fixed = np.unique(np.asarray(simu.Bc_dofs_Dirichlet(pt), int))
    free = np.setdiff1d(np.arange(N), fixed)
    rows = []
    for lc in simu.Bc_Lagrange:
        e = np.zeros(N)
        e[np.asarray(lc.dofs, int)] = np.asarray(lc.lagrangeCoefs, float)
        rows.append(e)
    B = np.array(rows) if rows else np.zeros((0, N))
    return K, C, M, F, free, B


def set_scheme(simu, s):
    a = s["algo"]
    if a == "parabolic":
        if s["defaults"]:
            simu.Solver_Set_Parabolic_Algorithm(s["dt"])
            return (s["dt"], 0.25, 0.5, 0.5)
        simu.Solver_Set_Parabolic_Algorithm(s["dt"], s["alpha"])
        return (s["dt"], 0.25, 0.5, s["alpha"])
    # AlgoType is a str-Enum and the setter accepts the scheme by its name as well (observed: bit-identical runs)
    algo = a if s.get("byname") else AlgoType(a)
    if s["defaults"]:
        # documented defaults: beta = 1/4, gamma = 1/2 (alpha default 1/2 is passed explicitly for hht)
        simu.Solver_Set_Hyperbolic_Algorithm(s["dt"], algo, alpha=s["alpha"])
        return cs.effective_params(a, s["dt"], s["alpha"], 0.25, 0.5)
    simu.Solver_Set_Hyperbolic_Algorithm(s["dt"], algo, s["beta"], s["gamma"], s["alpha"])
    return cs.effective_params(a, s["dt"], s["alpha"], s["beta"], s["gamma"])


def draw_state(st_, N):
    rng = np.random.default_rng(st_["seed"])
    u = st_["su"] * rng.uniform(-1, 1, N)
    v = st_["sv"] * rng.uniform(-1, 1, N)
    a = st_["sa"] * rng.uniform(-1, 1, N)
    return u, v, a


def cond_guard(K, C, M, free, B, w):
    """condition number of the matrix the step has to invert (free block; bordered with the Lagrange rows)"""
    A = w[0] * K + w[1] * C + w[2] * M
    Aff = A[np.ix_(free, free)]
    if free.size == 0:
        raise Inconclusive("no free dof")
    if B.shape[0]:
        Bf = B[:, free]
        Bf = Bf[np.abs(Bf).sum(axis=1) > 0]
        s = np.abs(Aff).max()
        Aff = np.block([[Aff, s * Bf.T], [s * Bf, np.zeros((Bf.shape[0],) * 2)]])
    c = np.linalg.cond(Aff)
    if not np.isfinite(c) or c > COND_MAX:
        raise Inconclusive("system matrix ill-conditioned or singular (outside the decidable domain)")
    return float(c)


# ------------------------------------------------------------------------------------------
# oracles shared by one_step / history / newton


def check_weights(rec, simu, algo, prm, sig, seed):
    """(iii) K/C/M weights = d(u_t, v_t, a_t)/d u_{n+1}: of the code's own evaluation function (exact single
    difference of an affine map), of the documented definitions (closed form), and the code's evaluation
    function agrees with the documented evaluation states."""
    pt = simu.problemType
    w = tuple(float(x) for x in simu._Solver_Get_K_C_M_coefs_for_time_scheme())
    wd = cs.doc_weights(algo, prm)
    for name, a, b in zip("KCM", w, wd):
        rec.close(a - b, abs(b) if b else 1.0, TOL_ID, "weights_vs_documentation",
                  f"{algo}: coef{name}={a!r}, derivative of the documented evaluation state = {b!r} (dt,beta,gamma,alpha={prm})",
                  coef=name, **sig)
    u_n, v_n, a_n = simu._Get_u_n(pt), simu._Get_v_n(pt), simu._Get_a_n(pt)
    N = u_n.size
    rng = np.random.default_rng(seed)
    u0 = rng.uniform(-1, 1, N)
    d = rng.uniform(-1, 1, N)
    f0 = simu._Solver_Evaluate_u_v_a_for_time_scheme(pt, u0.copy())
    f1 = simu._Solver_Evaluate_u_v_a_for_time_scheme(pt, u0 + d)
    dt = prm[0]
    U = _mx(u0, d, u_n, dt * v_n, dt**2 * a_n)
    hist = (0.0, _mx(v_n, dt * a_n), _mx(a_n, v_n / dt))
    for i, name in enumerate("KCM"):
        if f0[i] is None:
            # no such state for this scheme: parabolic has no acceleration (weight 0); forward Euler solves for a^n
            # itself (weight 1 on M by its own definition)
            exp = 0.0 if algo == "parabolic" else 1.0
            rec.require(f1[i] is None and w[i] == exp, "weights_vs_evaluate",
                        f"{algo}: state {i} is None but coef{name}={w[i]!r} (expected {exp})", coef=name, **sig)
            continue
        diff = np.asarray(f1[i], float) - np.asarray(f0[i], float)
        scale = max(abs(w[i]) * U, _mx(f0[i], f1[i]), hist[i], 1e-300)
        rec.close(diff - w[i] * d, scale, 1e-11, "weights_vs_evaluate",
                  f"{algo}: d(state {'uva'[i]}_t)/du_(n+1) of _Solver_Evaluate_u_v_a_for_time_scheme != coef{name}={w[i]!r}",
                  coef=name, **sig)
    if algo != "euler_explicit":
        ref = cs.states_of_u(algo, prm, u_n, v_n, a_n, u0)
        for i, name in enumerate("uva"):
            if ref[i] is None:
                continue
            scale = max(abs(wd[i]) * U, _mx(ref[i]), hist[i], 1e-300)
            rec.close(np.asarray(f0[i], float) - ref[i], scale, 1e-11, "evaluate_vs_documentation",
                      f"{algo}: {name}_t of _Solver_Evaluate_u_v_a_for_time_scheme differs from the documented evaluation state",
                      state=name, **sig)
    else:
        rec.close(np.asarray(f0[0]) - u_n, _mx(u_n) or 1.0, TOL_ID, "evaluate_vs_documentation", "forward Euler u_t != u_n", state="u", **sig)
        rec.close(np.asarray(f0[1]) - v_n, _mx(v_n) or 1.0, TOL_ID, "evaluate_vs_documentation", "forward Euler v_t != v_n", state="v", **sig)
    return w


def check_step(rec, sysm, algo, prm, old, new, sig, cond=0.0):
    """(i) update relations and (ii) residual on the free dofs"""
    K, C, M, F, free, B = sysm
    u_n, v_n, a_n = old
    u1, v1, a1 = new
    finite = all(np.all(np.isfinite(x)) for x in (u1, v1, a1))
    rec.require(finite, "finite_states", f"{algo}: non-finite state returned", **sig)
    for name, dvec, scale in cs.update_defects(algo, prm, u_n, v_n, a_n, u1, v1, a1):
        rec.close(dvec, scale if scale > 0 else 1.0, TOL_ID, name,
                  f"{algo} (dt,beta,gamma,alpha)={prm}: documented update relation violated", **sig)
    if algo == "parabolic":
        rec.close(a1 - a_n, 1.0, 0.0, "parabolic_keeps_a", "a parabolic step changed the stored acceleration", **sig)
    st_ = cs.evaluation_states(algo, prm, u_n, v_n, a_n, u1, v1, a1)
    r, s = cs.residual(K, C, M, F, st_, cs.state_scales(algo, prm, u_n, v_n, a_n, u1, st_))
    rf, sf = r[free], s[free]
    if B.shape[0]:
        Bf = B[:, free]
        lam = np.linalg.lstsq(Bf.T, rf, rcond=None)[0]
        rf = rf - Bf.T @ lam
    den = sf + 1e-3 * s.max()
    err = np.abs(rf) / den if s.max() > 0 else np.abs(rf)
    # the bordered (Lagrange multiplier) system is solved with the multiplier rows scaled by max|A|: its backward
    # error follows the conditioning of the saddle-point matrix, the reduced (r1) solve is backward stable
    tol = TOL_RES * (1 + cond / 1e5) if B.shape[0] else TOL_RES
    rec.note_max("info:cond_lagrange" if B.shape[0] else "info:cond", cond)
    rec.close(err / (tol / TOL_RES), 1.0, TOL_RES, "equation_of_motion",
              f"{algo} (dt,beta,gamma,alpha)={prm}: K u_t + C v_t + M a_t - F != 0 on the free dofs "
              f"(max |r|={np.abs(rf).max() if rf.size else 0:.3e}, scale {s.max():.3e})", **sig)


def _nontrivial(algo, old, F, C, dirichlet_kinds, free):
    u_n, v_n, a_n = old
    st_ok = _mx(u_n) > 0 and _mx(v_n) > 0 and (algo == "parabolic" or _mx(a_n) > 0)
    drive = _mx(F) > 0 or _mx(C) > 0 or bool(dirichlet_kinds - {"zero"})
    if algo == "parabolic":
        drive = _mx(F) > 0 or bool(dirichlet_kinds - {"zero"}) or st_ok
    return bool(st_ok and drive and free.size > 0)


def _bucket(s):
    dt = s["dt"]
    return "dt<0.05" if dt < 0.05 else "dt<=1" if dt <= 1 else "dt>1"


# ------------------------------------------------------------------------------------------
# (a) one step


@st.composite
def one_step_cases(draw):
    p = draw(problems())
    n = ncomp_of(p)
    sch = draw(schemes(algos_for(p)))
    return dict(problem=p, scheme=sch, dirichlet=draw(bc_sets(n)), loads=draw(load_sets(n)), state=draw(states()),
                wseed=draw(st.integers(0, 999)))


def check_one_step(case, rec):
    p, sch = case["problem"], case["scheme"]
    algo = sch["algo"]
    if algo == "parabolic" and not sch.get("defaults") and sch["alpha"] == 0:
        rec.label("excluded:parabolic_alpha0")  # only reachable from the regress replay
    simu = build(p)
    pt = simu.problemType
    kinds = apply_bcs(simu, p, case["dirichlet"], case["loads"])
    sysm = system(simu)
    K, C, M, F, free, B = sysm
    N = K.shape[0]
    sig = dict(algo=algo, kind=p["kind"], lagrange=bool(B.shape[0]))
    prm = set_scheme(simu, sch)
    u_n, v_n, a_n = draw_state(case["state"], N)
    simu._Set_solutions(pt, u_n.copy(), v_n.copy(), a_n.copy())
    w = check_weights(rec, simu, algo, prm, sig, case["wseed"])
    cond = cond_guard(K, C, M, free, B, w)
    with _quiet():
        u1 = np.asarray(simu.Solve(), float)
    new = (u1, np.asarray(simu._Get_v_n(pt), float), np.asarray(simu._Get_a_n(pt), float))
    check_step(rec, sysm, algo, prm, (u_n, v_n, a_n), new, sig, cond)
    rec.label("algo:" + algo, "problem:" + p["kind"], _bucket(sch), "dirichlet:" + ("+".join(sorted(kinds)) or "none"),
              "load" if _mx(F) > 0 else "no_load", "damping" if _mx(C) > 0 and p["kind"] != "thermal" else "no_damping")
    if sch.get("defaults"):
        rec.label("default_parameters")
    if p.get("gyro"):
        rec.label("matrices:non_symmetric")
    rec.nontrivial(_nontrivial(algo, (u_n, v_n, a_n), F, C if p["kind"] != "thermal" else 0 * C, kinds, free))


# ------------------------------------------------------------------------------------------
# (b) histories


@st.composite
def history_cases(draw):
    p = draw(problems(kinds=("elastic2d", "elastic2d", "elastic3d", "thermal", "beam", "frame")))
    n = ncomp_of(p)
    algos = algos_for(p)
    nsteps = draw(st.integers(2, 7))
    ops = []
    for i in range(nsteps):
        op = dict(scheme=None, loads=None, damping=None, dscale=None, nsub=draw(st.sampled_from([1, 1, 1, 2, 3])))
        if i == 0 or draw(st.integers(0, 2)) > 0:
            op["scheme"] = draw(schemes(algos))
        if draw(st.integers(0, 2)) == 0:
            op["loads"] = draw(load_sets(n))
        if p["kind"] == "elastic" and draw(st.integers(0, 3)) == 0:
            op["damping"] = [draw(st.sampled_from([0.0, 0.5, 2.0])), draw(st.sampled_from([0.0, 0.05, 1.0]))]
        if draw(st.integers(0, 3)) == 0:
            op["dscale"] = draw(st.sampled_from([0.0, 0.5, 1.0, 2.0]))
        ops.append(op)
    return dict(problem=p, dirichlet=draw(bc_sets(n)), loads=draw(load_sets(n)), state=draw(states()), ops=ops,
                wseed=draw(st.integers(0, 999)))


def check_history(case, rec):
    p = case["problem"]
    simu = build(p)
    pt = simu.problemType
    loads, dscale = case["loads"], 1.0
    kinds = apply_bcs(simu, p, case["dirichlet"], loads, dscale)
    N = simu.mesh.Nn * simu.Get_dof_n(pt)
    u_n, v_n, a_n = draw_state(case["state"], N)
    simu._Set_solutions(pt, u_n.copy(), v_n.copy(), a_n.copy())
    sch, prm = None, None
    nsteps, algos_seen, nt = 0, [], False
    for k, op in enumerate(case["ops"]):
        if op["damping"] is not None and p["kind"] == "elastic":
            if sch is not None and sch["algo"] == "parabolic" and op["damping"][0] == 0:
                pass  # C must stay positive definite while the parabolic form is active
            else:
                simu.Set_Rayleigh_Damping_Coefs(coefM=op["damping"][0], coefK=op["damping"][1])
                rec.label("op:damping")
        if op["loads"] is not None or op["dscale"] is not None:
            if op["loads"] is not None:
                loads = op["loads"]
            if op["dscale"] is not None:
                dscale = op["dscale"]
            reset_bcs(simu, p)
            kinds = apply_bcs(simu, p, case["dirichlet"], loads, dscale)
            rec.label("op:bcs")
        if op["scheme"] is not None:
            new_s = op["scheme"]
            sysm = system(simu)
            if new_s["algo"] == "parabolic" and p["kind"] == "elastic" and not _spd(sysm[1], sysm[4]):
                new_s = None  # damping was switched off meanwhile: K u + C v = F would be singular
            if new_s is not None:
                if sch is not None and new_s["algo"] != sch["algo"]:
                    rec.label("op:switch_algo")
                elif sch is not None:
                    rec.label("op:change_parameters")
                sch = new_s
                prm = set_scheme(simu, sch)
        if sch is None:
            continue
        algo = sch["algo"]
        sig = dict(algo=algo, kind=p["kind"])
        for _ in range(op["nsub"]):
            sysm = system(simu)
            K, C, M, F, free, B = sysm
            sig["lagrange"] = bool(B.shape[0])
            old = (np.asarray(simu._Get_u_n(pt), float), np.asarray(simu._Get_v_n(pt), float), np.asarray(simu._Get_a_n(pt), float))
            if _mx(*old) > 1e60:
                break  # an unstable parameter choice has blown the state up; relative checks stay valid but stop here
            w = check_weights(rec, simu, algo, prm, sig, case["wseed"] + k)
            cond = cond_guard(K, C, M, free, B, w)
            with _quiet():
                u1 = np.asarray(simu.Solve(), float)
            new = (u1, np.asarray(simu._Get_v_n(pt), float), np.asarray(simu._Get_a_n(pt), float))
            check_step(rec, sysm, algo, prm, old, new, sig, cond)
            nsteps += 1
            algos_seen.append(algo)
            nt = nt or _nontrivial(algo, old, F, C if p["kind"] != "thermal" else 0 * C, kinds, free)
    rec.label("problem:" + p["kind"], f"history_steps:{min(nsteps, 8)}", f"algos_in_history:{len(set(algos_seen))}")
    for a in sorted(set(algos_seen)):
        rec.label("algo:" + a)
    rec.nontrivial(nt and nsteps >= 2)


def _spd(C, free):
    if free.size == 0:
        return False
    w = np.linalg.eigvalsh((C + C.T)[np.ix_(free, free)] / 2)
    return bool(w.min() > 1e-9 * max(w.max(), 1e-300))


# ------------------------------------------------------------------------------------------
# (c) Newton consistency: incremental form of the linear problem = direct form


@st.composite
def newton_cases(draw):
    p = draw(problems(kinds=("elastic2d", "elastic2d", "elastic3d", "thermal", "beam")))
    n = ncomp_of(p)
    return dict(problem=p, scheme=draw(schemes(algos_for(p, newton=True))), dirichlet=draw(bc_sets(n)),
                loads=draw(load_sets(n)), state=draw(states()))


def check_newton(case, rec):
    p, sch = case["problem"], case["scheme"]
    algo = sch["algo"]
    direct = build(p)
    newton = build(p, newton=True)
    pt = direct.problemType
    sig = dict(algo=algo, kind=p["kind"])
    sols = []
    for simu in (direct, newton):
        kinds = apply_bcs(simu, p, case["dirichlet"], case["loads"])
        prm = set_scheme(simu, sch)
        if simu is direct:
            sysm = system(simu)
            K, C, M, F, free, B = sysm
            N = K.shape[0]
            old = draw_state(case["state"], N)
            w = tuple(float(x) for x in simu._Solver_Get_K_C_M_coefs_for_time_scheme())
            cond = cond_guard(K, C, M, free, B, w)
        simu._Set_solutions(pt, old[0].copy(), old[1].copy(), old[2].copy())
        with _quiet():
            u1 = np.asarray(simu.Solve(), float)
        sols.append((u1, np.asarray(simu._Get_v_n(pt), float), np.asarray(simu._Get_a_n(pt), float)))
    nit = int(newton._Simu__newtonIter)
    # iteration 1 lands on the solution of the linear problem, iteration 2 only confirms the zero residual
    # ... when the round-off of the first solve (eps x conditioning of the step matrix) is below the relative stopping rule 1e-10
    # of the loop; on a worse-conditioned matrix (moduli 1e9 next to an O(1) mass term on a free body: cond 1e8, relative residual
    # 6e-8 after the first solve, thorough tier seed 5) the loop refines until its increment rule stops it: at most 4 iterations
    nit_max = 2 if 100.0 * np.finfo(float).eps * cond < 1e-10 else 4
    rec.require(nit <= nit_max, "newton_one_iteration",
                f"{algo} {p['kind']}: Newton form of the linear problem needed {nit} iterations (tangent A and residual built "
                f"from _Solver_Evaluate_u_v_a_for_time_scheme are not consistent)", **sig)
    scale = _mx(sols[0][0], old[0], prm[0] * old[1], prm[0] ** 2 * old[2]) or 1.0
    rec.close((sols[1][0] - sols[0][0]) / (1 + cond / 1e6), scale, TOL_SOL, "newton_equals_direct",
              f"{algo} {p['kind']}: u_(n+1) of the incremental form differs from the direct solve", **sig)
    check_step(rec, sysm, algo, prm, old, sols[1], sig, cond)
    rec.label("algo:" + algo, "problem:" + p["kind"], _bucket(sch), f"newton_iterations:{nit}")
    rec.nontrivial(_nontrivial(algo, old, F, C if p["kind"] != "thermal" else 0 * C, kinds, free))


# ------------------------------------------------------------------------------------------
# (c') hyperelastic dynamic step: F_int(u_t) + M a_t = F_ext on the free dofs


HYPER_ALGOS = ("newmark", "hht", "hht_newmark", "midpoint", "euler_implicit")
HYPER_LAWS = ["NeoHookean", "MooneyRivlin", "CiarletGeymonat", "SaintVenantKirchhoff"]
HYPER_TYPES = ["TRI3", "QUAD4", "TRI6", "QUAD8", "TETRA4", "HEXA8", "PRISM6"]


@st.composite
def hyper_cases(draw):
    mr = draw(hx.mesh_recipes(types=HYPER_TYPES))
    dim = gm.dim_of(mr["elemType"])
    sch = draw(schemes(HYPER_ALGOS))
    sch["dt"] = draw(st.sampled_from([0.02, 0.05, 0.1, 0.5]))  # larger steps invert elements (Newton gives up)
    return dict(mesh=mr, law=draw(hx.law_records(dim, names=HYPER_LAWS, fields_ok=False)), scheme=sch, rho=draw(st.integers(2, 8)) / 4.0,
                thickness=draw(st.sampled_from([1.0, 0.5, 2.0])) if dim == 2 else 1.0,
                dirichlet=draw(bc_sets(dim, nmax=1, kinds=("zero", "const"), nmin=0)), loads=draw(load_sets(dim, nmax=1)),
                seed=draw(st.integers(0, 999)), amp=draw(st.integers(1, 6)) / 40.0,
                sv=draw(st.sampled_from([0.0, 0.1, 0.5])), sa=draw(st.sampled_from([0.0, 0.5, 2.0])),
                # stress of the internal force: the pointwise one, or the strain-path quadrature (documented for every dynamic scheme)
                stress=draw(st.sampled_from(["pointwise", "pointwise", "quadrature"])), nPoints=draw(st.integers(1, 4)))


def check_hyper(case, rec):
    mr, sch = case["mesh"], case["scheme"]
    algo = sch["algo"]
    dim = gm.dim_of(mr["elemType"])
    mesh = hx.build_mesh(mr)
    groups = gm.main_groups(mesh)
    g = groups[0]
    nPg = g.Get_gauss(MatrixType.rigi).nPg
    mat = hx.make_law(case["law"], dim, g.Ne, nPg, thickness=case["thickness"])
    with _quiet():
        simu = Simulations.HyperElastic(mesh, mat, absTol=1e-10, verbosity=False)
    simu.rho = case["rho"]
    pt = simu.problemType
    p = dict(kind="elastic")
    dirs = [dict(bc, val=bc["val"] * 0.02) for bc in case["dirichlet"]]
    loads = [dict(ld, amp=ld["amp"] * 0.02 * hx.moduli(case["law"])) for ld in case["loads"]]
    apply_bcs(simu, p, dirs, loads)
    prm = set_scheme(simu, sch)
    quad = case.get("stress") == "quadrature" and algo != "elliptic"
    if quad:
        simu.Solver_Set_Stress(simu.StressType.quadrature, nPoints=int(case["nPoints"]))
    sig = dict(algo=algo, kind="hyperelastic", law=case["law"]["name"], stress="quadrature" if quad else "pointwise")
    N = mesh.Nn * dim
    u_n = hx.smooth_u(mesh, dim, case["seed"], case["amp"])
    v_n = case["sv"] * hx.smooth_u(mesh, dim, case["seed"] + 1, 1.0, noise=0.05)
    a_n = case["sa"] * hx.smooth_u(mesh, dim, case["seed"] + 2, 1.0, noise=0.05)
    simu._Set_solutions(pt, u_n.copy(), v_n.copy(), a_n.copy())
    try:
        with _quiet():
            u1 = np.asarray(simu.Solve(), float)
    except AssertionError as e:  # documented outcomes of a too-large step, not scheme errors
        if "did not converged" in str(e) or "det(F)" in str(e):
            raise Inconclusive("Newton did not converge / inverted element")
        raise
    v1, a1 = np.asarray(simu._Get_v_n(pt), float), np.asarray(simu._Get_a_n(pt), float)
    for name, dvec, scale in cs.update_defects(algo, prm, u_n, v_n, a_n, u1, v1, a1):
        rec.close(dvec, scale if scale > 0 else 1.0, TOL_ID, name, f"{algo} hyperelastic: documented update relation violated", **sig)
    u_t, v_t, a_t = cs.evaluation_states(algo, prm, u_n, v_n, a_n, u1, v1, a1)
    th = case["thickness"] if dim == 2 else 1.0
    Fint = np.zeros(N)
    Ma = np.zeros(N)
    sc = np.zeros(N)
    for gg in mesh.Get_list_groupElem():
        state = HyperElasticState(gg, u_t, MatrixType.rigi)
        if float(np.asarray(state.Compute_J()).min()) <= 0:
            raise Inconclusive("inverted element at the evaluation point")
        if quad:
            # the internal force of the option is the operator's own (its consistency with the stored energy is C18's business)
            st_n, st_1 = HyperElasticState(gg, u_n, MatrixType.rigi), HyperElasticState(gg, u1, MatrixType.rigi)
            coefK = float(simu._Solver_Get_K_C_M_coefs_for_time_scheme()[0])
            R_e = Operators.NonLinear.TimeQuadratureStressTensor(mat, st_n, state, st_1, coefK, int(case["nPoints"]), None)[1]
        else:
            _, R_e = Operators.NonLinear.SecondPiolaKirchhoffStressTensor(mat, state)
        M_e = th * np.asarray(Operators.Bilinear.UV(gg, case["rho"], dof_n=dim))
        asm = gg.Get_assembly_e(dim)
        Ma_e = np.einsum("eij,ej->ei", M_e, a_t[asm])
        np.add.at(Fint, asm.ravel(), np.asarray(R_e).ravel())
        np.add.at(Ma, asm.ravel(), Ma_e.ravel())
        np.add.at(sc, asm.ravel(), np.abs(np.asarray(R_e)).ravel() + np.einsum("eij,ej->ei", np.abs(M_e), np.abs(a_t[asm])).ravel())
    Fext = np.asarray(simu.Bc_vector_Neumann(pt), float)
    free = np.setdiff1d(np.arange(N), np.asarray(simu.Bc_dofs_Dirichlet(pt), int))
    if free.size == 0:
        raise Inconclusive("no free dof")
    r = (Fint + Ma - Fext)[free]
    scale = float((sc + np.abs(Fext)).max())
    rec.close(r, scale if scale > 0 else 1.0, TOL_HYPER, "hyper_equation_of_motion",
              f"{algo} {case['law']['name']} {mr['elemType']}: F_int(u_t) + M a_t - F_ext != 0 on free dofs after a converged step", **sig)
    rec.label("stress:" + sig["stress"])
    rec.label("algo:" + algo, "problem:hyperelastic", "law:" + case["law"]["name"], f"hyper_newton_iterations:{min(int(simu._Simu__newtonIter), 8)}")
    rec.nontrivial(_mx(u1 - u_n) > 0 and _mx(a_t) > 0)


# ------------------------------------------------------------------------------------------
# (d) energy


@st.composite
def energy_cases(draw):
    p = draw(problems(kinds=("elastic2d", "elastic2d", "elastic3d", "beam", "frame"), damping=False))
    n = ncomp_of(p)
    algo = draw(st.sampled_from(["newmark", "newmark", "midpoint", "midpoint", "euler_implicit"]))
    dts = [draw(st.sampled_from(DTS)) for _ in range(draw(st.integers(1, 3)))]
    init = draw(st.sampled_from(["consistent", "consistent", "u0_zero"]))
    if p["kind"] in ("beam", "frame"):
        init = "u0_zero"  # M without rotary inertia is singular: M a_0 = -K u_0 has no solution for a generic u_0
    if algo != "newmark" and draw(st.booleans()):
        init = "arbitrary"  # midpoint / backward Euler do not use a_n in the balance
    return dict(problem=p, algo=algo, dts=dts, nsteps=draw(st.sampled_from([50, 50, 100, 200])), init=init,
                defaults=draw(st.booleans()), dirichlet=draw(bc_sets(n, kinds=("zero",))), seed=draw(st.integers(0, 9999)))


def check_energy(case, rec):
    p, algo = case["problem"], case["algo"]
    simu = build(p)
    pt = simu.problemType
    apply_bcs(simu, p, case["dirichlet"], [])
    K, C, M, F, free, B = system(simu)
    N = K.shape[0]
    sig = dict(algo=algo, kind=p["kind"], lagrange=bool(B.shape[0]))
    if _mx(C) > 0 or _mx(F) > 0:
        raise Inconclusive("precondition C = 0, F = 0 not met")
    if free.size == 0:
        raise Inconclusive("no free dof")
    # admissible initial state: zero on the constrained dofs, compatible with the connections
    rng = np.random.default_rng(case["seed"])
    P = np.zeros((N, free.size))
    P[free, np.arange(free.size)] = 1.0
    if B.shape[0]:
        Bf = B[:, free]
        Bf = Bf[np.abs(Bf).sum(axis=1) > 0]
        _, s, Vt = np.linalg.svd(Bf)
        rank = int((s > 1e-10).sum())
        P = P @ Vt[rank:].T
    Kr, Mr = P.T @ K @ P, P.T @ M @ P
    xu = rng.uniform(-1, 1, P.shape[1]) if case["init"] != "u0_zero" else np.zeros(P.shape[1])
    u0 = P @ xu
    v0 = P @ rng.uniform(-1, 1, P.shape[1])
    if case["init"] == "consistent":
        wM = np.linalg.eigvalsh(Mr)
        if wM.min() <= 1e-10 * wM.max():
            raise Inconclusive("M_ff singular: no equilibrium-consistent a_0")
        a0 = -P @ np.linalg.solve(Mr, Kr @ xu)
    elif case["init"] == "arbitrary":
        a0 = P @ rng.uniform(-1, 1, P.shape[1]) * 10
    else:
        a0 = np.zeros(N)
    conds = []
    for dt in set(case["dts"]):
        w = (0.5, 0.0, 2 / dt**2) if algo == "midpoint" else (1.0, 0.0, 4 / dt**2) if algo == "newmark" else (1.0, 0.0, 1 / dt**2)
        conds.append(cond_guard(K, C, M, free, B, w))
    cond = max(conds)
    simu._Set_solutions(pt, u0.copy(), v0.copy(), a0.copy())
    Ksp, _, Msp, _ = simu.Get_K_C_M_F(pt)
    E0 = cs.energy(K, M, u0, v0)
    if not E0 > 0:
        raise Inconclusive("zero initial energy")
    aK, aM = np.abs(K), np.abs(M)
    # natural magnitude of the two quadratic forms (E itself may be the small difference of large products)
    S = 0.5 * float(np.abs(u0) @ aK @ np.abs(u0)) + 0.5 * float(np.abs(v0) @ aM @ np.abs(v0))
    tol = TOL_E * (1 + cond / 1e4)
    E_prev, worst, worst_up = E0, 0.0, 0.0
    n1 = Ksp.shape[0]
    # arithmetic noise of the documented corrector itself (a_{n+1} and v_{n+1} are differences of large terms when the step is
    # tiny or the accelerations huge): measured at every step by evaluating the documented update in double and in extended
    # precision from the same inputs, and propagated to the next displacement through the next system matrix
    noise = 0.0
    da_prev = None
    LD = np.longdouble
    for k in range(case["nsteps"]):
        dt = case["dts"][k % len(case["dts"])]
        u_p, v_p, a_p = (np.asarray(g(pt), float).copy() for g in (simu._Get_u_n, simu._Get_v_n, simu._Get_a_n))
        if algo == "newmark" and case["defaults"]:
            simu.Solver_Set_Hyperbolic_Algorithm(dt)  # documented default = average acceleration
        elif algo == "newmark":
            simu.Solver_Set_Hyperbolic_Algorithm(dt, AlgoType.newmark, beta=0.25, gamma=0.5)
        else:
            simu.Solver_Set_Hyperbolic_Algorithm(dt, AlgoType(algo))
        with _quiet():
            u = np.asarray(simu.Solve(), float)
        v = np.asarray(simu._Get_v_n(pt), float)
        E = cs.energy(K, M, u, v)
        S = max(S, 0.5 * float(np.abs(u) @ aK @ np.abs(u)) + 0.5 * float(np.abs(v) @ aM @ np.abs(v)))
        if algo != "euler_explicit" and u_p.size == u.size:
            prm_k = cs.effective_params(algo, dt, 0.5, 0.25, 0.5)
            v64, a64 = cs.solve_updates(algo, prm_k, u_p, v_p, a_p, u)
            v128, a128 = cs.solve_updates(algo, tuple(LD(x) for x in prm_k), u_p.astype(LD), v_p.astype(LD), a_p.astype(LD), u.astype(LD))
            dv = np.abs(np.asarray(v64 - v128, float))
            da = np.abs(np.asarray(a64 - a128, float))
            noise += float(np.abs(v) @ aM @ dv + 0.5 * dv @ aM @ dv)
            if da_prev is not None and free.size and not B.shape[0]:
                # the previous acceleration enters this step's right-hand side: du = A^-1 M da
                wk = (0.5, 0.0, 2 / dt**2) if algo == "midpoint" else (1.0, 0.0, 4 / dt**2) if algo == "newmark" else (1.0, 0.0, 1 / dt**2)
                Aff = (wk[0] * K + wk[2] * M)[np.ix_(free, free)]
                du = np.zeros_like(u)
                du[free] = np.abs(np.linalg.solve(Aff, (aM @ da_prev)[free]))
                noise += float(np.abs(u) @ aK @ du + (2.0 / dt) * (np.abs(v) @ aM @ du))
            da_prev = da
        if k in (0, case["nsteps"] - 1):
            # the library's own energy functional agrees with the harness one
            pad = np.zeros(n1 - N)
            Elib = float(simu.Calc_Energy(Ksp, np.concatenate([u, pad]))) + float(simu.Calc_Energy(Msp, np.concatenate([v, pad])))
            rec.close(Elib - E, S, TOL_ID, "calc_energy", f"Calc_Energy(K,u)+Calc_Energy(M,v)={Elib!r} vs harness {E!r}", **sig)
        if algo == "euler_implicit":
            worst_up = max(worst_up, (E - E_prev) / S)
            if not rec.require(E - E_prev <= tol * S + 50.0 * noise, "energy_non_increasing",
                               f"backward Euler increased the energy at step {k}: {E_prev!r} -> {E!r} (E0={E0!r}, dt={dt})", **sig):
                break
        else:
            worst = max(worst, abs(E - E0) / S)
            if not rec.require(abs(E - E0) <= tol * S + 50.0 * noise, "energy_conserved",
                               f"{algo}: energy drifted at step {k}: E0={E0!r}, E={E!r}, rel {abs(E - E0) / E0:.3e}, vs scale {abs(E - E0) / S:.3e} > {tol:.1e} "
                               f"(dts={case['dts']}, init={case['init']})", **sig):
                break
        E_prev = E
    if algo == "euler_implicit":
        rec.note_max("honest_err:energy_non_increasing", max(worst_up, 0.0) / (1 + cond / 1e4))
    else:
        rec.note_max("honest_err:energy_conserved", worst / (1 + cond / 1e4))
    rec.label("algo:" + algo, "problem:" + p["kind"], "init:" + case["init"], f"steps:{case['nsteps']}",
              "dt_varies" if len(set(case["dts"])) > 1 else "dt_fixed", "constrained" if free.size < N else "free_free")
    rec.note_max("info:cond", cond)
    rec.note_max("info:corrector_noise_over_S", noise / S)
    rec.nontrivial(True)


SUBS = [
    Sub("one_step", check_one_step, gen=one_step_cases, quick=600, thorough=2500, shards=8),
    Sub("history", check_history, gen=history_cases, quick=200, thorough=1000, shards=8),
    Sub("newton_consistency", check_newton, gen=newton_cases, quick=250, thorough=1200, shards=4),
    Sub("newton_hyperelastic", check_hyper, gen=hyper_cases, quick=120, thorough=600, shards=4),
    Sub("energy", check_energy, gen=energy_cases, quick=60, thorough=300, shards=8),
]
