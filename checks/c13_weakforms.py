"""C13 - user-written weak forms = interpreter = built-in operators; Assemble = scatter-add;
Simulations.WeakForms = Simulations.Thermal / Simulations.Elastic."""

import numpy as np
from hypothesis import strategies as st

from EasyFEA import MatrixType, Models, Simulations
from EasyFEA.FEM import BiLinearForm, Field, LinearForm, Operators, Sym_Grad, Trace
from EasyFEA.FEM._group_elem import GroupElemFactory

from vlib import c13_forms as cf
from vlib import gen_mesh as gm
from vlib import gen_model as gmod
from vlib import oracles as orc
from vlib.runner import Inconclusive, Sub

PROPERTY = "C13"
RULE = (
    "forms_vs_interpreter / assemble: Hypothesis draws a form as an AST (1-3 terms coef(x) * T_u (.) T_v, T built from "
    "w, w.grad, Sym_Grad, Trace, .T, products and contractions with constant vectors / matrices / a 4th-order tensor, "
    "the documented elastic idiom; contraction *, .dot, @, .ddot, Trace(A.T @ B) chosen to type-check to a scalar; "
    "linear forms coef(x) * T_v), dof_n in 1..inDim, quadrature rigi|mass, and a group of 1-12 elements cut out of a "
    "generated gmsh mesh of any of the 19 element types (affine images, renumbering, mixed meshes); the AST is compiled "
    "to an EasyFEA closure and to a numpy einsum interpreter. forms_vs_builtins: the documented idioms against "
    "Operators.Bilinear / Linear with the same matrixType and a constant or polynomial coefficient. simu_equivalence: "
    "thermal / elastic problems (4 law classes, thickness, density, Dirichlet + nodal / surface / volume loads, heat "
    "source as linear form) solved static, parabolic (2 steps) and hyperbolic (2 steps, Rayleigh damping) by "
    "Simulations.WeakForms and by the dedicated simulation. Non-trivial = form with an operator beyond the bare "
    "field / gradient, or >= 2 terms, or a position-dependent coefficient, or dof_n > 1 (simu: every solved case with "
    "free dofs); distinct = sha1 of the serialised case."
    ' Round 9: weakforms_matrices (element type x rule of the field; reaction + diffusion with variable coefficients) and mass_along_normal (volume type x straight / bent mesh) are enumerated.'
)
ASSUMPTIONS = [
    "the group's tabulated N_pg, dN_e_pg, weighted Jacobians and Gauss coordinates are the trusted base (decided by C06/C07); "
    "the interpreter uses them with explicit numpy einsum only (no FeArray, no Field)",
    "semantics taken from the docs: data[e,i,j] = form(u_i, v_j) with local dof = node*dof_n + component; u.grad of a vector "
    "field has the documented (dof_n, dim) layout; the value of a vector field is N_i e_c",
    "constant tensors always stand on the right of a FeArray / Field or are wrapped by FeArray.asfearray(.., broadcastFeArrays=True) "
    "(ndarray-on-the-left is C12's business)",
    "simulation equality is claimed with the same quadrature only: static cases use Field(matrixType=rigi) on any mesh; "
    "matrixType=mass cases require that the built-in K is the same for the rigi and mass rules on that mesh (checked with the "
    "built-ins, otherwise inconclusive); 1D thermal uses thickness 1 (the docs do not define a thickness in 1D)",
    "element loops bounded: <= 12 elements per group (<= 3 for nPe > 10; element types with nPe > 10 only in the thorough tier), "
    "meshes <= 1500 dofs in the simulations",
    "classes on which EasyFEA raises (findings/C13.json, status known) are not run but counted (labels excluded:*); "
    "inside the value-mismatch classes the deviation is pinned to the recorded one (oracles interpreter_transposed_grad, "
    "interpreter_value_without_dof)",
]
LEVEL_TEXT = ("generated weak-form programs x element type x dof_n x quadrature checked against an independent numpy interpreter, "
              "the built-in operators, a dense scatter-add and the dedicated thermal / elastic simulations (static, parabolic, hyperbolic)")
LEVEL_NOTE = ("exploration over a bounded grammar (depth <= 3, <= 3 terms) and small groups; shape tables / quadrature trusted from C06/C07; "
              "classes listed in findings/C13.json are counted and excluded; absence of violations on unexplored forms is not established")
TECHNIQUE = "property-based testing (Hypothesis, generated programs) vs numpy interpreter, built-in operators, dense scatter-add and dedicated simulations"
DESIGN_REF = "DESIGN.md 4/C13"
READY = True

# reference layout of `u.grad` for vector fields: "doc" = (dof_n, dim) as documented in docs/howto/new_simulation.md
# (and as returned in Evaluate_e mode); "code" = (dim, dof_n) as built by Field.grad in assembly mode (finding C13-e)
GRAD_LAYOUT = "doc"
TOL_ID = 1e-12  # identity level
TOL_MAT = 1e-10  # matrices of two simulations whose quadrature rules are both exact but different
TOL_SOLVE = 1e-8

# element types with nPe <= 10 (quick tier) and the others (thorough tier only: (nPe*dof_n)^2 python calls per form)
LIGHT2, LIGHT3 = ["TRI3", "TRI6", "TRI10", "QUAD4", "QUAD8", "QUAD9"], ["TETRA4", "TETRA10", "HEXA8", "PRISM6"]
HEAVY2, HEAVY3 = ["TRI15"], ["HEXA20", "HEXA27", "PRISM15", "PRISM18"]


def _thorough() -> bool:
    """the tier is not passed to the strategies; multiprocessing(spawn) hands sys.argv down to the workers"""
    import os
    import sys

    return "thorough" in sys.argv or os.environ.get("VERIF_TIER") == "thorough"


def types2d():
    return LIGHT2 * 3 + HEAVY2 if _thorough() else LIGHT2


def types3d():
    return LIGHT3 * 6 + HEAVY3 if _thorough() else LIGHT3


RAISE_WHAT = {
    "bilinear_trailing1": "exception:ValueError@FEM/_forms.py:Integrate_e",
    "linear_scalar": "exception:ValueError@FEM/_forms.py:Integrate_e",
    "linear_assemble": "exception:AssertionError@FEM/_forms.py:Assemble",
}


def excluded(rec, cls: str) -> bool:
    """True when `cls` is a class of inputs on which EasyFEA is known to raise (findings/C13.json, status known):
    the call is then skipped and counted.  In replay mode and once the entry is `fixed` the call is made."""
    if rec.is_known(RAISE_WHAT[cls], {"cls": cls}) is not None:
        rec.label("excluded:" + cls)
        return True
    return False


def known_raise(rec, form, n, bil, tags) -> bool:
    """True (and counted) when the form lies in a class on which EasyFEA is known to raise"""
    for cls in ("bilinear_trailing1", "linear_scalar"):
        if cls in tags and excluded(rec, cls):
            return True
    pure_mass = bil and all((t["u"][0] == "val") == (t["v"][0] == "val") and
                            (t["u"][0] == "val" or not (cf.has_val(t["u"]) or cf.has_val(t["v"]))) for t in form["terms"])
    if "vector_value" in tags and not pure_mass and rec.is_known("interpreter", dict(vector_value=True)) is not None:
        # the 1-component value of a vector field contracted with a dof_n-sized tensor: FeArray rejects the
        # contraction (ValueError), same root cause as the wrong mass form (C13-b) -> counted, not run
        rec.label("excluded:vector_value_contracted")
        return True
    return False


# ------------------------------------------------------------------------------------------
# groups of a few elements cut out of generated meshes


def indim_of(recipe) -> int:
    if "p1" not in recipe:
        return gm.dim_of(recipe["elemType"])
    p1, d = recipe["p1"], recipe["d"]
    if p1[2] != 0 or d[2] != 0:
        return 3
    return 2 if (p1[1] != 0 or d[1] != 0) else 1


@st.composite
def group_specs(draw):
    kind = draw(st.sampled_from(["1d", "2d", "2d", "3d", "3d"]))
    if kind == "1d":
        r = draw(gm.recipes1d())
    elif kind == "2d":
        r = draw(gm.recipes2d(types=types2d()))
    else:
        r = draw(gm.recipes3d(types=types3d()))
    return dict(recipe=r, gsel=draw(st.integers(0, 1)), nel=draw(st.integers(2, 12)), eseed=draw(st.integers(0, 99)))


def build_group(spec):
    mesh = gm.build(spec["recipe"])
    groups = gm.main_groups(mesh)
    g = groups[spec["gsel"] % len(groups)]
    nmax = 12 if g.nPe <= 10 else 3
    m = max(1, min(g.Ne, spec["nel"], nmax))
    idx = np.sort(np.random.default_rng(int(spec["eseed"])).permutation(g.Ne)[:m])
    return GroupElemFactory.Create(g.elemType, np.asarray(g.connect)[idx], np.asarray(mesh.coord, float))


@st.composite
def form_cases(draw, avoid_known=False):
    spec = draw(group_specs())
    d = gm.dim_of(spec["recipe"]["elemType"])
    n = draw(st.integers(1, indim_of(spec["recipe"])))
    bil = draw(st.integers(0, 3)) > 0
    if bil:
        form = draw(cf.bilinear_forms(n, d, avoid_known))
    else:
        form = draw(cf.linear_forms(n, d, runnable_only=avoid_known and n == 1))
    return dict(group=spec, dof_n=n, mt=draw(st.sampled_from(["rigi", "mass"])), kind="bilinear" if bil else "linear",
                form=form, pre=draw(st.sampled_from(PRE)))


def _prehistory(rec, field, pre, k):
    """post-processing calls made on the Field object before it is used again in a form (the same object serves the forms and
    the evaluation of the solution in a load-step loop): they must leave the assembly mode of the field untouched"""
    if not pre:
        return
    if pre.endswith("grad") and not (int(field.dof_n) == int(field.groupElem.dim) == int(field.groupElem.inDim)):
        # Field.grad in evaluation mode goes through Get_Gradient_e_pg, written for displacement fields (dof_n == dim); the only
        # use in the repository (examples/WeakForms/LinearElasticity1.py) is of that kind: other fields evaluate their value
        pre = pre.replace("grad", "val")
    rec.label("prehistory:" + pre)
    vals = np.random.default_rng(int(k)).uniform(-1, 1, int(field.groupElem.Ncoords) * int(field.dof_n))
    fn = (lambda f: f.grad) if pre.endswith("grad") else (lambda f: f())
    if pre.startswith("eval_mean"):
        field.Evaluate_e(fn, vals)
    elif pre.startswith("eval_pg"):
        field.Evaluate_e(fn, vals, returnMeanValues=False)
    else:
        raise KeyError(pre)


PRE = [None, None, None, "eval_mean_grad", "eval_pg_grad", "eval_pg_val", "eval_mean_val"]


def _setup(case, rec):
    g = build_group(case["group"])
    n = int(case["dof_n"])
    if n > g.inDim:
        raise Inconclusive("dof_n > inDim of the cut-out group")
    mt = MatrixType(case["mt"])
    et = str(g.elemType)
    rec.label("elemType:" + et, f"dof_n:{n}", "mt:" + case["mt"])
    return g, n, mt, et


# ------------------------------------------------------------------------------------------
# (a) form.Integrate_e(field) == interpreter


def check_interp(case, rec):
    g, n, mt, et = _setup(case, rec)
    d = g.dim
    bil = case["kind"] == "bilinear"
    form = case["form"]
    tags = cf.classes(form, n, bil)
    rec.label("kind:" + case["kind"], *["class:" + t for t in sorted(tags)])
    if n > 1 and n != d:
        rec.label("rectangular_grad")
    if known_raise(rec, form, n, bil, tags):
        return
    field = Field(g, n, matrixType=mt)
    _prehistory(rec, field, case.get("pre"), 7)
    if bil:
        got = BiLinearForm(cf.compile_bilinear(form, d)).Integrate_e(field)
    else:
        got = LinearForm(cf.compile_linear(form, d)).Integrate_e(field)
    got = np.asarray(got, float)
    I = cf.Interp(g, n, mt, GRAD_LAYOUT)
    ref, scale = I.bilinear(form) if bil else I.linear(form)
    txt = cf.describe_form(form, bil)
    vv = "vector_value" in tags
    sens = False
    ref2 = ref
    if n > 1:
        I2 = cf.Interp(g, n, mt, "code" if GRAD_LAYOUT == "doc" else "doc")
        ref2, _ = I2.bilinear(form) if bil else I2.linear(form)
        sens = bool(np.abs(ref - ref2).max() > 1e-13 * scale)
    sig = dict(elemType=et, dof_n=n, kind=case["kind"], vector_value=vv, layout_sensitive=sens)
    if sens:
        rec.label("layout_sensitive")
    rec.require(got.shape == ref.shape, "shape", f"{et} dof_n={n}: Integrate_e returned {got.shape}, expected {ref.shape}", **sig)
    ok = rec.close(got - ref, scale, TOL_ID, "interpreter",
                   f"{et} dof_n={n} {case['mt']} {case['kind']} form {txt}: Integrate_e differs from the dense quadrature "
                   f"of the same form (max|ref|={np.abs(ref).max():.3e})", **sig)
    if not ok:
        # inside a known class: the deviation must be exactly the known one
        if sens and not vv:
            rec.close(got - ref2, scale, TOL_ID, "interpreter_transposed_grad",
                      f"{et} dof_n={n} form {txt}: differs from the interpreter with either gradient layout",
                      elemType=et, dof_n=n, kind=case["kind"])
        if vv and bil and all(t["u"][0] == "val" and t["v"][0] == "val" for t in form["terms"]):
            I1 = cf.Interp(g, 1, mt)
            m1, _ = I1.bilinear(form)
            ref3 = np.repeat(np.repeat(m1, n, axis=1), n, axis=2)
            rec.close(got - ref3, scale, TOL_ID, "interpreter_value_without_dof",
                      f"{et} dof_n={n} form {txt}: not even the scalar mass replicated over all component pairs",
                      elemType=et, dof_n=n, kind=case["kind"])
    rec.nontrivial(cf.nontrivial(form, n))


# ------------------------------------------------------------------------------------------
# (b) documented idioms == built-in operators (same matrixType)

IDIOMS = ["gradgrad", "uv", "uv", "uv_mul", "mass_vec", "elastic_iso", "elastic_c4", "elastic_c4", "gradAgrad", "lin_fv", "lin_fv"]


@st.composite
def builtin_cases(draw):
    idiom = draw(st.sampled_from(IDIOMS))
    spec = draw(group_specs())
    d = gm.dim_of(spec["recipe"]["elemType"])
    if d == 1 and idiom in ("mass_vec", "elastic_iso", "elastic_c4"):
        idiom = draw(st.sampled_from(["gradgrad", "uv", "gradAgrad", "lin_fv"]))
    case = dict(group=spec, idiom=idiom, mt=draw(st.sampled_from(["rigi", "mass"])), coef=draw(cf.coefs()))
    if idiom == "elastic_iso":
        case["law"] = draw(gmod.elastic_specs(d, classes=("iso",)))
    elif idiom == "elastic_c4":
        case["law"] = draw(gmod.elastic_specs(d))
    elif idiom == "gradAgrad":
        case["A"] = draw(cf._mat(d, d))
    return case


def check_builtins(case, rec):
    g = build_group(case["group"])
    mt = MatrixType(case["mt"])
    et = str(g.elemType)
    d = g.dim
    idiom = case["idiom"]
    coef = case["coef"]
    const = cf.is_const(coef)
    rec.label("elemType:" + et, "idiom:" + idiom, "mt:" + case["mt"], "coef:" + ("const" if const else "poly"))
    I = cf.Interp(g, 1, mt)  # only for the Gauss coordinates and the magnitudes N, dN, volume
    cb = I.coef_bound(coef)
    cval = float(coef["0,0,0"]) if const else I.coef(coef)  # scalar or plain (Ne, nPg) array for the built-in

    def c_of(w):
        return float(coef["0,0,0"]) if const else cf.coef_value(coef, *w.Get_coords())

    n = 1
    vv = False
    if idiom == "gradgrad":
        form = BiLinearForm(lambda u, v: c_of(u) * u.grad.dot(v.grad))
        ref = Operators.Bilinear.GradUGradV(g, cval, mt)
        scale = cb * I.vol * I.dNmax**2 * d
    elif idiom in ("uv", "uv_mul"):
        if idiom == "uv":
            form = BiLinearForm(lambda u, v: c_of(u) * u.dot(v))
        else:
            if excluded(rec, "bilinear_trailing1"):
                return
            form = BiLinearForm(lambda u, v: u * v * c_of(u))
        ref = Operators.Bilinear.UV(g, cval, 1, mt)
        scale = cb * I.vol * I.Nmax**2
    elif idiom == "mass_vec":
        n, vv = d, True
        form = BiLinearForm(lambda u, v: c_of(u) * u.dot(v))  # documented mass form  rho * u.dot(v)
        ref = Operators.Bilinear.UV(g, cval, n, mt)
        scale = cb * I.vol * I.Nmax**2
    elif idiom in ("elastic_iso", "elastic_c4"):
        n = d
        if d > g.inDim:
            raise Inconclusive("group not embedded in its own dimension")
        mat = gmod.make_elastic(case["law"])
        C = np.asarray(mat.C, float)
        rec.label("law:" + case["law"]["cls"])
        if idiom == "elastic_iso":
            lam, mu = mat.get_lambda(), mat.get_mu()

            def S(u):
                Eps = Sym_Grad(u)
                return 2 * mu * Eps + lam * Trace(Eps) * np.eye(d)

            form = BiLinearForm(lambda u, v: c_of(u) * S(u).ddot(Sym_Grad(v)))
        else:
            C4 = cf.km_to_c4(C, d)
            form = BiLinearForm(lambda u, v: c_of(u) * Sym_Grad(u).ddot(C4).ddot(Sym_Grad(v)))
        Cfield = C if const else np.asarray(cval)[:, :, None, None] * C[None, None]
        ref = Operators.Bilinear.LinearizedElasticity(g, C * cval if const else Cfield, mt)
        scale = cb * I.vol * I.dNmax**2 * float(np.abs(C).sum())
    elif idiom == "gradAgrad":
        A = np.array(case["A"], float)
        form = BiLinearForm(lambda u, v: c_of(u) * (u.grad @ A).dot(v.grad))
        ref = Operators.Bilinear.GradU_A_GradV(g, A, cval, mt)
        scale = cb * I.vol * I.dNmax**2 * float(np.abs(A).sum())
    else:
        form = LinearForm(lambda v: c_of(v) * v)
        ref = Operators.Linear.V(g, cval, 1, mt)
        scale = cb * I.vol * I.Nmax
    field = Field(g, n, matrixType=mt)
    got = np.asarray(form.Integrate_e(field), float)
    ref = np.asarray(ref, float)
    sig = dict(elemType=et, idiom=idiom, dof_n=n, vector_value=vv)
    rec.require(got.shape == ref.shape, "shape", f"{et} {idiom}: form {got.shape} vs built-in {ref.shape}", **sig)
    rec.close(got - ref, scale, TOL_ID, "builtin",
              f"{et} {idiom} dof_n={n} {case['mt']}: form.Integrate_e differs from the built-in operator "
              f"(max|built-in|={np.abs(ref).max():.3e})", **sig)
    rec.nontrivial(not const or n > 1 or idiom in ("gradAgrad",))


# ------------------------------------------------------------------------------------------
# (c) form.Assemble(field) == dense scatter-add of form.Integrate_e(field)


def check_assemble(case, rec):
    g, n, mt, et = _setup(case, rec)
    d = g.dim
    bil = case["kind"] == "bilinear"
    form = case["form"]
    tags = cf.classes(form, n, bil)
    rec.label("kind:" + case["kind"])
    if known_raise(rec, form, n, bil, tags):
        return
    if not bil and excluded(rec, "linear_assemble"):
        return
    field = Field(g, n, matrixType=mt)
    Ndof = int(g.Ncoords) * n
    connect = np.asarray(g.connect)
    sig = dict(elemType=et, dof_n=n, kind=case["kind"])
    txt = cf.describe_form(form, bil)
    mag = float(case.get("mag", 1.0))
    cplx = case.get("cmag") is not None
    if cplx:
        # a complex-valued form (a complex coefficient in front of the real form): the element arrays and the assembled matrix
        # are complex, linear in the coefficient
        mag = complex(case["cmag"][0], case["cmag"][1])
        rec.label("mag:complex")
    else:
        rec.label(f"mag:{mag:g}")
    num = complex if cplx else float
    if bil:
        f0 = cf.compile_bilinear(form, d)
        F = BiLinearForm(f0 if mag == 1.0 else (lambda u, v: mag * f0(u, v)))
        A_e = np.asarray(F.Integrate_e(field), num)
        if cplx:
            A_1 = np.asarray(BiLinearForm(f0).Integrate_e(field), float)
            rec.close(A_e - mag * A_1, float(np.abs(A_1).max()) * abs(mag) + 1e-300, TOL_ID, "complex_form_linear",
                      f"{et} dof_n={n} form ({mag}) x {txt}: Integrate_e is not ({mag}) x the element array of the real form "
                      f"(imaginary part max {np.abs(A_e.imag).max():.3e})", **sig)
        A = F.Assemble(field)
        rec.require(tuple(A.shape) == (Ndof, Ndof), "shape", f"{et}: Assemble returned {A.shape}, expected {(Ndof, Ndof)}", **sig)
        ref = orc.scatter_matrix(Ndof, connect, n, A_e)
        scale = float(orc.scatter_matrix(Ndof, connect, n, np.abs(A_e)).max())
        if np.abs(A_e - A_e.transpose(0, 2, 1)).max() > 1e-6 * max(np.abs(A_e).max(), 1e-300):
            rec.label("nonsymmetric")
        rec.close(orc.dense(A) - ref, scale, TOL_ID, "scatter_add_matrix",
                  f"{et} dof_n={n} form {txt}: Assemble(field) is not the scatter-add of Integrate_e(field)", **sig)
    else:
        l0 = cf.compile_linear(form, d)
        L = LinearForm(l0 if mag == 1.0 else (lambda v: mag * l0(v)))
        F_e = np.asarray(L.Integrate_e(field), num)
        if cplx:
            F_1 = np.asarray(LinearForm(l0).Integrate_e(field), float)
            rec.close(F_e - mag * F_1, float(np.abs(F_1).max()) * abs(mag) + 1e-300, TOL_ID, "complex_form_linear",
                      f"{et} dof_n={n} form ({mag}) x {txt}: LinearForm.Integrate_e is not ({mag}) x the element array of the real form", **sig)
        Fv = L.Assemble(field)
        rec.require(tuple(Fv.shape) == (Ndof, 1), "shape", f"{et}: Assemble returned {Fv.shape}, expected {(Ndof, 1)}", **sig)
        ref = orc.scatter_vector(Ndof, connect, n, F_e)
        scale = float(orc.scatter_vector(Ndof, connect, n, np.abs(F_e)).max())
        rec.close(orc.dense(Fv).ravel() - ref, scale, TOL_ID, "scatter_add_vector",
                  f"{et} dof_n={n} form {txt}: LinearForm.Assemble(field) is not the scatter-add of Integrate_e(field)", **sig)
    rec.nontrivial(g.Ne >= 2)


@st.composite
def assemble_cases(draw):
    case = draw(form_cases(avoid_known=True))
    # magnitude of the form (units, tiny domains or conductivities): the assembly is linear in it
    case["mag"] = draw(st.sampled_from([1.0, 1.0, 1e-9, 1e-13, 1e9]))
    case["cmag"] = draw(st.sampled_from([None, None, None, [2.0, 3.0], [0.0, -1.5]]))
    return case


# ------------------------------------------------------------------------------------------
# (d) Simulations.WeakForms == Simulations.Thermal / Simulations.Elastic


@st.composite
def simu_cases(draw):
    problem = draw(st.sampled_from(["thermal", "elastic"]))
    scheme = draw(st.sampled_from(["static", "parabolic" if problem == "thermal" else "hyperbolic"]))
    mt = "mass" if scheme != "static" else draw(st.sampled_from(["rigi", "mass"]))
    kind = draw(st.sampled_from(["1d", "2d", "2d", "3d"] if problem == "thermal" else ["2d", "2d", "3d"]))
    t2 = [t for t in types2d() if not (mt == "mass" and t == "QUAD8")]  # QUAD8: 4-point rigi vs 9-point mass rule differ
    if kind == "1d":
        r = draw(gm.recipes1d())
    elif kind == "2d":
        r = draw(gm.recipes2d(types=t2, hmin=6, hmax=10))
        if r["elemType"].startswith("QUAD"):  # gmsh leaves triangles in unstructured QUAD meshes; WeakForms is single-group
            r["verts"] = draw(gm.polygons(4, 4))
            r["organised"] = True
    else:
        r = draw(gm.recipes3d(types=types3d()))
        if r["elemType"].startswith("HEXA"):
            r["verts"] = draw(gm.polygons(4, 4))
            r["organised"] = True
    dim = gm.dim_of(r["elemType"])
    case = dict(problem=problem, scheme=scheme, mt=mt, recipe=r, rho=draw(st.integers(1, 12)) / 4.0,
                bc_seed=draw(st.integers(0, 999)), dval=draw(st.integers(-4, 4)) / 2.0,
                dlin=draw(st.integers(-2, 2)) / 2.0, load=draw(st.sampled_from(["none", "nodal", "surf", "volume", "nodal+surf"])),
                lval=draw(st.integers(-6, 6)) / 2.0, dt=draw(st.sampled_from([0.05, 0.25, 1.0])),
                init_seed=draw(st.integers(0, 999)), move=draw(st.sampled_from([None, "rotate", "stretch"])),
                rewind=draw(st.booleans()), undamped=draw(st.booleans()))
    if problem == "thermal":
        case.update(k=draw(st.integers(1, 20)) / 4.0, c=draw(st.integers(1, 12)) / 4.0,
                    thickness=1.0 if dim == 1 else draw(st.sampled_from([1.0, 0.5, 2.5])),
                    source=draw(cf.coefs()) if (mt == "mass" and draw(st.booleans())) else None,
                    alpha=draw(st.sampled_from([0.5, 1.0, 0.75])))
    else:
        case.update(law=draw(gmod.elastic_specs(dim)), ray=[draw(st.integers(0, 2)) / 4.0, draw(st.integers(0, 2)) / 8.0],
                    algo=draw(st.sampled_from(["newmark", "newmark", "midpoint", "hht"])))
    return case


def _mat_close(rec, A, B, name, sig, tol, ref_scale=None):
    A, B = A.tocsr(), B.tocsr()
    rec.require(A.shape == B.shape, name + "_shape", f"{name}: {A.shape} vs {B.shape}", **sig)
    diff = abs(A - B)
    err = float(diff.max()) if diff.nnz else 0.0
    scale = float(abs(B).max()) if B.nnz else 0.0
    if ref_scale is not None:
        scale = max(scale, ref_scale)
    if scale == 0.0:
        scale = 1.0
    return rec.close(err, scale, tol, name, f"{sig['types']} {sig['problem']}: {name} of Simulations.WeakForms differs from the "
                     f"dedicated simulation (max|{name}|={scale:.3e})", **sig)


def check_simu(case, rec):
    r = case["recipe"]
    mesh = gm.build(r)
    groups = gm.main_groups(mesh)
    if len(groups) != 1:
        raise Inconclusive("mixed mesh: Simulations.WeakForms handles a single main group")
    g = groups[0]
    dim = g.dim
    problem, scheme = case["problem"], case["scheme"]
    n = 1 if problem == "thermal" else dim
    if mesh.Nn * n > 1500:
        raise Inconclusive("mesh too large for the quick budget")
    mt = MatrixType(case["mt"])
    types = gm.mesh_types(mesh)
    rho = float(case["rho"])
    rec.label("types:" + types, "problem:" + problem, "scheme:" + scheme, "mt:" + case["mt"], "load:" + case["load"])
    field = Field(g, n, matrixType=mt)
    vv = False

    if problem == "thermal":
        k, c, th = float(case["k"]), float(case["c"]), float(case["thickness"])
        if mt == MatrixType.mass:
            Kr = np.asarray(Operators.Bilinear.GradUGradV(g, k, MatrixType.rigi))
            Km = np.asarray(Operators.Bilinear.GradUGradV(g, k, MatrixType.mass))
        ded = Simulations.Thermal(mesh, Models.Thermal(k=k, c=c, thickness=th))
        ded.rho = rho
        formK = BiLinearForm(lambda u, v: k * u.grad.dot(v.grad))
        formC = BiLinearForm(lambda u, v: rho * c * u.dot(v))
        src = case.get("source")
        formF = None
        if src is not None:
            formF = LinearForm(lambda v: cf.coef_value(src, *v.Get_coords()) * v)
            rec.label("source:" + ("const" if cf.is_const(src) else "poly"))
        weak = Simulations.WeakForms(mesh, Models.WeakForms(field, formK, computeC=formC, computeF=formF, thickness=th))
        unk_d, unk_w = ["t"], ["u"]
    else:
        mat = gmod.make_elastic(case["law"])
        C = np.asarray(mat.C, float)
        th = float(mat.thickness) if dim == 2 else 1.0
        rec.label("law:" + case["law"]["cls"])
        if mt == MatrixType.mass:
            Kr = np.asarray(Operators.Bilinear.LinearizedElasticity(g, C, MatrixType.rigi))
            Km = np.asarray(Operators.Bilinear.LinearizedElasticity(g, C, MatrixType.mass))
        ded = Simulations.Elastic(mesh, mat)
        ded.rho = rho
        if case["law"]["cls"] == "iso":
            lam, mu = mat.get_lambda(), mat.get_mu()

            def S(u):
                Eps = Sym_Grad(u)
                return 2 * mu * Eps + lam * Trace(Eps) * np.eye(dim)

            def aK(u, v):
                return S(u).ddot(Sym_Grad(v))
        else:
            C4 = cf.km_to_c4(C, dim)

            def aK(u, v):
                return Sym_Grad(u).ddot(C4).ddot(Sym_Grad(v))

        def aM(u, v):
            return rho * u.dot(v)

        formK = BiLinearForm(aK)
        formM = formC = None
        if scheme == "hyperbolic":
            vv = True  # the mass form uses the value of a vector field
            cM, cK = float(case["ray"][0]), float(case["ray"][1])
            formM = BiLinearForm(aM)
            if case.get("undamped"):
                # an undamped second-order model: a mass form and NO damping form (the dedicated simulation has no Rayleigh damping)
                rec.label("undamped:no_C_form")
            else:
                ded.Set_Rayleigh_Damping_Coefs(coefM=cM, coefK=cK)
                formC = BiLinearForm(lambda u, v: cK * aK(u, v) + cM * aM(u, v))
        weak = Simulations.WeakForms(mesh, Models.WeakForms(field, formK, computeC=formC, computeM=formM,
                                                            thickness=float(mat.thickness)))
        unk_d = unk_w = ["x", "y", "z"][:dim]

    if mt == MatrixType.mass and np.abs(Kr - Km).max() > 1e-12 * np.abs(Kr).max():
        raise Inconclusive("rigi and mass quadrature give different built-in K on this mesh: equality not claimed")

    sig = dict(types=types, elemType=r["elemType"], problem=problem, scheme=scheme, mt=case["mt"])
    sigv = dict(sig, vector_value=vv)

    # ---- boundary conditions through the common API, identical on both simulations
    coord = np.asarray(mesh.coord, float)
    used = gm.used_nodes(mesh)
    cu = coord[used]
    ax = int(np.argmax(np.ptp(cu, axis=0)))
    lo_v, hi_v = cu[:, ax].min(), cu[:, ax].max()
    order = used[np.argsort(cu[:, ax], kind="stable")]
    nlo = max(int((cu[:, ax] <= lo_v + 0.25 * (hi_v - lo_v)).sum()), 1 if problem == "thermal" else dim + 1)
    nodes_lo = np.sort(order[:nlo])  # restrained set: enough nodes to remove the rigid-body modes
    if problem == "elastic" and np.linalg.matrix_rank(coord[nodes_lo] - coord[nodes_lo].mean(axis=0), tol=1e-9) < dim - 1:
        raise Inconclusive("restrained nodes are collinear")
    nodes_hi = used[cu[:, ax] >= hi_v - 0.25 * (hi_v - lo_v)]
    bnodes = gm.boundary_nodes(mesh)
    dval, dlin, lval = float(case["dval"]), float(case["dlin"]), float(case["lval"])
    rng = np.random.default_rng(int(case["bc_seed"]))
    comp_vals = [float(x) for x in np.round(rng.uniform(-1, 1, n) * 4) / 4]
    load = case["load"]
    for simu, unk in ((ded, unk_d), (weak, unk_w)):
        vals = [(lambda x, y, z, a=dval + cv, b=dlin: a + b * (x + y - z)) for cv in comp_vals]
        simu.add_dirichlet(nodes_lo, vals, unk)
        if "nodal" in load:
            simu.add_neumann(nodes_hi, [lval * (1 + cv) for cv in comp_vals], unk)
        if "surf" in load and dim >= 2:
            simu.add_surfLoad(bnodes, [(lambda x, y, z, a=lval, cv=cv: a * (1 + cv * x - y)) for cv in comp_vals], unk)
        if load == "volume" and dim >= 2:
            simu.add_volumeLoad(used, [(lambda x, y, z, a=lval, cv=cv: a * (cv + x * y)) for cv in comp_vals], unk)
    if problem == "thermal" and case.get("source") is not None:
        f = lambda x, y, z, s=case["source"]: orc.poly_eval(s, x, y, z)  # noqa
        if dim == 1:
            ded.add_lineLoad(used, [f], unk_d)
        else:
            ded.add_volumeLoad(used, [f], unk_d)

    # ---- matrices
    Kd, Cd, Md, Fd = ded.Get_K_C_M_F()
    Kw, Cw, Mw, Fw = weak.Get_K_C_M_F()
    if mt == MatrixType.rigi:
        _mat_close(rec, Kw, Kd, "K_same_rule", sig, TOL_ID)
    else:
        _mat_close(rec, Kw, Kd, "K", sig, TOL_MAT)
    if scheme != "static" or mt == MatrixType.mass:
        _mat_close(rec, Cw, Cd, "C", sigv if problem == "elastic" else sig, TOL_MAT, ref_scale=0.0)
    if scheme == "hyperbolic":
        _mat_close(rec, Mw, Md, "M", sigv, TOL_MAT)
    rhs_d = orc.dense(Fd).ravel() + np.asarray(ded.Bc_vector_Neumann(), float).ravel()
    rhs_w = orc.dense(Fw).ravel() + np.asarray(weak.Bc_vector_Neumann(), float).ravel()
    fscale = max(np.abs(rhs_d).max(), np.abs(rhs_w).max(), 1e-300)
    rec.close(rhs_w - rhs_d, fscale, TOL_MAT, "F_plus_neumann",
              f"{types} {problem}: F + Neumann vector of Simulations.WeakForms differs from the dedicated simulation", **sig)

    # ---- solutions
    Ndof = mesh.Nn * n
    dscale = abs(dval) + abs(dlin) * np.abs(coord).max() * 3 + 1.0

    def cmp(name, a, b, s):
        a, b = np.asarray(a, float).ravel(), np.asarray(b, float).ravel()
        rec.close(a - b, max(np.abs(b).max(), dscale), TOL_SOLVE, name,
                  f"{types} {problem} {scheme}: {name} of Simulations.WeakForms differs from the dedicated simulation", **s)

    if scheme == "static":
        ud = np.array(ded.Solve(), float)
        uw = np.array(weak.Solve(), float)
        cmp("solution", uw, ud, sig)
    else:
        rng = np.random.default_rng(int(case["init_seed"]))
        u0, v0, a0 = (rng.uniform(-1, 1, Ndof) for _ in range(3))
        dt = float(case["dt"])
        for simu in (ded, weak):
            if scheme == "parabolic":
                simu.Solver_Set_Parabolic_Algorithm(dt, float(case["alpha"]))
                simu._Set_solutions(simu.problemType, u0.copy(), v0.copy())
            else:
                from EasyFEA import AlgoType

                simu.Solver_Set_Hyperbolic_Algorithm(dt, algo=AlgoType(case["algo"]))
                simu._Set_solutions(simu.problemType, u0.copy(), v0.copy(), a0.copy())
        s = sigv if scheme == "hyperbolic" else sig

        def states(tag):
            cmp("solution" + tag, weak.u, ded.thermal if problem == "thermal" else ded.displacement, s)
            if scheme == "parabolic":
                cmp("rate" + tag, weak.v, ded.thermalDot, s)
            else:
                cmp("rate" + tag, weak.v, ded.speed, s)
                cmp("accel" + tag, weak.a, ded.accel, s)

        rewind = bool(case.get("rewind"))
        for step in range(3 if rewind else 2):
            ud = np.array(ded.Solve(), float)
            uw = np.array(weak.Solve(), float)
            cmp("solution", uw, ud, s)
            states("")
            if rewind:
                ded.Save_Iter()
                weak.Save_Iter()
        if rewind:
            # both simulations taken back to their first saved step, compared there and one step further (the dedicated
            # simulations' own save / restore is covered by C15)
            rec.label("rewind")
            ded.Set_Iter(0)
            weak.Set_Iter(0)
            states("_restored")
            ded.Solve()
            weak.Solve()
            states("_after_restore")
    # ---- the same two simulations after their (shared) mesh was moved in place: the forms are integrated again on the new
    # geometry, by the same form and field objects (the dedicated simulations themselves are covered by C14)
    mv = case.get("move")
    if mv:
        rec.label("move:" + mv)
        X = np.asarray(mesh.coord, float)
        if mv == "rotate" and dim >= 2:
            mesh.Rotate(30.0, (0.0, 0.0, 0.0), (0.0, 0.0, 1.0))
        else:
            A = np.eye(3)
            A[0, 0] = 1.5
            if dim >= 2:
                A[1, 1], A[0, 1] = 0.75, 0.3
            if dim == 3:
                A[2, 2] = 1.25
            mesh.coord = X @ A.T
        Kd, Cd, Md, _ = ded.Get_K_C_M_F()
        Kw, Cw, Mw, _ = weak.Get_K_C_M_F()
        _mat_close(rec, Kw, Kd, "K_after_motion", sig, TOL_ID if mt == MatrixType.rigi else TOL_MAT)
        if scheme != "static" or mt == MatrixType.mass:
            _mat_close(rec, Cw, Cd, "C_after_motion", sigv if problem == "elastic" else sig, TOL_MAT, ref_scale=0.0)
        if scheme == "hyperbolic":
            _mat_close(rec, Mw, Md, "M_after_motion", sigv, TOL_MAT)
    rec.nontrivial(Ndof > nodes_lo.size * n)


SUBS = [
    Sub("forms_vs_interpreter", check_interp, gen=form_cases, quick=400, thorough=800, shards=8,
        doc="generated ASTs: form.Integrate_e(field) == numpy interpreter"),
    Sub("forms_vs_builtins", check_builtins, gen=builtin_cases, quick=300, thorough=600, shards=4,
        doc="documented idioms == Operators.Bilinear / Linear with the same matrixType"),
    Sub("assemble", check_assemble, gen=assemble_cases, quick=200, thorough=500, shards=4,
        doc="form.Assemble(field) == dense scatter-add of form.Integrate_e(field)"),
    Sub("simu_equivalence", check_simu, gen=simu_cases, quick=200, thorough=300, shards=8,
        doc="Simulations.WeakForms == Simulations.Thermal / Elastic: K, C, M, F and solutions"),
]


# ------------------------------------------------------------------------------------------
# (added by the lead, round 9) the matrices of a weak-form SIMULATION are the scatter-add of the user's forms integrated on the
# user's field (its quadrature), for forms the stiffness rule does not integrate exactly: a reaction term c u v next to the
# diffusion term, a position-dependent coefficient - K, C, M and F alike


def enum_weakforms_matrices(tier):
    sq = [[0.0, 0.0], [1.2, 0.1], [1.0, 0.9], [0.1, 1.0]]
    for et in ("TRI3", "TRI6", "QUAD4", "QUAD8", "TETRA4", "TETRA10"):
        d3 = et.startswith("TETRA")
        r = dict(verts=sq, h=0.6 if not d3 else 1.3, elemType=et, organised=et.startswith("QUAD"), extrude=[0.1, 0.0, 0.8] if d3 else None,
                 layers=1 if d3 else 0, A=None, b=None, perm=None, orphans=0)
        for mt in ("rigi", "mass"):
            yield dict(recipe=r, mt=mt)


def check_weakforms_matrices(case, rec):
    mesh = gm.build(case["recipe"])
    groups = gm.main_groups(mesh)
    if len(groups) != 1:
        raise Inconclusive("WeakForms is single-group")
    g = groups[0]
    et = str(g.elemType)
    mt = MatrixType.rigi if case["mt"] == "rigi" else MatrixType.mass
    sig = dict(elemType=et, mt=case["mt"])
    rec.label("wf_matrices:" + et + ":" + case["mt"])
    field = Field(g, 1, matrixType=mt)
    fK = BiLinearForm(lambda u, v: (1.0 + u.Get_coords()[0]) * u.grad.dot(v.grad) + 40.0 * u.dot(v))
    fC = BiLinearForm(lambda u, v: 0.5 * u.dot(v))
    fM = BiLinearForm(lambda u, v: (2.0 + v.Get_coords()[1]) * u.dot(v))
    fF = LinearForm(lambda v: (1.0 + v.Get_coords()[0] * v.Get_coords()[1]) * v)
    simu = Simulations.WeakForms(mesh, Models.WeakForms(field, fK, computeC=fC, computeM=fM, computeF=fF))
    K, C, M, F = simu.Get_K_C_M_F()
    Ndof = int(g.Ncoords)
    conn = np.asarray(g.connect)
    for name, A, form in (("K", K, fK), ("C", C, fC), ("M", M, fM)):
        A_e = np.asarray(form.Integrate_e(field), float)
        ref = orc.scatter_matrix(Ndof, conn, 1, A_e)
        rec.close(orc.dense(A)[:Ndof, :Ndof] - ref, float(np.abs(ref).max()), TOL_ID, "weakforms_matrix_is_scatter_of_form",
                  f"{et} field on the {case['mt']} rule: {name} of Simulations.WeakForms is not the scatter-add of the user's form integrated on "
                  "the user's field", slot=name, **sig)
    F_e = np.asarray(fF.Integrate_e(field), float)
    refF = orc.scatter_vector(Ndof, conn, 1, F_e)
    rec.close(orc.dense(F).ravel()[:Ndof] - refF, float(np.abs(refF).max()), TOL_ID, "weakforms_matrix_is_scatter_of_form",
              f"{et}: F of Simulations.WeakForms is not the scatter-add of the user's linear form", slot="F", **sig)
    rec.nontrivial(True)


SUBS.append(Sub("weakforms_matrices", check_weakforms_matrices, enum=enum_weakforms_matrices,
                doc="element type x quadrature of the field: K, C, M, F of a weak-form simulation vs the scatter-add of the forms (reaction + diffusion, position-dependent coefficients)"))


# ------------------------------------------------------------------------------------------
# (added by the lead, round 9) mass along the normal on the surface groups of a CURVED 3D mesh (the normal varies inside a facet): the
# user form k (u . n)(v . n) with the normals at the integration points, the built-in operator MassAlongNormal and a dense sum
# written by the harness from the shape functions, weights and normals agree


def enum_mass_along_normal(tier):
    sq = [[0.0, 0.0], [1.2, 0.1], [1.0, 0.9], [0.1, 1.0]]
    for et in ("TETRA4", "TETRA10", "HEXA8", "HEXA20", "PRISM15"):
        for bend in (None, 0.15):
            r = dict(verts=sq, h=1.3, elemType=et, organised=et.startswith("HEXA"), extrude=[0.1, 0.0, 0.8], layers=1, A=None, b=None,
                     perm=None, orphans=0)
            if bend:
                r["bend"] = bend
            yield dict(recipe=r)


def check_mass_along_normal(case, rec):
    from EasyFEA.FEM import Operators

    mesh = gm.build(case["recipe"])
    bent = bool(case["recipe"].get("bend"))
    rec.label("normal_mass:" + case["recipe"]["elemType"], "bent" if bent else "straight")
    mt = MatrixType.mass
    spread = 0.0
    for g in mesh.Get_list_groupElem(2):
        if g.Ne == 0:
            continue
        sig = dict(elemType=str(g.elemType), volume=case["recipe"]["elemType"], bent=bent)
        field = Field(g, 3, matrixType=mt)
        n_e_pg = g.Get_normals_e_pg(mt)
        nn = np.asarray(n_e_pg, float)
        spread = max(spread, float(np.abs(nn - nn[:, :1]).max()))
        k = 1.5
        form = BiLinearForm(lambda u, v: k * u.dot(n_e_pg) * v.dot(n_e_pg))
        A_form = np.asarray(form.Integrate_e(field), float)
        A_built = np.asarray(Operators.Bilinear.MassAlongNormal(g, k, mt), float)
        wJ = np.asarray(g.Get_weightedJacobian_e_pg(mt), float)
        N = np.asarray(g.Get_N_pg(mt), float).reshape(wJ.shape[1], -1)  # (nPg, nPe)
        A_ref = np.einsum("ep,pi,pj,epa,epb->eiajb", k * wJ, N, N, nn, nn).reshape(g.Ne, 3 * g.nPe, 3 * g.nPe)
        scale = float(np.abs(A_ref).max())
        rec.close(A_built - A_ref, scale, TOL_ID, "mass_along_normal_builtin", f"{g.elemType} skin of a {'bent' if bent else 'straight'} "
                  f"{case['recipe']['elemType']} mesh: MassAlongNormal differs from the sum over the integration points of k wJ N_i N_j n_a n_b", **sig)
        rec.close(A_form - A_ref, scale, TOL_ID, "mass_along_normal_form", f"{g.elemType}: the user form k (u.n)(v.n) differs from the same sum", **sig)
    rec.nontrivial(spread > 1e-6 if bent else True)


SUBS.append(Sub("mass_along_normal", check_mass_along_normal, enum=enum_mass_along_normal,
                doc="volume element type x straight / bent mesh: form, built-in operator and a dense reference on every surface group"))
