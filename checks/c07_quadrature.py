"""C07 - quadrature rules: documented exactness, total weight, exact mesh measures, rigi rank."""

import numpy as np
from hypothesis import strategies as st

from EasyFEA import ElemType, MatrixType, Models, Simulations
from EasyFEA.FEM._gauss import Gauss

from vlib import gen_mesh as gm
from vlib import oracles as orc
from vlib.runner import Inconclusive, Sub

PROPERTY = "C07"
RULE = (
    "tables: every (shape,nPg) rule and every (elemType,matrixType) pair of the factory x every monomial "
    "up to the documented degree, enumerated completely; non-trivial = monomial of degree>=1. "
    "mesh: Hypothesis mesh recipes (polygon/extruded polygon/segment x element type x affine map x "
    "renumbering) with a random polynomial; non-trivial = polynomial degree>=1 on a mesh with >=2 "
    "elements; distinct = sha1 of the serialised case. rank: generated connected meshes with >=2 "
    "elements per element type."
    ' mesh_rules: every documented rule requested by point count on an affine mesh of every element type; returned_arrays: in-place use of the arrays a rule returns, every (type, matrix type) pair (non-trivial = every case).'
    " offered_counts: every integer count 1..40 per shape; counts Gauss() refuses are trivial, accepted ones are held to the docstring's order."
    ' Round 8: mixed_orientation enumerates every 2D / 3D element type on a mesh merged with its mirror image (measure and polynomial integrals vs the exact integrals of the two halves).'
    ' Round 9: far_from_origin enumerates every 2D / 3D element type translated to map coordinates (4.5e5, 5.4e6), measures vs those at the origin within the rounding of the coordinates.'
    ' rank_types (round 9) enumerates every element type, segments included, on fixed meshes (few elements, unstructured, a row).'
)
ASSUMPTIONS = [
    "documented degree taken from the docstrings of Gauss._Triangle/_Quadrangle/_Tetrahedron/"
    "_Hexahedron/_Prism as total degree; n-point Gauss-Legendre 2n-1 for segments",
    "closed-form reference integrals a!b!c!/(a+b+c+d)! and 2/(a+1) are the oracle",
    "only straight-sided gmsh meshes and affine images are generated",
]

TOL = 1e-12

# documented (nPg -> order) tables, transcribed from the docstrings (see ASSUMPTIONS)
DOC = dict(
    TRI={1: 1, 3: 2, 6: 3, 7: 4, 12: 5, 25: 9},
    QUAD={4: 1, 9: 2},
    TETRA={1: 1, 4: 2, 5: 3, 15: 5},
    HEXA={8: 3, 27: 5},
    # prism: (triangle degree, axis degree)
    PRISM={6: (2, 3), 8: (3, 3), 21: (5, 5)},
)
SHAPE_TYPE = dict(SEG="SEG2", TRI="TRI3", QUAD="QUAD4", TETRA="TETRA4", HEXA="HEXA8", PRISM="PRISM6")
SHAPE_DIM = dict(SEG=1, TRI=2, QUAD=2, TETRA=3, HEXA=3, PRISM=3)


_DOC_FN = dict(TRI="_Triangle", QUAD="_Quadrangle", TETRA="_Tetrahedron", HEXA="_Hexahedron", PRISM="_Prism")


def docstring_order(shape, nPg):
    """order documented for a count that is not in the transcribed table (a rule added later): read from the
    'available [...]' / 'order ... = [...]' lists of the docstring of the rule's function; None when absent"""
    import re

    doc = getattr(Gauss, _DOC_FN[shape]).__doc__ or ""
    lists = re.findall(r"(available|order[^=\[]*)=?\s*\[([0-9,\s]+)\]", doc)
    named = {k.strip(): [int(x) for x in v.replace(" ", "").split(",") if x] for k, v in lists}
    avail = named.get("available")
    if not avail or nPg not in avail:
        return None
    i = avail.index(nPg)
    orders = {k: v for k, v in named.items() if k.startswith("order") and len(v) == len(avail)}
    if shape == "PRISM":
        ax = [v for k, v in orders.items() if "X" in k]
        tri = [v for k, v in orders.items() if "Y" in k]
        return (tri[0][i], ax[0][i]) if ax and tri else None
    return next(iter(orders.values()))[i] if orders else None


def doc_monomials(shape, nPg, order=None):
    dim = SHAPE_DIM[shape]
    if shape == "SEG":
        return orc.monomials(1, 2 * nPg - 1)
    if order is not None:
        if shape == "PRISM":
            return [e for e in orc.monomials(3, order[0] + order[1]) if e[0] + e[1] <= order[0] and e[2] <= order[1]]
        return orc.monomials(dim, order)
    if shape == "PRISM":
        dt, da = DOC[shape][nPg]
        return [e for e in orc.monomials(3, dt + da) if e[0] + e[1] <= dt and e[2] <= da]
    return orc.monomials(dim, DOC[shape][nPg])


def rule_for(case):
    # byname: element type and matrix type given by their names (both enums are str-Enums and the constructor accepts strings)
    et = case["elemType"] if case.get("byname") else ElemType(case["elemType"])
    if case["via"] == "nPg":
        g = Gauss(et, int(case["nPg"]))
    else:
        g = Gauss(et, case["matrixType"] if case.get("byname") else MatrixType(case["matrixType"]))
    return np.asarray(g.coord, float), np.asarray(g.weights, float)


def enum_tables(tier):
    for shape, et in SHAPE_TYPE.items():
        npgs = range(1, 9) if shape == "SEG" else sorted(DOC[shape])
        for n in npgs:
            yield dict(via="nPg", elemType=et, nPg=n)
    for et in gm.SEG + gm.T2D + gm.T3D:
        mts = ["rigi", "mass", "beam", "beam_shear"] if et in gm.SEG else ["rigi", "mass"]
        for mt in mts:
            yield dict(via="matrixType", elemType=et, matrixType=mt)
            yield dict(via="matrixType", elemType=et, matrixType=mt, byname=True)


def enum_offered(tier):
    for shape, et in SHAPE_TYPE.items():
        for n in range(1, 41):
            if shape == "SEG" or n not in DOC[shape]:
                yield dict(via="nPg", elemType=et, nPg=n, probe=True)


def check_tables(case, rec):
    shape = orc.shape_of(case["elemType"])
    order = None
    if case.get("probe"):
        # every count the constructor accepts is a rule on offer; counts it refuses (NotImplementedError) are not
        try:
            coord, w = rule_for(case)
        except NotImplementedError:
            rec.label(f"probe:{shape}:refused")
            rec.nontrivial(False)
            return
        rec.label(f"probe:{shape}:offered")
        if shape != "SEG":
            order = docstring_order(shape, int(case["nPg"]))
            rec.require(order is not None, "known_rule", f"{shape} nPg={case['nPg']} is accepted by Gauss() but is neither in the documented "
                        f"table nor in the docstring's available/order lists", shape=shape, nPg=int(case["nPg"]))
    else:
        coord, w = rule_for(case)
    nPg = w.size
    sig = dict(shape=shape, nPg=int(nPg))
    rec.label(f"rule:{shape}{nPg}", f"via:{case['via']}")
    rec.require(coord.shape == (nPg, SHAPE_DIM[shape]), "shape", f"coord {coord.shape}", **sig)
    rec.require(orc.in_reference(shape, coord).all(), "points_inside",
                f"{shape} {nPg}-point rule has a point outside the reference element", **sig)
    meas = orc.REF_MEASURE[shape]
    rec.close(w.sum() - meas, meas, TOL, "weight_sum", f"{shape} nPg={nPg} sum(w)={w.sum()!r}", **sig)
    if shape != "SEG" and order is None:
        rec.require(nPg in DOC[shape], "known_rule", f"{shape} nPg={nPg} is not a documented rule", **sig)
    nt = 0
    for e in doc_monomials(shape, nPg, order):
        val = float(np.sum(w * np.prod(coord ** np.array(e)[None, :], axis=1)))
        ex = orc.ref_monomial_integral(shape, e)
        rec.close(val - ex, meas, TOL, "monomial", f"{shape} nPg={nPg} monomial {e}: {val!r} vs {ex!r}",
                  **sig)
        nt += sum(e) >= 1
    rec.nontrivial(nt > 0)


# ------------------------------------------------------------------------------------------
# meshes: measure, centroid, polynomial integrals


def mass_rule_degree(elemType: str) -> int:
    """degree of polynomial p such that Integrate_e(p, mass) must be exact on straight-sided
    elements of this type, derived from the documented degree of the rule selected for `mass`."""
    shape = orc.shape_of(elemType)
    nPg = Gauss(ElemType(elemType), MatrixType.mass).nPg
    if shape == "SEG":
        return 2 * nPg - 1
    if shape in ("TRI", "TETRA"):
        return DOC[shape][nPg]
    # bilinear / trilinear geometry: only what the property names explicitly (measure, centroid)
    return 1


@st.composite
def mesh_cases(draw):
    kind = draw(st.sampled_from(["2d", "2d", "3d", "1d"]))
    if kind == "2d":
        r = draw(gm.recipes2d())
    elif kind == "3d":
        r = draw(gm.recipes3d())
    else:
        r = draw(gm.recipes1d())
    dmax = mass_rule_degree(r["elemType"])
    deg = draw(st.integers(0, dmax))
    dim = 3
    coefs = {}
    for e in orc.monomials(dim, deg):
        if draw(st.integers(0, 2)) == 0 or sum(e) == deg:
            coefs[",".join(map(str, e))] = draw(st.integers(-3, 3))
    return dict(recipe=r, coefs=coefs, deg=deg)


def exact_1d(recipe, f):
    p1 = np.array(recipe["p1"], float)
    d = np.array(recipe["d"], float)
    L = np.linalg.norm(d)
    xg, wg = np.polynomial.legendre.leggauss(12)
    t = (xg + 1) / 2
    P = p1[None, :] + t[:, None] * d[None, :]
    return float(L * np.sum(wg / 2 * f(P[:, 0], P[:, 1], P[:, 2])))


def check_mesh(case, rec):
    r = case["recipe"]
    mesh = gm.build(r)
    et = r["elemType"]
    types = gm.mesh_types(mesh)
    dim = gm.dim_of(et)
    sig = dict(elemType=et, types=types)
    rec.label("mesh:" + types, "affine" if r.get("A") else "plain")
    coefs = case["coefs"]
    f = lambda x, y, z: orc.poly_eval(coefs, x, y, z) + 0 * x  # noqa
    one = lambda x, y, z: 1.0 + 0 * x  # noqa
    if dim == 1:
        ex_meas = exact_1d(r, one)
        ex_int = exact_1d(r, f)
        ex_c = np.array([exact_1d(r, lambda x, y, z, i=i: (x, y, z)[i]) for i in range(3)]) / ex_meas
        meas = mesh.length
    else:
        ex_meas = abs(gm.exact_integral(r, one, 0))
        sgn = np.sign(gm.exact_integral(r, one, 0))
        ex_int = sgn * gm.exact_integral(r, f, case["deg"])
        ex_c = np.array([sgn * gm.exact_integral(r, lambda x, y, z, i=i: (x, y, z)[i], 1) for i in range(3)]) / ex_meas
        meas = mesh.area if dim == 2 else mesh.volume
    rec.close(meas - ex_meas, ex_meas, TOL * 10, "measure", f"{types} measure {meas!r} vs {ex_meas!r}", **sig)
    # centroid
    diam = np.ptp(mesh.coord, axis=0).max() + np.abs(mesh.coord).max()
    rec.close(np.asarray(mesh.center) - ex_c, diam, TOL * 10, "centroid",
              f"{types} center {mesh.center} vs {ex_c}", **sig)
    # polynomial through Integrate_e (mass rule) on every main group, mixed meshes included
    tot = 0.0
    scale = 0.0
    for g in gm.main_groups(mesh):
        # the degree bound is the one of the weakest group present
        if mass_rule_degree(str(g.elemType)) < case["deg"]:
            raise Inconclusive("mixed mesh: secondary group has a lower-degree mass rule")
        tot += float(np.sum(g.Integrate_e(f, MatrixType.mass)))
        scale += float(np.sum(g.Integrate_e(lambda x, y, z: np.abs(f(x, y, z)) + 1.0 + 0 * x, MatrixType.mass)))
    rec.close(tot - ex_int, scale, TOL * 10, "poly_integral",
              f"{types} deg={case['deg']} integral {tot!r} vs {ex_int!r}", **sig)
    rec.nontrivial(case["deg"] >= 1 and mesh.Ne >= 2)


# ------------------------------------------------------------------------------------------
# rank adequacy of the rigi rule (scalar conduction: kernel = constants only)


@st.composite
def rank_cases(draw):
    kind = draw(st.sampled_from(["2d", "3d", "1d"]))
    if kind == "2d":
        r = draw(gm.recipes2d(affine_ok=False, perm_ok=False))
    elif kind == "3d":
        r = draw(gm.recipes3d(affine_ok=False, perm_ok=False))
    else:
        r = draw(gm.recipes1d())
        r["perm"] = None
    return dict(recipe=r)


def check_rank(case, rec):
    r = case["recipe"]
    mesh = gm.build(r)
    if mesh.Ne < 2 or not gm.is_connected(mesh):
        raise Inconclusive("needs >=2 connected elements")
    if mesh.Nn > 500:
        raise Inconclusive("too large for dense eigensolve")
    types = gm.mesh_types(mesh)
    sig = dict(elemType=r["elemType"], types=types)
    rec.label("rank:" + types)
    simu = Simulations.Thermal(mesh, Models.Thermal(k=1.3, c=1.0, thickness=1.0))
    K = orc.dense(simu.Get_K_C_M_F()[0])
    used = gm.used_nodes(mesh)
    K = K[np.ix_(used, used)]
    rec.close(orc.sym_err(K), 1.0, 1e-12, "K_symmetric", "", **sig)
    w = orc.spectrum(K)
    k, clear = orc.nullity_gap(w)
    if not clear:
        raise Inconclusive("rank gap not clear")
    rec.require(w.min() >= -1e-10 * np.abs(w).max(), "K_psd", f"lambda_min={w.min():.3e}", **sig)
    rec.require(k == 1, "K_nullity", f"{types}: conduction K has {k} zero-energy modes on a connected "
                f"{mesh.Ne}-element mesh (expected 1)", **sig)
    rec.nontrivial(True)


SUBS = [
    Sub("tables", check_tables, enum=enum_tables, doc="all rules x monomials up to documented degree"),
    Sub("offered_counts", check_tables, enum=enum_offered, doc="every integer count 1..40 per shape: whatever Gauss() accepts is a rule on offer (order from the docstring lists)"),
    Sub("mesh", check_mesh, gen=mesh_cases, quick=300, thorough=1500, shards=8),
    Sub("rank", check_rank, gen=rank_cases, quick=150, thorough=600, shards=6),
]

LEVEL_TEXT = ("complete enumeration of all quadrature rules/factory pairs against closed-form monomial integrals "
              "(exhaustive over that finite table) plus Hypothesis-generated straight-sided meshes checked against exact "
              "polygon/prism integrals and a dense eigen-oracle for the rank of the rigi rule")
LEVEL_NOTE = ("documented degrees transcribed from the docstrings; only straight-sided/affine geometry; meshes <=500 nodes; "
              "exploration never establishes absence on unexplored meshes")
TECHNIQUE = "finite-table enumeration + property-based testing (Hypothesis) vs closed-form integrals and dense eigensolve"
DESIGN_REF = "DESIGN.md 4/C07"
READY = True


# ------------------------------------------------------------------------------------------
# (added) every rule of a shape requested by its point count on a mesh: Integrate_e(f, nPg) / Get_weightedJacobian_e_pg(nPg) -
# the rules with negative weights (5-point tetrahedron, 8-point prism) are only reachable this way


def enum_mesh_rules(tier):
    para = [[0.0, 0.0], [2.0, 0.0], [2.5, 1.0], [0.5, 1.0]]
    for et in gm.T2D + gm.T3D:
        shape = orc.shape_of(et)
        d3 = et in gm.T3D
        r = dict(verts=para, h=1.0, elemType=et, organised=True, extrude=[0.2, 0.1, 1.0] if d3 else None, layers=2 if d3 else 0,
                 A=[[1.1, 0.3, 0.1], [-0.2, 0.9, 0.2], [0.1, -0.1, 1.2]] if d3 else [[1.1, 0.3], [-0.2, 0.9]],
                 b=[0.3, -0.2, 0.1] if d3 else [0.3, -0.2], perm=None, orphans=0)
        for n in sorted(DOC[shape]):
            yield dict(recipe=r, nPg=n)


def check_mesh_rules(case, rec):
    r, nPg = case["recipe"], int(case["nPg"])
    mesh = gm.build(r)
    types = gm.mesh_types(mesh)
    sig = dict(elemType=r["elemType"], types=types, nPg=nPg)
    rec.label(f"meshrule:{orc.shape_of(r['elemType'])}{nPg}")
    one = lambda x, y, z: 1.0 + 0 * x  # noqa
    sgn = np.sign(gm.exact_integral(r, one, 0))
    ex_meas = abs(gm.exact_integral(r, one, 0))
    ex_m1 = np.array([sgn * gm.exact_integral(r, lambda x, y, z, i=i: (x, y, z)[i], 1) for i in range(3)])
    diam = np.ptp(mesh.coord, axis=0).max() + np.abs(mesh.coord).max()
    meas, m1, wsum, wmin = 0.0, np.zeros(3), 0.0, np.inf
    for g in gm.main_groups(mesh):
        meas += float(np.sum(g.Integrate_e(one, nPg)))
        m1 += np.array([float(np.sum(g.Integrate_e(lambda x, y, z, i=i: (x, y, z)[i] + 0 * x, nPg))) for i in range(3)])
        wJ = np.asarray(g.Get_weightedJacobian_e_pg(nPg), float)
        wsum += float(wJ.sum())
        wmin = min(wmin, float(np.asarray(Gauss(g.elemType, nPg).weights).min()))
    rec.label("negative_weight" if wmin < 0 else "positive_weights")
    rec.close(meas - ex_meas, ex_meas, TOL * 10, "rule_measure", f"{types}: Integrate_e(1, {nPg}) = {meas!r} vs measure {ex_meas!r}", **sig)
    rec.close(wsum - ex_meas, ex_meas, TOL * 10, "rule_weighted_jacobian",
              f"{types}: sum of Get_weightedJacobian_e_pg({nPg}) = {wsum!r} vs measure {ex_meas!r}", **sig)
    rec.close(m1 - ex_m1, ex_meas * diam, TOL * 10, "rule_first_moment",
              f"{types}: first moments with the {nPg}-point rule {m1} vs {ex_m1} (affine elements)", **sig)
    rec.nontrivial(mesh.Ne >= 2)


SUBS.append(Sub("mesh_rules", check_mesh_rules, enum=enum_mesh_rules,
                doc="every documented rule of each shape requested by point count on an affine mesh of each element type"))


# ------------------------------------------------------------------------------------------
# (added) the arrays a rule hands out belong to the caller: scaling the weights or remapping the points of one query in place
# (w *= thickness, points moved to another parametrisation) must not change what the next query of the same rule returns


def enum_returned_arrays(tier):
    for et in gm.SEG + gm.T2D + gm.T3D:
        for mt in ("rigi", "mass"):
            yield dict(elemType=et, matrixType=mt)


def check_returned_arrays(case, rec):
    et, mt = ElemType(case["elemType"]), MatrixType(case["matrixType"])
    sig = dict(elemType=case["elemType"], matrixType=case["matrixType"])
    rec.label("alias:" + case["elemType"])
    g0 = Gauss(et, mt)
    c0, w0 = np.array(g0.coord, float), np.array(g0.weights, float)
    shape = orc.shape_of(case["elemType"])
    r = (dict(p1=[0.0, 0.0, 0.0], d=[2.0, 0.0, 0.0], elemType=case["elemType"], n=2, perm=None) if shape == "SEG" else None)
    group = None
    if r is None:
        d3 = case["elemType"] in gm.T3D
        rr = dict(verts=[[0.0, 0.0], [2.0, 0.0], [2.5, 1.0], [0.5, 1.0]], h=1.0, elemType=case["elemType"], organised=True,
                  extrude=[0.0, 0.0, 1.0] if d3 else None, layers=1 if d3 else 0, A=None, b=None, perm=None, orphans=0)
        group = gm.main_groups(gm.build(rr))[0]
    sources = [("Gauss(...).weights / .coord", lambda: (Gauss(et, mt).coord, Gauss(et, mt).weights))]
    if group is not None:
        sources.append(("groupElem.Get_gauss / Get_weight_pg", lambda: (group.Get_gauss(mt).coord, group.Get_weight_pg(mt))))
    for what, get in sources:
        c, w = get()
        try:
            w *= 0.1
            c += 7.0
        except ValueError:
            rec.label("alias:read_only_arrays")  # read-only arrays are a legitimate way to protect the tables
            continue
        g1 = Gauss(et, mt)
        rec.require(np.array_equal(np.asarray(g1.weights, float), w0) and np.array_equal(np.asarray(g1.coord, float), c0),
                    "returned_arrays_independent", f"{case['elemType']} {case['matrixType']}: after the arrays returned by {what} were "
                    f"modified in place, the next query of the rule gives sum(w)={float(np.sum(g1.weights))!r} (was {float(w0.sum())!r})", **sig)
    if group is not None:
        meas = float(np.sum(group.Integrate_e(lambda x, y, z: 1.0 + 0 * x, mt)))
        ex = abs(gm.exact_integral(rr, lambda x, y, z: 1.0 + 0 * x, 0))
        rec.close(meas - ex, ex, TOL * 10, "measure_after_in_place_use", f"{case['elemType']}: measure {meas!r} vs {ex!r} after the caller "
                  "modified the arrays of an earlier query", **sig)
    rec.nontrivial(True)


SUBS.append(Sub("returned_arrays", check_returned_arrays, enum=enum_returned_arrays,
                doc="in-place use of the arrays returned by a rule does not change later queries"))


# ------------------------------------------------------------------------------------------
# (added) frusta: wedges / bricks whose cross-section is scaled by (1 + s t) along the extrusion (t in [0, 1]); straight edges and
# planar faces, non-constant Jacobian even in first-order wedges. Volume A e_z (1 + s + s^2/3), int z dV = A e_z^2 (1/2 + 2s/3 + s^2/4)


def enum_tapered_measure(tier):
    sq = [[1.0, 0.0], [0.1, 1.1], [-1.0, 0.2], [-0.1, -0.9]]
    for et in ("PRISM6", "PRISM15", "PRISM18", "HEXA8", "HEXA20", "HEXA27"):
        for taper in (-0.4, 0.25, 0.6):
            yield dict(recipe=dict(verts=sq, h=1.2, elemType=et, organised=et.startswith("HEXA"), extrude=[0.25, -0.25, 1.5], layers=2,
                                   A=None, b=None, perm=None, orphans=0, taper=taper))


def check_tapered_measure(case, rec):
    r = case["recipe"]
    mesh = gm.build(r)
    types = gm.mesh_types(mesh)
    s, ez = float(r["taper"]), float(r["extrude"][2])
    V = np.array(r["verts"], float)
    area = 0.5 * abs(float(np.sum(V[:, 0] * np.roll(V[:, 1], -1) - np.roll(V[:, 0], -1) * V[:, 1])))
    ex_vol = area * ez * (1.0 + s + s * s / 3.0)
    ex_mz = area * ez * ez * (0.5 + 2.0 * s / 3.0 + s * s / 4.0)
    sig = dict(elemType=r["elemType"], types=types, taper=s)
    rec.label("tapered:" + types)
    for mt in (MatrixType.rigi, MatrixType.mass):
        vol = sum(float(np.sum(g.Integrate_e(lambda x, y, z: 1.0 + 0 * x, mt))) for g in gm.main_groups(mesh))
        rec.close(vol - ex_vol, ex_vol, TOL * 10, "tapered_volume", f"{types} taper={s} {mt}: volume {vol!r} vs {ex_vol!r}", **sig)
    mz = sum(float(np.sum(g.Integrate_e(lambda x, y, z: z + 0 * x, MatrixType.mass))) for g in gm.main_groups(mesh))
    rec.close(mz - ex_mz, ex_mz, TOL * 10, "tapered_moment", f"{types} taper={s}: int z dV {mz!r} vs {ex_mz!r}", **sig)
    rec.close(float(mesh.volume) - ex_vol, ex_vol, TOL * 10, "tapered_volume", f"{types} taper={s}: mesh.volume {mesh.volume!r} vs {ex_vol!r}", **sig)
    rec.close(float(np.asarray(mesh.center)[2]) - ex_mz / ex_vol, ez, TOL * 10, "tapered_centroid", f"{types} taper={s}: center z", **sig)
    rec.nontrivial(True)


SUBS.append(Sub("tapered_measure", check_tapered_measure, enum=enum_tapered_measure, doc="volume, first moment and centroid of frusta"))


# ------------------------------------------------------------------------------------------
# (added by the lead, round 8) a mesh merged with its mirror image: one element group holds positively and negatively oriented
# elements.  Measure, centroid and polynomial integrals (degree <= the documented degree of the mass rule, at least 1) are those
# of the two halves: integral over the mirror image of f = integral over the half of f o S, S the reflection (exact reference)


def enum_mixed_orientation(tier):
    sq = [[0.0, 0.0], [1.2, 0.1], [1.0, 0.9], [0.1, 1.0]]
    for et in gm.T2D + gm.T3D:
        d3 = et in gm.T3D
        shape = orc.shape_of(et)
        r = dict(verts=sq, h=0.7 if not d3 else 1.3, elemType=et, organised=shape in ("QUAD", "HEXA"), extrude=[0.1, 0.0, 0.8] if d3 else None,
                 layers=1 if d3 else 0, A=None, b=None, perm=None, orphans=0)
        yield dict(recipe=r)


def check_mixed_orientation(case, rec):
    from EasyFEA import Mesh

    r = case["recipe"]
    et = r["elemType"]
    dim = gm.dim_of(et)
    half = gm.build(r)
    types = gm.mesh_types(half)
    sig = dict(elemType=et, types=types)
    rec.label("mixed:" + types)
    a = float(np.asarray(half.coord, float)[:, 0].max()) + 0.25  # mirror plane x = a, outside the body
    mirror = half.copy()
    mirror.Symmetry((a, 0.0, 0.0), (1.0, 0.0, 0.0))
    merged = Mesh.Merge([half, mirror])
    deg = max(1, min(mass_rule_degree(str(g.elemType)) for g in gm.main_groups(merged)))
    polys = [("1", lambda x, y, z: 1.0 + 0 * x, 0), ("x", lambda x, y, z: x + 0.0, 1), ("y", lambda x, y, z: y + 0.0, 1)]
    if deg >= 2:
        polys += [("x*y", lambda x, y, z: x * y, 2), ("x**2", lambda x, y, z: x * x, 2)]
    sgn = np.sign(gm.exact_integral(r, polys[0][1], 0))
    meas = 2.0 * abs(gm.exact_integral(r, polys[0][1], 0))
    for name, f, d in polys:
        ex = sgn * (gm.exact_integral(r, f, d) + gm.exact_integral(r, lambda x, y, z, f=f: f(2.0 * a - x, y, z), d))
        tot = sum(float(np.sum(g.Integrate_e(f, MatrixType.mass))) for g in gm.main_groups(merged))
        rec.close(tot - ex, meas * (1.0 + abs(a)) ** d, TOL * 10, "mixed_orientation_integral",
                  f"{types}: integral of {name} over a mesh merged with its mirror image: {tot!r} vs {ex!r}", poly=name, **sig)
    m = merged.area if dim == 2 else merged.volume
    rec.close(m - meas, meas, TOL * 10, "mixed_orientation_measure", f"{types}: measure {m!r} vs {meas!r}", **sig)
    rec.nontrivial(True)


SUBS.append(Sub("mixed_orientation", check_mixed_orientation, enum=enum_mixed_orientation,
                doc="every 2D / 3D element type: measure and polynomial integrals over a mesh merged with its mirror image"))


# ------------------------------------------------------------------------------------------
# (added by the lead, round 9) a mesh far from the origin (projected map coordinates: metres around x = 4.5e5, y = 5.4e6): element and
# total measures are those of the same mesh at the origin up to the rounding of the coordinates themselves (eps |offset| / h per
# element, measured 1e-9 .. 4e-8 here) - a formula on raw coordinates that cancels catastrophically is 4 orders above that


def enum_far_from_origin(tier):
    sq = [[0.0, 0.0], [1.2, 0.1], [1.0, 0.9], [0.1, 1.0]]
    for et in gm.T2D + gm.T3D:
        d3 = et in gm.T3D
        for organised in ((True, False) if not d3 else (True,)):
            r = dict(verts=sq, h=0.5 if not d3 else 1.3, elemType=et, organised=organised, extrude=[0.1, 0.0, 0.8] if d3 else None,
                     layers=1 if d3 else 0, A=None, b=None, perm=None, orphans=0)
            yield dict(recipe=r, offset=[4.5e5, 5.4e6, 3.3e5 if d3 else 0.0])


def check_far_from_origin(case, rec):
    r = case["recipe"]
    dim = gm.dim_of(r["elemType"])
    near = gm.build(r)
    far = gm.build(r)
    far.Translate(*[float(x) for x in case["offset"]])
    types = gm.mesh_types(near)
    sig = dict(elemType=r["elemType"], types=types)
    rec.label("far:" + types)
    name = {2: "area_e", 3: "volume_e"}[dim]
    off = float(np.abs(case["offset"]).max())
    for g0, g1 in zip(gm.main_groups(near), gm.main_groups(far)):
        m0, m1 = np.asarray(getattr(g0, name), float), np.asarray(getattr(g1, name), float)
        h = float(m0.min()) ** (1.0 / dim)
        # rounding of the translated coordinates: |offset| eps relative to the element size, times the number of terms involved
        tol = 500.0 * np.finfo(float).eps * off / h  # honest errors reach 2 % of this bound (far_rel_error_over_bound), the seeded formula 800 x
        rec.note_max("far_rel_error_over_bound", float(np.abs(m1 - m0).max() / m0.min()) / tol)
        rec.close(m1 - m0, float(m0.min()), tol, "far_element_measures",
                  f"{g0.elemType}: {name} of the mesh translated by {case['offset']} differs from the one at the origin by "
                  f"{np.abs(m1 - m0).max() / m0.min():.2e} of the smallest element (rounding bound {tol:.1e})", **sig)
        i0 = np.asarray(g0.Integrate_e(lambda x, y, z: 1.0 + 0 * x, MatrixType.mass), float)
        i1 = np.asarray(g1.Integrate_e(lambda x, y, z: 1.0 + 0 * x, MatrixType.mass), float)
        rec.close(i1 - i0, float(m0.min()), tol, "far_integrate_one", f"{g0.elemType}: Integrate_e(1) far from the origin", **sig)
    M0 = near.area if dim == 2 else near.volume
    M1 = far.area if dim == 2 else far.volume
    rec.close(M1 - M0, M0, 500.0 * np.finfo(float).eps * off / (M0 ** (1.0 / dim)) * 10, "far_measure", f"{types}: measure {M1!r} vs {M0!r}", **sig)
    rec.nontrivial(True)


SUBS.append(Sub("far_from_origin", check_far_from_origin, enum=enum_far_from_origin,
                doc="every 2D / 3D element type (organised and unstructured in 2D) translated to map coordinates (4.5e5, 5.4e6)"))


# ------------------------------------------------------------------------------------------
# (added by the lead, round 9) the rank of the stiffness rule for EVERY element type, on fixed meshes (a few elements, organised and
# unstructured, a row of elements): the generated `rank` cases reach a given type on a mesh that keeps its mechanisms only at some
# seeds (seeded change C07_B, re-run at the end of round 9)


def enum_rank_types(tier):
    sq = [[0.0, 0.0], [1.2, 0.1], [1.0, 0.9], [0.1, 1.0]]
    strip = [[0.0, 0.0], [3.0, 0.0], [3.0, 1.0], [0.0, 1.0]]
    for et in gm.T2D + gm.T3D:
        d3 = et in gm.T3D
        quadlike = orc.shape_of(et) in ("QUAD", "HEXA")
        for verts, h, organised in ((sq, 0.6, quadlike), (sq, 0.35, False), (strip, 1.0, True)):
            if organised and not quadlike and verts is sq:
                continue
            yield dict(recipe=dict(verts=verts, h=h if not d3 else max(h, 0.7), elemType=et, organised=organised,
                                   extrude=[0.1, 0.0, 0.8] if d3 else None, layers=1 if d3 else 0, A=None, b=None, perm=None, orphans=0))
    for et in ("SEG2", "SEG3", "SEG4", "SEG5"):
        yield dict(recipe=dict(kind="1d", elemType=et))


def check_rank_types(case, rec):
    if case["recipe"].get("kind") == "1d":
        from EasyFEA import ElemType, Mesher
        from EasyFEA.Geoms import Line, Point

        et = case["recipe"]["elemType"]
        mesh = Mesher().Mesh_1D([Line(Point(0, 0), Point(2.0, 1.0), 0.75)], ElemType(et))
        simu = Simulations.Thermal(mesh, Models.Thermal(k=1.3, c=1.0, thickness=1.0))
        K = orc.dense(simu.Get_K_C_M_F()[0])
        w = orc.spectrum(K)
        k, clear = orc.nullity_gap(w)
        rec.label("rank:" + et)
        rec.require(clear and k == 1, "K_nullity", f"{et}: 1D conduction K has {k} zero-energy modes on a {mesh.Ne}-element bar (expected 1)",
                    elemType=et, types=et)
        rec.nontrivial(True)
        return
    check_rank(case, rec)


SUBS.append(Sub("rank_types", check_rank_types, enum=enum_rank_types,
                doc="every element type (segments included) x fixed meshes (few elements, unstructured, a row): conduction K has exactly one zero mode"))
