"""C16 - named results are consistent with the fields and matrices they derive from."""

import numpy as np
from hypothesis import strategies as st

from EasyFEA import Models, Simulations
from EasyFEA.FEM import MatrixType

from vlib import c16_sims as cs
from vlib import gen_beam as gb
from vlib import gen_mesh as gm
from vlib import gen_model as gmod
from vlib.runner import Inconclusive, Sub, innermost_is_easyfea

PROPERTY = "C16"
RULE = (
    "Hypothesis draws a simulation type (Elastic, Thermal, Beam Euler-Bernoulli/Timoshenko 2D/3D, WeakForms with 1-3 dofs per "
    "node, HyperElastic, InElastic, PhaseField), a gmsh mesh recipe of any element type (unstructured QUAD recipes give "
    "naturally mixed QUAD+TRI meshes; node renumbering), a model, a time algorithm and a state seed; an arbitrary state "
    "(u, v, a, damage, committed internal variables) is injected through _Set_solutions and every name of Results_Available() "
    "is queried with nodeValues True and False. Conversion cases draw a small mesh, a storage, an array layout and a number "
    "of components chosen among those that make the sizes ambiguous; energy cases an arbitrary u; reaction cases a clamped "
    "boundary patch and nodal/surface/volume loads. Non-trivial = every column of the injected state is non-zero everywhere "
    "and no two columns coincide (so a mis-wired component shows) / a non-zero constant / a non-zero load; "
    "distinct = sha1 of the case, the class histogram counts (simulation type, result name)."
    ' size_coincidences: enumerated meshes padded with orphan nodes so that Nn*dof_n == Ne or Nn == Ne; reactions_transient: Calc_Reaction of an arbitrary state vs K u + C v + M a for every scheme (non-trivial = non-zero last term); energy_units: the energy identity at state magnitudes 1e-9 and 1e6, one case per simulation type.'
    ' Round 8: reactions_frame draws two connected members (straight or with a knee), static or dynamic: Calc_Reaction at the clamp vs K u (+ C v + M a) without the multiplier border and vs the tip force and its moment.'
    " Round 9: hyperelastic cases may carry an active fibre stress (one value, or a field with passive elements); their stress reference comes from the model's functions."
)
ASSUMPTIONS = [
    "the state is the one the harness injected (nodal arrays drawn from numpy default_rng(seed)); dof numbering node*dof_n+comp",
    "the tensor a component / equivalent result belongs to is the simulation's own integration-point field "
    "(_Calc_Epsilon_e_pg, _Calc_Sigma_e_pg, _Calc_GreenLagrange, _Calc_SecondPiolaKirchhoff, Behavior.Compute_stress on the "
    "committed state) in Kelvin-Mandel order 2D [xx,yy,r2 xy], 3D [xx,yy,zz,r2 yz,r2 xz,r2 xy]; a 3-component tensor is an "
    "in-plane tensor (out-of-plane components zero) for the von Mises norm sqrt(3/2 dev:dev), which the harness computes from "
    "the full 3x3 tensor",
    "K is the matrix returned by Get_K_C_M_F (its correctness is C02/C03's business); loads vector of the reaction check = "
    "Bc_vector_Neumann (C09's business) restricted to the free dofs, and closed-form resultants for nodal loads",
    "reactions: static linear problems only (Calc_Reaction documents that it returns K u (+ C v + M a), F not subtracted)",
    "meshes <= 450 nodes; identity-level tolerance 1e-12 x magnitude of the compared field; 1e-9 after a sparse solve",
]
LEVEL_TEXT = ("every advertised result name of the 7 simulation types, in nodal and element form, on generated meshes (incl. mixed "
              "QUAD+TRI) with arbitrary injected states: components vs vector/tensor results and the injected state, von Mises "
              "vs the integration-point tensor, node<->element conversion of constants, Wdef vs 1/2 u'Ku, beam forces vs K u and "
              "D B u, reactions vs applied loads")
LEVEL_NOTE = ("exploration: bounded mesh sizes and a finite set of laws per simulation type; the integration-point fields and K are "
              "trusted here (C01-C03, C11, C17-C19 decide them); absence of violations on unexplored inputs is not established")
TECHNIQUE = "property-based testing (Hypothesis) vs injected state, harness tensor algebra and 1/2 u'Ku"
DESIGN_REF = "DESIGN.md 4/C16"
READY = True

TOL = 1e-12
MISSING = object()
COMP3 = ["xx", "yy", "xy"]
COMP6 = ["xx", "yy", "zz", "yz", "xz", "xy"]


# ------------------------------------------------------------------------------------------
# querying


def _name(n):
    return str(getattr(n, "value", n))


def query(ctx, rec, name, nodeValues, sig):
    """Result(name, nodeValues) of an advertised name.  An exception raised inside EasyFEA is a
    violation of class 'result_raises' (reported through rec.require so that listed classes are
    counted and the search goes on behind them); None for an advertised name is 'result_none'."""
    try:
        val = ctx.simu.Result(name, nodeValues=nodeValues)
    except Exception as e:  # noqa: BLE001 - re-raised unless it comes from inside EasyFEA
        if not innermost_is_easyfea(e.__traceback__):
            raise
        rec.require(False, "result_raises", f"{ctx.kind} {ctx.types}: Result({name!r}, nodeValues={nodeValues}) raised "
                    f"{type(e).__name__}: {e}", exc=type(e).__name__, **sig)
        return MISSING
    if val is None:
        rec.require(False, "result_none", f"{ctx.kind} {ctx.types}: Result({name!r}, nodeValues={nodeValues}) returned None "
                    "although Results_Available() advertises the name", **sig)
        return MISSING
    return val


def as_table(ctx, rec, val, N, ncomp, name, sig):
    """(N, ncomp) view of a vector/tensor result given flat (N*ncomp,) or 2d; MISSING on a wrong shape"""
    A = np.asarray(val, float)
    ok = A.size == N * ncomp and (A.ndim == 1 or (A.ndim == 2 and A.shape[0] == N))
    if not rec.require(ok, "result_shape", f"{ctx.kind} {ctx.types}: Result({name!r}) has shape {A.shape}, expected "
                       f"{N * ncomp} values = ({N}, {ncomp}) (Nn={ctx.mesh.Nn}, Ne={ctx.mesh.Ne})", **sig):
        return MISSING
    return A.reshape(N, ncomp)


ELEM_STORED = {"Wdef_e", "ZZ1_e", "psiP", "W_e", "N", "Mx", "My", "Mz", "Ty", "Tz", "Svm", "Evm", "Stress", "Strain", "Srain",
               "Piola-Kirchhoff", "Green-Lagrange", "ux'", "rx'", "ry'", "rz'"}
TABLES = {"Stress", "Strain", "Srain", "Piola-Kirchhoff", "Green-Lagrange", "displacement_matrix"}


def source_of(ctx, name):
    """(storage, ncomp, layout) of the array a result name is computed as, before its conversion to the requested form"""
    if name in TABLES:
        return ("elems" if name in ELEM_STORED else "nodes"), 3, "table"
    if name in ELEM_STORED or (len(name) == 3 and name[0] in "SE" and name[1:] in COMP6):
        return "elems", 1, "scalar"
    if ctx.sim == "inelastic" and name in [_name(n) for n in ctx.simu.material.layout.slots]:
        return "elems", 1, "scalar"
    if name in ("displacement", "speed", "accel", "u", "v", "a") and ctx.ncomp > 1:
        return "nodes", ctx.ncomp, "flat"
    return "nodes", 1, "scalar"


def amb_class(mesh, storage, ncomp, layout):
    """class of arrays whose storage (nodes / elements) cannot be told from their size alone"""
    Nn, Ne = mesh.Nn, mesh.Ne
    if layout == "table":
        return "2d_Nn_eq_Ne" if Nn == Ne else "no"
    size = (Nn if storage == "nodes" else Ne) * ncomp
    if not (size % Nn == 0 and size % Ne == 0):
        return "no"
    if Nn == Ne:
        return "1d_Nn_eq_Ne"
    if layout == "scalar":
        return "1d_scalar"  # the exact length (Nn xor Ne) tells the storage
    return "1d_flat_eq_Ne" if size == Ne else "1d_flat_nodal_vector"


def ambiguity(ctx, name):
    return amb_class(ctx.mesh, *source_of(ctx, name))


def mksig(ctx, base, name, form, family):
    return dict(base, name=name, form=form, family=family, ambiguous=ambiguity(ctx, name))


def tensor_names(width):
    return COMP3 if width == 3 else COMP6 if width == 6 else None


# ------------------------------------------------------------------------------------------
# (a) components


def vector_groups(ctx):
    """[(vector result name, injected array (Nn, ncomp) or None, [component names], kind)]"""
    sim, n = ctx.sim, ctx.ncomp
    if sim == "thermal":
        return [("thermal", ctx.u, [], "u"), ("thermalDot", ctx.v, [], "v")]
    if sim == "weakforms":
        comps = (lambda p: [p + c for c in cs.XYZ[:n]]) if n > 1 else (lambda p: [])
        return [("u", ctx.u, comps("u"), "u"), ("v", ctx.v, comps("v"), "v"), ("a", ctx.a, comps("a"), "a")]
    if sim == "beam":
        names = {1: ["ux"], 3: ["ux", "uy", "rz"], 6: ["ux", "uy", "uz", "rx", "ry", "rz"]}[n]
        return [("displacement", ctx.u, names, "u")]
    out = [("displacement", ctx.u, ["u" + c for c in cs.XYZ[:n]], "u")]
    if sim in ("elastic", "hyperelastic"):
        out += [("speed", ctx.v, ["v" + c for c in cs.XYZ[:n]], "v"), ("accel", ctx.a, ["a" + c for c in cs.XYZ[:n]], "a")]
    return out


def check_components(case, rec):
    ctx = cs.build(case)
    simu, mesh, sim = ctx.simu, ctx.mesh, ctx.sim
    avail = [_name(n) for n in simu.Results_Available()]
    only = case.get("only")
    base = dict(sim=sim, kind=ctx.kind, dim=ctx.dim, types=ctx.types, algo=ctx.algo)
    rec.label(f"sim:{ctx.kind}:{ctx.dim}d", "types:" + ctx.types, "algo:" + sim + ":" + ctx.algo,
              "mixed" if "+" in ctx.types else "single_group")
    Nn, Ne = mesh.Nn, mesh.Ne
    ncompared = 0
    done = set()
    if sim in ("phasefield", "hyperelastic", "inelastic") and not all(np.all(np.isfinite(F)) for F in cs.tensor_fields(ctx, "stress")):
        raise Inconclusive("non-finite stress field (the split / law is decided by C17-C19)")

    def want(name):
        return name in avail and (only is None or name in only)

    for nodeValues in (True, False):
        N = Nn if nodeValues else Ne
        form = "node" if nodeValues else "elem"

        # ---- vector results and their components
        for vname, injected, comps, k in vector_groups(ctx):
            V = MISSING
            if vname in avail and (only is None or vname in only or any(c in only for c in comps)):
                sig = mksig(ctx, base, vname, form, k)
                val = query(ctx, rec, vname, nodeValues, sig)
                done.add(vname)
                if val is not MISSING:
                    V = as_table(ctx, rec, val, N, ctx.ncomp, vname, sig)
                if V is not MISSING and nodeValues and injected is not None:
                    rec.close(V - injected, np.abs(injected).max(), TOL, "vector_vs_state",
                              f"{ctx.kind}: Result({vname!r}) differs from the injected {k} field", **sig)
                    ncompared += 1
            for i, cname in enumerate(comps):
                if not want(cname):
                    continue
                sig = mksig(ctx, base, cname, form, k)
                done.add(cname)
                rec.label(f"q:{sim}:{cname}")
                val = query(ctx, rec, cname, nodeValues, sig)
                if val is MISSING:
                    continue
                c = np.asarray(val, float)
                if not rec.require(c.shape == (N,), "result_shape", f"{ctx.kind} {ctx.types}: Result({cname!r}, nodeValues="
                                   f"{nodeValues}) has shape {c.shape}, expected ({N},)", **sig):
                    continue
                if nodeValues and injected is not None:
                    rec.close(c - injected[:, i], np.abs(injected).max(), TOL, "vector_component",
                              f"{ctx.kind}: Result({cname!r}) is not column {i} of the injected {k} field "
                              f"(first values {c[:3]} vs {injected[:3, i]})", ref="state", **sig)
                    ncompared += 1
                if V is not MISSING:
                    rec.close(c - V[:, i], np.abs(V).max(), TOL, "vector_component",
                              f"{ctx.kind}: Result({cname!r}, nodeValues={nodeValues}) is not column {i} of Result({vname!r})",
                              ref="vector", **sig)
                    ncompared += 1

        # ---- norms of the vector results: Euclidean norm of the translation components (the rotations of a beam are not lengths)
        for vname, injected, comps, k in vector_groups(ctx):
            nname = vname + "_norm"
            if not (nodeValues and injected is not None and want(nname)):
                continue
            cols = [i for i, c in enumerate(comps) if c[-1] in "xyz" and c[0] in "uva"] if sim == "beam" else list(range(injected.shape[1]))
            if not cols:
                continue
            sig = mksig(ctx, base, nname, form, k)
            done.add(nname)
            rec.label(f"q:{sim}:{nname}")
            val = query(ctx, rec, nname, nodeValues, sig)
            if val is MISSING:
                continue
            c = np.asarray(val, float)
            if not rec.require(c.shape == (N,), "result_shape", f"{ctx.kind} {ctx.types}: Result({nname!r}) has shape {c.shape}, expected ({N},)", **sig):
                continue
            ref = np.linalg.norm(injected[:, cols], axis=1)
            rec.close(c - ref, np.abs(injected).max(), TOL, "vector_norm",
                      f"{ctx.kind}: Result({nname!r}) is not the norm of the translation components of the {k} field "
                      f"(first values {c[:3]} vs {ref[:3]})", **sig)
            ncompared += 1

        # ---- tensor results and their components
        for tname, prefix, which in tensor_groups(ctx):
            T = MISSING
            width = None
            cnames_all = [prefix + c for c in COMP6]
            touched = only is None or tname in only or any(c in only for c in cnames_all)
            if tname in avail and (only is None or tname in only):
                sig = mksig(ctx, base, tname, form, which)
                val = query(ctx, rec, tname, nodeValues, sig)
                done.add(tname)
                if val is not MISSING:
                    A = np.asarray(val, float)
                    ok = A.ndim == 2 and A.shape[0] == N and A.shape[1] in (1, 3, 6)
                    if rec.require(ok, "result_shape", f"{ctx.kind} {ctx.types}: Result({tname!r}, nodeValues={nodeValues}) has "
                                   f"shape {A.shape}, expected ({N}, 3|6)", **sig):
                        T, width = A, A.shape[1]
            # the integration-point field the components derive from (element form): element mean per group
            F_e = None
            if not nodeValues and touched:
                F_e = element_mean_field(ctx, which)
                if F_e is not None and T is not MISSING and F_e.shape[1] != T.shape[1]:
                    if F_e.shape[1] == 6 and T.shape[1] == 3:
                        F_e = F_e[:, [0, 1, 5]]  # a 2D result of a field the harness holds with its six components: [xx, yy, xy]
                    else:
                        rec.require(False, "result_shape", f"{ctx.kind} {ctx.types}: Result({tname!r}) has {T.shape[1]} components, the "
                                    f"integration-point {which} field {F_e.shape[1]}", **mksig(ctx, base, tname, form, which))
                        F_e = None
                if F_e is not None:
                    width = width or F_e.shape[1]
                    if T is not MISSING:
                        rec.close(T - F_e, np.abs(F_e).max(), TOL, "tensor_vs_field", f"{ctx.kind}: Result({tname!r}, "
                                  "nodeValues=False) is not the element mean of the integration-point field", **dict(base, name=tname,
                                                                                                                    form=form, family=which))
                        ncompared += 1
            names_w = component_names(ctx, width)
            if names_w is None:
                continue
            for i, cn in enumerate(names_w):
                cname = prefix + cn
                if not want(cname):
                    continue
                sig = mksig(ctx, base, cname, form, which)
                done.add(cname)
                rec.label(f"q:{sim}:{cname}")
                val = query(ctx, rec, cname, nodeValues, sig)
                if val is MISSING:
                    continue
                c = np.asarray(val, float)
                if not rec.require(c.shape == (N,), "result_shape", f"{ctx.kind} {ctx.types}: Result({cname!r}, nodeValues="
                                   f"{nodeValues}) has shape {c.shape}, expected ({N},)", **sig):
                    continue
                if T is not MISSING:
                    rec.close(c - T[:, i], np.abs(T).max(), TOL, "tensor_component",
                              f"{ctx.kind}: Result({cname!r}, nodeValues={nodeValues}) is not component {i} ({cn}) of "
                              f"Result({tname!r})", ref="tensor", **sig)
                    ncompared += 1
                if F_e is not None:
                    rec.close(c - F_e[:, i], np.abs(F_e).max(), TOL, "tensor_component",
                              f"{ctx.kind}: Result({cname!r}, nodeValues=False) is not the element mean of component {i} ({cn}) "
                              f"of the integration-point {which} field (first values {c[:3]} vs {F_e[:3, i]})", ref="field", **sig)
                    ncompared += 1

        # ---- beams: generalised strains and internal forces are components of the (Ne, nPg, n) fields
        if sim == "beam" and not nodeValues:
            ncompared += beam_generalised(ctx, rec, base, want, done)

        # ---- scalar fields that are the state itself
        for sname, arr in state_scalars(ctx, nodeValues):
            if not want(sname):
                continue
            sig = mksig(ctx, base, sname, form, "state")
            done.add(sname)
            rec.label(f"q:{sim}:{sname}")
            val = query(ctx, rec, sname, nodeValues, sig)
            if val is MISSING:
                continue
            c = np.asarray(val, float)
            if rec.require(c.shape == (N,), "result_shape", f"{ctx.kind}: Result({sname!r}, nodeValues={nodeValues}) has shape "
                           f"{c.shape}, expected ({N},)", **sig):
                rec.close(c - arr, np.abs(arr).max() + 1e-300, TOL, "scalar_vs_state",
                          f"{ctx.kind}: Result({sname!r}, nodeValues={nodeValues}) differs from the injected field", **sig)
                ncompared += 1

        # ---- every other advertised name: obtainable, finite, of the requested form
        for name in avail:
            if name in done or (only is not None and name not in only):
                continue
            sig = mksig(ctx, base, name, form, family_of(ctx, name))
            rec.label(f"q:{sim}:{name}")
            val = query(ctx, rec, name, nodeValues, sig)
            if val is MISSING:
                continue
            A = np.asarray(val, float)
            rec.require(bool(np.all(np.isfinite(A))), "result_finite", f"{ctx.kind}: Result({name!r}) is not finite", **sig)
            if A.ndim >= 1:
                ok = A.shape[0] == N or (A.ndim == 1 and A.size % N == 0 and A.size // N == ctx.ncomp)
                rec.require(ok, "result_shape", f"{ctx.kind} {ctx.types}: Result({name!r}, nodeValues={nodeValues}) has shape "
                            f"{A.shape}, expected leading size {N}", **sig)
    rec.nontrivial(ncompared > 0 and cs.distinct_nonzero(ctx.u, ctx.v, ctx.a))


def family_of(ctx, name):
    if ctx.sim == "beam":
        if name.endswith("'"):
            return "beam_strain"
        if name in ("N", "Mx", "My", "Mz", "Ty", "Tz"):
            return "beam_force"
        if name in ("fx", "fy", "fz", "cx", "cy", "cz"):
            return "beam_nodal_force"
    if len(name) == 3 and name[0] in "SE" and name[1:] in COMP6:
        return "stress" if name[0] == "S" else "strain"
    return "other"


def tensor_groups(ctx):
    if ctx.sim in ("elastic", "inelastic", "phasefield"):
        return [("Stress", "S", "stress"), ("Strain", "E", "strain")]
    if ctx.sim == "hyperelastic":
        return [("Piola-Kirchhoff", "S", "stress"), ("Green-Lagrange", "E", "strain")]
    if ctx.sim == "beam":
        return [("Stress", "S", "stress")]
    return []


def component_names(ctx, width):
    if width is None:
        return None
    if ctx.sim == "beam":
        return {1: ["xx"], 3: COMP3, 6: COMP6}.get(width)
    return tensor_names(width)


def element_mean_field(ctx, which):
    """(Ne, ncomp) element means (over the integration points) of the tensor components the named
    results derive from, concatenated over the main groups"""
    if ctx.sim == "beam":
        if which != "stress":
            return None
        simu = ctx.simu
        eps = simu._Calc_Epsilon_e_pg(np.asarray(simu.displacement, float))
        return np.asarray(simu._Calc_Sigma_e_pg(eps), float).mean(axis=1)
    coef = cs.coef_of(ctx)
    return np.concatenate([cs.km_to_components(F, coef).mean(axis=1) for F in cs.tensor_fields(ctx, which)])


def state_scalars(ctx, nodeValues):
    out = []
    if ctx.sim == "phasefield" and nodeValues:
        out.append(("damage", ctx.d))
    if ctx.sim == "inelastic" and not nodeValues and ctx.z is not None:
        lay = ctx.simu.material.layout
        for name, sl in lay.slots.items():
            if sl.stop - sl.start == 1:
                vals = np.concatenate([np.asarray(ctx.z[g.elemType], float)[..., sl.start].mean(axis=1)
                                       for g in gm.main_groups(ctx.mesh)])
                out.append((_name(name), vals))
    return out


def beam_generalised(ctx, rec, base, want, done):
    """ux', rx', ry', rz' = components of _Calc_Epsilon_e_pg ([ux', rz'] in 2D, [ux', rx', ry', rz'] in 3D as its
    docstring states); N, Mx, My, Mz(, Ty, Tz for Timoshenko) = components of _Calc_InternalForces_e_pg"""
    simu, dim = ctx.simu, ctx.dim
    u = np.asarray(simu.displacement, float)
    eps = np.asarray(simu._Calc_Epsilon_e_pg(u), float)
    frc = np.asarray(simu._Calc_InternalForces_e_pg(simu._Calc_Epsilon_e_pg(u)), float)
    eps_e, frc_e = eps.mean(axis=1), frc.mean(axis=1)
    n = 0
    e_names = {1: ["ux'"], 2: ["ux'", "rz'"], 3: ["ux'", "rx'", "ry'", "rz'"]}[dim]
    f_names = {1: ["N"], 2: ["N", "Mz"], 3: ["N", "Mx", "My", "Mz"]}[dim]
    for names, F, oracle, what in ((e_names, eps_e, "beam_strain_component", "_Calc_Epsilon_e_pg"),
                                   (f_names, frc_e, "beam_force_component", "_Calc_InternalForces_e_pg")):
        for i, cname in enumerate(names):
            if not want(cname):
                continue
            sig = mksig(ctx, base, cname, "elem", "beam_" + ("strain" if F is eps_e else "force"))
            done.add(cname)
            rec.label(f"q:beam:{cname}")
            val = query(ctx, rec, cname, False, sig)
            if val is MISSING:
                continue
            c = np.asarray(val, float)
            if not rec.require(c.shape == (ctx.mesh.Ne,), "result_shape", f"{ctx.kind}: Result({cname!r}, nodeValues=False) has "
                               f"shape {c.shape}", **sig):
                continue
            rec.close(c - F[:, i], np.abs(F).max(), TOL, oracle, f"{ctx.kind} {dim}D: Result({cname!r}) is not the element mean "
                      f"of component {i} of {what} (first values {c[:3]} vs {F[:3, i]})", **sig)
            n += 1
    return n


# ------------------------------------------------------------------------------------------
# (b) von Mises


def check_von_mises(case, rec):
    ctx = cs.build(case)
    simu, mesh, sim = ctx.simu, ctx.mesh, ctx.sim
    avail = [_name(n) for n in simu.Results_Available()]
    base = dict(sim=sim, kind=ctx.kind, dim=ctx.dim, types=ctx.types, algo=ctx.algo)
    rec.label(f"sim:{ctx.kind}:{ctx.dim}d", "types:" + ctx.types, "mixed" if "+" in ctx.types else "single_group")
    if sim == "phasefield":
        rec.label("split:" + ctx.model["split"])
    if sim == "hyperelastic":
        rec.label("law:" + ctx.model["law"])
    coef = cs.coef_of(ctx)
    n = 0
    for rname, which in (("Svm", "stress"), ("Evm", "strain")):
        if rname not in avail:
            continue
        sig = mksig(ctx, base, rname, "elem", which)
        fields = cs.tensor_fields(ctx, which)
        if not all(np.all(np.isfinite(F)) for F in fields):
            raise Inconclusive(f"non-finite {which} field (the split / law is decided by C17-C19)")
        vm_e = np.concatenate([cs.von_mises(cs.km_to_components(F, coef)).mean(axis=1) for F in fields])
        scale = max(float(np.abs(F).max()) for F in fields)
        val = query(ctx, rec, rname, False, sig)
        rec.label(f"q:{sim}:{rname}:w{fields[0].shape[-1]}")
        if val is MISSING:
            continue
        c = np.asarray(val, float)
        if not rec.require(c.shape == (mesh.Ne,), "result_shape", f"{ctx.kind}: Result({rname!r}, nodeValues=False) has shape "
                           f"{c.shape}, expected ({mesh.Ne},)", **sig):
            continue
        rec.close(c - vm_e, scale, TOL, "von_mises", f"{ctx.kind} {ctx.types}: Result({rname!r}, nodeValues=False) is not the "
                  f"per-element mean of the von Mises norm of the {which} at the integration points (first values {c[:3]} vs "
                  f"{vm_e[:3]})", **sig)
        n += 1
        # the nodal form is the element form carried to the nodes: right size and finite
        valn = query(ctx, rec, rname, True, dict(sig, form="node"))
        if valn is not MISSING:
            cn = np.asarray(valn, float)
            rec.require(cn.shape == (mesh.Nn,) and bool(np.all(np.isfinite(cn))), "result_shape", f"{ctx.kind}: Result({rname!r}, "
                        f"nodeValues=True) has shape {cn.shape}, expected ({mesh.Nn},)", **dict(sig, form="node"))
    # the deviatoric part must be present, otherwise sqrt(3/2 dev:dev) = 0 does not discriminate
    rec.nontrivial(n > 0 and float(vm_e.min()) > 1e-6 * scale)


# ------------------------------------------------------------------------------------------
# (c) node <-> element conversion of constant fields


@st.composite
def conv_cases(draw):
    kind = draw(st.sampled_from(["1d", "2d", "2d", "2d", "3d"]))
    if kind == "1d":
        r = draw(gm.recipes1d())
        r["ne"] = draw(st.integers(1, 6))
    elif kind == "2d":
        r = draw(gm.recipes2d(affine_ok=False, hmin=7, hmax=20))
    else:
        r = draw(gm.recipes3d(types=cs.T3D_CHEAP, affine_ok=False))
    consts = [draw(st.integers(1, 12)) / 4.0 * draw(st.sampled_from([-1.0, 1.0])) + 0.125 * j for j in range(8)]
    # collapse: the triangles of a TRI3 mesh handed over as degenerate quadrangles [a, b, c, c] (a node listed twice in an
    # element: the classical collapsed element, positive jacobian at every integration point)
    return dict(recipe=r, api=draw(st.sampled_from(["reshape", "reshape", "get_node_values", "result"])),
                storage=draw(st.sampled_from(["nodes", "elems"])), layout=draw(st.sampled_from(["scalar1d", "cols2d", "flat1d"])),
                pick=draw(st.integers(0, 40)), consts=consts, collapse=draw(st.booleans()))


def _collapsed(mesh):
    from EasyFEA import ElemType, Mesh
    from EasyFEA.FEM._group_elem import GroupElemFactory

    g = gm.main_groups(mesh)[0]
    tri = np.asarray(g.connect, int)
    quad = np.column_stack([tri, tri[:, 2]])
    return Mesh({ElemType.QUAD4: GroupElemFactory.Create(ElemType.QUAD4, quad, np.asarray(mesh.coord, float))})


def _const_check(rec, out, N, ncomp, layout, consts, what, sig, mesh):
    """out must hold, in the layout of the input, N rows of the constants"""
    A = np.asarray(out, float)
    if layout == "cols2d":
        ok = A.shape == (N, ncomp)
    else:
        ok = A.shape == (N * ncomp,)
    if not rec.require(ok, "result_shape", f"{what}: output shape {A.shape}, expected "
                       f"{(N, ncomp) if layout == 'cols2d' else (N * ncomp,)} (Nn={mesh.Nn}, Ne={mesh.Ne})", **sig):
        return False
    T = A.reshape(N, ncomp)
    c = np.asarray(consts[:ncomp], float)
    rec.close(T - c[None, :], np.abs(c).max(), TOL, "constant_preserved", f"{what}: a constant field is not preserved "
              f"(constants {c}, got rows {T[:2]})", **sig)
    return True


def check_conversion(case, rec):
    mesh = gm.build(case["recipe"])
    if mesh.Nn > 450:
        raise Inconclusive("mesh too large for the quick budget")
    collapsed = bool(case.get("collapse") and gm.mesh_types(mesh) == "TRI3" and not case["recipe"].get("orphans"))
    if collapsed:
        mesh = _collapsed(mesh)
        rec.label("collapsed_elements")
    Nn, Ne = mesh.Nn, mesh.Ne
    types = gm.mesh_types(mesh)
    api, storage, layout = case["api"], case["storage"], case["layout"]
    consts = [float(c) for c in case["consts"]]
    # number of components: preferably one that makes the sizes ambiguous
    amb = [n for n in range(1, 9) if (Ne * n) % Nn == 0 or (Nn * n) % Ne == 0]
    choices = amb + amb + [1, 2, 3, 6]
    ncomp = 1 if layout == "scalar1d" else choices[case["pick"] % len(choices)]
    rec.label("types:" + types, "api:" + api, "mixed" if "+" in types else "single_group", f"meshdim:{mesh.dim}")
    base = dict(types=types, api=api, meshdim=mesh.dim)

    if api == "result":
        # constant fields through Result(..., nodeValues=False / True)
        if mesh.dim == 1 or case["pick"] % 2 == 0:
            simu = Simulations.Thermal(mesh, Models.Thermal(k=1.0, c=1.0))
            simu._Set_solutions(simu.problemType, np.full(Nn, consts[0]), np.full(Nn, consts[1]))
            names = [("thermal", 1, "scalar1d", [consts[0]]), ("thermalDot", 1, "scalar1d", [consts[1]])]
            kind = "thermal"
        else:
            dim = mesh.dim
            simu = Simulations.Elastic(mesh, Models.Elastic.Isotropic(dim, E=2.0, v=0.25))
            U = np.tile(np.asarray(consts[:dim]), (Nn, 1))
            simu._Set_solutions(simu.problemType, U.ravel().copy(), 2 * U.ravel(), 3 * U.ravel())
            names = [("displacement", dim, "flat1d", consts[:dim]),
                     ("displacement_matrix", 3, "cols2d", (consts[:dim] + [0.0, 0.0])[:3])]
            names += [("u" + cs.XYZ[i], 1, "scalar1d", [consts[i]]) for i in range(dim)]
            names += [("v" + cs.XYZ[i], 1, "scalar1d", [2 * consts[i]]) for i in range(dim)]
            kind = "elastic"
        rec.label("result:" + kind)
        for name, nc, lay, cc in names:
            for nodeValues in (True, False):
                N = Nn if nodeValues else Ne
                out = simu.Result(name, nodeValues=nodeValues)
                ambg = amb_class(mesh, "nodes", nc, {"scalar1d": "scalar", "flat1d": "flat", "cols2d": "table"}[lay])
                rec.label("ambiguous:" + ambg)
                _const_check(rec, out, N, nc, lay, cc, f"{kind} {types}: Result({name!r}, nodeValues={nodeValues}) of a constant "
                             "field", dict(base, name=name, storage="nodes", target="node" if nodeValues else "elem", layout=lay,
                                           ambiguous=ambg), mesh)
        rec.nontrivial(True)
        return

    if api == "get_node_values":
        storage = "elems"
    if layout == "flat1d":
        # flat (N*dof_n,) vectors are what Result passes for the nodal vector fields of a simulation with dof_n dofs per node
        if storage == "elems" or api == "get_node_values" or mesh.dim == 1:
            layout = "cols2d"
        else:
            ncomp = mesh.dim
    N0 = Nn if storage == "nodes" else Ne
    c = np.asarray(consts[:ncomp], float)
    table = np.tile(c, (N0, 1))
    values = table[:, 0].copy() if layout == "scalar1d" else table.copy() if layout == "cols2d" else table.ravel().copy()
    ambg = amb_class(mesh, storage, ncomp, {"scalar1d": "scalar", "flat1d": "flat", "cols2d": "table"}[layout])
    rec.label("layout:" + layout, "storage:" + storage, "ambiguous:" + ambg, f"ncomp:{ncomp}")
    if api == "get_node_values":
        out = mesh.Get_Node_Values(values.copy())
        _const_check(rec, out, Nn, ncomp, layout, consts, f"{types}: mesh.Get_Node_Values of a constant {values.shape} element field",
                     dict(base, storage=storage, target="node", layout=layout, ambiguous="no"), mesh)
        # a non-constant element field (a function of the element centroid, elements numbered group by group in
        # Get_list_groupElem(dim) order as documented): each node gets the average over the elements around it
        X = np.asarray(mesh.coord, float)
        vals, acc, cnt = [], np.zeros(Nn), np.zeros(Nn)
        lo_n, hi_n = np.full(Nn, np.inf), np.full(Nn, -np.inf)
        for g in gm.main_groups(mesh):
            conn = np.asarray(g.connect, int)
            cen = X[conn].mean(axis=1)
            f = 1.0 + 2.0 * cen[:, 0] - 3.0 * cen[:, 1] + 0.5 * cen[:, 2] + np.sin(5.0 * cen[:, 0])
            vals.append(f)
            for e in range(conn.shape[0]):
                nn = np.unique(conn[e])
                acc[nn] += f[e]
                cnt[nn] += 1
                lo_n[nn] = np.minimum(lo_n[nn], f[e])
                hi_n[nn] = np.maximum(hi_n[nn], f[e])
        v_e = np.concatenate(vals)
        got = np.asarray(mesh.Get_Node_Values(v_e.copy()), float).ravel()
        used = cnt > 0
        if collapsed:
            # an element that lists a node twice: its weight in the average at that node is a convention; whatever the
            # weights, the nodal value is a mean of the surrounding element values
            eps = 1e-12 * float(np.abs(v_e).max())
            rec.require(bool(np.all(got[used] >= lo_n[used] - eps) and np.all(got[used] <= hi_n[used] + eps)), "node_values_within_neighbours",
                        f"{types} (collapsed elements): mesh.Get_Node_Values leaves the range of the surrounding element values",
                        **dict(base, storage="elems", target="node", layout="scalar1d", ambiguous="no"))
        else:
            rec.close(got[used] - acc[used] / cnt[used], float(np.abs(v_e).max()), 1e-12, "node_values_mean_of_neighbours",
                  f"{types}: mesh.Get_Node_Values of a non-constant element field is not the average over the surrounding elements",
                  **dict(base, storage="elems", target="node", layout="scalar1d", ambiguous="no"))
    else:
        if layout == "flat1d":
            simu = Simulations.Elastic(mesh, Models.Elastic.Isotropic(mesh.dim, E=2.0, v=0.25))
        else:
            simu = Simulations.Thermal(mesh, Models.Thermal(k=1.0, c=1.0))
        for nodeValues in (True, False):
            N = Nn if nodeValues else Ne
            out = simu.Results_Reshape_values(values.copy(), nodeValues)
            _const_check(rec, out, N, ncomp, layout, consts, f"{types}: Results_Reshape_values(constant {values.shape} array stored "
                         f"on {storage}, nodeValues={nodeValues})",
                         dict(base, storage=storage, target="node" if nodeValues else "elem", layout=layout, ambiguous=ambg), mesh)
    rec.nontrivial(True)


# ------------------------------------------------------------------------------------------
# (d) energy = 1/2 u'Ku ; beams: nodal forces = K u, internal forces = D B u


def _abs_quad(K, u):
    """natural magnitude of the terms of 1/2 u'Ku"""
    return 0.5 * float(np.abs(u) @ (abs(K) @ np.abs(u))) + 1e-300


def check_energy(case, rec):
    ctx = cs.build(case)
    simu, mesh, sim = ctx.simu, ctx.mesh, ctx.sim
    avail = [_name(n) for n in simu.Results_Available()]
    base = dict(sim=sim, kind=ctx.kind, dim=ctx.dim, types=ctx.types, algo=ctx.algo)
    rec.label(f"sim:{ctx.kind}:{ctx.dim}d", "types:" + ctx.types, "mixed" if "+" in ctx.types else "single_group")
    if sim == "elastic":
        rec.label("law:" + ctx.model["cls"] + (":ps" if ctx.model["planeStress"] else ""), f"thickness:{ctx.model['thickness']}")
    if sim == "phasefield":
        rec.label("split:" + ctx.model["split"])
    K = simu.Get_K_C_M_F(ctx.pt)[0].tocsr()
    u = ctx.u.ravel()
    n = u.size
    rec.require(K.shape[0] >= n, "K_shape", f"K {K.shape} vs {n} dofs", **base)
    K = K[:n, :n]
    W_ref = 0.5 * float(u @ (K @ u))
    scale = _abs_quad(K, u)
    if not np.isfinite(W_ref):
        raise Inconclusive("non-finite K (the split is decided by C17)")
    E = simu.Calc_Energy(K, u.copy()) if sim != "phasefield" else simu.Calc_Energy(K, u.copy(), np.arange(n))
    rec.close(float(E) - W_ref, scale, TOL, "calc_energy", f"{ctx.kind}: Calc_Energy(K, u) = {float(E)!r} vs 1/2 u'Ku = {W_ref!r}",
              **dict(base, name="Calc_Energy"))
    for name in ("Wdef", "Wdef_e"):
        if name not in avail:
            continue
        sig = mksig(ctx, base, name, "elem", "energy")
        rec.label(f"q:{sim}:{name}")
        val = query(ctx, rec, name, False, sig)
        if val is MISSING:
            continue
        W = float(np.sum(np.asarray(val, float)))
        if name == "Wdef_e":
            rec.require(np.asarray(val).shape == (mesh.Ne,), "result_shape", f"Wdef_e shape {np.asarray(val).shape}",
                        **sig)
        rec.close(W - W_ref, scale, TOL, "energy", f"{ctx.kind} {ctx.types}: Result({name!r}){'.sum()' if name == 'Wdef_e' else ''} "
                  f"= {W!r} vs 1/2 u'Ku = {W_ref!r}", **sig)
    if sim == "beam":
        beam_forces(ctx, rec, base, K, u, avail)
    rec.nontrivial(abs(W_ref) > 1e-6 * scale and cs.distinct_nonzero(ctx.u))


def beam_forces(ctx, rec, base, K, u, avail):
    simu, mesh, dim = ctx.simu, ctx.mesh, ctx.dim
    dof_n = ctx.ncomp
    # nodal forces
    f = np.asarray(K @ u, float).reshape(mesh.Nn, dof_n)
    fscale = float(np.max(abs(K) @ np.abs(u))) + 1e-300
    fnames = {1: ["fx"], 3: ["fx", "fy", "cz"], 6: ["fx", "fy", "fz", "cx", "cy", "cz"]}[dof_n]
    for i, name in enumerate(fnames):
        if name not in avail:
            continue
        sig = mksig(ctx, base, name, "node", "beam_nodal_force")
        rec.label(f"q:beam:{name}")
        val = query(ctx, rec, name, True, sig)
        if val is MISSING:
            continue
        c = np.asarray(val, float)
        if rec.require(c.shape == (mesh.Nn,), "result_shape", f"Result({name!r}) shape {c.shape}", **sig):
            rec.close(c - f[:, i], fscale, TOL, "beam_nodal_force", f"{ctx.kind} {dim}D: Result({name!r}) is not component {i} of K u "
                      f"(first values {c[:3]} vs {f[:3, i]})", **sig)
    # internal forces D B u at the integration points, element mean
    g = gm.main_groups(mesh)[0]
    conn = np.asarray(g.connect)
    dofs = (conn[:, :, None] * dof_n + np.arange(dof_n)[None, None, :]).reshape(conn.shape[0], -1)
    u_e = u[dofs]  # (Ne, nPe*dof_n)
    names = {1: ["N"], 2: ["N", "Mz"], 3: ["N", "Mx", "My", "Mz"]}[dim]
    sets = [(names, None)]
    if ctx.case["member"]["timoshenko"] and dim >= 2:
        sets.append(({2: [None, None, "Ty"], 3: [None, None, None, None, "Ty", "Tz"]}[dim], MatrixType.beam_shear))
    for nm, mt in sets:
        if mt is None:
            B = np.asarray(g.Get_beam_B_e_pg(simu.structure), float)
            D = np.asarray(simu.structure.Calc_D_e_pg(g), float)
        else:
            B = np.asarray(g.Get_beam_B_e_pg(simu.structure, mt), float)
            D = np.asarray(simu.structure.Calc_D_e_pg(g, mt), float)
        F = np.einsum("epij,epjk,ek->epi", D, B, u_e).mean(axis=1)
        sc = float(np.abs(np.einsum("epij,epjk,ek->epi", np.abs(D), np.abs(B), np.abs(u_e))).max()) + 1e-300
        for i, name in enumerate(nm):
            if name is None or name not in avail:
                continue
            sig = mksig(ctx, base, name, "elem", "beam_force")
            rec.label(f"q:beam:{name}")
            val = query(ctx, rec, name, False, sig)
            if val is MISSING:
                continue
            c = np.asarray(val, float)
            if rec.require(c.shape == (mesh.Ne,), "result_shape", f"Result({name!r}) shape {c.shape}", **sig):
                rec.close(c - F[:, i], sc, TOL, "beam_internal_force", f"{ctx.kind} {dim}D: Result({name!r}) is not the element mean of "
                          f"component {i} of D B u (first values {c[:3]} vs {F[:3, i]})", **sig)


# ------------------------------------------------------------------------------------------
# (e) reactions on fully constrained boundaries balance the applied loads


@st.composite
def reaction_cases(draw):
    sim = draw(st.sampled_from(["elastic", "elastic", "thermal", "beam", "phasefield"]))
    g = lambda lo, hi, den: draw(st.integers(lo, hi)) / float(den)  # noqa: E731
    case = dict(sim=sim, seed=0, only=None, algo="elliptic", model={}, dirang=draw(st.integers(0, 11)),
                loads=draw(st.sampled_from(["nodal", "nodal", "surf", "volume", "nodal+surf", "nodal+volume", "surf+volume"])),
                ud=[g(-3, 3, 40) for _ in range(3)], point=[g(-4, 4, 2) for _ in range(3)], trac=[g(-4, 4, 2) for _ in range(3)],
                body=[g(-4, 4, 4) for _ in range(3)], moment=[g(-4, 4, 8) for _ in range(3)], npoint=draw(st.integers(1, 3)))
    if sim == "beam":
        case["member"] = draw(gb.member_specs())
        return case
    if sim == "thermal":
        case["recipe"] = draw(cs.recipes((2, 2, 3)))
        case["model"] = dict(k=g(1, 20, 4), c=1.0, thickness=draw(st.sampled_from([1.0, 0.5, 2.5])))
        return case
    case["recipe"] = draw(cs.recipes((2, 2, 3)))
    dim = gm.dim_of(case["recipe"]["elemType"])
    if sim == "elastic":
        case["model"] = draw(gmod.elastic_specs(dim))
    else:
        case["model"] = dict(E=g(4, 40, 4), v=g(0, 8, 20), planeStress=(dim == 2 and draw(st.booleans())),
                             thickness=draw(st.sampled_from([1.0, 0.5])),
                             split=draw(st.sampled_from(cs.SPLITS2D if dim == 2 else cs.SPLITS3D)),
                             regu=draw(st.sampled_from(["AT1", "AT2"])), Gc=g(4, 8, 4), l0=g(2, 6, 10))
    return case


def check_reactions(case, rec):
    ctx = cs.build(case, inject=False)
    simu, mesh, sim, dof_n = ctx.simu, ctx.mesh, ctx.sim, ctx.ncomp
    base = dict(sim=sim, kind=ctx.kind, dim=ctx.dim, types=ctx.types, loads=case["loads"])
    rec.label(f"sim:{ctx.kind}:{ctx.dim}d", "types:" + ctx.types, "loads:" + case["loads"], "mixed" if "+" in ctx.types else "single_group")
    unk = ctx.unknowns
    X = np.asarray(mesh.coord, float)
    loads = case["loads"].split("+")
    closed = None  # closed-form resultant per direction when the loads are nodal forces on free nodes only
    if sim == "beam":
        spec = case["member"]
        n1, n2 = gb.end_nodes(mesh, spec)
        fixed = np.array([n1])
        ud = [case["ud"][i % 3] for i in range(dof_n)]
        simu.add_dirichlet(fixed, [float(x) for x in ud], unk)
        P = (case["point"] + case["moment"])[:6] if dof_n == 6 else [case["point"][0], case["point"][1], case["moment"][2]][:dof_n]
        ntr = {1: 1, 3: 2, 6: 3}[dof_n]
        if "nodal" in loads or "surf" in loads:
            simu.add_neumann(np.array([n2]), [float(x) for x in P], unk)
            closed = np.array(P[:ntr], float) if loads == ["nodal"] else None
        if "volume" in loads or "surf" in loads:
            simu.add_lineLoad(np.arange(mesh.Nn), [float(x) for x in case["body"][:ntr]], unk[:ntr])
        directions = list(range(ntr))
        loaded_any = True
    else:
        dim = ctx.dim
        ang = case["dirang"] * np.pi / 6
        dirvec = np.array([np.cos(ang), np.sin(ang), 0.3 if dim == 3 else 0.0])
        bn = gm.boundary_nodes(mesh)
        p = X[bn] @ dirvec
        lo, hi = p.min(), p.max()
        fixed = bn[p <= lo + 0.25 * (hi - lo)]
        loaded = bn[p >= hi - 0.25 * (hi - lo)]
        if sim != "thermal":
            cf = X[fixed] - X[fixed].mean(axis=0)
            sv = np.linalg.svd(cf, compute_uv=False) if fixed.size >= 2 else np.zeros(3)
            if sv[dim - 2] < 0.1 * np.ptp(X, axis=0).max():
                raise Inconclusive("clamped patch does not restrain the rigid modes robustly")
        simu.add_dirichlet(fixed, [float(x) for x in case["ud"][:dof_n]], unk)
        used = gm.used_nodes(mesh)
        if "nodal" in loads:
            pts = loaded[: int(case["npoint"])]
            simu.add_neumann(pts, [float(x) for x in case["point"][:dof_n]], unk)
            if loads == ["nodal"] and not np.isin(pts, fixed).any():
                closed = np.array(case["point"][:dof_n], float)  # add_neumann spreads the value over the nodes
        if "surf" in loads:
            simu.add_surfLoad(loaded, [float(x) for x in case["trac"][:dof_n]], unk)
        if "volume" in loads:
            simu.add_volumeLoad(used, [float(x) for x in case["body"][:dof_n]], unk, ctx.pt)
        directions = list(range(dof_n))
    if sim == "phasefield":
        simu.Solve(tolConv=1.0)
        u = np.asarray(simu.displacement, float)
    else:
        u = np.asarray(simu.Solve(), float)
    if not np.all(np.isfinite(u)):
        raise Inconclusive("non-finite solution")
    F = np.asarray(simu.Bc_vector_Neumann(ctx.pt), float).reshape(mesh.Nn, dof_n)
    K = simu.Get_K_C_M_F(ctx.pt)[0].tocsr()[: u.size, : u.size]
    free = np.ones(mesh.Nn, bool)
    free[fixed] = False
    nonzero = False
    for c in directions:
        dofs = fixed * dof_n + c
        R = np.asarray(simu.Calc_Reaction(dofs.copy(), ctx.pt) if sim == "phasefield" else simu.Calc_Reaction(dofs.copy()), float)
        sig = dict(base, direction=unk[c])
        rec.require(R.shape == (dofs.size,), "reaction_shape", f"Calc_Reaction returned shape {R.shape} for {dofs.size} dofs", **sig)
        sumR = float(R.sum())
        sumF = float(F[free, c].sum())
        scale = float((abs(K[dofs]) @ np.abs(u)).sum()) + float(np.abs(F[:, c]).sum()) + 1e-300
        rec.close(sumR + sumF, scale, 1e-9, "reaction_balance", f"{ctx.kind} {ctx.types} loads={case['loads']} direction {unk[c]}: sum of "
                  f"Calc_Reaction on the clamped dofs = {sumR!r}, sum of the loads applied on the free dofs = {sumF!r}", **sig)
        if closed is not None:
            rec.close(sumR + float(closed[c]), scale, 1e-9, "reaction_balance_closed_form", f"{ctx.kind} {ctx.types} direction {unk[c]}: "
                      f"sum of Calc_Reaction = {sumR!r} vs minus the nodal loads {float(closed[c])!r}", **sig)
        nonzero = nonzero or abs(sumF) > 1e-9 * scale
    rec.nontrivial(nonzero)


def _sims(*names):
    return lambda: cs.sim_cases(sims=list(names))


SUBS = [
    Sub("components_continuum", check_components, gen=_sims("elastic", "hyperelastic", "inelastic", "phasefield"), quick=120,
        thorough=1500, shards=8, doc="named components vs vector/tensor results, the injected state and the integration-point fields"),
    Sub("components_fields", check_components, gen=_sims("thermal", "weakforms"), quick=160, thorough=1000, shards=4,
        doc="thermal / thermalDot and the u, v, a components of WeakForms vs the injected state"),
    Sub("components_beam", check_components, gen=_sims("beam"), quick=60, thorough=800, shards=4,
        doc="beam dof components, generalised strains, internal forces and stresses vs the fields they derive from"),
    Sub("von_mises", check_von_mises, gen=_sims("elastic", "hyperelastic", "inelastic", "phasefield"),
        quick=120, thorough=1500, shards=4, doc="Svm / Evm vs harness von Mises at the integration points, element mean"),
    Sub("node_element_conversion", check_conversion, gen=conv_cases, quick=300, thorough=3000, shards=4,
        doc="Results_Reshape_values / Get_Node_Values / Result(nodeValues) preserve constant fields (value and shape)"),
    Sub("energy", check_energy, gen=_sims("elastic", "elastic", "phasefield", "beam", "thermal", "weakforms"), quick=120,
        thorough=1200, shards=4, doc="Wdef, Wdef_e.sum(), Calc_Energy vs 1/2 u'Ku; beam nodal forces vs K u, internal forces vs D B u"),
    Sub("reactions", check_reactions, gen=reaction_cases, quick=120, thorough=1000, shards=4,
        doc="sum of Calc_Reaction on a clamped patch + sum of the applied loads = 0 per direction"),
]


# ------------------------------------------------------------------------------------------
# (added by the lead) one elastic energy case per element type, organised and unstructured: the generated cases
# reach a given type only a few times per run, and the quadrature of the energy must be the one of K for each type


def enum_energy_types(tier):
    from vlib import gen_mesh as _gm

    sq = [[1.0, 0.0], [0.1, 1.1], [-1.0, 0.2], [-0.1, -0.9]]
    for i, et in enumerate(_gm.T2D + _gm.T3D):
        d3 = et in _gm.T3D
        for organised in ((True, False) if not d3 else (True,)):
            r = dict(verts=sq, h=0.9 if not d3 else 1.2, elemType=et, organised=organised, extrude=[0.1, 0.0, 0.8] if d3 else None,
                     layers=1 if d3 else 0, A=None, b=None, perm=None, orphans=0)
            dim = 3 if d3 else 2
            model = dict(cls="iso", dim=dim, planeStress=(i % 2 == 0) and not d3, thickness=1.0 if d3 else 0.5, angles=[0.0] if not d3 else [0.1, 0.1, 0.1],
                         E=4.0, v=0.3)
            yield dict(sim="elastic", seed=100 + i, only=None, algo="elliptic", model=model, recipe=r)


SUBS.append(Sub("energy_types", check_energy, enum=enum_energy_types))


# ------------------------------------------------------------------------------------------
# (added by the lead) size coincidences: meshes padded with orphan nodes so that Nn * dof_n == Ne (a flat nodal vector has the size
# of an element scalar field: finding C16-g, reached by the generated cases in the thorough tier only) or Nn == Ne


def enum_size_coincidences(tier):
    from vlib import gen_mesh as _gm

    tri = [[0.7, 0.0], [-0.35, 0.606218], [-0.5, -0.866025]]
    sq = [[1.0, 0.0], [0.1, 1.1], [-1.0, 0.2], [-0.1, -0.9]]
    bases = []
    for et, verts, h, ext, layers in (("TETRA4", tri, 0.6, [0.0, 0.0, 0.5], 2), ("TETRA4", sq, 0.7, [0.1, 0.0, 0.8], 2),
                                      ("TETRA4", sq, 0.4, [0.1, 0.0, 1.0], 3),
                                      ("TETRA10", sq, 1.2, [0.0, 0.0, 0.6], 1), ("TRI3", sq, 0.35, None, 0), ("TRI6", sq, 0.6, None, 0),
                                      ("PRISM6", sq, 0.5, [0.0, 0.0, 1.0], 4), ("QUAD4", sq, 0.3, None, 0)):
        bases.append(dict(verts=verts, h=h, elemType=et, organised=et == "QUAD4", extrude=ext, layers=layers, A=None, b=None, perm=None,
                          orphans=0))
    k = 0
    for r in bases:
        m = _gm.build(r)
        d3 = r["extrude"] is not None
        for sim, ncomp, model in (("thermal", 1, dict(k=1.5, c=2.0, thickness=1.0)),
                                  ("weakforms", 1, dict(dof_n=1, thickness=1.0)), ("weakforms", 2, dict(dof_n=2, thickness=1.0)),
                                  ("weakforms", 3, dict(dof_n=3, thickness=0.5)),
                                  ("elastic", 3 if d3 else 2, None), ("phasefield", 3 if d3 else 2, None)):
            if model is None and sim == "elastic":
                model = dict(cls="iso", dim=3 if d3 else 2, planeStress=not d3, thickness=1.0 if d3 else 0.5, E=3.0, v=0.3,
                             angles=[0.1] * (3 if d3 else 1))
            if model is None and sim == "phasefield":
                model = dict(E=5.0, v=0.2, planeStress=False, thickness=0.5, split="Miehe" if not d3 else "Amor", regu="AT2", Gc=1.0, l0=0.3)
            for ratio in sorted({ncomp, 1}):  # Nn * dof_n == Ne, and Nn == Ne
                if m.Ne % ratio or m.Ne // ratio < m.Nn:
                    continue
                k += 1
                yield dict(sim=sim, seed=k, only=None, algo="elliptic", model=model, recipe=dict(r, orphans=m.Ne // ratio - m.Nn))


SUBS.append(Sub("size_coincidences", check_components, enum=enum_size_coincidences))


# ------------------------------------------------------------------------------------------
# (added by the lead) Calc_Reaction in a transient state: K u + C v (parabolic), K u + C v + M a (every hyperbolic scheme), as its
# docstring states; arbitrary injected u, v, a; the matrices are the ones of Get_K_C_M_F (checked by C02 / C03)

HYPERBOLIC = ["newmark", "midpoint", "hht", "hht_newmark", "euler_implicit", "euler_explicit"]


@st.composite
def dyn_reaction_cases(draw):
    sim = draw(st.sampled_from(["elastic", "elastic", "thermal", "weakforms", "beam"]))
    case = draw(cs.sim_cases(sims=[sim], coarse=True))
    case["algo"] = "parabolic" if sim == "thermal" else draw(st.sampled_from(HYPERBOLIC + (["parabolic"] if sim == "weakforms" else [])))
    case["pick"] = draw(st.integers(0, 9999))
    case["rayleigh"] = draw(st.sampled_from([None, [0.3, 0.2]])) if sim == "elastic" else None
    return case


def check_dyn_reactions(case, rec):
    ctx = cs.build(case, inject=True)
    simu, mesh = ctx.simu, ctx.mesh
    if case.get("rayleigh"):
        simu.Set_Rayleigh_Damping_Coefs(*case["rayleigh"])
    rec.label(f"sim:{ctx.kind}", "algo:" + ctx.algo, "damped" if case.get("rayleigh") else "undamped")
    sig = dict(sim=ctx.sim, kind=ctx.kind, algo=ctx.algo, types=ctx.types)
    K, C, M, F = simu.Get_K_C_M_F(ctx.pt)
    n = mesh.Nn * ctx.ncomp
    u, v, a = ctx.u.ravel(), ctx.v.ravel(), ctx.a.ravel()
    terms = [abs(K) @ np.abs(u)]
    ref = K @ u
    if ctx.algo != "elliptic":
        ref = ref + C @ v
        terms.append(abs(C) @ np.abs(v))
    if ctx.algo in HYPERBOLIC:
        ref = ref + M @ a
        terms.append(abs(M) @ np.abs(a))
    rng = np.random.default_rng(int(case["pick"]))
    dofs = rng.choice(n, size=max(1, n // 3), replace=False)
    if int(case["pick"]) % 2 == 0:
        dofs = np.sort(dofs)  # ascending, as Bc_dofs_nodes gives them for ascending nodes; otherwise in the caller's own order
    else:
        rec.label("dofs:unsorted")
    R = np.asarray(simu.Calc_Reaction(dofs.copy()), float)
    rec.require(R.shape == (dofs.size,), "reaction_shape", f"Calc_Reaction returned shape {R.shape} for {dofs.size} dofs", **sig)
    scale = float(np.max(sum(terms))) + 1e-300
    rec.close(R - np.asarray(ref).ravel()[dofs], scale, 1e-10, "reaction_transient",
              f"{ctx.kind} {ctx.types} algo={ctx.algo}: Calc_Reaction != K u + C v + M a (the terms its docstring lists for this scheme)", **sig)
    rec.nontrivial(float(np.abs(terms[-1]).max()) > 0)


SUBS.append(Sub("reactions_transient", check_dyn_reactions, gen=dyn_reaction_cases, quick=120, thorough=1200, shards=4,
                doc="Calc_Reaction of an arbitrary transient state vs K u + C v + M a for every time scheme"))


# ------------------------------------------------------------------------------------------
# (added by the lead) the energy identity at several magnitudes of the state (displacements of 1e-10 or 1e+5 length units), one
# case per simulation type: a quantity that is quadratic in u must not go through an absolute "is it zero" test


def enum_energy_units(tier):
    sq = [[1.0, 0.0], [0.1, 1.1], [-1.0, 0.2], [-0.1, -0.9]]
    r2 = dict(verts=sq, h=0.7, elemType="TRI3", organised=False, extrude=None, layers=0, A=None, b=None, perm=None, orphans=0)
    r3 = dict(verts=sq, h=1.2, elemType="TETRA4", organised=False, extrude=[0.1, 0.0, 0.8], layers=1, A=None, b=None, perm=None, orphans=0)
    el2 = dict(cls="iso", dim=2, planeStress=True, thickness=0.5, E=3.0, v=0.3, angles=[0.1])
    el3 = dict(cls="iso", dim=3, planeStress=False, thickness=1.0, E=3.0, v=0.3, angles=[0.1, 0.1, 0.1])
    pf = dict(E=5.0, v=0.2, planeStress=False, thickness=0.5, split="Miehe", regu="AT2", Gc=1.0, l0=0.3)
    k = 0
    for umag in (1e-9, 1e6):
        for sim, recipe, model in (("elastic", r2, el2), ("elastic", r3, el3), ("phasefield", r2, pf), ("phasefield", r3, dict(pf, split="Amor")),
                                   ("thermal", r2, dict(k=1.5, c=2.0, thickness=0.5)), ("weakforms", r2, dict(dof_n=2, thickness=0.5))):
            k += 1
            yield dict(sim=sim, seed=k, only=None, algo="elliptic", model=model, recipe=recipe, umag=umag)


SUBS.append(Sub("energy_units", check_energy, enum=enum_energy_units))


# ------------------------------------------------------------------------------------------
# (added by the lead, round 8) reactions of a frame: two members joined by a fixed connection (Lagrange multipliers border the
# matrices, the dof vectors do not hold them).  Resultant and moment of Calc_Reaction at the clamp balance the force applied at the
# tip (closed form: the structure is statically determinate), in static and in transient analyses (K u + C v + M a)


@st.composite
def frame_reaction_cases(draw):
    spec = draw(gb.member_specs(types=("SEG2", "SEG3")))
    return dict(member=spec, split=draw(st.integers(3, 7)) / 10.0, F=[draw(st.integers(-4, 4)) / 100.0 for _ in range(3)],
                knee=draw(st.integers(-3, 3)) / 4.0, algo=draw(st.sampled_from(["elliptic", "elliptic", "newmark", "midpoint"])))


def check_reactions_frame(case, rec):
    from EasyFEA import ElemType, Mesher
    from EasyFEA.Geoms import Line, Point

    spec = case["member"]
    dim = spec["dim"]
    kind = "timo" if spec["timoshenko"] else "eb"
    sig = dict(elemType=spec["elemType"], dim=dim, kind=kind, algo=case["algo"])
    rec.label(f"frame:{kind}:{dim}d", "algo:" + case["algo"])
    p1 = np.array(spec["p1"], float)
    d = np.array(spec["d"], float)
    L = float(np.linalg.norm(d))
    pm = p1 + case["split"] * d
    # second member: along the first one, or turned at the joint (a knee) in the plane / in space
    d2 = (1 - case["split"]) * d
    if dim >= 2 and case["knee"]:
        nrm = np.array([-d[1], d[0], 0.0]) if dim == 2 else np.cross(d, [0.3, -0.5, 1.0])
        d2 = d2 + case["knee"] * np.linalg.norm(d2) * nrm / np.linalg.norm(nrm)
    p2 = pm + d2
    sec = gb._section(spec["b"], spec["h"])
    ya = lambda v: None  # noqa: E731
    la = Line(Point(*p1), Point(*pm), L * case["split"] / 2)
    lb = Line(Point(*pm), Point(*p2), float(np.linalg.norm(d2)) / 2)
    kw = dict(yAxis=tuple(spec["yAxis"])) if (spec.get("yAxis") and not case["knee"]) else {}
    ba = Models.Beam.Isotropic(dim, la, sec.copy(), spec["E"], spec["v"], **kw)
    bb = Models.Beam.Isotropic(dim, lb, sec.copy(), spec["E"], spec["v"], **kw)
    mesh = Mesher().Mesh_Beams([ba, bb], elemType=ElemType(spec["elemType"]))
    simu = Simulations.Beam(mesh, Models.Beam.BeamStructure([ba, bb]), useTimoshenko=bool(spec["timoshenko"]))
    mesh = simu.mesh
    c = np.asarray(mesh.coord, float)
    at = lambda p: np.where(np.linalg.norm(c - p, axis=1) < 1e-9 * (1 + L))[0]  # noqa: E731
    n1, nm, n2 = at(p1), at(pm), at(p2)
    if nm.size != 2 or n1.size != 1 or n2.size != 1:
        raise Inconclusive("unexpected joint nodes")
    unk = simu.Get_unknowns()
    dof_n = len(unk)
    simu.add_dirichlet(n1, [0.0] * dof_n, unk)
    simu.add_connection_fixed(nm)
    Fg = np.zeros(3)
    Fg[:dim] = np.array(case["F"], float)[:dim]
    simu.add_neumann(n2, [float(Fg[i]) for i in range(dim)], unk[:dim])
    static = case["algo"] == "elliptic"
    if not static:
        simu.rho = 2.0
        simu.Solver_Set_Hyperbolic_Algorithm(0.05, algo=case["algo"])
        simu.Solve()
        simu.Save_Iter()
    u = np.asarray(simu.Solve(), float).ravel()
    if not np.all(np.isfinite(u)):
        raise Inconclusive("non-finite solution")
    R = {}
    for k in unk:
        dofs = simu.Bc_dofs_nodes(n1, [k])
        r = np.asarray(simu.Calc_Reaction(np.asarray(dofs).copy()), float)
        rec.require(r.shape == (1,), "reaction_shape", f"Calc_Reaction returned shape {r.shape} for one dof", **sig)
        R[k] = float(r[0])
    # independent reference: K, C, M without their multiplier border applied to the state
    n = mesh.Nn * dof_n
    K, C, M, _ = simu.Get_K_C_M_F()
    ref = K.tocsr()[:n, :n] @ u[:n]
    if not static:
        ref = ref + C.tocsr()[:n, :n] @ np.asarray(simu._Get_v_n(simu.problemType), float)[:n] \
            + M.tocsr()[:n, :n] @ np.asarray(simu._Get_a_n(simu.problemType), float)[:n]
    fscale = float(np.abs(Fg).max()) * (1.0 + L + float(np.linalg.norm(d2))) + float(np.abs(ref).max()) * 1e-6 + 1e-12
    for i, k in enumerate(unk):
        rec.close(R[k] - ref[n1[0] * dof_n + i], fscale, 1e-9, "reaction_is_internal_force",
                  f"{kind} {dim}D frame ({case['algo']}): Calc_Reaction on '{k}' at the clamp = {R[k]!r}, K u (+ C v + M a) there = {ref[n1[0] * dof_n + i]!r}", **sig)
    if static:
        tr = ["x", "y", "z"][:dim]
        for i, k in enumerate(tr):
            rec.close(R[k] + Fg[i], fscale, 1e-8, "frame_reaction_balance", f"{kind} {dim}D frame: reaction {R[k]!r} on '{k}' does not balance the tip "
                      f"force {Fg[i]!r}", **sig)
        mom = np.cross(p2 - p1, Fg)
        rots = {2: [("rz", 2)], 3: [("rx", 0), ("ry", 1), ("rz", 2)]}.get(dim, [])
        for k, i in rots:
            rec.close(R[k] + mom[i], fscale, 1e-8, "frame_moment_balance", f"{kind} {dim}D frame: moment reaction {R[k]!r} on '{k}' does not balance "
                      f"the moment {mom[i]!r} of the tip force about the clamp", **sig)
    rec.nontrivial(bool(np.abs(Fg).max() > 0))


SUBS.append(Sub("reactions_frame", check_reactions_frame, gen=frame_reaction_cases, quick=60, thorough=600, shards=4,
                doc="two connected members (straight or with a knee): Calc_Reaction at the clamp vs K u (+ C v + M a) without the multiplier border, and vs the tip force and its moment"))
