"""C11 - linear elastic laws: SPD, C.S = I, plane-stress / plane-strain reductions of the 3D law,
Voigt / Kelvin-Mandel input, axis-length independence, Q-rotated axes = Q-rotated 4th-order tensor,
orthogonal change-of-basis matrices, parameter mutation visible on next read.

Kelvin-Mandel order of EasyFEA: 2D [xx, yy, r2 xy]; 3D [xx, yy, zz, r2 yz, r2 xz, r2 xy].
The tensor oracle (expand / rotate4 / project below) never calls Get_Pmat / Apply_Pmat /
KelvinMandel_Matrix / Project_Kelvin.
"""

import numpy as np
from hypothesis import strategies as st

from EasyFEA.Models import Apply_Pmat, Get_Pmat
from EasyFEA.Models.Elastic._laws import Anisotropic, Isotropic, Orthotropic, TransverselyIsotropic

from vlib.runner import Sub

PROPERTY = "C11"
RULE = (
    "Hypothesis cases = law class (Isotropic / TransverselyIsotropic / Orthotropic / Anisotropic) x dim 2 "
    "(plane stress, plane strain) / 3 x parameters on small grids inside the constructor intervals, made "
    "thermodynamically admissible by a deterministic shrink of the Poisson ratios (own SPD test of the "
    "compliance) x homogeneous / per-element (Ne,) / per-Gauss-point (Ne,nPg) fields with distinct entries "
    "x material axes from integer quaternions given as unit vectors, exactly orthogonal integer vectors "
    "times powers of two, or unit vectors times arbitrary factors; Anisotropic = random SPD matrix (3x3 or "
    "6x6) supplied in Voigt or Kelvin-Mandel form. Non-trivial: spd = C not diagonal; reduction = in-plane / "
    "out-of-plane coupling present (plane stress) or C2D not diagonal; frame = the rotation is not a "
    "symmetry of the law (|rot(C)-C| > 1e-3|C|) or axes not unit; notation = shear block non zero; pmat = "
    "Q != I; mutation = at least one effective parameter change followed by a read. distinct = sha1 of the "
    "serialised case."
    ' Round 8: integer_stiffness draws integer-typed SPD matrices (Voigt / Kelvin-Mandel, constructor / Set_C, aligned / rotated axes; non-trivial = a non-zero normal-shear coupling); integer_parameters enumerates law class x unit of the moduli x integer type of per-element fields.'
)
ASSUMPTIONS = [
    "the oracle's Kelvin-Mandel basis (unit-norm symmetric dyads, order xx,yy,zz,yz,xz,xy) and einsum "
    "rotation Q_ia Q_jb Q_kc Q_ld C_abcd are the trusted base; Q has the material axes as columns",
    "admissible = engineering compliance SPD with normalised min eigenvalue >= 0.05 and parameters inside "
    "the constructor intervals; condition numbers stay below ~1e5",
    "all array-valued parameters of one law share one shape (documented constraint of Heterogeneous_Array)",
    "numpy.linalg (inv, eigvalsh, solve) is trusted",
    "material axes are a single pair per law (the constructors accept nothing else); batched axes are "
    "exercised on Get_Pmat / Apply_Pmat only",
]
LEVEL_TEXT = ("Hypothesis-generated laws of the four classes (2D plane stress / plane strain, 3D, homogeneous and "
              "per-element / per-Gauss-point parameters, unit and non-unit axes) compared with an independent "
              "fourth-order tensor oracle (own Kelvin-Mandel basis, einsum rotation, Schur-complement plane-stress "
              "reduction) and with freshly constructed laws after parameter mutations")
LEVEL_NOTE = ("parameters on bounded grids with condition number < ~1e5; one axis pair per law; exploration never "
              "establishes absence of defects on unexplored parameter sets")
TECHNIQUE = "property-based testing (Hypothesis) vs independent 4th-order tensor oracle and model-based mutation histories"
DESIGN_REF = "DESIGN.md 4/C11"

TOL = 1e-12
R2 = np.sqrt(2.0)

# ------------------------------------------------------------------------------------------
# oracle: Kelvin-Mandel basis, expansion, rotation, projection (independent of EasyFEA)

PAIRS = {3: [(0, 0), (1, 1), (2, 2), (1, 2), (0, 2), (0, 1)], 2: [(0, 0), (1, 1), (0, 1)]}


def km_basis(d):
    """B[I] = unit-norm symmetric dyad of the I-th Kelvin-Mandel component, shape (n, d, d)"""
    prs = PAIRS[d]
    B = np.zeros((len(prs), d, d))
    for I, (i, j) in enumerate(prs):
        if i == j:
            B[I, i, i] = 1.0
        else:
            B[I, i, j] = B[I, j, i] = 1.0 / R2
    return B


B3 = km_basis(3)
B2 = km_basis(2)
W3 = np.array([1, 1, 1, R2, R2, R2])
W2 = np.array([1, 1, R2])
IN = np.array([0, 1, 5])  # in-plane components of the 3D vector
OUT = np.array([2, 3, 4])


def basis_for(n):
    return B3 if n == 6 else B2


def expand(C):
    B = basis_for(C.shape[-1])
    return np.einsum("...IJ,Iij,Jkl->...ijkl", C, B, B)


def project(T):
    B = B3 if T.shape[-1] == 3 else B2
    return np.einsum("Iij,...ijkl,Jkl->...IJ", B, T, B)


def rotate4(T, Q):
    return np.einsum("ia,jb,kc,ld,...abcd->...ijkl", Q, Q, Q, Q, T)


def rot_km(C, Q):
    """Kelvin-Mandel matrix of the Q-rotated tensor; Q (d,d), C (...,n,n)"""
    return project(rotate4(expand(np.asarray(C, float)), Q))


def km_of_rotation(Q):
    """matrix P with P vec(e) = vec(Q e Q^T) in Kelvin-Mandel form"""
    B = B3 if Q.shape[-1] == 3 else B2
    return np.einsum("Iij,ia,jb,Jab->IJ", B, Q, Q, B)


def voigt_factor(n):
    w = W3 if n == 6 else W2
    return np.outer(w, w)


def schur_plane_stress(C3):
    """2D stiffness such that sigma_zz = sigma_yz = sigma_xz = 0 (out-of-plane strains eliminated)"""
    Cpp = C3[..., IN[:, None], IN[None, :]]
    Cpo = C3[..., IN[:, None], OUT[None, :]]
    Coo = C3[..., OUT[:, None], OUT[None, :]]
    return Cpp - Cpo @ np.linalg.solve(Coo, np.swapaxes(Cpo, -1, -2))


def sub_in(M):
    return M[..., IN[:, None], IN[None, :]]


def tr(M):
    return np.swapaxes(M, -1, -2)


def amax(M):
    return float(np.max(np.abs(M)))


def cond_of(C):
    w = np.linalg.eigvalsh((C + tr(C)) / 2)
    return float(np.max(np.abs(w[..., -1]) / np.abs(w[..., 0])))


def quat_Qn(q):
    a, b, c, d = [int(x) for x in q]
    n = a * a + b * b + c * c + d * d
    if n == 0:
        a, n = 1, 1
    Qn = np.array(
        [
            [a * a + b * b - c * c - d * d, 2 * (b * c - a * d), 2 * (b * d + a * c)],
            [2 * (b * c + a * d), a * a - b * b + c * c - d * d, 2 * (c * d - a * b)],
            [2 * (b * d - a * c), 2 * (c * d + a * b), a * a - b * b - c * c + d * d],
        ],
        float,
    )
    return Qn, float(n)


SGRID = [0.3, 0.7, 1.5, 3.0, 10.0, 100.0, 1000.0, 1e4]


def axes_of(ax):
    """-> Q (unit, columns = axes), axis_1, axis_2 as supplied to EasyFEA, is_unit"""
    Qn, n = quat_Qn(ax["q"])
    Q = Qn / n
    kind = ax["kind"]
    if kind == "unit":
        return Q, Q[:, 0].copy(), Q[:, 1].copy(), True
    if kind == "int":
        p1, p2 = ax["p"]
        return Q, Qn[:, 0] * 2.0 ** p1, Qn[:, 1] * 2.0 ** p2, False
    s1, s2 = SGRID[ax["s"][0]], SGRID[ax["s"][1]]
    return Q, Q[:, 0] * s1, Q[:, 1] * s2, False


@st.composite
def axes_strategy(draw, inplane=False, kinds=("unit", "int", "scaled")):
    if inplane:
        q = [draw(st.integers(-4, 4)), 0, 0, draw(st.integers(-4, 4))]
    else:
        q = [draw(st.integers(-3, 3)) for _ in range(4)]
    if not any(q):
        q[0] = 1
    kind = draw(st.sampled_from(list(kinds)))
    ax = dict(q=q, kind=kind)
    if kind == "int":
        ax["p"] = [draw(st.integers(-10, 10)), draw(st.integers(-10, 10))]
    elif kind == "scaled":
        ax["s"] = [draw(st.integers(0, len(SGRID) - 1)), draw(st.integers(0, len(SGRID) - 1))]
    return ax


def abs_tol_rejects(a1, a2):
    """in-domain (relatively orthogonal) axes that the constructors' absolute test
    `axis_1 @ axis_2 <= 1e-12` on the *unnormalised* vectors rejects (finding C11-d)"""
    return float(a1 @ a2) > 1e-12


# ------------------------------------------------------------------------------------------
# material cases

MOD = [0.5, 1.0, 2.0, 3.0, 5.0, 8.0, 13.0, 20.0, 40.0, 100.0]
UNITS = [1.0, 1000.0, 1e9]
PNAMES = dict(
    iso=["E", "v"],
    ti=["El", "Et", "Gl", "vl", "vt"],
    ortho=["E1", "E2", "E3", "G23", "G13", "G12", "v23", "v13", "v12"],
)
NU_RANGE = dict(v=(-14, 7), vl=(-14, 7), vt=(-14, 14), v23=(-14, 7), v13=(-14, 7), v12=(-14, 7))
LAWCLS = dict(iso=Isotropic, ti=TransverselyIsotropic, ortho=Orthotropic, aniso=Anisotropic)


def is_nu(name):
    return name.startswith("v")


@st.composite
def shape_strategy(draw, het=None):
    het = het or draw(st.sampled_from(["hom", "hom", "e", "ep"]))
    if het == "hom":
        return []
    if het == "e":
        return [draw(st.integers(1, 4))]
    return [draw(st.integers(1, 3)), draw(st.integers(1, 3))]


@st.composite
def param_case(draw, law, shape):
    """base values (grid indices) + per-parameter multipliers for heterogeneous fields"""
    names = PNAMES[law]
    base = {}
    for nm in names:
        if is_nu(nm):
            lo, hi = NU_RANGE[nm]
            base[nm] = draw(st.integers(lo, hi))  # /16
        else:
            base[nm] = draw(st.integers(0, len(MOD) - 1))
    arr = {}
    if shape:
        size = int(np.prod(shape))
        mask = [draw(st.booleans()) for _ in names]
        if not any(mask):
            mask[draw(st.integers(0, len(names) - 1))] = True
        for nm, m in zip(names, mask):
            if m:
                arr[nm] = [draw(st.integers(-4, 4)) for _ in range(size)]
    return dict(base=base, arr=arr, unit=draw(st.sampled_from(UNITS)))


def compliance_blocks(law, P):
    """normal (3x3) block of the engineering compliance, broadcast over the field shape"""
    if law == "iso":
        E, v = P["E"], P["v"]
        d, o = 1 / E + 0 * v, -v / E
        rows = [[d, o, o], [o, d, o], [o, o, d]]
    elif law == "ti":
        El, Et, vl, vt = P["El"], P["Et"], P["vl"], P["vt"]
        rows = [[1 / El + 0 * vl, -vl / El, -vl / El], [-vl / El, 1 / Et + 0 * vt, -vt / Et],
                [-vl / El, -vt / Et, 1 / Et + 0 * vt]]
    else:
        E1, E2, E3, v23, v13, v12 = P["E1"], P["E2"], P["E3"], P["v23"], P["v13"], P["v12"]
        rows = [[1 / E1 + 0 * v12, -v12 / E1, -v13 / E1], [-v12 / E1, 1 / E2 + 0 * v23, -v23 / E2],
                [-v13 / E1, -v23 / E2, 1 / E3 + 0 * v23]]
    bshape = np.broadcast(*[x for r in rows for x in r]).shape
    S = np.zeros(bshape + (3, 3))
    for i in range(3):
        for j in range(3):
            S[..., i, j] = rows[i][j]
    return S


def admissible(law, P):
    S = compliance_blocks(law, P)
    d = np.sqrt(np.einsum("...ii->...i", S))
    R = S / (d[..., :, None] * d[..., None, :])
    return float(np.min(np.linalg.eigvalsh(R))) >= 0.05


def materialize(law, pc, shape):
    """-> dict name -> python float | ndarray(shape); Poisson ratios halved until admissible"""
    unit = pc["unit"]
    shape = tuple(shape)
    for halvings in range(8):
        P = {}
        for nm in PNAMES[law]:
            if is_nu(nm):
                b = pc["base"][nm] / 16.0 / (2 ** halvings)
            else:
                b = MOD[pc["base"][nm]] * unit
            if nm in pc["arr"]:
                m = np.array(pc["arr"][nm], float).reshape(shape)
                P[nm] = b * (12 + m) / 16.0 if is_nu(nm) else b * (1 + m / 16.0)
            else:
                P[nm] = float(b)
        if admissible(law, P):
            return P, halvings
    raise AssertionError("unreachable: zero Poisson ratios are admissible")


def ti_gl_only(law, P):
    """finding C11-c class: TransverselyIsotropic whose only array-valued parameter is Gl"""
    if law != "ti":
        return False
    arrs = [nm for nm, v in P.items() if isinstance(v, np.ndarray)]
    return arrs == ["Gl"]


def distinct_entries(P):
    for v in P.values():
        if isinstance(v, np.ndarray) and v.size > 1 and np.ptp(v) > 0:
            return True
    return False


def build_param_law(law, P, dim, ps, a1=None, a2=None):
    if law == "iso":
        return Isotropic(dim, E=P["E"], v=P["v"], planeStress=ps)
    kw = {}
    if law == "ti":
        if a1 is not None:
            kw = dict(axis_l=a1, axis_t=a2)
        return TransverselyIsotropic(dim, P["El"], P["Et"], P["Gl"], P["vl"], P["vt"], planeStress=ps, **kw)
    if a1 is not None:
        kw = dict(axis_1=a1, axis_2=a2)
    return Orthotropic(dim, P["E1"], P["E2"], P["E3"], P["G23"], P["G13"], P["G12"], P["v23"], P["v13"],
                       P["v12"], planeStress=ps, **kw)


# -- anisotropic ----------------------------------------------------------------------------


@st.composite
def aniso_case(draw, n, shape):
    A = [draw(st.integers(-3, 3)) for _ in range(n * n)]
    k = draw(st.integers(1, 6))
    size = int(np.prod(shape)) if shape else 1
    shifts = [draw(st.integers(0, 8)) for _ in range(size)] if shape else []
    return dict(n=n, A=A, k=k, shifts=shifts, unit=draw(st.sampled_from(UNITS)))


def aniso_km(ac, shape):
    """SPD Kelvin-Mandel matrix in the material frame, shape + (n,n)"""
    n = ac["n"]
    A = np.array(ac["A"], float).reshape(n, n) / 2.0
    base = A @ A.T
    D = np.diag(np.arange(1, n + 1, dtype=float))
    if not shape:
        return (base + ac["k"] * np.eye(n)) * ac["unit"]
    sh = np.array(ac["shifts"], float).reshape(tuple(shape))
    return (base + ac["k"] * np.eye(n) + sh[..., None, None] / 4.0 * D) * ac["unit"]


def build_aniso(dim, Ckm, voigt, a1=None, a2=None):
    n = Ckm.shape[-1]
    Cin = Ckm / voigt_factor(n) if voigt else Ckm.copy()
    if a1 is None:
        return Anisotropic(dim, Cin, voigt)
    return Anisotropic(dim, Cin, voigt, a1, a2)


# -- a full material case --------------------------------------------------------------------


@st.composite
def material_cases(draw, laws=("iso", "ti", "ortho", "aniso"), dims=(2, 3), allow_voigt6=False):
    law = draw(st.sampled_from(list(laws)))
    dim = draw(st.sampled_from(list(dims)))
    shape = draw(shape_strategy())
    case = dict(law=law, dim=dim, shape=shape)
    if law == "aniso":
        n = 6 if dim == 3 else draw(st.sampled_from([3, 6]))
        case["ps"] = False
        case["ac"] = draw(aniso_case(n, shape))
        case["voigt"] = draw(st.booleans()) if n == 3 else draw(st.integers(0, 3)) == 0
        case["axes"] = draw(axes_strategy(inplane=(n == 3)))
    else:
        case["ps"] = draw(st.booleans()) if dim == 2 else False
        case["pc"] = draw(param_case(law, shape))
        case["axes"] = draw(axes_strategy())
    return case


def still_known(rec, fid):
    """True while finding `fid` is listed with status 'known' (findings/C11.json or KNOWN_FINDINGS.json).
    Classes on which a known defect *raises* are skipped (and counted) only while that is the case; a
    replay runs with an empty list, and a 'fixed' entry re-opens the class without editing this module."""
    return any(e.get("id") == fid and e.get("status") == "known" for e in rec.known)


class Mat:
    """everything the checks need, built from a case by the real constructors + the oracle inputs"""

    def __init__(self, case, rec, keep_voigt6=False):
        self.case = case
        self.law = law = case["law"]
        self.dim = case["dim"]
        self.ps = bool(case["ps"])
        self.shape = list(case["shape"])
        self.Q, self.a1, self.a2, self.unit_axes = axes_of(case["axes"])
        self.skip = None
        self.voigt = bool(case.get("voigt", False))
        if law == "aniso":
            self.Ckm = aniso_km(case["ac"], self.shape)
            self.n = self.Ckm.shape[-1]
            if self.n == 6 and self.voigt and not keep_voigt6 and still_known(rec, "C11-b"):
                # finding C11-b is pinned by the `notation` sub-check; the other sub-checks skip the class
                rec.label("excluded:aniso_6x6_voigt(C11-b)")
                self.skip = "aniso_6x6_voigt"
            self.P = None
        else:
            self.P, self.halvings = materialize(law, case["pc"], self.shape)
            if ti_gl_only(law, self.P) and still_known(rec, "C11-c"):
                rec.label("excluded:ti_only_Gl_array(C11-c)")
                self.skip = "ti_gl_only"
        if law != "iso" and abs_tol_rejects(self.a1, self.a2) and still_known(rec, "C11-d"):
            rec.label("excluded:axes_abs_tol(C11-d)")
            self.skip = "axes_abs_tol"
        self.sig = dict(law=law, dim=self.dim, ps=self.ps, het=["hom", "e", "ep"][len(self.shape)],
                        axes=("unit" if self.unit_axes else "non_unit"),
                        notation=("voigt" if self.voigt else "km"), n=(self.n if law == "aniso" else 6))
        rec.label("law:" + law, f"dim:{self.dim}{'ps' if self.ps else 'pe' if self.dim == 2 else ''}",
                  "het:" + self.sig["het"], "axes:" + case["axes"]["kind"])

    def build(self, dim=None, ps=None, axes="given"):
        dim = self.dim if dim is None else dim
        ps = self.ps if ps is None else ps
        if axes == "given":
            a1, a2 = self.a1, self.a2
        elif axes == "unit":
            a1, a2 = self.Q[:, 0].copy(), self.Q[:, 1].copy()
        else:
            a1 = a2 = None
        if self.law == "aniso":
            return build_aniso(dim, self.Ckm, self.voigt, a1, a2)
        return build_param_law(self.law, self.P, dim, ps, a1, a2)

    def material_C3(self):
        """(C, S) 6x6 Kelvin-Mandel matrices in the material frame (default axes, 3D)"""
        if self.law == "aniso":
            C = self.Ckm
            if self.n == 3:
                C6 = np.zeros(C.shape[:-2] + (6, 6))
                C6[..., IN[:, None], IN[None, :]] = C
                return C6, None
            return C, np.linalg.inv(C)
        m = build_param_law(self.law, self.P, 3, False)
        return m.C, m.S

    def kcond(self):
        """tolerance factor: the oracle and the code both go through inverses of the *3D* material
        matrix (Schur complement / inverse of the compliance block), so rounding scales with its
        condition number, not with the one of the reduced 2D matrix"""
        if self.law == "aniso":
            c = cond_of(self.Ckm)
        else:
            c = cond_of(self.material_C3()[0])
        return max(1.0, c / 10)

    def expected(self):
        """oracle (C, S) of the law in the global frame, from the material 3D matrices"""
        Cm, Sm = self.material_C3()
        if self.law == "aniso" and self.n == 3:
            C3 = rot_km(Cm, self.Q)
            C = sub_in(C3)
            return C, np.linalg.inv(C)
        # isotropic law: no axes are supplied, but its tensor must be invariant under every Q
        Q = self.Q
        C3 = rot_km(Cm, Q)
        if self.dim == 3:
            return C3, rot_km(Sm, Q)
        if self.ps:
            C = schur_plane_stress(C3)
        else:
            C = sub_in(C3)
        return C, np.linalg.inv(C)


def field_shape_ok(M, shape, n):
    return tuple(M.shape) == tuple(shape) + (n, n)


# ------------------------------------------------------------------------------------------
# sub-check 1: symmetric positive definite, C.S = I


def check_spd(case, rec):
    mat = Mat(case, rec)
    if mat.skip:
        return
    sig = mat.sig
    law = mat.build()
    C, S = np.asarray(law.C), np.asarray(law.S)
    n = 3 if mat.dim == 2 else 6
    rec.require(field_shape_ok(C, mat.shape, n) and field_shape_ok(S, mat.shape, n), "shape",
                f"C {C.shape} S {S.shape} for field shape {mat.shape}", **sig)
    wC = np.linalg.eigvalsh((C + tr(C)) / 2)
    wS = np.linalg.eigvalsh((S + tr(S)) / 2)
    kc = max(1.0, float(np.max(np.abs(wC[..., -1] / wC[..., 0]))) / 10)  # C or S is a computed inverse
    rec.close(C - tr(C), amax(C) * kc, TOL, "C_symmetric", "", **sig)
    rec.close(S - tr(S), amax(S) * kc, TOL, "S_symmetric", "", **sig)
    rec.require(np.all(wC > 0), "C_positive_definite", f"min eig {wC.min():.3e}", **sig)
    rec.require(np.all(wS > 0), "S_positive_definite", f"min eig {wS.min():.3e}", **sig)
    cond = float(np.max(wC[..., -1] / wC[..., 0]))
    rec.note_max("cond_C", cond)
    I = np.eye(n)
    rec.close(C @ S - I, cond, TOL, "C_S_identity", f"{mat.law} dim={mat.dim}", **sig)
    rec.close(S @ C - I, cond, TOL, "S_C_identity", f"{mat.law} dim={mat.dim}", **sig)
    if mat.shape:
        rec.label("het_distinct" if (mat.law == "aniso" or distinct_entries(mat.P)) else "het_equal")
    offdiag = C - np.einsum("...ii->...i", C)[..., None] * I
    rec.nontrivial(amax(offdiag) > 1e-6 * amax(C))


# ------------------------------------------------------------------------------------------
# sub-check 2: 2D law = plane-stress / plane-strain reduction of the 3D law of the same class


def check_reduction(case, rec):
    mat = Mat(case, rec)
    if mat.skip:
        return
    sig = mat.sig
    law2 = mat.build(dim=2)
    law3 = mat.build(dim=3)
    C2, S2 = np.asarray(law2.C), np.asarray(law2.S)
    C3, S3 = np.asarray(law3.C), np.asarray(law3.S)
    cond = cond_of(C3)
    scale = amax(C3) * max(1.0, cond / 10)
    Cpo = C3[..., IN[:, None], OUT[None, :]]
    if mat.ps:
        Cexp = schur_plane_stress(C3)
        rec.close(C2 - Cexp, scale, TOL, "plane_stress_C", f"{mat.law}: C2D vs Schur complement of C3D", **sig)
        rec.close(S2 - sub_in(S3), amax(S3) * max(1.0, cond / 10), TOL, "plane_stress_S",
                  f"{mat.law}: S2D vs in-plane block of S3D", **sig)
        rec.nontrivial(amax(Cpo) > 1e-3 * amax(C3))
    else:
        rec.close(C2 - sub_in(C3), amax(C3), TOL, "plane_strain_C", f"{mat.law}: C2D vs in-plane block of C3D",
                  **sig)
        I3 = np.eye(3)
        rec.nontrivial(amax(C2 - np.einsum("...ii->...i", C2)[..., None] * I3) > 1e-6 * amax(C2))
    # physical statement on random in-plane strain states
    rng = np.random.default_rng(int(case.get("k", 0)))
    e2 = rng.integers(-4, 5, size=(5, 3)).astype(float)
    sig2 = np.einsum("...ij,sj->...si", C2, e2)
    e3 = np.zeros(C3.shape[:-2] + (5, 6))
    e3[..., IN] = e2
    if mat.ps:
        Coo = C3[..., OUT[:, None], OUT[None, :]]
        eo = -np.linalg.solve(Coo, np.einsum("...po,sp->...os", Cpo, e2))  # (..., 3, 5)
        e3[..., OUT] = np.swapaxes(eo, -1, -2)
    s3 = np.einsum("...ij,...sj->...si", C3, e3)
    emax = max(1.0, amax(e2))
    if mat.ps:
        rec.close(s3[..., OUT], scale * emax, TOL, "plane_stress_out_of_plane_stress_zero", "", **sig)
    rec.close(s3[..., IN] - sig2, scale * emax, TOL, "in_plane_stress_equal",
              f"{mat.law} {'plane stress' if mat.ps else 'plane strain'}: C2D e vs in-plane part of C3D e3", **sig)


@st.composite
def reduction_cases(draw):
    case = draw(material_cases(dims=(2,)))
    if case["law"] == "aniso":
        # the 2D anisotropic law of a 3D tensor: 6x6 input, general axes
        case["ac"] = draw(aniso_case(6, case["shape"]))
        case["axes"] = draw(axes_strategy())
    case["k"] = draw(st.integers(0, 10 ** 6))
    return case


# ------------------------------------------------------------------------------------------
# sub-check 3: frame - rotated axes give the rotated 4th-order tensor; axis length is irrelevant


def check_frame(case, rec):
    mat = Mat(case, rec)
    if mat.skip:
        return
    sig = mat.sig
    law = mat.build()
    C, S = np.asarray(law.C), np.asarray(law.S)
    Cexp, Sexp = mat.expected()
    kc = mat.kcond()
    rec.close(C - Cexp, amax(Cexp) * kc, TOL, "C_equals_rotated_tensor",
              f"{mat.law} dim={mat.dim} ps={mat.ps} q={case['axes']['q']}", **sig)
    rec.close(S - Sexp, amax(Sexp) * kc, TOL, "S_equals_rotated_tensor",
              f"{mat.law} dim={mat.dim} ps={mat.ps} q={case['axes']['q']}", **sig)
    nt_axes = False
    if mat.law != "iso" and not mat.unit_axes:
        lawu = mat.build(axes="unit")
        rec.close(C - np.asarray(lawu.C), amax(Cexp) * kc, TOL, "axis_length_independent_C",
                  f"|a1|={np.linalg.norm(mat.a1):.3g} |a2|={np.linalg.norm(mat.a2):.3g}", **sig)
        rec.close(S - np.asarray(lawu.S), amax(Sexp) * kc, TOL, "axis_length_independent_S", "", **sig)
        nt_axes = True
    # non-trivial: rotation is not a symmetry of the material tensor
    Cm, _ = mat.material_C3()
    moved = amax(rot_km(Cm, mat.Q) - Cm) > 1e-3 * amax(Cm)
    rec.label("rotation:" + ("moves_tensor" if moved else "symmetry_of_law"))
    rec.nontrivial(moved or nt_axes)


# ------------------------------------------------------------------------------------------
# sub-check 4: Voigt and Kelvin-Mandel input give the same law (Anisotropic)


@st.composite
def notation_cases(draw):
    dim = draw(st.sampled_from([2, 3]))
    n = 6 if dim == 3 else draw(st.sampled_from([3, 6]))
    shape = draw(shape_strategy())
    return dict(law="aniso", dim=dim, ps=False, shape=shape, ac=draw(aniso_case(n, shape)),
                axes=draw(axes_strategy(inplane=(n == 3))), voigt=True,
                via=draw(st.sampled_from(["ctor", "Set_C"])))


def check_notation(case, rec):
    mat = Mat(case, rec, keep_voigt6=True)
    if mat.skip:
        return
    n = mat.n
    sig = dict(mat.sig, notation="voigt", via=case["via"])
    Ckm = mat.Ckm
    Cv = Ckm / voigt_factor(n)
    if case["via"] == "ctor":
        lawV = Anisotropic(mat.dim, Cv.copy(), True, mat.a1, mat.a2)
        lawK = Anisotropic(mat.dim, Ckm.copy(), False, mat.a1, mat.a2)
    else:
        lawV = Anisotropic(mat.dim, np.eye(n) + 0 * Ckm, False, mat.a1, mat.a2)
        lawK = Anisotropic(mat.dim, np.eye(n) + 0 * Ckm, False, mat.a1, mat.a2)
        lawV.Set_C(Cv.copy(), True)
        lawK.Set_C(Ckm.copy(), False)
    CV, CK = np.asarray(lawV.C), np.asarray(lawK.C)
    SV, SK = np.asarray(lawV.S), np.asarray(lawK.S)
    Cexp, Sexp = mat.expected()
    kc = mat.kcond()
    sigK = dict(sig, notation="km")
    rec.close(CK - Cexp, amax(Cexp) * kc, TOL, "km_input_equals_tensor", f"n={n} dim={mat.dim}", **sigK)
    rec.close(SK - Sexp, amax(Sexp) * kc, TOL, "km_input_equals_tensor_S", f"n={n} dim={mat.dim}", **sigK)
    ok = rec.close(CV - CK, amax(Cexp) * kc, TOL, "voigt_equals_km",
                   f"Anisotropic(dim={mat.dim}) with a {n}x{n} matrix: Voigt input and its Kelvin-Mandel "
                   f"form give different C", **sig)
    if ok:
        rec.close(SV - SK, amax(Sexp) * kc, TOL, "voigt_equals_km_S", "", **sig)
        rec.close(CV - Cexp, amax(Cexp) * kc, TOL, "voigt_input_equals_tensor", "", **sig)
    rec.label(f"notation:n{n}_dim{mat.dim}_{case['via']}")
    shear = Ckm[..., (3 if n == 6 else 2):, :]
    rec.nontrivial(amax(shear) > 0)


# ------------------------------------------------------------------------------------------
# sub-check 5: Get_Pmat / Apply_Pmat


@st.composite
def pmat_cases(draw):
    vdim = draw(st.sampled_from([2, 3, 3]))
    shape = draw(shape_strategy())
    size = int(np.prod(shape)) if shape else 1
    kind = draw(st.sampled_from(["unit", "unit", "unit", "int", "scaled"]))
    axes = [draw(axes_strategy(inplane=(vdim == 2), kinds=(kind,))) for _ in range(size)]
    mshape = draw(st.sampled_from(["hom", "same", "e", "ep"]))
    k = draw(st.integers(0, 10 ** 6))
    return dict(vdim=vdim, shape=shape, axes=axes, mshape=mshape, k=k)


def check_pmat(case, rec):
    vdim = case["vdim"]
    shape = tuple(case["shape"])
    n = 3 if vdim == 2 else 6
    Qs, A1, A2 = [], [], []
    unit = True
    for ax in case["axes"]:
        Q, a1, a2, u = axes_of(ax)
        unit &= u
        Qs.append(Q[:vdim, :vdim])
        A1.append(a1[:vdim])
        A2.append(a2[:vdim])
    Qs = np.array(Qs).reshape(shape + (vdim, vdim))
    A1 = np.array(A1).reshape(shape + (vdim,))
    A2 = np.array(A2).reshape(shape + (vdim,))
    sig = dict(vdim=vdim, het=["hom", "e", "ep"][len(shape)], axes="unit" if unit else "non_unit")
    rec.label(f"pmat:vdim{vdim}", "pmat_het:" + sig["het"], "pmat_axes:" + case["axes"][0]["kind"])
    if not unit and still_known(rec, "C11-a"):
        # Get_Pmat multiplies by the norm (C11-a); its own perpendicularity assert then sees
        # |a1|^2 |a2|^2 cos: exclude the inputs on which this symptom *raises*
        n1 = np.linalg.norm(A1, axis=-1, keepdims=True)
        n2 = np.linalg.norm(A2, axis=-1, keepdims=True)
        d = np.sum((A1 * n1) * (A2 * n2), axis=-1)
        bound = 1e-15 * np.sqrt(d.size) * float(np.max(n1 * n2)) ** 2  # rounding residue it may see
        if np.linalg.norm(d) > 1e-13 or bound > 1e-13:
            rec.label("excluded:pmat_nonunit_assert_may_raise(C11-a)")
            return
    P = np.asarray(Get_Pmat(A1, A2))
    rec.require(P.shape == shape + (n, n), "pmat_shape", f"{P.shape}", **sig)
    I = np.eye(n)
    ok = rec.close(P @ tr(P) - I, 1.0, TOL, "pmat_orthogonal",
                   f"Get_Pmat with |axis_1|={np.linalg.norm(A1.reshape(-1, vdim)[0]):.4g}, "
                   f"|axis_2|={np.linalg.norm(A2.reshape(-1, vdim)[0]):.4g}: P P^T != I", **sig)
    if not ok:
        rec.label("pmat:rest_skipped_after_known")
        return
    Por = np.array([km_of_rotation(q) for q in Qs.reshape(-1, vdim, vdim)]).reshape(shape + (n, n))
    rec.close(P - Por, 1.0, TOL, "pmat_equals_rotation", "P vs Kelvin-Mandel matrix of e -> Q e Q^T", **sig)
    Ps, Pe = Get_Pmat(A1, A2, False)
    w = W3 if n == 6 else W2
    rec.close(np.asarray(Ps) - Por * (w[None, :] / w[:, None]), 2.0, TOL, "Ps_voigt", "", **sig)
    rec.close(np.asarray(Pe) - Por * (w[:, None] / w[None, :]), 2.0, TOL, "Pe_voigt", "", **sig)
    rec.close(np.asarray(Ps) @ tr(np.asarray(Pe)) - I, 2.0, TOL, "Ps_PeT_identity", "", **sig)
    # Apply_Pmat on a random symmetric matrix field
    rng = np.random.default_rng(int(case["k"]))
    ms = case["mshape"]
    if ms == "hom":
        mshape = ()
    elif ms == "same" or not shape:
        mshape = shape
    elif ms == "e":
        mshape = shape[:1]
    else:
        mshape = shape if len(shape) == 2 else shape + (int(rng.integers(1, 4)),)
    M = rng.integers(-8, 9, size=mshape + (n, n)).astype(float) / 4.0
    M = M + tr(M)
    G = np.asarray(Apply_Pmat(P, M, toGlobal=True))
    L = np.asarray(Apply_Pmat(P, M, toGlobal=False))
    # oracle: broadcast Q and M to the common field shape
    oshape = mshape if len(mshape) > len(shape) else shape
    rec.require(G.shape == oshape + (n, n) and L.shape == oshape + (n, n), "apply_shape",
                f"{G.shape} expected {oshape + (n, n)}", **sig)
    Qb = np.broadcast_to(Qs.reshape(shape + (1,) * (len(oshape) - len(shape)) + (vdim, vdim)),
                         oshape + (vdim, vdim)).reshape(-1, vdim, vdim)
    Mb = np.broadcast_to(M.reshape(mshape + (1,) * (len(oshape) - len(mshape)) + (n, n)),
                         oshape + (n, n)).reshape(-1, n, n)
    Gor = np.array([rot_km(m, q) for m, q in zip(Mb, Qb)]).reshape(oshape + (n, n))
    Lor = np.array([rot_km(m, q.T) for m, q in zip(Mb, Qb)]).reshape(oshape + (n, n))
    sM = max(1.0, amax(M))
    rec.close(G - Gor, sM, TOL, "apply_toGlobal_is_tensor_rotation", "", **sig)
    rec.close(L - Lor, sM, TOL, "apply_toMaterial_is_inverse_rotation", "", **sig)
    rec.nontrivial(amax(Por - I) > 1e-6)


# ------------------------------------------------------------------------------------------
# sub-check 6: mutation histories - a changed parameter is visible on the next read


@st.composite
def mutation_cases(draw):
    law = draw(st.sampled_from(["iso", "ti", "ortho", "aniso"]))
    dim = draw(st.sampled_from([2, 3]))
    shape = draw(shape_strategy(het=draw(st.sampled_from(["hom", "hom", "e", "ep"]))))
    case = dict(law=law, dim=dim, shape=shape, ps=False)
    ops = []
    nops = draw(st.integers(1, 6))
    if law == "aniso":
        n = 6 if dim == 3 else 3
        case["ac"] = draw(aniso_case(n, shape))
        case["voigt"] = False
        case["axes"] = draw(axes_strategy(inplane=(n == 3), kinds=("unit", "int")))
        for _ in range(nops):
            kind = draw(st.sampled_from(["Set_C", "Set_C", "read"]))
            if kind == "Set_C":
                ops.append(dict(op="Set_C", ac=draw(aniso_case(n, shape)),
                                voigt=(draw(st.booleans()) if n == 3 else False)))
            else:
                ops.append(dict(op="read", what=draw(st.sampled_from(["C", "S", "CS", "SC"]))))
    else:
        case["ps"] = draw(st.booleans()) if dim == 2 else False
        case["pc"] = draw(param_case(law, shape))
        case["axes"] = draw(axes_strategy(kinds=("unit", "int")))
        names = PNAMES[law]
        for _ in range(nops):
            kind = draw(st.sampled_from(["set", "set", "set", "read", "read", "ps", "dim"]))
            if kind == "set":
                nm = draw(st.sampled_from(names))
                lo, hi = NU_RANGE[nm] if is_nu(nm) else (0, len(MOD) - 1)
                op = dict(op="set", name=nm, base=draw(st.integers(lo, hi)))
                if shape and draw(st.booleans()):
                    op["arr"] = [draw(st.integers(-4, 4)) for _ in range(int(np.prod(shape)))]
                    # the caller may also modify the array it passed before IN PLACE and assign the same object again
                    op["inplace"] = draw(st.booleans())
                ops.append(op)
            elif kind == "read":
                ops.append(dict(op="read", what=draw(st.sampled_from(["C", "S", "CS", "SC"]))))
            elif kind == "ps":
                ops.append(dict(op="ps"))
            else:
                ops.append(dict(op="dim"))
    case["ops"] = ops
    return case


def op_value(nm, op, unit, shape):
    if is_nu(nm):
        b = op["base"] / 16.0
    else:
        b = MOD[op["base"]] * unit
    if "arr" in op:
        m = np.array(op["arr"], float).reshape(tuple(shape))
        return b * (12 + m) / 16.0 if is_nu(nm) else b * (1 + m / 16.0)
    return float(b)


def check_mutation(case, rec):
    mat = Mat(case, rec)
    if mat.skip:
        return
    law = mat.build()
    sig = mat.sig
    state = dict(dim=mat.dim, ps=mat.ps)
    if mat.law == "aniso":
        state["Ckm"] = mat.Ckm
    else:
        state["P"] = dict(mat.P)

    def fresh():
        if mat.law == "aniso":
            return build_aniso(state["dim"], state["Ckm"], False, mat.a1, mat.a2)
        return build_param_law(mat.law, state["P"], state["dim"], state["ps"], mat.a1, mat.a2)

    def read(what, after):
        ref = fresh()
        got = {}
        for w in what:  # order of first access matters for a lazy update
            got[w] = np.asarray(law.C if w == "C" else law.S)
        for w, val in got.items():
            exp = np.asarray(ref.C if w == "C" else ref.S)
            rec.require(val.shape == exp.shape, "mutation_shape", f"{w} {val.shape} vs fresh {exp.shape} after {after}",
                        **sig)
            rec.close(val - exp, amax(exp), TOL, f"mutation_visible_{w}",
                      f"{mat.law}: {w} read after {after} differs from a freshly constructed law", **dict(sig, after=after))

    read("CS", "construction")
    effective = 0
    pending = None
    reads_after_change = 0
    # the array objects the harness passed to the law, by parameter name (the constructor arguments first)
    held = dict(mat.P) if getattr(mat, "P", None) else {}
    for _nm, _val in held.items():
        if isinstance(_val, np.ndarray):
            setattr(law, _nm, _val)  # same values: makes sure the law holds exactly the objects the harness keeps
    for op in case["ops"]:
        kind = op["op"]
        if kind == "read":
            read(op["what"], pending or "nothing")
            if pending:
                reads_after_change += 1
            pending = None
        elif kind == "set":
            nm = op["name"]
            val = op_value(nm, op, case["pc"]["unit"], mat.shape)
            trial = dict(state["P"])
            trial[nm] = val
            if not admissible(mat.law, trial) or ti_gl_only(mat.law, trial):
                rec.label("mutation:op_dropped_inadmissible")
                continue
            changed = not np.array_equal(np.asarray(state["P"][nm]), np.asarray(val))
            prev = held.get(nm)
            if op.get("inplace") and isinstance(prev, np.ndarray) and isinstance(val, np.ndarray) and prev.shape == val.shape:
                prev[...] = val  # same object, new content
                setattr(law, nm, prev)
                rec.label("mutation:set_inplace_same_object")
            else:
                held[nm] = val.copy() if isinstance(val, np.ndarray) else val
                setattr(law, nm, held[nm])
            state["P"] = trial
            if changed:
                effective += 1
                pending = f"set:{nm}"
            rec.label("mutation:set")
        elif kind == "ps":
            if state["dim"] == 2:
                state["ps"] = not state["ps"]
                law.planeStress = state["ps"]
                effective += 1
                pending = "set:planeStress"
                rec.label("mutation:planeStress")
        elif kind == "dim":
            state["dim"] = 5 - state["dim"]
            law.dim = state["dim"]
            effective += 1
            pending = "set:dim"
            rec.label("mutation:dim")
        elif kind == "Set_C":
            Ckm = aniso_km(op["ac"], mat.shape)
            n = Ckm.shape[-1]
            changed = not np.array_equal(Ckm, state["Ckm"])
            law.Set_C(Ckm / voigt_factor(n) if op["voigt"] else Ckm.copy(), op["voigt"])
            state["Ckm"] = Ckm
            if changed:
                effective += 1
                pending = "Set_C"
            rec.label("mutation:Set_C")
    read("SC", pending or "nothing")
    if pending:
        reads_after_change += 1
    rec.nontrivial(effective >= 1 and reads_after_change >= 1)


# ------------------------------------------------------------------------------------------
# sub-check 7: Walpole decomposition sums back to the 3D stiffness (homogeneous laws)


@st.composite
def walpole_cases(draw):
    law = draw(st.sampled_from(["iso", "ti", "ortho"]))
    # Isotropic.Walpole_Decomposition uses the dim-dependent bulk modulus with the 3D projectors and
    # trips its own assert for dim=2; the decomposition is not part of the C11 statement, so only the
    # 3D isotropic law is generated (TI / orthotropic always decompose their 3D tensor).
    dim = 3 if law == "iso" else draw(st.sampled_from([2, 3]))
    case = dict(law=law, dim=dim, shape=[], ps=False)
    case["ps"] = draw(st.booleans()) if case["dim"] == 2 else False
    case["pc"] = draw(param_case(law, []))
    case["axes"] = draw(axes_strategy())
    return case


def check_walpole(case, rec):
    mat = Mat(case, rec)
    if mat.skip:
        return
    law = mat.build()
    ci, Ei = law.Walpole_Decomposition()
    ci, Ei = np.asarray(ci, float), np.asarray(Ei, float)
    Csum = np.einsum("a,aij->ij", ci, Ei)
    Cm, _ = mat.material_C3()
    Q = np.eye(3) if mat.law == "iso" else mat.Q
    Cexp = rot_km(Cm, Q)
    rec.close(Csum - Cexp, amax(Cexp), TOL, "walpole_sums_to_C", f"{mat.law} dim={mat.dim}", **mat.sig)
    rec.nontrivial(True)


SUBS = [
    Sub("spd_inverse", check_spd, gen=material_cases, quick=1000, thorough=8000, shards=4),
    Sub("reduction", check_reduction, gen=reduction_cases, quick=800, thorough=8000, shards=4),
    Sub("frame", check_frame, gen=material_cases, quick=1000, thorough=8000, shards=6),
    Sub("notation", check_notation, gen=notation_cases, quick=500, thorough=5000, shards=2),
    Sub("pmat", check_pmat, gen=pmat_cases, quick=800, thorough=8000, shards=4),
    Sub("mutation", check_mutation, gen=mutation_cases, quick=600, thorough=6000, shards=4),
    Sub("walpole", check_walpole, gen=walpole_cases, quick=300, thorough=3000, shards=2),
]


# ------------------------------------------------------------------------------------------
# (added by the lead, round 8) the stiffness of an Anisotropic law handed over as an INTEGER-typed array (whole numbers in MPa are a
# natural way to write one): same law as the same numbers given as floats, in both notations, through the constructor and Set_C,
# with material axes aligned or rotated - the converted shear terms (sqrt 2, 2) are not whole numbers


@st.composite
def integer_stiffness_cases(draw):
    dim = draw(st.sampled_from([2, 2, 3]))
    n = 6 if dim == 3 else draw(st.sampled_from([3, 3, 6]))
    # an SPD matrix with whole-number entries: L L^T + k I with integer L (lower triangular, off-diagonal terms everywhere)
    L = [[draw(st.integers(-3, 3)) if j < i else (draw(st.integers(1, 4)) if j == i else 0) for j in range(n)] for i in range(n)]
    return dict(dim=dim, n=n, L=L, k=draw(st.integers(1, 5)), dtype=draw(st.sampled_from(["int64", "int32", "int16"])),
                voigt=draw(st.booleans()), via=draw(st.sampled_from(["ctor", "Set_C"])), angle=draw(st.sampled_from([0, 0, 30, 77])),
                scale=draw(st.sampled_from([1, 100, 1000])))


def check_integer_stiffness(case, rec):
    dim, n = case["dim"], case["n"]
    L = np.array(case["L"], dtype=np.int64)
    Ci = (L @ L.T + case["k"] * np.eye(n, dtype=np.int64)) * int(case["scale"])
    dtype = case["dtype"] if (case["dtype"] != "int16" or np.abs(Ci).max() <= 30000) else "int32"  # the numbers must fit the type
    th = np.deg2rad(case["angle"])
    a1 = np.array([np.cos(th), np.sin(th), 0.0])
    a2 = np.array([-np.sin(th), np.cos(th), 0.0])
    if dim == 2:
        a1, a2 = a1[:2], a2[:2]
    voigt = bool(case["voigt"])
    sig = dict(dim=dim, n=n, dtype=dtype, notation="voigt" if voigt else "km", via=case["via"], rotated=case["angle"] != 0)
    rec.label(f"intC:n{n}_dim{dim}", "intC:" + dtype, "intC:" + ("voigt" if voigt else "km"), "intC:" + case["via"])

    def build(arr):
        if case["via"] == "ctor":
            return Anisotropic(dim, arr, voigt, a1.copy(), a2.copy())
        law = Anisotropic(dim, np.eye(n), False, a1.copy(), a2.copy())
        law.Set_C(arr, voigt)
        return law

    lawI = build(Ci.astype(dtype))
    lawF = build(Ci.astype(float))
    CI, CF = np.asarray(lawI.C, float), np.asarray(lawF.C, float)
    SI, SF = np.asarray(lawI.S, float), np.asarray(lawF.S, float)
    rec.close(CI - CF, amax(CF), TOL, "integer_input_same_C", f"Anisotropic(dim={dim}) from a {n}x{n} {dtype} matrix ({sig['notation']}, "
              f"{case['via']}): C differs from the law built from the same numbers as floats", **sig)
    rec.close(SI - SF, amax(SF), TOL, "integer_input_same_S", "compliance of the law built from an integer-typed matrix", **sig)
    if case["angle"] == 0:
        # closed form in the material axes: Kelvin-Mandel weights on the Voigt entries, then the 2D block
        Ckm = Ci.astype(float) * (voigt_factor(n) if voigt else 1.0)
        if dim == 2 and n == 6:
            Ckm = Ckm[np.ix_([0, 1, 5], [0, 1, 5])]
        rec.close(CI - Ckm, amax(Ckm), TOL, "integer_input_closed_form", f"C of the law vs the {'converted ' if voigt else ''}matrix that was given", **sig)
    off = Ci[: (2 if n == 3 else 3), (2 if n == 3 else 3):]
    rec.nontrivial(bool(np.abs(off).max() > 0))


SUBS.append(Sub("integer_stiffness", check_integer_stiffness, gen=integer_stiffness_cases, quick=300, thorough=3000, shards=2))


# ------------------------------------------------------------------------------------------
# (added by the lead, round 8) parameter FIELDS (one value per element) typed as integers, moduli written in Pa: same law as the same
# numbers as floats (the products inside the laws - E**2, E1 E2 E3 - leave the int64 range), and C S = I


def enum_integer_parameters(tier):
    for law in ("iso", "ti", "ortho"):
        for dim in (2, 3):
            for unit in (1, 1000, 1000000000):  # GPa written as whole numbers in GPa, MPa, Pa
                for dtype in ("int64", "int32"):
                    if dtype == "int32" and unit > 1000:
                        continue
                    yield dict(law=law, dim=dim, unit=unit, dtype=dtype)


def check_integer_parameters(case, rec):
    from EasyFEA.Models.Elastic import Isotropic, Orthotropic, TransverselyIsotropic

    law, dim, unit, dt = case["law"], case["dim"], int(case["unit"]), case["dtype"]
    sig = dict(law=law, dim=dim, unit=unit, dtype=dt)
    rec.label("intP:" + law, f"intP:unit{unit}", "intP:" + dt)
    E1 = np.array([210, 70, 130]) * unit
    E2 = np.array([180, 70, 10]) * unit
    E3 = np.array([60, 50, 12]) * unit
    G = np.array([80, 26, 5]) * unit

    def build(cast):
        c = lambda a: cast(a)  # noqa: E731
        if law == "iso":
            return Isotropic(dim, c(E1), 0.3, planeStress=False)
        if law == "ti":
            return TransverselyIsotropic(dim, c(E1), c(E2), c(G), 0.25, 0.3, axis_l=(1, 0, 0), axis_t=(0, 1, 0), planeStress=False)
        return Orthotropic(dim, c(E1), c(E2), c(E3), c(G), c(G), c(G), 0.1, 0.12, 0.15, planeStress=False)

    lawI = build(lambda a: a.astype(dt))
    lawF = build(lambda a: a.astype(float))
    CI, CF = np.asarray(lawI.C, float), np.asarray(lawF.C, float)
    SI, SF = np.asarray(lawI.S, float), np.asarray(lawF.S, float)
    rec.close(CI - CF, amax(CF), TOL, "integer_fields_same_C", f"{law} dim={dim}: moduli given as {dt} fields (unit {unit}): C differs from the law built "
              "from the same numbers as floats", **sig)
    rec.close(SI - SF, amax(SF), TOL, "integer_fields_same_S", "compliance", **sig)
    n = CI.shape[-1]
    rec.close(CI @ SI - np.eye(n), 1.0, 1e-10, "integer_fields_inverse", f"{law} dim={dim}: C S differs from the identity for moduli given as {dt} fields", **sig)
    rec.nontrivial(True)


SUBS.append(Sub("integer_parameters", check_integer_parameters, enum=enum_integer_parameters,
                doc="law class x dimension x unit of the moduli (GPa, MPa, Pa as whole numbers) x integer type of the per-element fields"))
