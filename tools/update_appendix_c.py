#!/venv/bin/python
"""Regenerates Appendix C of DESIGN.md (seeded changes) from seeded/*/meta.json, tools/seed_history.json; also writes
detection_history into every meta.json."""
import glob, io, json, os, subprocess, sys
HERE = os.path.dirname(os.path.dirname(os.path.abspath(__file__)))
H = json.load(open(os.path.join(HERE, "tools", "seed_history.json")))
ROUND_OF = {"A": 1, "B": 1, "C": 2, "D": 2, "E": 3, "F": 3, "G": 4, "H": 4, "I": 5, "J": 5, "K": 6, "L": 6, "M": 7, "N": 7, "O": 8, "P": 8, "Q": 9, "R": 9}
metas = {}
for mp in sorted(glob.glob(os.path.join(HERE, "seeded", "*", "meta.json"))):
    m = json.load(open(mp))
    sid = m["seed_id"]
    m["round"] = ROUND_OF.get(sid[-1], 9)
    m["detection_history"] = H.get(sid, "caught by the check of its property as it stood when the change was produced (quick tier, seed 1)")
    json.dump(m, open(mp, "w"), indent=1)
    metas[sid] = m


def valid(m):
    return m.get("demo_clean_exit") == 0 and m.get("demo_patched_exit") == 1 and m.get("suite_passes", True)


def caught(m):
    return any(c.get("detected") for c in m.get("checks", {}).values())


def own(m):
    return bool(m.get("checks", {}).get(m["property"], {}).get("detected"))


out = io.StringIO()
w = lambda s="": out.write(s + "\n")  # noqa: E731
w("## Appendix C — independently seeded changes (`seeded/<id>/`) and which checks catch them")
w()
w("For every property a fresh sub-agent was given only the text of the property and its own scratch git worktree of")
w("/repo (nothing from /verif) and asked for two independent changes that break the property, still import, still pass")
w("the repository suite, and need something specific to manifest. This was done several times: round 1 (`Cxx_A`, `Cxx_B`) and, each")
w("time every change of the previous round was caught, round 2 (`Cxx_C`, `Cxx_D`), round 3 (`Cxx_E`, `Cxx_F`), round 4 (`Cxx_G`,")
w("`Cxx_H`), round 5 (`Cxx_I`, `Cxx_J`), round 6 (`Cxx_K`, `Cxx_L`), round 7 (`Cxx_M`, `Cxx_N`), round 8 (`Cxx_O`, `Cxx_P`) and round 9 (`Cxx_Q`, `Cxx_R`), whose agents were also told what the earlier rounds")
w("had changed and asked for another site, another mechanism and preferably another clause of the property or another kind of")
w("trigger (rounds 4 to 9: explicitly not an absolute tolerance, a missing cache invalidation or an array shared with the caller, the")
w("three families that dominated rounds 2 and 3). Each change was then confirmed by")
w("`tools/eval_seed.py` in a scratch worktree: the demonstration exits 0 on the clean tree and 1 with the patch, every")
w("BASELINE `stable_pass` test still passes with the patch, and the registered quick command of the property (plus")
w("related properties where relevant) is run against the patched tree through `VERIF_REPO` (the same machinery; /repo")
w("itself is never modified, so concurrent runs are not disturbed). After a check was strengthened the change was run")
w("again with `tools/recheck_seed.py` (first results kept in `meta.json: checks_first`). `seeded/<id>/` holds `patch.diff`,")
w("`demo.py`, `notes.md` (the author's description) and `meta.json` (what it breaks, what it needs, what was run, results).")
w("Every change was confirmed at the /repo head of its round (`meta.json: repo_head`). At the end of round 9 all 360 were run again against")
w("the checks as they stand (`repo_head_recheck`); the `fix:` commits made since then touch lines some patches change: those patches were rebased")
w("with `tools/rebase_seed.py` (`git apply -3`, demonstration confirmed again, original kept as `patch_at_<head>.diff`) or, where the rebase")
w("conflicts, are marked `patch_applies_at_head: false` and keep the results obtained at their own head.")
w()
for rnd in sorted({m["round"] for m in metas.values()}):
    ms = [m for m in metas.values() if m["round"] == rnd]
    v = [m for m in ms if valid(m)]
    c = [m for m in v if caught(m)]
    o = [m for m in v if own(m)]
    first_missed = [m for m in v if m["seed_id"] in H and "missed" in H[m["seed_id"]]]
    other_only = [m for m in v if m["seed_id"] in H and "missed" not in H[m["seed_id"]] and ("not seen" in H[m["seed_id"]] or ", not by" in H[m["seed_id"]])]
    w(f"**Round {rnd}**: {len(ms)} changes produced, {len(v)} valid at HEAD, {len(c)} caught in the quick tier at `VERIF_SEED=1` "
      f"({len(o)} of them by the check of their own property, the others by the check of the property they actually break), "
      f"{len(first_missed)} were missed by every check run on them as the checks stood when the change was produced (and {len(other_only)} "
      f"more were seen only by the check of another property). What was changed in response:")
    w()
    for sid in sorted(H):
        if ROUND_OF.get(sid[-1], 9) == rnd:
            w(f"* **{sid}** {H[sid]}")
    w()
w("| seed | what it changes / needs | confirmed (demo 0->1, suite passes) | checks run (quick tier, seed 1) | first report |")
w("|---|---|---|---|---|")
for sid, m in sorted(metas.items(), key=lambda kv: (kv[1]["round"], kv[0])):
    det = [f"{p}:{'caught' if c.get('detected') else 'missed'}({c.get('wall_s')}s){'*' if c.get('rechecked') else ''}" for p, c in m.get("checks", {}).items()]
    first = ""
    for p, c in m.get("checks", {}).items():
        if c.get("detected") and c.get("report"):
            first = c["report"][0][:110].replace("|", "/")
            break
    ok = "yes" if valid(m) else f"no ({m.get('invalid_reason', 'demo/suite')})"
    w("| " + " | ".join((sid, (m.get("summary", "") + " — needs: " + m.get("needs_to_manifest", "")).replace("|", "/"), ok, "; ".join(det), first)) + " |")
w()
w("(`*` = result of the re-run after the check was strengthened.)")
w()
p = os.path.join(HERE, "DESIGN.md")
s = open(p).read()
i = s.index("## Appendix C — independently seeded changes")
j = s.find("\n## ", i + 10)
s = s[:i] + out.getvalue() + (s[j + 1:] if j >= 0 else "")
open(p, "w").write(s)
print("appendix C regenerated;", len(metas), "seeds")
