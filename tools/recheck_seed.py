#!/venv/bin/python
"""Runs the registered checks again on a seeded change already confirmed by eval_seed.py (after a check was strengthened).

usage: recheck_seed.py <seed_id> <property> [other properties ...] [--thorough]
The first results are kept in meta["checks_first"]; meta["checks"] receives the new ones."""
import json, os, subprocess, sys, time
VERIF = os.path.dirname(os.path.dirname(os.path.abspath(__file__)))
args = [a for a in sys.argv[1:] if not a.startswith("--")]
tier = "thorough" if "--thorough" in sys.argv else "quick"
sid, props = args[0], args[1:]
d = os.path.join(VERIF, "seeded", sid)
mp = os.path.join(d, "meta.json")
meta = json.load(open(mp))
wt = f"/tmp/recheck_{sid}"
subprocess.run(["git", "-C", "/repo", "worktree", "add", "-q", "--detach", wt, "HEAD"], check=True)
try:
    subprocess.run(["git", "-C", wt, "apply", os.path.join(d, "patch.diff")], check=True)
    meta.setdefault("checks_first", meta.get("checks", {}))
    new = dict(meta.get("checks", {}))
    for p in props:
        t0 = time.time()
        env = dict(os.environ, VERIF_REPO=wt, VERIF_SEED=os.environ.get("VERIF_SEED", "1"))
        r = subprocess.run(["/venv/bin/python", "check.py", p, "--tier", tier], cwd=VERIF, env=env, capture_output=True, text=True)
        out = r.stdout + r.stderr
        lines = [l for l in out.splitlines() if "VIOLATION" in l or l.strip().startswith(tuple("abcdefghijklmnopqrstuvwxyz")) and "[" in l and "]" in l and "cases=" not in l]
        new[p] = dict(exit=r.returncode, detected=r.returncode == 1, wall_s=round(time.time() - t0), report=[l.strip()[:300] for l in lines][:6],
                      rechecked=True)
        print(sid, p, "detected" if r.returncode == 1 else f"NOT detected (exit {r.returncode})")
    meta["checks"] = new
    meta["repo_head_recheck"] = subprocess.run(["git", "-C", "/repo", "rev-parse", "--short", "HEAD"], capture_output=True, text=True).stdout.strip()
    json.dump(meta, open(mp, "w"), indent=1)
finally:
    subprocess.run(["git", "-C", "/repo", "worktree", "remove", "--force", wt])
