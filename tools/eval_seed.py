#!/venv/bin/python
"""Confirms a seeded change and runs the checks against it, in a scratch worktree of /repo.

usage: eval_seed.py <seed_id> <patch.diff> <demo.py> <notes.md|-> <property> [other properties ...] [--thorough] [--no-tests]

Steps (all in /tmp/evalseed_<id>, a detached worktree of /repo HEAD, removed at the end):
  1. demo on the clean tree must exit 0;  2. the patch must apply;  3. demo with the patch must exit 1;
  4. the repository suite must still pass (every BASELINE stable_pass test);  5. the registered checks
  are run with VERIF_REPO pointing at the patched worktree (same machinery, /repo itself untouched).
Writes /verif/seeded/<seed_id>/{patch.diff, demo.py, notes.md, meta.json}.
"""
import json
import os
import shutil
import subprocess
import sys
import time
import xml.etree.ElementTree as ET

VERIF = os.path.dirname(os.path.dirname(os.path.abspath(__file__)))


def sh(cmd, cwd=None, env=None, timeout=3600):
    p = subprocess.run(cmd, shell=True, cwd=cwd, env=env, capture_output=True, text=True, timeout=timeout)
    return p.returncode, (p.stdout + p.stderr)


def main():
    args = [a for a in sys.argv[1:] if not a.startswith("--")]
    flags = [a for a in sys.argv[1:] if a.startswith("--")]
    sid, patch, demo, notes, props = args[0], args[1], args[2], args[3], args[4:]
    wt = f"/tmp/evalseed_{sid}"
    sh(f"git -C /repo worktree remove --force {wt}")
    rc, out = sh(f"git -C /repo worktree add -q --detach {wt} HEAD")
    assert rc == 0, out
    meta = dict(seed_id=sid, property=props[0], checked_properties=props, repo_head=sh("git -C /repo log --format=%h -1")[1].strip())
    try:
        env = dict(os.environ, PYTHONHASHSEED="0", JAX_PLATFORMS="cpu", MPLBACKEND="Agg")
        rc0, o0 = sh(f"/venv/bin/python {demo}", cwd=wt, env=env, timeout=1200)
        meta["demo_clean_exit"] = rc0
        rc, out = sh(f"git apply {patch}", cwd=wt)
        meta["patch_applies"] = rc == 0
        if rc != 0:
            meta["error"] = out[-500:]
            return meta
        rc1, o1 = sh(f"/venv/bin/python {demo}", cwd=wt, env=env, timeout=1200)
        meta["demo_patched_exit"] = rc1
        meta["demo_patched_tail"] = o1[-600:]
        if "--no-tests" not in flags:
            t0 = time.time()
            sh("/venv/bin/python -m pytest -q -p no:cacheprovider --timeout=900 --continue-on-collection-errors -n 8 "
               f"--junitxml=/tmp/evalseed_{sid}.xml tests", cwd=wt, env=env, timeout=3000)
            base = json.load(open("/root/.vp/BASELINE.json"))["stable_pass"]
            ok = set()
            for tc in ET.parse(f"/tmp/evalseed_{sid}.xml").iter("testcase"):
                if not any(c.tag in ("failure", "error", "skipped") for c in tc):
                    ok.add(tc.get("classname") + "::" + tc.get("name"))
            missing = [x for x in base if x not in ok]
            meta["suite_missing"] = missing[:10]
            meta["suite_passes"] = len(missing) == 0
            meta["suite_wall_s"] = round(time.time() - t0)
            os.remove(f"/tmp/evalseed_{sid}.xml")
        tier = "thorough" if "--thorough" in flags else "quick"
        meta["tier"] = tier
        meta["checks"] = {}
        for p in props:
            t0 = time.time()
            env2 = dict(env, VERIF_REPO=wt, VERIF_SEED="1")
            rc, out = sh(f"/venv/bin/python check.py {p} --tier {tier}", cwd=VERIF, env=env2, timeout=3000)
            lines = [l for l in out.splitlines() if "VIOLATION" in l or l.strip().startswith(tuple("abcdefghijklmnopqrstuvwxyz")) and "[" in l and "]" in l and "cases=" not in l]
            meta["checks"][p] = dict(exit=rc, detected=rc == 1, wall_s=round(time.time() - t0), report=[l.strip()[:300] for l in lines][:6])
        meta["what_ran"] = [f"demo clean/patched in {wt}", "pytest -n 8 tests vs BASELINE stable_pass" if "--no-tests" not in flags else "tests skipped",
                            f"VERIF_REPO={wt} check.py <prop> --tier {tier} for {props}"]
        return meta
    finally:
        out_dir = os.path.join(VERIF, "seeded", sid)
        os.makedirs(out_dir, exist_ok=True)
        shutil.copy(patch, os.path.join(out_dir, "patch.diff"))
        shutil.copy(demo, os.path.join(out_dir, "demo.py"))
        if notes != "-" and os.path.exists(notes):
            shutil.copy(notes, os.path.join(out_dir, "notes.md"))
        old = {}
        mp = os.path.join(out_dir, "meta.json")
        if os.path.exists(mp):
            old = json.load(open(mp))
        old.update(meta)
        json.dump(old, open(mp, "w"), indent=1)
        sh(f"git -C /repo worktree remove --force {wt}")
        # replays written by the mutant runs are not findings of the real tree
        print(json.dumps({k: v for k, v in meta.items() if k not in ("demo_patched_tail",)}, indent=1))


if __name__ == "__main__":
    main()
