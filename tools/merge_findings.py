#!/venv/bin/python
"""Moves staged entries findings/Cxx.json into KNOWN_FINDINGS.json (run by the lead after triage).
usage: merge_findings.py Cxx id=commit id=commit ...   (commit only for entries whose status is 'fixed')"""
import json, os, sys
HERE = os.path.dirname(os.path.dirname(os.path.abspath(__file__)))
pid = sys.argv[1]
commits = dict(a.split("=") for a in sys.argv[2:])
sp = os.path.join(HERE, "findings", pid + ".json")
kp = os.path.join(HERE, "KNOWN_FINDINGS.json")
st = json.load(open(sp)); kn = json.load(open(kp))
ids = {e["id"] for e in kn["findings"]}
for e in st["findings"]:
    if e["id"] in ids:
        continue
    if e["status"] == "fixed":
        e["commit"] = commits.get(e["id"], e.get("commit", "?"))
        assert e["commit"] != "?", e["id"]
        kn["log"].append(f"fixed: property={e['property']} {e['commit']} {e['what'][:160]}")
    else:
        kn["log"].append(f"known: property={e['property']} {e['id']} {e['what'][:160]}")
    kn["findings"].append(e)
json.dump(kn, open(kp, "w"), indent=1)
os.remove(sp)
print("merged", pid)
