#!/venv/bin/python
import json, os, glob
HERE = os.path.dirname(os.path.dirname(os.path.abspath(__file__)))
S = json.load(open(os.path.join(HERE, "tools", "seed_summaries.json")))
for mp in sorted(glob.glob(os.path.join(HERE, "seeded", "*", "meta.json"))):
    m = json.load(open(mp))
    sid = m["seed_id"]
    if sid in S:
        m["summary"] = S[sid][0]
        m["needs_to_manifest"] = S[sid][1]
    m["breaks_property"] = m.get("property")
    if m.get("demo_patched_exit") == 0:
        m["invalid_reason"] = "the demonstration passes with the patch on the current HEAD"
    json.dump(m, open(mp, "w"), indent=1)
print("ok")
