#!/bin/bash
# runs the repository's pinned suite (guard off) and compares with BASELINE.json stable_pass
cd /repo && /venv/bin/python -m pytest -ra -q -p no:cacheprovider --timeout=900 --continue-on-collection-errors -n ${JOBS:-8} --junitxml=/tmp/verif_baseline.junit.xml > /tmp/verif_baseline.log 2>&1
/venv/bin/python - <<'PY'
import json, xml.etree.ElementTree as ET
b=json.load(open('/root/.vp/BASELINE.json'))
t=ET.parse('/tmp/verif_baseline.junit.xml')
ok=set()
for tc in t.iter('testcase'):
    if not any(c.tag in ('failure','error','skipped') for c in tc):
        ok.add(tc.get('classname')+'::'+tc.get('name'))
missing=[x for x in b['stable_pass'] if x not in ok]
print('stable_pass', len(b['stable_pass']), 'passing now', len(ok), 'missing', len(missing))
for m in missing[:20]: print('  MISSING', m)
raise SystemExit(1 if missing else 0)
PY
