#!/venv/bin/python
"""Rebases the patch of a seeded change on /repo HEAD when it no longer applies textually (a later fix: commit touched
neighbouring lines): `git apply -3` in a scratch worktree, demonstration re-confirmed (0 on the clean tree, 1 with the patch),
original kept as patch_at_<head>.diff.  usage: rebase_seed.py <seed_id>"""
import json, os, shutil, subprocess, sys
VERIF = os.path.dirname(os.path.dirname(os.path.abspath(__file__)))
sid = sys.argv[1]
d = os.path.join(VERIF, "seeded", sid)
meta = json.load(open(os.path.join(d, "meta.json")))
wt = f"/tmp/rebase_{sid}"
subprocess.run(["git", "-C", "/repo", "worktree", "add", "-q", "--detach", wt, "HEAD"], check=True)
env = dict(os.environ, PYTHONHASHSEED="0", JAX_PLATFORMS="cpu", MPLBACKEND="Agg")
try:
    demo = os.path.join(d, "demo.py")
    clean = subprocess.run(["/venv/bin/python", demo], cwd=wt, env=env, capture_output=True, text=True, timeout=1200).returncode
    r = subprocess.run(["git", "-C", wt, "apply", "-3", os.path.join(d, "patch.diff")], capture_output=True, text=True)
    conflict = subprocess.run(["git", "-C", wt, "diff", "--name-only", "--diff-filter=U"], capture_output=True, text=True).stdout.strip()
    if r.returncode != 0 or conflict:
        meta["patch_applies_at_head"] = False
        meta["patch_note"] = "patch.diff no longer applies at HEAD (git apply -3 conflicts with a later fix: commit); confirmed at repo_head only"
        print(sid, "CONFLICT")
    else:
        diff = subprocess.run(["git", "-C", wt, "diff", "HEAD"], capture_output=True, text=True).stdout
        patched = subprocess.run(["/venv/bin/python", demo], cwd=wt, env=env, capture_output=True, text=True, timeout=1200).returncode
        head = subprocess.run(["git", "-C", "/repo", "rev-parse", "--short", "HEAD"], capture_output=True, text=True).stdout.strip()
        if clean == 0 and patched == 1:
            shutil.copy(os.path.join(d, "patch.diff"), os.path.join(d, f"patch_at_{meta.get('repo_head', 'orig')}.diff"))
            open(os.path.join(d, "patch.diff"), "w").write(diff)
            meta["patch_note"] = f"patch.diff rebased on {head} with git apply -3 (a later fix: commit touched the same lines); demo 0 -> 1 confirmed again"
            meta["patch_applies_at_head"] = True
            print(sid, "REBASED")
        else:
            meta["patch_applies_at_head"] = True
            meta["patch_note"] = f"rebased on {head}: demo clean {clean}, patched {patched} - the change is neutralised or altered by a later fix: commit"
            print(sid, "REBASED-BUT-DEMO", clean, patched)
    json.dump(meta, open(os.path.join(d, "meta.json"), "w"), indent=1)
finally:
    subprocess.run(["git", "-C", "/repo", "worktree", "remove", "--force", wt])
