#!/venv/bin/python
"""Regenerates MANIFEST.json from the check modules present in checks/ (run from /verif)."""
import ast
import json
import os
import sys

HERE = os.path.dirname(os.path.dirname(os.path.abspath(__file__)))
ALL = [f"C{i:02d}" for i in range(1, 21)]


def module_meta(path):
    """reads the module-level string constants without importing EasyFEA"""
    tree = ast.parse(open(path).read())
    meta = {}
    for node in tree.body:
        if isinstance(node, ast.Assign) and len(node.targets) == 1 and isinstance(node.targets[0], ast.Name):
            try:
                meta[node.targets[0].id] = ast.literal_eval(node.value)
            except Exception:
                pass
    return meta


def main():
    READY = set(json.load(open(os.path.join(HERE, "tools", "ready.json"))))
    checks = []
    claimed = set()
    for fn in sorted(os.listdir(os.path.join(HERE, "checks"))):
        if not (fn.startswith("c") and fn.endswith(".py") and fn[1:3].isdigit()):
            continue
        meta = module_meta(os.path.join(HERE, "checks", fn))
        pid = meta["PROPERTY"]
        if pid not in READY:  # tools/ready.json: reviewed by the lead
            continue
        claimed.add(pid)
        checks.append(
            dict(
                property_id=pid,
                quick_cmd=f"/venv/bin/python check.py {pid} --tier quick",
                thorough_cmd=f"/venv/bin/python check.py {pid} --tier thorough",
                evidence_file=f"/verif/evidence/{pid}.json",
                replay_cmd_template="/venv/bin/python check.py --replay {path}",
                engine="hypothesis-runner",
                level_claimed=dict(
                    category="exploration",
                    text=meta.get("LEVEL_TEXT", "generated-input search against an explicit oracle"),
                    design_ref=meta.get("DESIGN_REF", f"DESIGN.md section 4 ({pid})"),
                ),
                level_note=meta.get("LEVEL_NOTE", "; ".join(meta.get("ASSUMPTIONS", []))),
                technique=meta.get("TECHNIQUE", "property-based testing (Hypothesis) against an independent oracle"),
            )
        )
    na_reasons = {}
    p = os.path.join(HERE, "tools", "not_applicable.json")
    if os.path.exists(p):
        na_reasons = json.load(open(p))
    not_applicable = [
        dict(property_id=pid, reason=na_reasons.get(pid, "check not built yet in this round; not claimed"))
        for pid in ALL
        if pid not in claimed
    ]
    man = dict(
        version=1,
        setup_cmd="/venv/bin/python -c 'import hypothesis' 2>/dev/null || /venv/bin/pip install --no-index --find-links /opt/veriftools/wheels hypothesis",
        hooks=dict(
            guard="EASYFEA_VERIF",
            enable="none needed: checks import the working tree of /repo directly (editable install + sys.path), no instrumentation",
            baseline_off_cmd="cd /repo && /venv/bin/python -m pytest -ra -q -p no:cacheprovider --timeout=900 --continue-on-collection-errors",
            source_commits=[],
            add_only=True,
        ),
        engines=[
            dict(
                name="hypothesis-runner",
                path="/verif/check.py",
                serves_properties=sorted(claimed),
                kind_free_text="Hypothesis 6.168 strategies (JSON-able cases, operation lists for histories) + finite-domain "
                "enumeration, sharded over processes; independent oracles in vlib/oracles.py; shrunk failures "
                "written as JSON replay files re-run without Hypothesis",
            )
        ],
        checks=checks,
        notes="KNOWN_FINDINGS.json lists recorded/fixed genuine defects; replays/regress/ holds shrunk failures replayed on every run.",
        not_applicable=not_applicable,
    )
    with open(os.path.join(HERE, "MANIFEST.json"), "w") as f:
        json.dump(man, f, indent=1)
    print("claimed:", sorted(claimed))


if __name__ == "__main__":
    main()
