#!/venv/bin/python
"""Prints the markdown table of KNOWN_FINDINGS.json (for DESIGN.md section 6)."""
import json, os
HERE = os.path.dirname(os.path.dirname(os.path.abspath(__file__)))
d = json.load(open(os.path.join(HERE, "KNOWN_FINDINGS.json")))
print("| id | property | status | commit | sub-check / oracle | what failed | replay |")
print("|---|---|---|---|---|---|---|")
for e in d["findings"]:
    what = e["what"].replace("|", "/").replace("\n", " ")
    print(f"| {e['id']} | {e['property']} | {e['status']} | {e.get('commit','-') if e['status']=='fixed' else '-'} | "
          f"{e.get('sub') or '*'} / {e.get('oracle') or '*'} | {what} | {os.path.basename(e.get('replay') or '-')} |")
