#!/venv/bin/python
"""Prints the markdown table of seeded changes (seeded/*/meta.json) for DESIGN.md Appendix C."""
import json, os, glob
HERE = os.path.dirname(os.path.dirname(os.path.abspath(__file__)))
rows = []
for mp in sorted(glob.glob(os.path.join(HERE, "seeded", "*", "meta.json"))):
    m = json.load(open(mp))
    det = [f"{p}:{'caught' if c.get('detected') else 'missed'}({c.get('wall_s')}s)" for p, c in m.get("checks", {}).items()]
    first = ""
    for p, c in m.get("checks", {}).items():
        if c.get("detected") and c.get("report"):
            first = c["report"][0][:110].replace("|", "/")
            break
    valid = m.get("demo_clean_exit") == 0 and m.get("demo_patched_exit") == 1 and m.get("suite_passes", True)
    rows.append((m["seed_id"], (m.get("summary", "") + " — needs: " + m.get("needs_to_manifest", "")).replace("|", "/"), "yes" if valid else f"no ({m.get('invalid_reason', 'demo/suite')})", "; ".join(det), first))
print("| seed | what it changes / needs | confirmed (demo 0->1, suite passes) | checks run (quick tier, seed 1) | first report |")
print("|---|---|---|---|---|")
for r in rows:
    print("| " + " | ".join(r) + " |")
