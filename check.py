#!/venv/bin/python
"""check.py <Cxx> [--tier quick|thorough] [--sub name]   |   check.py --replay <file>

exit 0: property held on everything explored (KNOWN-FINDING lines possible)
exit 1: `VIOLATION property=<id> replay=<path>` printed
exit 2: harness error / inconclusive (never a VIOLATION)
"""
import argparse
import os
import sys

HERE = os.path.dirname(os.path.abspath(__file__))


def main():
    ap = argparse.ArgumentParser()
    ap.add_argument("property", nargs="?")
    ap.add_argument("--tier", default=os.environ.get("VERIF_TIER", "quick"), choices=["quick", "thorough"])
    ap.add_argument("--sub", default=None)
    ap.add_argument("--replay", default=None)
    a = ap.parse_args()

    os.environ.setdefault("OMP_NUM_THREADS", "1")
    os.environ.setdefault("OPENBLAS_NUM_THREADS", "1")
    os.environ.setdefault("MKL_NUM_THREADS", "1")
    os.environ.setdefault("JAX_PLATFORMS", "cpu")
    os.environ.setdefault("MPLBACKEND", "Agg")
    # deterministic hashing for every process of the run
    if os.environ.get("PYTHONHASHSEED") != "0":
        os.environ["PYTHONHASHSEED"] = "0"
        os.execv(sys.executable, [sys.executable] + sys.argv)
    os.chdir(HERE)
    sys.path.insert(0, HERE)
    from vlib import runner

    if a.replay:
        path = a.replay if os.path.isabs(a.replay) else os.path.join(HERE, a.replay)
        import json

        pid = json.load(open(path))["property"]
        status, msg = runner.replay_file(path)
        print(f"replay {a.replay}: {status}: {msg}")
        if status == "violation":
            print(f"VIOLATION property={pid} replay={a.replay}")
            sys.exit(1)
        sys.exit(0 if status == "pass" else 2)
    if not a.property:
        ap.error("property id required")
    os.environ["VERIF_TIER"] = a.tier  # strategies that size themselves by tier read it (workers inherit it)
    sys.exit(runner.run_property(a.property.upper(), a.tier, a.sub))


if __name__ == "__main__":
    main()
