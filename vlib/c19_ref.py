"""C19 helpers: behaviour specs (Hypothesis), builders, strain paths and the *reference* constitutive
formulas the oracles use (written from the model definitions, not through EasyFEA.Models.InElastic).

A behaviour spec is a JSON-able dict:
  mode     "3D" | "PE" (plane strain) | "PS" (plane stress)
  elastic  {"kind": "iso"|"hetero"|"tiso"|"ortho", "E": float, "v": float, "ax": int}
  ey       yield strain sy/E (sy = E*ey);   yield: None | {"kind": "vm"|"hill"|"dp", ...}
  hard     None | {"kind": "linear","H"} | {"kind":"voce","Q","b"} | {"kind":"swift","K","n","e0"}
  kin      [[C, gamma], ...]            (Armstrong-Frederick components, 0-2)
  rate     None | {"kind": "norton"|"perzyna", "A"|"eta", "n", "s0"}
  branches [[g, tau], ...]              (Maxwell, 0-2, sum g < 1)
  solver   "auto" | "newton";  dt float
All stresses are multiples of E so a spec is unit-free up to the factor E.
"""

from __future__ import annotations

import numpy as np
from hypothesis import strategies as st

from EasyFEA import Models
from EasyFEA.Models.Elastic._laws import Isotropic, Orthotropic, TransverselyIsotropic

IE = Models.InElastic

IDX_2D = [0, 1, 5]
ZZ = 2
AXES = [((1, 0, 0), (0, 1, 0)), ((0, 0, 1), (1, 0, 0)), ((0, 1, 0), (0, 0, 1)),
        ((0.8, 0.6, 0.0), (-0.6, 0.8, 0.0)), ((0.6, 0.0, 0.8), (0.0, 1.0, 0.0))]


def pick(draw, values):
    return draw(st.sampled_from(list(values)))


# ------------------------------------------------------------------------------------------
# strategies


@st.composite
def elastic_specs(draw, hetero_ok=True):
    kinds = ["iso", "tiso", "ortho"] + (["hetero"] if hetero_ok else []) + ["iso"]
    kind = pick(draw, kinds)
    E = pick(draw, [2.0e5, 7.0e4, 210.0, 2.1e11, 2.0e5])
    v = draw(st.integers(0, 9)) / 20.0
    return dict(kind=kind, E=E, v=v, ax=draw(st.integers(0, len(AXES) - 1)))


@st.composite
def behaviour_specs(draw, modes=("3D", "PE", "PS"), need_state=True, reducible=False, surface=None,
                    rates=True, branches_ok=True, hetero_ok=True):
    """reducible=True: only behaviours for which the spectral return applies (quadratic surface,
    homogeneous C, no kinematic hardening, no Maxwell branch), so that solver 'auto' != 'newton'."""
    mode = pick(draw, modes)
    el = draw(elastic_specs(hetero_ok=hetero_ok and not reducible))
    ey = pick(draw, [5e-4, 1e-3, 2e-3, 5e-3])
    if reducible:
        ykind = pick(draw, ["vm", "vm", "hill"])
    elif surface is not None:
        ykind = pick(draw, surface)
    else:
        ykind = pick(draw, ["vm", "vm", "vm", "hill", "hill", "dp", "dp", None])
    y = None
    if ykind == "vm":
        y = dict(kind="vm")
    elif ykind == "hill":
        y = dict(kind="hill", F=draw(st.integers(3, 8)) / 10, G=draw(st.integers(3, 8)) / 10,
                 H=draw(st.integers(3, 8)) / 10, L=draw(st.integers(10, 20)) / 10,
                 M=draw(st.integers(10, 20)) / 10, N=draw(st.integers(10, 20)) / 10)
    elif ykind == "dp":
        y = dict(kind="dp", eta=pick(draw, [0.05, 0.1, 0.2, 0.3]))
    hard, kin, rate, br = None, [], None, []
    if y is not None:
        hk = pick(draw, [None, "linear", "linear", "voce", "swift"])
        if hk == "linear":
            hard = dict(kind="linear", H=pick(draw, [0.0, 0.01, 0.1, 0.5]))          # x E
        elif hk == "voce":
            hard = dict(kind="voce", Q=pick(draw, [0.2, 0.6, 1.5]), b=pick(draw, [10.0, 100.0, 1000.0]))  # Q x sy
        elif hk == "swift":
            hard = dict(kind="swift", K=pick(draw, [1.0, 3.0]), n=pick(draw, [0.1, 0.3, 0.6]),
                        e0=pick(draw, [1e-4, 1e-3, 1e-2]))                           # K x sy
        if not reducible:
            nk = pick(draw, [0, 0, 1, 1, 2])
            kin = [[pick(draw, [0.01, 0.05, 0.2]), pick(draw, [0.0, 50.0, 300.0, 1000.0])] for _ in range(nk)]
        if rates and pick(draw, [0, 0, 0, 1, 1]):
            rate = dict(kind=pick(draw, ["norton", "perzyna"]), a=pick(draw, [1e-4, 1e-2, 1.0, 100.0]),
                        n=pick(draw, [1.0, 0.5, 2.0, 4.0, 8.0, 1.0]), s0=pick(draw, [1.0, 0.3]))  # s0 x sy
    if branches_ok and not reducible:
        nb = pick(draw, [0, 0, 0, 1, 2]) if (y is not None or not need_state) else pick(draw, [1, 2])
        gs = [pick(draw, [0.1, 0.2, 0.3, 0.4]) for _ in range(nb)]
        br = [[g, pick(draw, [0.01, 0.1, 1.0, 10.0])] for g in gs]
    elif y is None and need_state:
        y = dict(kind="vm")
    timed = rate is not None or bool(br)
    dt = pick(draw, [1e-3, 0.1, 1.0, 10.0]) if timed else pick(draw, [0.0, 0.0, 1.0])
    solver = pick(draw, ["auto", "auto", "newton"])
    return dict(mode=mode, elastic=el, ey=ey, **{"yield": y}, hard=hard, kin=kin, rate=rate, branches=br,
                solver=solver, dt=dt)


SEG_OPS = ["load", "load", "turn", "turn", "reverse", "reverse", "unload", "unload", "hold"]
AMP = [0.3, 0.7, 1.2, 2.0, 4.0, 8.0]       # x yield strain
UNL = [0.0, 0.5, 0.9]
DIRS = ["random", "random", "random", "uniaxial", "shear", "deviatoric", "compressive"]


@st.composite
def path_specs(draw, max_segs=6, max_n=8, max_steps=30):
    nseg = draw(st.integers(2, max_segs))
    segs = [dict(op="load", a=draw(st.integers(2, 5)), n=draw(st.integers(1, max_n)))]
    tot = segs[0]["n"]
    for _ in range(nseg - 1):
        n = draw(st.integers(1, max_n))
        if tot + n > max_steps:
            break
        tot += n
        segs.append(dict(op=pick(draw, SEG_OPS), a=draw(st.integers(0, 5)), n=n))
    return dict(segs=segs, k=draw(st.integers(0, 9999)), dirs=pick(draw, DIRS),
                Ne=draw(st.integers(1, 3)), nPg=draw(st.integers(1, 4)))


# ------------------------------------------------------------------------------------------
# builders


def stresses(spec):
    """(E, sy) of a spec."""
    E = float(spec["elastic"]["E"])
    return E, E * float(spec["ey"])


def build_elastic(el, Ne):
    E, v = float(el["E"]), float(el["v"])
    kind = el["kind"]
    a1, a2 = AXES[int(el.get("ax", 0))]
    if kind == "iso":
        return Isotropic(3, E=E, v=v)
    if kind == "hetero":
        return Isotropic(3, E=E * (1.0 + 0.5 * np.arange(Ne) / max(Ne, 1)), v=v)
    if kind == "tiso":
        vt = min(v, 0.35)
        return TransverselyIsotropic(3, El=E, Et=E / 2, Gl=E / 3, vl=min(v, 0.3), vt=vt, axis_l=a1, axis_t=a2)
    if kind == "ortho":
        s = min(v, 0.3) / 0.3
        return Orthotropic(3, E1=E, E2=E / 2, E3=E / 3, G23=E / 6, G13=E / 5, G12=E / 4,
                           v23=0.1 * s, v13=0.2 * s, v12=0.3 * s, axis_1=a1, axis_2=a2)
    raise ValueError(kind)


def build_behaviour(spec, Ne=1, solver=None):
    """EasyFEA Behavior for a spec (Ne only matters for heterogeneous elasticity)."""
    E, sy = stresses(spec)
    elastic = build_elastic(spec["elastic"], Ne)
    y, h, r = spec["yield"], spec["hard"], spec["rate"]
    ys = hd = rt = None
    if y is not None:
        if y["kind"] == "vm":
            ys = IE.Yield.VonMises(sy)
        elif y["kind"] == "hill":
            ys = IE.Yield.Hill(sy, F=y["F"], G=y["G"], H=y["H"], L=y["L"], M=y["M"], N=y["N"])
        else:
            ys = IE.Yield.DruckerPrager(sy, y["eta"])
    if h is not None:
        if h["kind"] == "linear":
            hd = IE.IsotropicHardening.Linear(h["H"] * E)
        elif h["kind"] == "voce":
            hd = IE.IsotropicHardening.Voce(h["Q"] * sy, h["b"])
        else:
            hd = IE.IsotropicHardening.Swift(h["K"] * sy, h["n"], h["e0"])
    kin = [IE.KinematicHardening.ArmstrongFrederick(c * E, g) for c, g in spec["kin"]] or None
    if r is not None:
        if r["kind"] == "norton":
            rt = IE.ViscoPlastic.Norton(r["a"], r["n"], r["s0"] * sy)
        else:
            rt = IE.ViscoPlastic.Perzyna(1.0 / r["a"], r["n"], r["s0"] * sy)
    br = [IE.ViscoElastic.Maxwell(g, tau) for g, tau in spec["branches"]]
    dim = 3 if spec["mode"] == "3D" else 2
    return IE.Behavior(dim, elastic, yieldSurface=ys, hardening=hd, kinematic=kin, rate=rt, branches=br,
                       planeStress=spec["mode"] == "PS", solver=solver or spec["solver"])


def class_label(spec):
    y = spec["yield"]["kind"] if spec["yield"] else "noyield"
    h = spec["hard"]["kind"] if spec["hard"] else "perfect"
    r = spec["rate"]["kind"] if spec["rate"] else "rateindep"
    return [f"mode:{spec['mode']}", f"yield:{y}", f"hard:{h}", f"kin:{len(spec['kin'])}", f"rate:{r}",
            f"branches:{len(spec['branches'])}", f"elastic:{spec['elastic']['kind']}", f"solver:{spec['solver']}"]


def local_solver(spec, solver=None):
    """which local solver Behavior dispatches to (documented rule: quadratic surface, homogeneous C,
    no kinematic hardening, no branch, solver != 'newton' -> spectral return)."""
    if spec["yield"] is None:
        return "viscoelastic" if spec["branches"] else "elastic"
    if ((solver or spec["solver"]) != "newton" and spec["yield"]["kind"] in ("vm", "hill")
            and spec["elastic"]["kind"] != "hetero" and not spec["kin"] and not spec["branches"]):
        return "spectral"
    return "newton"


def sig_of(spec, solver=None):
    """signature (class) of a behaviour for known-finding matching."""
    r = spec["rate"]
    return dict(mode=spec["mode"], surface=spec["yield"]["kind"] if spec["yield"] else "none",
                hard=spec["hard"]["kind"] if spec["hard"] else "none", nkin=len(spec["kin"]),
                rate=r["kind"] if r else "none", rate_n="none" if not r else "gt1" if r["n"] > 1 else "le1",
                nbranch=len(spec["branches"]), local=local_solver(spec, solver))


# ------------------------------------------------------------------------------------------
# strain paths


def ncomp_of(mode):
    return 6 if mode == "3D" else 3


def _directions(kind, rng, shape, ncomp):
    d = rng.normal(size=shape + (ncomp,))
    if kind == "uniaxial":
        d = np.zeros(shape + (ncomp,))
        d[..., 0] = 1.0
        d[..., 1] = rng.uniform(-0.5, 0.1, size=shape)
    elif kind == "shear":
        d[..., : (3 if ncomp == 6 else 2)] *= 0.05
    elif kind == "deviatoric":
        nn = 3 if ncomp == 6 else 2
        d[..., :nn] -= d[..., :nn].mean(axis=-1, keepdims=True)
    elif kind == "compressive":
        nn = 3 if ncomp == 6 else 2
        d[..., :nn] = -np.abs(d[..., :nn])
    nrm = np.linalg.norm(d, axis=-1, keepdims=True)
    return d / np.where(nrm > 0, nrm, 1.0)


def make_path(path, mode, ey):
    """(nsteps, Ne, nPg, ncomp) total strains (Kelvin-Mandel, model dimension), starting after 0."""
    Ne, nPg = int(path["Ne"]), int(path["nPg"])
    nc = ncomp_of(mode)
    rng = np.random.default_rng(int(path["k"]))
    mult = rng.uniform(0.4, 1.6, size=(Ne, nPg, 1))
    cur = np.zeros((Ne, nPg, nc))
    d = _directions(path["dirs"], rng, (Ne, nPg), nc)
    out = []
    for seg in path["segs"]:
        op, a, n = seg["op"], int(seg["a"]), int(seg["n"])
        new = _directions(path["dirs"], rng, (Ne, nPg), nc)   # always drawn: keeps the stream aligned
        if op == "turn":
            d = new
        elif op == "reverse":
            d = -d
        if op in ("load", "turn", "reverse"):
            target = AMP[a] * ey * mult * d
        elif op == "unload":
            target = UNL[a % 3] * cur
        else:
            target = cur.copy()
        for i in range(1, n + 1):
            out.append(cur + (target - cur) * (i / n))
        cur = target
    return np.array(out)


# ------------------------------------------------------------------------------------------
# reference constitutive formulas (oracle side)


class Ref:
    """The model of a spec, from its definition: sigma = C:(eps-eps_p) - sum g_i C:eps_v_i,
    X = sum 2/3 C_i alpha_i, R(p), f = phi(sigma - X) - sy - R."""

    def __init__(self, spec, C, slots):
        self.spec = spec
        self.C = np.asarray(C, float)       # (6,6) or (Ne,6,6)
        self.E, self.sy = stresses(spec)
        self.slots = {str(k): v for k, v in slots.items()}
        self.n = max([s.stop for s in self.slots.values()], default=0)

    def Cdot(self, v):
        if self.C.ndim == 2:
            return v @ self.C.T
        return np.einsum("eij,epj->epi", self.C, v)

    def get(self, z, name):
        return z[..., self.slots[name]]

    def eps_p(self, z):
        return self.get(z, "eps_p") if "eps_p" in self.slots else 0.0 * z[..., :0].sum(-1, keepdims=True)

    def p(self, z):
        return self.get(z, "p")[..., 0]

    def eel(self, eps6, z):
        return eps6 - self.get(z, "eps_p") if "eps_p" in self.slots else eps6

    def sigma6(self, eps6, z):
        eel = self.eel(eps6, z)
        sig = self.Cdot(eel)
        for i, (g, _tau) in enumerate(self.spec["branches"]):
            sig = sig - g * self.Cdot(self.get(z, f"eps_v{i}"))
        return sig

    def X(self, z):
        X = 0.0
        for i, (c, _g) in enumerate(self.spec["kin"]):
            X = X + (2.0 / 3.0) * c * self.E * self.get(z, f"alpha{i}")
        return X

    def R(self, p):
        h = self.spec["hard"]
        if h is None:
            return 0.0 * p
        if h["kind"] == "linear":
            return h["H"] * self.E * p
        if h["kind"] == "voce":
            return h["Q"] * self.sy * (1.0 - np.exp(-h["b"] * p))
        return h["K"] * self.sy * ((h["e0"] + p) ** h["n"] - h["e0"] ** h["n"])

    def phi(self, xi):
        y = self.spec["yield"]
        sxx, syy, szz = xi[..., 0], xi[..., 1], xi[..., 2]
        # Kelvin-Mandel shear components carry sqrt(2)
        syz, sxz, sxy = xi[..., 3] / np.sqrt(2), xi[..., 4] / np.sqrt(2), xi[..., 5] / np.sqrt(2)
        if y["kind"] == "hill":
            q = (y["F"] * (syy - szz) ** 2 + y["G"] * (szz - sxx) ** 2 + y["H"] * (sxx - syy) ** 2
                 + 2 * y["L"] * syz**2 + 2 * y["M"] * sxz**2 + 2 * y["N"] * sxy**2)
            return np.sqrt(np.maximum(q, 0.0))
        j2 = ((sxx - syy) ** 2 + (syy - szz) ** 2 + (szz - sxx) ** 2) / 6.0 + syz**2 + sxz**2 + sxy**2
        svm = np.sqrt(3.0 * j2)
        if y["kind"] == "dp":
            return svm + y["eta"] * (sxx + syy + szz)
        return svm

    def f(self, sig6, z):
        return self.phi(sig6 - self.X(z)) - self.sy - self.R(self.p(z))

    def dissipation(self, eps6, z0, z1):
        """(plastic, viscous) intrinsic dissipation increments with end-of-step forces."""
        sig = self.sigma6(eps6, z1)
        Dp = 0.0 * sig[..., 0]
        Dv = 0.0 * sig[..., 0]
        if "eps_p" in self.slots:
            Dp = Dp + np.sum(sig * (self.get(z1, "eps_p") - self.get(z0, "eps_p")), axis=-1)
            Dp = Dp - self.R(self.p(z1)) * (self.p(z1) - self.p(z0))
            for i, (c, _g) in enumerate(self.spec["kin"]):
                a1, a0 = self.get(z1, f"alpha{i}"), self.get(z0, f"alpha{i}")
                Dp = Dp - np.sum((2.0 / 3.0) * c * self.E * a1 * (a1 - a0), axis=-1)
        eel = self.eel(eps6, z1)
        for i, (g, _tau) in enumerate(self.spec["branches"]):
            v1, v0 = self.get(z1, f"eps_v{i}"), self.get(z0, f"eps_v{i}")
            Dv = Dv + g * np.sum(self.Cdot(eel - v1) * (v1 - v0), axis=-1)
        return Dp, Dv


def embed6(eps2):
    e6 = np.zeros(eps2.shape[:-1] + (6,))
    e6[..., IDX_2D] = eps2
    return e6


def condense(C6):
    """plane-stress condensation of a (…,6,6) Kelvin stiffness to the in-plane (…,3,3) one."""
    Cin = C6[..., IDX_2D, :][..., :, IDX_2D]
    ciz = C6[..., IDX_2D, ZZ]
    czi = C6[..., ZZ, :][..., IDX_2D]
    czz = C6[..., ZZ, ZZ]
    return Cin - ciz[..., :, None] * czi[..., None, :] / czz[..., None, None]
