"""Model specs (JSON-able) -> EasyFEA model objects."""

from __future__ import annotations

import numpy as np
from hypothesis import strategies as st

from EasyFEA import Models

from .runner import Inconclusive


def rot2(theta):
    c, s = np.cos(theta), np.sin(theta)
    return np.array([[c, -s, 0.0], [s, c, 0.0], [0, 0, 1.0]])


def rot3(angles):
    a, b, c = angles
    Rx = np.array([[1, 0, 0], [0, np.cos(a), -np.sin(a)], [0, np.sin(a), np.cos(a)]])
    Ry = np.array([[np.cos(b), 0, np.sin(b)], [0, 1, 0], [-np.sin(b), 0, np.cos(b)]])
    Rz = np.array([[np.cos(c), -np.sin(c), 0], [np.sin(c), np.cos(c), 0], [0, 0, 1]])
    return Rz @ Ry @ Rx


def _grid(draw, lo, hi, n=10):
    """value on a coarse grid in [lo, hi]"""
    return lo + (hi - lo) * draw(st.integers(0, n)) / n


@st.composite
def elastic_specs(draw, dim, classes=("iso", "tiso", "ortho", "aniso")):
    cls = draw(st.sampled_from(list(classes)))
    spec = dict(cls=cls, dim=dim)
    if dim == 2:
        spec["planeStress"] = draw(st.booleans())
        spec["thickness"] = draw(st.sampled_from([1.0, 0.5, 2.5]))
        spec["angles"] = [draw(st.integers(0, 23)) * np.pi / 12 + 0.1 * draw(st.integers(0, 1))]
    else:
        spec["planeStress"] = False
        # the constructors accept a thickness in 3D as well; it has no meaning there and must change nothing
        spec["thickness"] = draw(st.sampled_from([1.0, 1.0, 0.35, 2.0]))
        spec["angles"] = [draw(st.integers(0, 11)) * np.pi / 6 + 0.1 for _ in range(3)]
    if cls == "iso":
        spec["E"] = _grid(draw, 1.0, 10.0)
        spec["v"] = _grid(draw, 0.0, 0.45, 9)
    elif cls == "tiso":
        spec.update(El=_grid(draw, 2.0, 10.0), Et=_grid(draw, 1.0, 5.0), Gl=_grid(draw, 0.5, 4.0),
                    vl=_grid(draw, 0.0, 0.3, 6), vt=_grid(draw, 0.0, 0.4, 8))
    elif cls == "ortho":
        spec.update(E1=_grid(draw, 2.0, 10.0), E2=_grid(draw, 1.0, 6.0), E3=_grid(draw, 1.0, 6.0),
                    G23=_grid(draw, 0.5, 3.0), G13=_grid(draw, 0.5, 3.0), G12=_grid(draw, 0.5, 3.0),
                    v23=_grid(draw, 0.0, 0.3, 6), v13=_grid(draw, 0.0, 0.3, 6), v12=_grid(draw, 0.0, 0.3, 6))
    else:
        spec["Cseed"] = draw(st.integers(0, 9999))
        spec["voigt"] = draw(st.booleans())  # the same stiffness handed over in Voigt notation
    # unit system of the moduli (Pa vs GPa vs ...): every stiffness scales by this factor, Poisson ratios do not
    spec["unit"] = draw(st.sampled_from([1.0, 1.0, 1.0, 1e-9, 1e9]))
    return spec


def make_elastic(spec, Q=None):
    """Q (3x3 orthogonal, optional): the same material carried by the isometry x -> Q x
    (axes rotated; for an improper Q the anisotropic matrix is re-expressed in the right-handed
    basis (Q a1, Q a2, Q a1 ^ Q a2) = (Q a1, Q a2, -Q a3): components with an odd number of
    index 3 change sign)."""
    dim = spec["dim"]
    cls = spec["cls"]
    R = rot2(spec["angles"][0]) if len(spec["angles"]) == 1 else rot3(spec["angles"])
    a1, a2 = R[:, 0].copy(), R[:, 1].copy()
    flip3 = False
    if Q is not None:
        Q = np.asarray(Q, float)
        a1, a2 = Q @ a1, Q @ a2
        flip3 = np.linalg.det(Q) < 0
    ps, th = bool(spec["planeStress"]), float(spec["thickness"])
    un = float(spec.get("unit", 1.0))
    try:
        if cls == "iso":
            mat = Models.Elastic.Isotropic(dim, E=un * spec["E"], v=spec["v"], planeStress=ps, thickness=th)
        elif cls == "tiso":
            mat = Models.Elastic.TransverselyIsotropic(dim, un * spec["El"], un * spec["Et"], un * spec["Gl"], spec["vl"],
                                                       spec["vt"], axis_l=a1, axis_t=a2, planeStress=ps, thickness=th)
        elif cls == "ortho":
            mat = Models.Elastic.Orthotropic(dim, un * spec["E1"], un * spec["E2"], un * spec["E3"], un * spec["G23"],
                                             un * spec["G13"], un * spec["G12"], spec["v23"], spec["v13"], spec["v12"],
                                             axis_1=a1, axis_2=a2, planeStress=ps, thickness=th)
        else:
            n = 3 if dim == 2 else 6
            B = np.random.default_rng(spec["Cseed"]).uniform(-1, 1, (n, n))
            C = un * (B @ B.T + 1.5 * np.eye(n))
            if flip3 and dim == 3:
                sgn = np.array([1, 1, 1, -1, -1, 1.0])
                C = C * np.outer(sgn, sgn)
            if spec.get("voigt"):
                w = np.array([1.0] * (n // 2 if dim == 3 else 2) + [np.sqrt(2)] * (3 if dim == 3 else 1))
                C = C / np.outer(w, w)  # Kelvin-Mandel -> Voigt (harness's own weights)
            mat = Models.Elastic.Anisotropic(dim, C, bool(spec.get("voigt")), axis1=a1, axis2=a2, thickness=th)
    except AssertionError as e:
        raise Inconclusive(f"law constructor rejected parameters: {str(e)[:40]}")
    C = np.asarray(mat.C, float)
    w = np.linalg.eigvalsh((C + C.T) / 2)
    if not (w.min() > 1e-6 * w.max()):
        raise Inconclusive("law not positive definite (out of the property's domain)")
    return mat


def km_strain(G: np.ndarray, dim: int) -> np.ndarray:
    """Kelvin-Mandel vector of sym(G)"""
    e = (G + G.T) / 2
    r2 = np.sqrt(2)
    if dim == 2:
        return np.array([e[0, 0], e[1, 1], r2 * e[0, 1]])
    return np.array([e[0, 0], e[1, 1], e[2, 2], r2 * e[1, 2], r2 * e[0, 2], r2 * e[0, 1]])


def from_km(v: np.ndarray) -> np.ndarray:
    """tensor components [xx,yy,(zz,yz,xz),xy] from a KM vector"""
    v = np.array(v, float)
    n = 1 if v.size == 3 else 3
    v[-n:] = v[-n:] / np.sqrt(2)
    return v
