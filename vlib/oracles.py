"""Oracles that do not go through the code under test."""

from __future__ import annotations

import itertools
from math import factorial

import numpy as np

# ------------------------------------------------------------------------------------------
# reference elements: closed-form monomial integrals, membership

REF_MEASURE = dict(SEG=2.0, TRI=0.5, QUAD=4.0, TETRA=1.0 / 6, HEXA=8.0, PRISM=1.0)


def _seg_int(a):  # int_{-1}^{1} x^a
    return 0.0 if a % 2 else 2.0 / (a + 1)


def ref_monomial_integral(shape: str, exps) -> float:
    """exact integral of prod x_i^e_i over the reference element of `shape`
    SEG [-1,1]; TRI (0,0),(1,0),(0,1); QUAD [-1,1]^2; TETRA unit simplex; HEXA [-1,1]^3;
    PRISM unit triangle (x,y) x [-1,1] (z)  [gmsh convention, as in Gauss._Prism]"""
    e = list(exps)
    if shape == "SEG":
        return _seg_int(e[0])
    if shape == "TRI":
        a, b = e
        return factorial(a) * factorial(b) / factorial(a + b + 2)
    if shape == "QUAD":
        return _seg_int(e[0]) * _seg_int(e[1])
    if shape == "TETRA":
        a, b, c = e
        return factorial(a) * factorial(b) * factorial(c) / factorial(a + b + c + 3)
    if shape == "HEXA":
        return _seg_int(e[0]) * _seg_int(e[1]) * _seg_int(e[2])
    if shape == "PRISM":
        a, b, c = e
        return factorial(a) * factorial(b) / factorial(a + b + 2) * _seg_int(c)
    raise KeyError(shape)


def in_reference(shape: str, pts: np.ndarray, tol=1e-12) -> np.ndarray:
    p = np.atleast_2d(np.asarray(pts, float))
    if shape == "SEG":
        return np.abs(p[:, 0]) <= 1 + tol
    if shape == "TRI":
        return (p[:, 0] >= -tol) & (p[:, 1] >= -tol) & (p[:, 0] + p[:, 1] <= 1 + tol)
    if shape == "QUAD":
        return (np.abs(p[:, 0]) <= 1 + tol) & (np.abs(p[:, 1]) <= 1 + tol)
    if shape == "TETRA":
        return (p >= -tol).all(1) & (p.sum(1) <= 1 + tol)
    if shape == "HEXA":
        return (np.abs(p) <= 1 + tol).all(1)
    if shape == "PRISM":
        return (p[:, 0] >= -tol) & (p[:, 1] >= -tol) & (p[:, 0] + p[:, 1] <= 1 + tol) & (
            np.abs(p[:, 2]) <= 1 + tol)
    raise KeyError(shape)


def monomials(dim: int, deg: int):
    return [e for e in itertools.product(range(deg + 1), repeat=dim) if sum(e) <= deg]


def shape_of(elemType: str) -> str:
    return "".join(c for c in str(elemType) if not c.isdigit())


# ------------------------------------------------------------------------------------------
# spectra


def sym_err(A: np.ndarray) -> float:
    n = np.abs(A).max()
    return 0.0 if n == 0 else float(np.abs(A - A.T).max() / n)


def spectrum(A: np.ndarray):
    A = np.asarray(A, float)
    return np.linalg.eigvalsh((A + A.T) / 2)


def nullity_gap(w: np.ndarray, lo=1e-9, hi=1e-6):
    """(nullity, clear) - nullity = #eigenvalues <= lo*max; clear = no eigenvalue in (lo,hi)*max"""
    m = np.abs(w).max()
    if m == 0:
        return len(w), True
    r = np.abs(w) / m
    k = int((r <= lo).sum())
    clear = not bool(((r > lo) & (r < hi)).any())
    return k, clear


def rigid_modes(coord: np.ndarray, dim: int) -> np.ndarray:
    """analytic rigid-body modes, returned as (N*dim, nmodes) with dof = node*dim + comp"""
    N = coord.shape[0]
    modes = []
    for d in range(dim):
        m = np.zeros((N, dim))
        m[:, d] = 1
        modes.append(m.ravel())
    x, y, z = coord[:, 0], coord[:, 1], coord[:, 2]
    if dim == 2:
        m = np.zeros((N, 2))
        m[:, 0], m[:, 1] = -y, x
        modes.append(m.ravel())
    if dim == 3:
        for w in np.eye(3):
            m = np.cross(w[None, :], coord)
            modes.append(m.ravel())
    return np.array(modes).T


def dense(A):
    return A.toarray() if hasattr(A, "toarray") else np.asarray(A)


# ------------------------------------------------------------------------------------------
# dense scatter-add assembly written from the connectivity only


def scatter_matrix(Ndof: int, connect: np.ndarray, dof_n: int, A_e: np.ndarray, out=None):
    """A[node_i*dof_n+ci, node_j*dof_n+cj] += A_e[e, i*dof_n+ci, j*dof_n+cj]"""
    A = np.zeros((Ndof, Ndof), dtype=A_e.dtype) if out is None else out
    Ne, nPe = connect.shape
    dofs = (connect[:, :, None] * dof_n + np.arange(dof_n)[None, None, :]).reshape(Ne, nPe * dof_n)
    for e in range(Ne):
        d = dofs[e]
        for i in range(d.size):
            for j in range(d.size):
                A[d[i], d[j]] += A_e[e, i, j]
    return A


def scatter_vector(Ndof: int, connect: np.ndarray, dof_n: int, F_e: np.ndarray, out=None):
    F = np.zeros(Ndof, dtype=F_e.dtype) if out is None else out
    Ne, nPe = connect.shape
    dofs = (connect[:, :, None] * dof_n + np.arange(dof_n)[None, None, :]).reshape(Ne, nPe * dof_n)
    Fe = np.asarray(F_e).reshape(Ne, nPe * dof_n)
    for e in range(Ne):
        for i in range(dofs.shape[1]):
            F[dofs[e, i]] += Fe[e, i]
    return F


# ------------------------------------------------------------------------------------------
# tiny polynomial helpers (for generated fields)


def poly_eval(coefs: dict, x, y, z):
    """coefs: {"a,b,c": value}"""
    out = 0.0 * x  # stays an FeArray when x is one (a plain ndarray would act as a constant tensor)
    for k, v in coefs.items():
        a, b, c = (int(s) for s in k.split(","))
        out = out + v * x**a * y**b * z**c
    return out


def green_areas(group, coord) -> np.ndarray:
    """Signed area of every element of a planar (z = const) 2D group, curved or not, WITHOUT any quadrature rule or shape
    function of the library: the boundary of an isoparametric element is the union of its edges, each the 1-D Lagrange
    interpolant through the nodes lying on that edge of the reference element (taken from Get_Local_Coords and sorted along
    the edge), and area = 1/2 oint (x dy - y dx), integrated edge by edge with numpy's Gauss-Legendre rule (exact for the
    polynomial integrand)."""
    loc = np.asarray(group.Get_Local_Coords(), float)[:, :2]
    conn = np.asarray(group.connect, int)
    X = np.asarray(coord, float)
    shape = shape_of(str(group.elemType))
    if shape == "TRI":
        corners = [(0.0, 0.0), (1.0, 0.0), (0.0, 1.0)]
    elif shape == "QUAD":
        corners = [(-1.0, -1.0), (1.0, -1.0), (1.0, 1.0), (-1.0, 1.0)]
    else:
        raise ValueError(shape)
    area = np.zeros(conn.shape[0])
    for k in range(len(corners)):
        a, b = np.array(corners[k]), np.array(corners[(k + 1) % len(corners)])
        e = b - a
        rel = loc - a
        t = rel @ e / (e @ e)
        off = np.abs(rel[:, 0] * e[1] - rel[:, 1] * e[0])
        on = np.where((off < 1e-9) & (t > -1e-9) & (t < 1 + 1e-9))[0]
        on = on[np.argsort(t[on])]
        tn = t[on]
        n = on.size
        xg, wg = np.polynomial.legendre.leggauss(n + 1)
        s = (xg + 1) / 2
        # Lagrange basis on the nodes tn and its derivative, at the Gauss points s
        L = np.ones((s.size, n))
        dL = np.zeros((s.size, n))
        for i in range(n):
            for j in range(n):
                if j != i:
                    L[:, i] *= (s - tn[j]) / (tn[i] - tn[j])
            for m in range(n):
                if m == i:
                    continue
                term = np.ones(s.size) / (tn[i] - tn[m])
                for j in range(n):
                    if j not in (i, m):
                        term *= (s - tn[j]) / (tn[i] - tn[j])
                dL[:, i] += term
        P = X[conn[:, on]]  # (Ne, n, 3)
        x, y = np.einsum("gi,ei->eg", L, P[:, :, 0]), np.einsum("gi,ei->eg", L, P[:, :, 1])
        dx, dy = np.einsum("gi,ei->eg", dL, P[:, :, 0]), np.einsum("gi,ei->eg", dL, P[:, :, 1])
        area += 0.5 * np.einsum("g,eg->e", wg / 2, x * dy - y * dx)
    return area
