"""Beam member specs (JSON-able) -> EasyFEA beam model / mesh / simulation."""

from __future__ import annotations

import functools

import numpy as np
from hypothesis import strategies as st

from EasyFEA import ElemType, Mesher, Models, Simulations
from EasyFEA.Geoms import Domain, Line, Point


@functools.lru_cache(maxsize=32)
def _section(b: float, h: float):
    return Mesher().Mesh_2D(Domain(Point(-b / 2, -h / 2), Point(b / 2, h / 2)))


def section_props(b, h):
    """closed-form rectangle properties (A, Iy, Iz): Iz = int y^2 dA with y along h"""
    return b * h, h * b**3 / 12, b * h**3 / 12


@st.composite
def member_specs(draw, dims=(2, 3), types=("SEG2", "SEG3", "SEG4", "SEG5"), incline=True):
    dim = draw(st.sampled_from(list(dims)))
    et = draw(st.sampled_from(list(types)))
    p1 = [draw(st.integers(-4, 4)) / 2.0 for _ in range(dim)] + [0.0] * (3 - dim)
    if incline:
        for _ in range(30):
            d = [draw(st.integers(-6, 6)) / 2.0 for _ in range(dim)] + [0.0] * (3 - dim)
            if np.linalg.norm(d) >= 1.0:
                break
        else:
            d = [2.0, 0.0, 0.0]
    else:
        d = [draw(st.integers(2, 6)) / 2.0, 0.0, 0.0]
    if incline and draw(st.integers(0, 5)) == 0:
        # a member lying exactly on the global x axis (every node has y = z = 0), running towards +x or -x
        p1 = [p1[0], 0.0, 0.0]
        d = [draw(st.sampled_from([-3.0, -1.5, 2.0])), 0.0, 0.0]
    ne = draw(st.integers(2, 4))
    b = draw(st.integers(2, 6)) / 10.0
    h = draw(st.integers(2, 6)) / 10.0
    E = draw(st.integers(2, 20)) * 10.0
    v = draw(st.integers(0, 4)) / 10.0
    tim = draw(st.booleans())
    yaxis = None
    if dim == 3 and draw(st.booleans()):
        yaxis = [draw(st.integers(-3, 3)) for _ in range(3)]
        if np.linalg.norm(np.cross(yaxis, d)) < 1e-6:
            yaxis = None
    # grade: element lengths made unequal (vertices moved along the member by s -> s + g s (1 - s), the inner nodes of
    # every element kept equidistant); 0 = the uniform mesh the mesher gives
    grade = draw(st.sampled_from([0.0, 0.0, -0.5, 0.4]))
    return dict(dim=dim, elemType=et, p1=p1, d=d, ne=ne, b=b, h=h, E=E, v=v, timoshenko=tim, yAxis=yaxis, grade=grade)


def build_member(spec):
    """returns (simu, mesh, beam, frame) where frame = (i, j, k) local axes as rows of a (3,3) array,
    computed independently of EasyFEA's _Calc_P from the documented definition
    (x = fibre direction, y = yAxis orthogonalised to x, z = x ^ y)."""
    dim = spec["dim"]
    p1 = np.array(spec["p1"], float)
    d = np.array(spec["d"], float)
    L = float(np.linalg.norm(d))
    line = Line(Point(*p1), Point(*(p1 + d)), L / spec["ne"])
    sec = _section(spec["b"], spec["h"]).copy()
    y0 = np.array(spec["yAxis"], float) if spec.get("yAxis") else np.array([0.0, 1.0, 0.0])
    i = d / L
    if np.linalg.norm(np.cross(i, y0)) <= 1e-12:
        y0 = np.cross([0, 0, 1.0], i)
    k = np.cross(i, y0)
    k /= np.linalg.norm(k)
    j = np.cross(k, i)
    beam = Models.Beam.Isotropic(dim, line, sec, spec["E"], spec["v"], yAxis=tuple(y0))
    mesh = Mesher().Mesh_Beams([beam], elemType=ElemType(spec["elemType"]))
    if spec.get("grade"):
        mesh = graded(mesh, p1, d, float(spec["grade"]))
    simu = Simulations.Beam(mesh, Models.Beam.BeamStructure([beam]), useTimoshenko=bool(spec["timoshenko"]))
    return simu, simu.mesh, beam, np.array([i, j, k])


def graded(mesh, p1, d, g):
    """the same straight member with unequal element lengths (see member_specs)"""
    from vlib import gen_mesh as gm

    X = np.asarray(mesh.coord, float)
    L2 = float(d @ d)
    s = (X - p1) @ d / L2
    phi = lambda t: t + g * t * (1.0 - t)  # noqa
    new = s.copy()
    for grp in mesh.dict_groupElem.values():
        if grp.dim != 1:
            continue
        conn = np.asarray(grp.connect, int)
        a, b = s[conn[:, 0]], s[conn[:, 1]]
        for c in range(conn.shape[1]):
            new[conn[:, c]] = phi(a) + (s[conn[:, c]] - a) / (b - a) * (phi(b) - phi(a))
    return gm.rebuild(mesh, p1[None, :] + new[:, None] * d[None, :])


def end_nodes(mesh, spec):
    p1 = np.array(spec["p1"], float)
    p2 = p1 + np.array(spec["d"], float)
    c = np.asarray(mesh.coord, float)
    n1 = int(np.argmin(np.linalg.norm(c - p1, axis=1)))
    n2 = int(np.argmin(np.linalg.norm(c - p2, axis=1)))
    return n1, n2


def local_to_global_dofs(frame, dim, u_loc, rot_loc):
    """u_loc (N,3) local translations, rot_loc (N,3) local rotation vector -> (N, dof_n) global dofs"""
    P = frame.T  # columns = local axes
    ug = u_loc @ P.T
    rg = rot_loc @ P.T
    if dim == 2:
        return np.column_stack([ug[:, 0], ug[:, 1], rg[:, 2]])
    return np.column_stack([ug, rg])
