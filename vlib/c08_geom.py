"""C08 helpers: motion histories (harness side and through mesh.Translate/Rotate/Symmetry), vertex-based
element maps (independent of EasyFEA's shape functions), reference sampling of query points and boundary
integrals of the normals.

Reference conventions (gmsh, the ones EasyFEA documents):
TRI   (r,s)   r,s>=0, r+s<=1          vertices (0,0) (1,0) (0,1)
TETRA (r,s,t) unit simplex            vertices 0, e1, e2, e3
QUAD  [-1,1]^2                        vertices (-1,-1) (1,-1) (1,1) (-1,1)
HEXA  [-1,1]^3                        bottom 0..3 as QUAD at t=-1, top 4..7 at t=+1
PRISM (r,s) in TRI x t in [-1,1]      0..2 at t=-1, 3..5 at t=+1
The first Nvertex columns of a connectivity row are the vertices in this order.
"""

from __future__ import annotations

import numpy as np
from hypothesis import strategies as st

NVERT = dict(SEG=2, TRI=3, QUAD=4, TETRA=4, HEXA=8, PRISM=6)
SDIM = dict(SEG=1, TRI=2, QUAD=2, TETRA=3, HEXA=3, PRISM=3)
_QUAD_C = np.array([[-1, -1], [1, -1], [1, 1], [-1, 1]], float)
_HEXA_C = np.array([[-1, -1, -1], [1, -1, -1], [1, 1, -1], [-1, 1, -1],
                    [-1, -1, 1], [1, -1, 1], [1, 1, 1], [-1, 1, 1]], float)


def shape_of(elemType) -> str:
    return "".join(c for c in str(elemType) if not c.isdigit())


# ------------------------------------------------------------------------------------------
# motion histories


@st.composite
def motions(draw, dim, out_of_plane=False, nmax=3, reflect=None):
    """list of operations applied in order through mesh.Translate / Rotate / Symmetry.
    dim=2 keeps the mesh in its plane unless out_of_plane; reflect: None (free), True (odd number of
    reflections), False (none)."""
    n = draw(st.integers(1, nmax))
    ops = []
    for _ in range(n):
        kind = draw(st.sampled_from(["T", "R", "R", "S"]))
        if kind == "S" and reflect is False:
            kind = "R"
        if kind == "T":
            v = [draw(st.integers(-6, 6)) / 2.0 for _ in range(3)]
            if dim == 2 and not out_of_plane:
                v[2] = 0.0
            ops.append(dict(op="T", v=v))
            continue
        c = [draw(st.integers(-4, 4)) / 2.0 for _ in range(3)]
        if dim == 2 and not out_of_plane:
            c[2] = 0.0
        if kind == "R":
            theta = draw(st.integers(1, 71)) * 5.0 + draw(st.sampled_from([0.0, 1.7]))
            if dim == 2 and not out_of_plane:
                axis = [0.0, 0.0, 1.0]
            else:
                axis = _nonzero(draw, 3)
            ops.append(dict(op="R", theta=theta, c=c, axis=axis))
        else:
            if dim == 2 and not out_of_plane:
                a = draw(st.integers(0, 11)) * 15.0 + 4.0
                nrm = [round(float(np.cos(np.deg2rad(a))), 9), round(float(np.sin(np.deg2rad(a))), 9), 0.0]
            else:
                nrm = _nonzero(draw, 3)
            ops.append(dict(op="S", c=c, n=nrm))
    nref = sum(o["op"] == "S" for o in ops)
    if reflect is True and nref % 2 == 0:
        ops.append(dict(op="S", c=[0.0, 0.0, 0.0], n=[1.0, 0.0, 0.0]))
    return ops


def _nonzero(draw, n):
    for _ in range(20):
        v = [float(draw(st.integers(-3, 3))) for _ in range(n)]
        if any(v):
            return v
    return [1.0] + [0.0] * (n - 1)


def op_matrix(o):
    """(Q, c) of the linear part about the point c; translation has Q=I"""
    if o["op"] == "T":
        return np.eye(3), np.zeros(3)
    if o["op"] == "R":
        a = np.array(o["axis"], float)
        a /= np.linalg.norm(a)
        th = np.deg2rad(o["theta"])
        K = np.array([[0, -a[2], a[1]], [a[2], 0, -a[0]], [-a[1], a[0], 0]])
        return np.eye(3) + np.sin(th) * K + (1 - np.cos(th)) * K @ K, np.array(o["c"], float)
    n = np.array(o["n"], float)
    n /= np.linalg.norm(n)
    return np.eye(3) - 2 * np.outer(n, n), np.array(o["c"], float)


def motion_map(ops):
    """(Q, t) with x -> Q x + t the composition (harness side, Rodrigues / Householder)"""
    Q = np.eye(3)
    t = np.zeros(3)
    for o in ops:
        if o["op"] == "T":
            t = t + np.array(o["v"], float)
            continue
        S, c = op_matrix(o)
        Q = S @ Q
        t = S @ (t - c) + c
    return Q, t


def apply_motion(mesh, ops):
    """through the documented mesh methods, in place"""
    for o in ops:
        if o["op"] == "T":
            mesh.Translate(*o["v"])
        elif o["op"] == "R":
            mesh.Rotate(o["theta"], tuple(o["c"]), tuple(o["axis"]))
        else:
            mesh.Symmetry(tuple(o["c"]), tuple(o["n"]))
    return mesh


def n_reflections(ops) -> int:
    return sum(o["op"] == "S" for o in ops)


def scale_ops(ops, unit: float):
    """the same motions in the length unit of the mesh (translations and centres are lengths)"""
    if unit == 1.0:
        return ops
    out = []
    for o in ops:
        o = dict(o)
        for k in ("v", "c"):
            if k in o:
                o[k] = [float(x) * unit for x in o[k]]
        out.append(o)
    return out


def motion_scale(ops) -> float:
    s = 0.0
    for o in ops:
        s += float(np.abs(o["v"]).max()) if o["op"] == "T" else 2 * float(np.abs(o["c"]).max())
    return s


def is_generic(ops) -> bool:
    """a reflection or a rotation by an angle that is not a multiple of 90 degrees"""
    return any(o["op"] == "S" or (o["op"] == "R" and o["theta"] % 90.0 != 0.0) for o in ops)


# ------------------------------------------------------------------------------------------
# vertex-based element maps


def vertex_weights(shape: str, xi: np.ndarray) -> np.ndarray:
    """(n, Nvertex) weights of the (multi)linear vertex map at reference points xi (n, dim)"""
    xi = np.atleast_2d(np.asarray(xi, float))
    if shape == "SEG":
        return np.stack([(1 - xi[:, 0]) / 2, (1 + xi[:, 0]) / 2], 1)
    if shape == "TRI":
        return np.stack([1 - xi[:, 0] - xi[:, 1], xi[:, 0], xi[:, 1]], 1)
    if shape == "TETRA":
        return np.stack([1 - xi.sum(1), xi[:, 0], xi[:, 1], xi[:, 2]], 1)
    if shape == "QUAD":
        return np.prod(1 + xi[:, None, :] * _QUAD_C[None], axis=2) / 4
    if shape == "HEXA":
        return np.prod(1 + xi[:, None, :] * _HEXA_C[None], axis=2) / 8
    if shape == "PRISM":
        tri = np.stack([1 - xi[:, 0] - xi[:, 1], xi[:, 0], xi[:, 1]], 1)
        return np.concatenate([tri * ((1 - xi[:, 2]) / 2)[:, None], tri * ((1 + xi[:, 2]) / 2)[:, None]], 1)
    raise KeyError(shape)


def vertex_map(shape: str, V: np.ndarray, xi: np.ndarray) -> np.ndarray:
    """image of reference points under the vertex map of one element (V: (Nvertex,3))"""
    return vertex_weights(shape, xi) @ np.asarray(V, float)


def nonaffinity(shape: str, V: np.ndarray) -> float:
    """relative size of the non-affine part of the vertex map of elements V (Ne, Nvertex, 3);
    0 for simplices and for parallelograms / parallelepipeds / right prisms"""
    V = np.asarray(V, float)
    size = np.linalg.norm(V - V.mean(1, keepdims=True), axis=2).max(1) + 1e-300
    if shape in ("SEG", "TRI", "TETRA"):
        return 0.0
    if shape == "QUAD":
        d = np.linalg.norm(V[:, 0] - V[:, 1] + V[:, 2] - V[:, 3], axis=1)
        return float((d / size).max())
    if shape == "HEXA":
        ds = [V[:, 0] - V[:, 1] + V[:, 2] - V[:, 3], V[:, 4] - V[:, 5] + V[:, 6] - V[:, 7],
              V[:, 0] - V[:, 1] + V[:, 5] - V[:, 4], V[:, 3] - V[:, 2] + V[:, 6] - V[:, 7],
              V[:, 0] - V[:, 3] + V[:, 7] - V[:, 4]]
        d = np.max([np.linalg.norm(x, axis=1) for x in ds], axis=0)
        return float((d / size).max())
    if shape == "PRISM":
        ds = [(V[:, 3] - V[:, 0]) - (V[:, 4] - V[:, 1]), (V[:, 3] - V[:, 0]) - (V[:, 5] - V[:, 2])]
        d = np.max([np.linalg.norm(x, axis=1) for x in ds], axis=0)
        return float((d / size).max())
    raise KeyError(shape)


def high_order_nodes_follow_vertex_map(group, coord) -> float:
    """max distance (relative to the element size) between the nodes of the elements and the image of
    their reference positions under the vertex map: 0 for straight-sided elements whose high-order
    nodes were placed by the (multi)linear map.  (Reference positions from Get_Local_Coords; only used
    as a precondition.)"""
    shape = shape_of(group.elemType)
    loc = np.asarray(group.Get_Local_Coords(), float).reshape(group.nPe, -1)
    W = vertex_weights(shape, loc)  # (nPe, nv)
    X = np.asarray(coord, float)[np.asarray(group.connect, int)]  # (Ne, nPe, 3)
    img = np.einsum("nv,evd->end", W, X[:, : NVERT[shape]])
    size = np.linalg.norm(X - X.mean(1, keepdims=True), axis=2).max(1)
    return float((np.linalg.norm(img - X, axis=2).max(1) / size).max())


# ------------------------------------------------------------------------------------------
# reference sampling (everything from small integers so that cases shrink and serialise exactly)


def ref_point(shape: str, kind: str, w) -> np.ndarray:
    """reference coordinates of a query point.  w = list of >= 5 integers in [0, 15].
    kind: 'in' strictly inside, 'face' on a codimension-1 sub-entity (edge in 2D, face in 3D),
    'edge' on an edge of a 3D element, 'node' on a vertex"""
    w = [int(v) for v in w]
    d = SDIM[shape]
    if shape in ("TRI", "TETRA"):
        nb = d + 1
        b = np.array([1.0 + w[i] for i in range(nb)])
        if kind == "node":
            b[:] = 0.0
            b[w[4] % nb] = 1.0
        elif kind == "face":
            b[w[4] % nb] = 0.0
        elif kind == "edge":  # TETRA: two barycentric coordinates vanish
            i = w[4] % nb
            j = (i + 1 + w[3] % (nb - 1)) % nb
            b[i] = b[j] = 0.0
        b = b / b.sum()
        return b[1:]
    if shape in ("QUAD", "HEXA"):
        x = np.array([(w[i] - 7.5) / 8.5 for i in range(d)])  # strictly inside (-1, 1), never 0
        if kind == "node":
            x = np.array([1.0 if (w[i] % 2) else -1.0 for i in range(d)])
        elif kind == "face":
            x[w[4] % d] = 1.0 if w[3] % 2 else -1.0
        elif kind == "edge":
            i = w[4] % d
            for j in range(d):
                if j != i:
                    x[j] = 1.0 if (w[j] % 2) else -1.0
        return x
    if shape == "PRISM":
        tri = ref_point("TRI", "in", w)
        t = (w[3] - 7.5) / 8.5
        if kind == "node":
            tri = ref_point("TRI", "node", w)
            t = 1.0 if w[3] % 2 else -1.0
        elif kind == "face":
            if w[4] % 5 < 2:
                t = 1.0 if w[4] % 5 else -1.0
            else:
                tri = ref_point("TRI", "face", w[:4] + [w[4] % 5 - 2])
        elif kind == "edge":
            if w[4] % 2:
                tri = ref_point("TRI", "node", w)  # vertical edge
            else:
                tri = ref_point("TRI", "face", w)
                t = 1.0 if w[3] % 2 else -1.0
        return np.array([tri[0], tri[1], t])
    if shape == "SEG":
        return np.array([1.0 if w[0] % 2 else -1.0]) if kind == "node" else np.array([(w[0] - 7.5) / 8.5])
    raise KeyError(shape)


# ------------------------------------------------------------------------------------------
# boundary integrals of the normals


def boundary_integrals(groups, matrixType):
    """(S, N, F, dev): S = sum int dS, N = sum int n dS (3,), F = sum int x.n dS,
    dev = max | |n| - 1 | over the Gauss points, with n from Get_normals_e_pg and dS from
    Get_weightedJacobian_e_pg."""
    S, N, F, dev = 0.0, np.zeros(3), 0.0, 0.0
    for g in groups:
        n = np.asarray(g.Get_normals_e_pg(matrixType), float)
        w = np.asarray(g.Get_weightedJacobian_e_pg(matrixType), float)
        x = np.asarray(g.Get_GaussCoordinates_e_pg(matrixType), float)
        S += float(w.sum())
        N += np.einsum("ep,epd->d", w, n)
        F += float(np.einsum("ep,epd,epd->", w, n, x))
        dev = max(dev, float(np.abs(np.linalg.norm(n, axis=2) - 1).max()))
    return S, N, F, dev


def raw_route_dev(groups, matrixType):
    """The documented second route to the area-weighted normal: Get_weight_pg * Get_normals_e_pg(normalize=False)
    ("their norm is then the surface jacobian").  Returns (dev, n): dev = max over the Gauss points of
    |w_pg n_raw - wJ_e_pg n_unit| / max wJ, over the 2D groups and the 1D groups lying in a plane z = const
    (where the 1D cross product with e_z has the norm of the tangent); n = number of Gauss points compared."""
    dev, cnt = 0.0, 0
    for g in groups:
        if g.dim == 1 and np.ptp(np.asarray(g.coord, float)[:, 2]) != 0.0:
            continue
        n = np.asarray(g.Get_normals_e_pg(matrixType), float)
        raw = np.asarray(g.Get_normals_e_pg(matrixType, normalize=False), float)
        wJ = np.asarray(g.Get_weightedJacobian_e_pg(matrixType), float)
        w = np.asarray(g.Get_weight_pg(matrixType), float)
        d = w[None, :, None] * raw - wJ[..., None] * n
        dev = max(dev, float(np.abs(d).max()) / float(np.abs(wJ).max()))
        cnt += wJ.size
    return dev, cnt


def region_orientation(groups, matrixType, regions, Q, t, tol=1e-7):
    """For every exact boundary region (vlib.c09_geom.Region with n_out, before the motion x->Qx+t):
    +1 when all Gauss-point normals of the elements lying in it equal the moved outward normal, -1 when
    all equal its opposite, 0 when mixed or not aligned.  Returns {region name: sign}."""
    out = {}
    Qi = Q.T
    for reg in regions:
        signs = []
        for g in groups:
            n = np.asarray(g.Get_normals_e_pg(matrixType), float)
            x = np.asarray(g.Get_GaussCoordinates_e_pg(matrixType), float)
            x0 = (x - t) @ Qi.T  # back to the recipe frame
            inside = reg.contains(x0[..., 0], x0[..., 1], x0[..., 2], tol=tol)
            if not inside.any():
                continue
            s = n[inside] @ (Q @ reg.n_out)
            signs.append(s)
        if not signs:
            out[reg.name] = 0
            continue
        s = np.concatenate(signs)
        out[reg.name] = 1 if (s > 1 - 1e-9).all() else -1 if (s < -1 + 1e-9).all() else 0
    return out


# ------------------------------------------------------------------------------------------
# containment in affine elements (simplices, parallelograms, parallelepipeds, right prisms)


def affine_contains(shape: str, V: np.ndarray, P: np.ndarray, tol=1e-9) -> np.ndarray:
    """(Ne, n) boolean: point P[j] lies in the closed affine element with vertices V[e] (Ne, Nvertex, 3).
    Own reference coordinates from the vertex frame; independent of EasyFEA."""
    V = np.asarray(V, float)
    P = np.asarray(P, float)
    if shape == "TRI":
        cols = [V[:, 1] - V[:, 0], V[:, 2] - V[:, 0]]
    elif shape == "QUAD":
        cols = [V[:, 1] - V[:, 0], V[:, 3] - V[:, 0]]
    elif shape == "TETRA":
        cols = [V[:, 1] - V[:, 0], V[:, 2] - V[:, 0], V[:, 3] - V[:, 0]]
    elif shape == "HEXA":
        cols = [V[:, 1] - V[:, 0], V[:, 3] - V[:, 0], V[:, 4] - V[:, 0]]
    elif shape == "PRISM":
        cols = [V[:, 1] - V[:, 0], V[:, 2] - V[:, 0], V[:, 3] - V[:, 0]]
    else:
        raise KeyError(shape)
    J = np.stack(cols, axis=2)  # (Ne, 3, k)
    G = np.einsum("eik,eil->ekl", J, J)
    rhs = np.einsum("eik,eji->ejk", J, P[None, :, :] - V[:, None, 0, :])  # (Ne, n, k)
    xi = np.einsum("ekl,ejl->ejk", np.linalg.inv(G), rhs)
    res = P[None] - V[:, None, 0] - np.einsum("eik,ejk->eji", J, xi)
    size = np.linalg.norm(J, axis=1).max(1)[:, None]
    on = np.linalg.norm(res, axis=2) <= tol * size
    if shape in ("TRI", "TETRA"):
        inside = (xi >= -tol).all(2) & (xi.sum(2) <= 1 + tol)
    elif shape in ("QUAD", "HEXA"):
        inside = ((xi >= -tol) & (xi <= 1 + tol)).all(2)
    else:
        inside = (xi[..., :2] >= -tol).all(2) & (xi[..., :2].sum(2) <= 1 + tol) & (xi[..., 2] >= -tol) & (xi[..., 2] <= 1 + tol)
    return on & inside
