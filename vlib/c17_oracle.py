"""C17 oracles: spectral positive part and its derivative by numpy.linalg.eigh, literature formulas of
the 14 phase-field energy splits.  Nothing here goes through EasyFEA.

Kelvin-Mandel vectors: 2D [xx, yy, sqrt2 xy]; 3D [xx, yy, zz, sqrt2 yz, sqrt2 xz, sqrt2 xy].
"""

from __future__ import annotations

import numpy as np

S2 = np.sqrt(2.0)
PAIRS = {2: [(0, 0), (1, 1), (0, 1)], 3: [(0, 0), (1, 1), (2, 2), (1, 2), (0, 2), (0, 1)]}

ISO_ONLY = ("Amor", "Miehe", "Stress")
SPLITS = ("Bourdin", "Amor", "Miehe", "He", "Stress", "Zhang",
          "AnisotStrain", "AnisotStrain_PM", "AnisotStrain_MP", "AnisotStrain_NoCross",
          "AnisotStress", "AnisotStress_PM", "AnisotStress_MP", "AnisotStress_NoCross")


def to_vec(M):
    d = M.shape[0]
    return np.array([M[i, j] if i == j else S2 * M[i, j] for i, j in PAIRS[d]])


def to_mat(v):
    d = 2 if len(v) == 3 else 3
    M = np.zeros((d, d))
    for k, (i, j) in enumerate(PAIRS[d]):
        if i == j:
            M[i, i] = v[k]
        else:
            M[i, j] = M[j, i] = v[k] / S2
    return M


def heav(x, tol=0.0):
    """Heaviside with H(0)=1/2 (value irrelevant where the oracles are asserted)"""
    return 1.0 if x > tol else (0.0 if x < -tol else 0.5)


class Spectral:
    """eigh-based positive part of a symmetric tensor given as a Kelvin-Mandel vector."""

    def __init__(self, v):
        self.v = np.asarray(v, float)
        self.T = to_mat(self.v)
        self.d = self.T.shape[0]
        self.w, self.V = np.linalg.eigh(self.T)
        self.m = float(np.max(np.abs(self.w)))
        self.pos = to_vec((self.V * np.maximum(self.w, 0.0)) @ self.V.T)
        self.neg = self.v - self.pos
        self.tr = float(np.sum(self.v[: self.d]))
        # <.>+ differentiable at every eigenvalue (clear of the kink by 1e-6 of the spectral radius)
        self.smooth = self.m > 0 and bool(np.all(np.abs(self.w) > 1e-6 * self.m))
        self.tr_smooth = self.m > 0 and abs(self.tr) > 1e-6 * self.m

    def projector(self):
        """d<T>+/dT as a Kelvin-Mandel matrix (general isotropic tensor function derivative,
        valid for repeated eigenvalues); only meaningful when self.smooth."""
        d, w, V = self.d, self.w, self.V
        D = len(self.v)
        P = np.zeros((D, D))
        wp = np.maximum(w, 0.0)
        for a in range(d):
            na = V[:, a]
            ma = to_vec(np.outer(na, na))
            P += (1.0 if w[a] > 0 else 0.0) * np.outer(ma, ma)
            for b in range(a + 1, d):
                nb = V[:, b]
                sab = to_vec((np.outer(na, nb) + np.outer(nb, na)) / S2)
                if w[a] == w[b]:
                    th = 1.0 if w[a] > 0 else 0.0
                else:
                    th = (wp[a] - wp[b]) / (w[a] - w[b])
                P += th * np.outer(sab, sab)
        return P

    # -- classes ---------------------------------------------------------------------------
    def classify(self):
        """(cls, lode) of the decomposed tensor.
        cls: zero | distinct | near (some relative gap in (1e-12, 2e-3)) | two_equal | all_equal
             (gap <= 1e-12), suffix _exact when the tensor is exactly diagonal with exactly equal entries.
        lode: which branch of a closed-form (Lode angle) decomposition the point belongs to:
              z0 (zero), g0 (all equal), c2 (two largest equal), c3 (two smallest equal), cN (near), c1."""
        w, m, d = self.w, self.m, self.d
        if m == 0:
            return "zero", "z0"
        gaps = np.diff(w) / m
        rep = gaps <= 1e-12
        near = (gaps > 1e-12) & (gaps < 2e-3)
        diag_exact = bool(np.all(self.v[d:] == 0.0))
        if rep.all():
            ex = diag_exact and bool(np.all(self.v[:d] == self.v[0]))
            return "all_equal" + ("_exact" if ex else ""), "g0"
        if rep.any():
            # 3D only
            vals = sorted(self.v[:d])
            ex = diag_exact and (vals[0] == vals[1] or vals[1] == vals[2])
            lode = "c3" if rep[0] else "c2"
            if near.any():
                return "near", "cN"
            return "two_equal" + ("_exact" if ex else ""), lode
        if near.any():
            return "near", "cN"
        return "distinct", "c1"


def iso_consts(E, v, dim, planeStress):
    """(lambda, mu, K, a, b) with C = lambda IxI + 2 mu Id and S = a Id - b IxI for the 3D / plane
    stress / plane strain isotropic law (standard closed forms, independent of EasyFEA)."""
    mu = E / (2 * (1 + v))
    if dim == 2 and planeStress:
        lam = E * v / (1 - v**2)
        b = v / E
    else:
        lam = E * v / ((1 + v) * (1 - 2 * v))
        b = v / E if dim == 3 else v * (1 + v) / E
    a = (1 + v) / E
    K = lam + 2 * mu / dim
    return lam, mu, K, a, b


def sqrtm_spd(C):
    w, Q = np.linalg.eigh(C)
    return (Q * np.sqrt(w)) @ Q.T, (Q / np.sqrt(w)) @ Q.T


class SplitOracle:
    """positive stress / energy / secant stiffness of one split at one strain state."""

    def __init__(self, split, dim, C, iso=None):
        self.split = split
        self.dim = dim
        self.C = np.asarray(C, float)
        self.S = np.linalg.inv(self.C)
        self.iso = iso  # (lam, mu, K, a, b) or None
        D = self.C.shape[0]
        self.I = np.zeros(D)
        self.I[:dim] = 1.0
        self.IxI = np.outer(self.I, self.I)
        self.Id = np.eye(D)
        if split == "He":
            self.sqC, self.isqC = sqrtm_spd(self.C)

    def decomposed(self, e):
        """Kelvin-Mandel vector of the tensor that the split decomposes spectrally (None: no
        spectral decomposition in this split)."""
        s = self.split
        if s in ("Bourdin", "Amor"):
            return None
        if s == "Miehe" or "Strain" in s:
            return e
        if s == "He":
            return self.sqC @ e
        return self.C @ e  # Stress, Zhang, AnisotStress*

    def evaluate(self, e, sp):
        """returns dict(sigP, psiP, cP, smooth) ; sigP / cP are None where the split's definition
        needs the projector at a point where <.>+ is not differentiable.  `sp` = Spectral of
        self.decomposed(e) (or None)."""
        s, C, S, I, IxI, Id = self.split, self.C, self.S, self.I, self.IxI, self.Id
        e = np.asarray(e, float)
        out = dict(sigP=None, psiP=None, cP=None, smooth=True)
        if s == "Bourdin":
            out.update(sigP=C @ e, psiP=0.5 * e @ C @ e, cP=C.copy())
            return out
        if s in ISO_ONLY:
            lam, mu, K, a, b = self.iso
        if s == "Amor":
            tr = float(I @ e)
            dev = e - tr / self.dim * I
            trp = max(tr, 0.0)
            nrm = float(np.max(np.abs(e)))
            smooth = nrm > 0 and abs(tr) > 1e-6 * nrm
            out.update(sigP=K * trp * I + 2 * mu * dev, psiP=0.5 * K * trp**2 + mu * dev @ dev, smooth=smooth)
            if smooth:
                out["cP"] = K * heav(tr) * IxI + 2 * mu * (Id - IxI / self.dim)
            return out
        P = sp.projector() if sp.smooth else None
        out["smooth"] = sp.smooth
        if s == "Miehe":
            trp = max(sp.tr, 0.0)
            out.update(sigP=lam * trp * I + 2 * mu * sp.pos, psiP=0.5 * lam * trp**2 + mu * sp.pos @ sp.pos)
            if sp.smooth and sp.tr_smooth:
                out["cP"] = lam * heav(sp.tr) * IxI + 2 * mu * P
            else:
                out["smooth"] = False
            return out
        if s == "Stress":
            trp = max(sp.tr, 0.0)
            out.update(sigP=C @ (a * sp.pos - b * trp * I), psiP=0.5 * (a * sp.pos @ sp.pos - b * trp**2))
            if sp.smooth and sp.tr_smooth:
                out["cP"] = C.T @ (a * P - b * heav(sp.tr) * IxI) @ C
            else:
                out["smooth"] = False
            return out
        if s == "Zhang":
            out.update(sigP=sp.pos.copy(), psiP=0.5 * sp.pos @ e)
            if sp.smooth:
                out["cP"] = P @ C
            return out
        if s == "He":
            out.update(sigP=self.sqC @ sp.pos, psiP=0.5 * sp.pos @ sp.pos)
            if sp.smooth:
                out["cP"] = self.sqC @ P @ self.sqC
            return out
        # Anisot* : A = metric of the energy in the decomposed variable (C for strain, S for stress)
        if "Strain" in s:
            A, J = C, Id  # decomposed variable x = e ; stress = J^T dpsi/dx with J = dx/de = Id
        else:
            A, J = S, C  # x = sigma = C e
        xp, xm = sp.pos, sp.neg
        pp, pm, mm = xp @ A @ xp, xp @ A @ xm, xm @ A @ xm
        kind = s.split("_", 1)[1] if "_" in s else "full"
        if kind == "full":
            out["psiP"] = 0.5 * (pp + 2 * pm)
        elif kind in ("PM", "MP"):
            out["psiP"] = 0.5 * (pp + pm)
        else:
            out["psiP"] = 0.5 * pp
        if kind == "MP":
            # (P+^T A P+ + P-^T A P+) x = A x+  : no projector needed
            out["sigP"] = J.T @ (A @ xp)
        if sp.smooth:
            Pm = Id - P
            App, Apm, Amp = P.T @ A @ P, P.T @ A @ Pm, Pm.T @ A @ P
            cx = dict(full=App + Apm + Amp, PM=App + Apm, MP=App + Amp, NoCross=App)[kind]
            # sigma+ = cP eps needs the projector itself for full/PM/NoCross: covered by the cP comparison
            # together with the consistency check Calc_Sigma_e_pg == Calc_C @ eps
            out["cP"] = J.T @ cx @ J
        return out
