"""C13 helpers: a grammar of weak forms as a JSON AST (Hypothesis strategies), its compilation to an
EasyFEA BiLinearForm / LinearForm closure written with the documented idioms, and an independent
interpreter (dense per-element quadrature with plain numpy einsum on the group's tabulated
N_pg, dN_e_pg, wJ_e_pg and Gauss coordinates; no FeArray, no Field).

AST (lists, JSON-able).  An expression X acts on ONE field w (trial u or test v):
  ["val", call]        value of w       (call: written `w()` / bare `w`, the Field operators)
  ["grad"]             w.grad           scalar field: (dim,) ; vector field: documented (dof_n, dim)
  ["sym"]              Sym_Grad(w)      (dof_n == dim)
  ["T", X]             X.T
  ["tr", X]            Trace(X)
  ["matR", X, A]       X @ A            A constant matrix
  ["matL", A, X]       FeArray.asfearray(A, broadcastFeArrays=True) @ X
  ["dotc", X, b]       X.dot(b)         b constant vector
  ["ddotc", X, A]      X.ddot(A)
  ["c4", X, seed]      X.ddot(C4)       C4 constant 4th-order tensor from default_rng(seed)
  ["treye", X]         X * np.eye(dim)  X scalar
  ["hooke", X, l, m]   2*m*X + l*Trace(X)*np.eye(dim)      (the documented elastic idiom)
term  = {"coef": {"a,b,c": value}, "u": X, "v": X, "con": contraction}   value of coef at the Gauss
        coordinates is sum value x^a y^b z^c ; con in mul | dot | matmul | ddot | trTab | traTb | trab
form  = {"terms": [term, ...]}   (linear forms: terms without "u", con = "mul")
Convention checked (documented loop order of Integrate_e): data[e, i, j] = form(u_i, v_j), local dof
index = node * dof_n + component.
"""

from __future__ import annotations

import numpy as np
from hypothesis import strategies as st

from EasyFEA.FEM import FeArray, Sym_Grad, Trace

from . import oracles as orc

# ------------------------------------------------------------------------------------------
# strategies


def _num(lo=-4, hi=4, den=2):
    return st.integers(lo, hi).map(lambda k: k / den)


@st.composite
def _mat(draw, r, c):
    A = [[draw(_num()) for _ in range(c)] for _ in range(r)]
    if not any(any(x != 0 for x in row) for row in A):
        A[0][0] = 1.0
    return A


@st.composite
def _vec(draw, k):
    b = [draw(_num()) for _ in range(k)]
    if not any(x != 0 for x in b):
        b[0] = 1.0
    return b


@st.composite
def coefs(draw):
    """constant (60 %) or polynomial of degree <= 2 of the Gauss coordinates"""
    c0 = draw(st.sampled_from([1.0, 0.5, 2.0, -1.5, 0.25, 3.0]))
    out = {"0,0,0": c0}
    if draw(st.integers(0, 4)) >= 3:
        deg = draw(st.integers(1, 2))
        for e in orc.monomials(3, deg):
            if sum(e) >= 1 and draw(st.integers(0, 2)) == 0:
                v = draw(_num(-3, 3))
                if v != 0:
                    out[",".join(map(str, e))] = v
    return out


@st.composite
def exprs(draw, typ, n, d, depth, allow_val=True):
    """expression of tensor type typ ("s" scalar, "v" vector, "m" matrix) on one field with dof_n = n on
    elements of dimension d (n == 1 or n == d)"""
    if n == 1:
        if typ == "s":
            if allow_val and draw(st.integers(0, 2)) > 0:
                return ["val", draw(st.booleans())]
            return ["dotc", draw(exprs("v", n, d, max(depth - 1, 0))), draw(_vec(d))]
        assert typ == "v"
        k = draw(st.integers(0, 3)) if depth > 0 else 0
        if k <= 1:
            return ["grad"]
        if k == 2:
            return ["matR", draw(exprs("v", n, d, depth - 1)), draw(_mat(d, d))]
        return ["matL", draw(_mat(d, d)), draw(exprs("v", n, d, depth - 1))]
    assert n == d
    if typ == "m":
        k = draw(st.integers(0, 9)) if depth > 0 else draw(st.integers(0, 1))
        if k == 0:
            return ["grad"]
        if k == 1:
            return ["sym"]
        if k == 2:
            return ["T", draw(exprs("m", n, d, depth - 1, allow_val))]
        if k == 3:
            return ["matR", draw(exprs("m", n, d, depth - 1, allow_val)), draw(_mat(d, d))]
        if k == 4:
            return ["matL", draw(_mat(d, d)), draw(exprs("m", n, d, depth - 1, allow_val))]
        if k == 5:
            return ["hooke", draw(exprs("m", n, d, depth - 1, allow_val)), draw(_num(0, 6)), draw(_num(1, 6))]
        if k == 6:
            return ["c4", draw(exprs("m", n, d, depth - 1, allow_val)), draw(st.integers(0, 99))]
        if k == 7:
            return ["treye", draw(exprs("s", n, d, depth - 1, allow_val))]
        return draw(st.sampled_from([["grad"], ["sym"]]))
    if typ == "v":
        k = draw(st.integers(1 if allow_val else 2, 4 if depth > 0 else 2))
        if k <= 1:
            return ["val", draw(st.booleans())]
        if k == 2:
            return ["dotc", draw(exprs("m", n, d, max(depth - 1, 0), allow_val)), draw(_vec(d))]
        if k == 3:
            return ["matR", draw(exprs("v", n, d, depth - 1, allow_val)), draw(_mat(d, d))]
        return ["matL", draw(_mat(d, d)), draw(exprs("v", n, d, depth - 1, allow_val))]
    assert typ == "s"
    k = draw(st.integers(0, 2))
    if k == 0:
        return ["tr", draw(exprs("m", n, d, max(depth - 1, 0), allow_val))]
    if k == 1:
        return ["ddotc", draw(exprs("m", n, d, max(depth - 1, 0), allow_val)), draw(_mat(d, d))]
    return ["dotc", draw(exprs("v", n, d, max(depth - 1, 0), allow_val)), draw(_vec(d))]


@st.composite
def bilinear_terms(draw, n, d, avoid_known=False):
    """one product coef(x) * T_u (.) T_v that type-checks to a scalar.  avoid_known: stay out of the classes
    listed in findings/C13.json by construction (used by the sub-checks that are not about them)."""
    coef = draw(coefs())
    if n > 1 and n != d:
        # rectangular gradient: only contractions that are meaningful whatever the layout
        kind = draw(st.sampled_from(["ddot", "trTab", "traTb"] + ([] if avoid_known else ["mass"])))
        if kind == "mass":
            return dict(coef=coef, u=["val", draw(st.booleans())], v=["val", draw(st.booleans())],
                        con=draw(st.sampled_from(["dot", "matmul"])))
        return dict(coef=coef, u=["grad"], v=["grad"], con=kind)
    depth = draw(st.integers(0, 2))
    if n == 1:
        typ = draw(st.sampled_from(["s", "v", "v"]))
    else:
        typ = draw(st.sampled_from(["s", "v", "m", "m", "m"]))
    allow_val = not (avoid_known and n > 1)
    if n == 1 and typ == "s" and avoid_known:
        both_val = draw(st.booleans())
        u = ["val", draw(st.booleans())] if both_val else draw(exprs("s", n, d, depth, allow_val=False))
        v = ["val", draw(st.booleans())] if both_val else draw(exprs("s", n, d, depth, allow_val=False))
    else:
        u = draw(exprs(typ, n, d, depth, allow_val))
        v = draw(exprs(typ, n, d, depth, allow_val))
    if typ == "s":
        con = "mul"
        if n == 1 and u[0] == "val" and v[0] == "val":
            con = draw(st.sampled_from(["dot", "matmul"] if avoid_known else ["dot", "dot", "matmul", "mul"]))
    elif typ == "v":
        con = draw(st.sampled_from(["dot", "matmul"]))
    else:
        con = draw(st.sampled_from(["ddot", "ddot", "trTab", "traTb", "trab"]))
    return dict(coef=coef, u=u, v=v, con=con)


@st.composite
def bilinear_forms(draw, n, d, avoid_known=False, max_terms=3):
    k = draw(st.integers(1, max_terms))
    return dict(terms=[draw(bilinear_terms(n, d, avoid_known)) for _ in range(k)])


@st.composite
def linear_terms(draw, n, d, runnable_only=False):
    coef = draw(coefs())
    if n == 1:
        if runnable_only or draw(st.integers(0, 3)) > 0:
            return dict(coef=coef, v=["val", draw(st.booleans())], con="mul")
        return dict(coef=coef, v=["dotc", draw(exprs("v", n, d, 1)), draw(_vec(d))], con="mul")
    if n != d:
        return dict(coef=coef, v=["dotc", ["val", draw(st.booleans())], draw(_vec(n))], con="mul")
    k = draw(st.integers(0, 2))
    if k == 0:
        return dict(coef=coef, v=["dotc", ["val", draw(st.booleans())], draw(_vec(n))], con="mul")
    return dict(coef=coef, v=draw(exprs("s", n, d, 1, allow_val=False)), con="mul")


@st.composite
def linear_forms(draw, n, d, runnable_only=False, max_terms=2):
    k = draw(st.integers(1, max_terms))
    return dict(terms=[draw(linear_terms(n, d, runnable_only)) for _ in range(k)])


# ------------------------------------------------------------------------------------------
# static analysis of a form


def _walk(X):
    yield X
    for a in X[1:]:
        if isinstance(a, list) and a and isinstance(a[0], str):
            yield from _walk(a)


def has_val(X) -> bool:
    return any(y[0] == "val" for y in _walk(X))


def depth_of(X) -> int:
    subs = [a for a in X[1:] if isinstance(a, list) and a and isinstance(a[0], str)]
    return 1 + max((depth_of(a) for a in subs), default=0) if X[0] not in ("val", "grad", "sym") else 0


def is_const(coef: dict) -> bool:
    return all(k == "0,0,0" or v == 0 for k, v in coef.items())


def classes(form: dict, n: int, bilinear: bool) -> set:
    """classes of findings/C13.json the form statically belongs to"""
    tags = set()
    lin_has_val_term = False
    for t in form["terms"]:
        facs = [t["u"], t["v"]] if bilinear else [t["v"]]
        if n > 1 and any(has_val(X) for X in facs):
            tags.add("vector_value")
        if bilinear:
            if n == 1 and t["con"] == "mul" and any(X[0] == "val" for X in facs):
                tags.add("bilinear_trailing1")
        elif n == 1 and t["v"][0] == "val":
            lin_has_val_term = True
    if not bilinear and not lin_has_val_term:
        tags.add("linear_scalar")
    return tags


def nontrivial(form: dict, n: int) -> bool:
    if n > 1 or len(form["terms"]) > 1:
        return True
    t = form["terms"][0]
    return (not is_const(t["coef"])) or any(depth_of(t[k]) > 0 for k in ("u", "v") if k in t)


def describe(X) -> str:
    tag = X[0]
    if tag == "val":
        return "w()" if X[1] else "w"
    if tag == "grad":
        return "w.grad"
    if tag == "sym":
        return "Sym_Grad(w)"
    if tag == "T":
        return f"({describe(X[1])}).T"
    if tag == "tr":
        return f"Trace({describe(X[1])})"
    if tag == "matR":
        return f"({describe(X[1])} @ A)"
    if tag == "matL":
        return f"(Afe @ {describe(X[2])})"
    if tag == "dotc":
        return f"{describe(X[1])}.dot(b)"
    if tag == "ddotc":
        return f"{describe(X[1])}.ddot(A)"
    if tag == "c4":
        return f"{describe(X[1])}.ddot(C4)"
    if tag == "treye":
        return f"({describe(X[1])} * eye)"
    if tag == "hooke":
        return f"hooke({describe(X[1])})"
    return tag


def describe_form(form, bilinear=True) -> str:
    out = []
    for t in form["terms"]:
        c = "c" if is_const(t["coef"]) else "c(x)"
        if bilinear:
            out.append(f"{c}*[{describe(t['u']).replace('w', 'u')} <{t['con']}> {describe(t['v']).replace('w', 'v')}]")
        else:
            out.append(f"{c}*{describe(t['v']).replace('w', 'v')}")
    return " + ".join(out)


# ------------------------------------------------------------------------------------------
# constants shared by both compilations


def c4_tensor(seed: int, d: int) -> np.ndarray:
    return np.round(np.random.default_rng(int(seed)).uniform(-2, 2, (d, d, d, d)) * 4) / 4


def km_to_c4(C: np.ndarray, dim: int) -> np.ndarray:
    """4th-order tensor of a Kelvin-Mandel matrix, documented order 2D [xx, yy, sqrt2 xy],
    3D [xx, yy, zz, sqrt2 yz, sqrt2 xz, sqrt2 xy]"""
    C = np.asarray(C, float)
    if dim == 2:
        idx = {(0, 0): 0, (1, 1): 1, (0, 1): 2, (1, 0): 2}
    else:
        idx = {(0, 0): 0, (1, 1): 1, (2, 2): 2, (1, 2): 3, (2, 1): 3, (0, 2): 4, (2, 0): 4, (0, 1): 5, (1, 0): 5}
    out = np.zeros((dim,) * 4)
    for (i, j), a in idx.items():
        fa = 1.0 if i == j else np.sqrt(2.0)
        for (k, l), b in idx.items():
            fb = 1.0 if k == l else np.sqrt(2.0)
            out[i, j, k, l] = C[a, b] / (fa * fb)
    return out


def coef_value(coef: dict, x, y, z):
    """constant -> python float (written `rho * ...` by the user); polynomial -> array like x"""
    if is_const(coef):
        return float(coef["0,0,0"])
    return orc.poly_eval(coef, x, y, z)


# ------------------------------------------------------------------------------------------
# compilation to EasyFEA closures (documented idioms only; FeArray / Field always on the left of a constant)


def compile_expr(X, d):
    tag = X[0]
    if tag == "val":
        return (lambda w: w()) if X[1] else (lambda w: w)
    if tag == "grad":
        return lambda w: w.grad
    if tag == "sym":
        return lambda w: Sym_Grad(w)
    if tag == "T":
        f = compile_expr(X[1], d)
        return lambda w: f(w).T
    if tag == "tr":
        f = compile_expr(X[1], d)
        return lambda w: Trace(f(w))
    if tag == "matR":
        f, A = compile_expr(X[1], d), np.array(X[2], float)
        return lambda w: f(w) @ A
    if tag == "matL":
        f, A = compile_expr(X[2], d), FeArray.asfearray(np.array(X[1], float), broadcastFeArrays=True)
        return lambda w: A @ f(w)
    if tag == "dotc":
        f, b = compile_expr(X[1], d), np.array(X[2], float)
        return lambda w: f(w).dot(b)
    if tag == "ddotc":
        f, A = compile_expr(X[1], d), np.array(X[2], float)
        return lambda w: f(w).ddot(A)
    if tag == "c4":
        f, C4 = compile_expr(X[1], d), c4_tensor(X[2], d)
        return lambda w: f(w).ddot(C4)
    if tag == "treye":
        f = compile_expr(X[1], d)
        return lambda w: f(w) * np.eye(d)
    if tag == "hooke":
        f, lam, mu = compile_expr(X[1], d), float(X[2]), float(X[3])

        def hooke(w):
            E = f(w)
            return 2 * mu * E + lam * Trace(E) * np.eye(d)

        return hooke
    raise KeyError(tag)


def _contract(con, a, b):
    if con == "mul":
        return a * b
    if con == "dot":
        return a.dot(b)
    if con == "matmul":
        return a @ b
    if con == "ddot":
        return a.ddot(b)
    if con == "trTab":
        return Trace(a.T @ b)
    if con == "traTb":
        return Trace(a @ b.T)
    if con == "trab":
        return Trace(a @ b)
    raise KeyError(con)


def compile_bilinear(form: dict, d: int):
    """python function (u, v) -> FeArray, to be wrapped in BiLinearForm"""
    parts = [(t["coef"], compile_expr(t["u"], d), compile_expr(t["v"], d), t["con"]) for t in form["terms"]]

    const = all(is_const(t["coef"]) for t in form["terms"])

    def a(u, v):
        x, y, z = (None, None, None) if const else u.Get_coords()
        tot = None
        for coef, fu, fv, con in parts:
            val = coef_value(coef, x, y, z) * _contract(con, fu(u), fv(v))
            tot = val if tot is None else tot + val
        return tot

    return a


def compile_linear(form: dict, d: int):
    parts = [(t["coef"], compile_expr(t["v"], d)) for t in form["terms"]]

    const = all(is_const(t["coef"]) for t in form["terms"])

    def l(v):
        x, y, z = (None, None, None) if const else v.Get_coords()
        tot = None
        for coef, fv in parts:
            val = coef_value(coef, x, y, z) * fv(v)
            tot = val if tot is None else tot + val
        return tot

    return l


# ------------------------------------------------------------------------------------------
# the independent interpreter


class Interp:
    """Evaluates forms by dense quadrature on the tabulated arrays of the group.
    Axes of every intermediate: (b, e, p, tensor...) with b = local dof = node * n + component."""

    def __init__(self, group, n: int, matrixType, layout: str = "doc"):
        self.n = n
        N = np.asarray(group.Get_N_pg(matrixType), float)
        self.N = N.reshape(N.shape[0], N.shape[-1])  # (nPg, nPe)
        self.dN = np.asarray(group.Get_dN_e_pg(matrixType), float)  # (Ne, nPg, d, nPe)
        self.wJ = np.asarray(group.Get_weightedJacobian_e_pg(matrixType), float)  # (Ne, nPg)
        self.xyz = np.asarray(group.Get_GaussCoordinates_e_pg(matrixType), float)  # (Ne, nPg, 3)
        self.Ne, self.nPg, self.d, self.nPe = self.dN.shape
        assert self.N.shape == (self.nPg, self.nPe) and self.wJ.shape == (self.Ne, self.nPg)
        self.nb = self.nPe * n
        self.layout = layout
        Ne, nPg, d, nPe, nb = self.Ne, self.nPg, self.d, self.nPe, self.nb
        if n == 1:
            self.V = np.broadcast_to(self.N.T[:, None, :], (nPe, Ne, nPg)).copy()
            self.G = np.moveaxis(self.dN, 3, 0).copy()  # (nPe, Ne, nPg, d)
        else:
            self.V = np.zeros((nb, Ne, nPg, n))
            G = np.zeros((nb, Ne, nPg, n, d))  # documented layout (dof_n, dim): G[c, k] = d w_c / d x_k
            for i in range(nPe):
                for c in range(n):
                    self.V[i * n + c, :, :, c] = self.N[None, :, i]
                    G[i * n + c, :, :, c, :] = self.dN[:, :, :, i]
            self.G = G if layout == "doc" else np.swapaxes(G, -1, -2).copy()
        self.Nmax = float(np.abs(self.N).max())
        self.dNmax = float(np.abs(self.dN).max())
        self.vol = float(np.abs(self.wJ).sum(axis=1).max())

    # -- expressions ---------------------------------------------------------------------
    def ev(self, X):
        tag = X[0]
        d = self.d
        if tag == "val":
            return self.V
        if tag == "grad":
            return self.G
        if tag == "sym":
            return 0.5 * (self.G + np.swapaxes(self.G, -1, -2))
        if tag == "T":
            return np.swapaxes(self.ev(X[1]), -1, -2)
        if tag == "tr":
            return np.einsum("bepii->bep", self.ev(X[1]))
        if tag == "matR":
            x, A = self.ev(X[1]), np.array(X[2], float)
            return np.einsum("bepi,ij->bepj", x, A) if x.ndim == 4 else np.einsum("bepij,jk->bepik", x, A)
        if tag == "matL":
            x, A = self.ev(X[2]), np.array(X[1], float)
            return np.einsum("ij,bepj->bepi", A, x) if x.ndim == 4 else np.einsum("ij,bepjk->bepik", A, x)
        if tag == "dotc":
            x, b = self.ev(X[1]), np.array(X[2], float)
            return np.einsum("bepi,i->bep", x, b) if x.ndim == 4 else np.einsum("bepij,j->bepi", x, b)
        if tag == "ddotc":
            return np.einsum("bepij,ij->bep", self.ev(X[1]), np.array(X[2], float))
        if tag == "c4":
            return np.einsum("bepij,ijkl->bepkl", self.ev(X[1]), c4_tensor(X[2], d))
        if tag == "treye":
            return self.ev(X[1])[..., None, None] * np.eye(d)
        if tag == "hooke":
            x = self.ev(X[1])
            return 2 * float(X[3]) * x + float(X[2]) * np.einsum("bepii->bep", x)[..., None, None] * np.eye(d)
        raise KeyError(tag)

    def bound(self, X) -> float:
        """upper bound of the magnitude of the expression (natural scale of the inputs)"""
        tag = X[0]
        d = self.d
        if tag == "val":
            return self.Nmax
        if tag in ("grad", "sym"):
            return self.dNmax
        if tag == "T":
            return self.bound(X[1])
        if tag == "tr":
            return d * self.bound(X[1])
        if tag in ("matR", "dotc", "ddotc"):
            return self.bound(X[1]) * float(np.abs(np.array(X[2], float)).sum())
        if tag == "matL":
            return self.bound(X[2]) * float(np.abs(np.array(X[1], float)).sum())
        if tag == "c4":
            return self.bound(X[1]) * float(np.abs(c4_tensor(X[2], d)).sum())
        if tag == "treye":
            return self.bound(X[1])
        if tag == "hooke":
            return self.bound(X[1]) * (2 * abs(float(X[3])) + d * abs(float(X[2])))
        raise KeyError(tag)

    def coef(self, coef: dict):
        x, y, z = self.xyz[..., 0], self.xyz[..., 1], self.xyz[..., 2]
        return np.asarray(orc.poly_eval(coef, x, y, z), float)

    def coef_bound(self, coef: dict) -> float:
        x, y, z = np.abs(self.xyz[..., 0]), np.abs(self.xyz[..., 1]), np.abs(self.xyz[..., 2])
        return float(np.max(orc.poly_eval({k: abs(v) for k, v in coef.items()}, x, y, z)))

    # -- forms ---------------------------------------------------------------------------
    def bilinear(self, form: dict):
        """(data (Ne, nb, nb) with data[e, a, b] = form(u_a, v_b), scale)"""
        data = np.zeros((self.Ne, self.nb, self.nb))
        scale = 0.0
        for t in form["terms"]:
            w = self.coef(t["coef"]) * self.wJ
            U, V = self.ev(t["u"]), self.ev(t["v"])
            assert U.ndim == V.ndim, "ill-typed term"
            if U.ndim == 3:
                data += np.einsum("aep,bep,ep->eab", U, V, w)
                mult = 1
            elif U.ndim == 4:
                data += np.einsum("aepi,bepi,ep->eab", U, V, w)
                mult = U.shape[-1]
            elif t["con"] == "trab":
                data += np.einsum("aepij,bepji,ep->eab", U, V, w)
                mult = U.shape[-1] * U.shape[-2]
            else:  # ddot, Trace(U.T @ V), Trace(U @ V.T)
                data += np.einsum("aepij,bepij,ep->eab", U, V, w)
                mult = U.shape[-1] * U.shape[-2]
            scale += self.coef_bound(t["coef"]) * self.vol * self.bound(t["u"]) * self.bound(t["v"]) * mult
        return data, scale

    def linear(self, form: dict):
        """(data (Ne, nb, 1), scale)"""
        data = np.zeros((self.Ne, self.nb))
        scale = 0.0
        for t in form["terms"]:
            w = self.coef(t["coef"]) * self.wJ
            V = self.ev(t["v"])
            assert V.ndim == 3, "ill-typed linear term"
            data += np.einsum("bep,ep->eb", V, w)
            scale += self.coef_bound(t["coef"]) * self.vol * self.bound(t["v"])
        return data[:, :, None], scale
