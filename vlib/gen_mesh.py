"""Mesh recipes (JSON-able) -> EasyFEA Mesh through the documented Mesher entry points.

recipe = {
  "verts":  [[x,y],...]   polygon vertices (counter-clockwise, star-shaped around their mean)
  "h":      meshSize
  "elemType": "TRI3" ... "PRISM18" | "SEG2".. (1D: polyline through verts, may carry z)
  "organised": bool          (transfinite when the contour has 3/4 sides)
  "extrude": [dx,dy,dz] | None, "layers": int        (3D)
  "A": [[...]] | None , "b": [...]                   affine image applied to the coordinates
  "perm": int | None                                 node renumbering seed
  "orphans": int                                     orphan nodes appended
}
"""

from __future__ import annotations

import functools
import json

import numpy as np
from hypothesis import strategies as st

from EasyFEA import ElemType, MatrixType, Mesh, Mesher
from EasyFEA.FEM._group_elem import GroupElemFactory
from EasyFEA.Geoms import Line, Point, Points

from .runner import Inconclusive

SEG = ["SEG2", "SEG3", "SEG4", "SEG5"]
T2D = ["TRI3", "TRI6", "TRI10", "TRI15", "QUAD4", "QUAD8", "QUAD9"]
T3D = ["TETRA4", "TETRA10", "HEXA8", "HEXA20", "HEXA27", "PRISM6", "PRISM15", "PRISM18"]
ORDER = dict(SEG2=1, SEG3=2, SEG4=3, SEG5=4, TRI3=1, TRI6=2, TRI10=3, TRI15=4, QUAD4=1, QUAD8=2,
             QUAD9=2, TETRA4=1, TETRA10=2, HEXA8=1, HEXA20=2, HEXA27=2, PRISM6=1, PRISM15=2, PRISM18=2)


def dim_of(elemType: str) -> int:
    return 1 if elemType in SEG else 2 if elemType in T2D else 3


# ------------------------------------------------------------------------------------------
# strategies


@st.composite
def polygons(draw, nmin=3, nmax=6):
    """star-shaped polygon, counter-clockwise, vertices on a coarse grid so cases shrink well"""
    n = draw(st.integers(nmin, nmax))
    rad = [draw(st.integers(7, 14)) / 10.0 for _ in range(n)]
    jit = [draw(st.integers(-2, 2)) / 10.0 for _ in range(n)]
    phase = draw(st.integers(0, 7)) / 8.0
    cx = draw(st.integers(-3, 3)) / 2.0
    cy = draw(st.integers(-3, 3)) / 2.0
    verts = []
    for i in range(n):
        a = 2 * np.pi * (i + phase + jit[i] * (0.8 if n > 3 else 0.4)) / n
        verts.append([round(float(cx + rad[i] * np.cos(a)), 6), round(float(cy + rad[i] * np.sin(a)), 6)])
    return verts


@st.composite
def affine(draw, dim, allow_reflection=True):
    """x -> A x + b, cond(A) moderate; entries on a grid"""
    if draw(st.integers(0, 3)) == 0:
        return None, None
    for _ in range(20):
        A = [[draw(st.integers(-8, 8)) / 4.0 for _ in range(dim)] for _ in range(dim)]
        An = np.array(A)
        d = np.linalg.det(An)
        if abs(d) < 0.3:
            continue
        if not allow_reflection and d < 0:
            continue
        if np.linalg.cond(An) > 12:
            continue
        b = [draw(st.integers(-4, 4)) / 2.0 for _ in range(dim)]
        # length unit of the model (mm, m, km, micrometres): a uniform scale on top of the map
        unit = draw(st.sampled_from([1.0, 1.0, 1.0, 1.0, 1e-3, 1e3, 1e-6]))
        if unit != 1.0:
            A = [[a * unit for a in row] for row in A]
            b = [v * unit for v in b]
        return A, b
    return None, None


@st.composite
def recipes2d(draw, types=T2D, affine_ok=True, perm_ok=True, reflection=True, hmin=4, hmax=9,
              nmax=6, bend_ok=False):
    et = draw(st.sampled_from(types))
    verts = draw(polygons(3, nmax))
    organised = draw(st.booleans()) if len(verts) in (3, 4) else False
    # coarser for high order (cost), finer allowed for low order
    o = ORDER[et]
    h = draw(st.integers(hmin, hmax)) / 10.0 * (1.0 if o <= 2 else 1.6)
    A, b = draw(affine(2, reflection)) if affine_ok else (None, None)
    perm = draw(st.one_of(st.none(), st.integers(0, 999))) if perm_ok else None
    r = dict(verts=verts, h=round(h, 3), elemType=et, organised=organised, extrude=None, layers=0,
             A=A, b=b, perm=perm, orphans=0)
    if bend_ok and draw(st.integers(0, 2)) == 0:
        # curved mesh: every node moved by a smooth quadratic map (second-order and higher elements get curved sides, as on a
        # disc or around a hole). NOT supported by exact_integral / c09 Geometry: only for checks that do not need them
        r["bend"] = draw(st.sampled_from([-0.12, 0.08, 0.15]))
    return r


@st.composite
def recipes3d(draw, types=T3D, affine_ok=True, perm_ok=True, reflection=True, nmax=5, taper_ok=False, bend_ok=False):
    et = draw(st.sampled_from(types))
    verts = draw(polygons(3, nmax))
    organised = draw(st.booleans()) if len(verts) in (3, 4) else False
    if et.startswith("HEXA") and len(verts) not in (3, 4):
        verts = verts[:4]
    if et.startswith("HEXA"):
        organised = True if len(verts) == 4 else organised
    o = ORDER[et]
    h = draw(st.integers(6, 12)) / 10.0 * (1.0 if o == 1 else 1.2)
    ex = [draw(st.integers(-2, 2)) / 4.0, draw(st.integers(-2, 2)) / 4.0, draw(st.integers(2, 6)) / 4.0]
    layers = draw(st.integers(1, 2 if o == 1 else 1))
    A, b = draw(affine(3, reflection)) if affine_ok else (None, None)
    perm = draw(st.one_of(st.none(), st.integers(0, 999))) if perm_ok else None
    r = dict(verts=verts, h=round(h, 3), elemType=et, organised=organised, extrude=ex, layers=layers,
             A=A, b=b, perm=perm, orphans=0)
    if taper_ok and et.startswith(("PRISM", "HEXA")) and draw(st.integers(0, 1)) == 0:
        # frustum: every cross-section scaled by (1 + taper * t) about the (moving) centroid, t in [0, 1] along the extrusion.
        # Straight edges and planar faces are kept (the edges of wedges and bricks are either in a cross-section or along the
        # extrusion; the diagonal edges of tetrahedra would become curved, hence PRISM / HEXA only), but the elements are no
        # longer translates of their base:
        # NOT supported by exact_integral / c09 Geometry, only for checks that do not need them
        r["taper"] = draw(st.sampled_from([-0.4, 0.25, 0.6]))
    elif bend_ok and draw(st.integers(0, 2)) == 0:
        r["bend"] = draw(st.sampled_from([-0.12, 0.08, 0.15]))  # see recipes2d
    return r


@st.composite
def recipes1d(draw, types=SEG, embed=3):
    """straight segment (possibly inclined in 2D/3D) meshed with n elements"""
    et = draw(st.sampled_from(types))
    p1 = [draw(st.integers(-4, 4)) / 2.0 for _ in range(embed)] + [0.0] * (3 - embed)
    for _ in range(20):
        d = [draw(st.integers(-6, 6)) / 2.0 for _ in range(embed)] + [0.0] * (3 - embed)
        if np.linalg.norm(d) > 0.4:
            break
    else:
        d = [1.5, 0.0, 0.0]
    if draw(st.integers(0, 3)) == 0:
        # a bar lying on the x axis (the mesh is then one-dimensional in a one-dimensional space), drawn in either direction
        p1 = [p1[0], 0.0, 0.0]
        d = [draw(st.sampled_from([-2.5, -1.0, 1.5, 3.0])), 0.0, 0.0]
    ne = draw(st.integers(2, 5))
    perm = draw(st.one_of(st.none(), st.integers(0, 999)))
    return dict(p1=p1, d=d, ne=ne, elemType=et, perm=perm)


# ------------------------------------------------------------------------------------------
# building


def _hash(obj) -> str:
    return json.dumps(obj, sort_keys=True)


@functools.lru_cache(maxsize=256)
def _gmsh_mesh(key: str) -> Mesh:
    r = json.loads(key)
    et = ElemType(r["elemType"])
    try:
        if "p1" in r:
            p1 = np.array(r["p1"], float)
            p2 = p1 + np.array(r["d"], float)
            L = float(np.linalg.norm(p2 - p1))
            line = Line(Point(*p1), Point(*p2), L / r["ne"])
            return Mesher().Mesh_1D([line], et)
        contour = Points([Point(x, y) for x, y in r["verts"]], r["h"])
        if r.get("extrude"):
            layers = [int(r["layers"])] if r.get("layers") else []
            return Mesher().Mesh_Extrude(contour, [], r["extrude"], layers, et,
                                         isOrganised=bool(r["organised"]))
        return Mesher().Mesh_2D(contour, [], et, isOrganised=bool(r["organised"]))
    except (AssertionError, Exception) as e:  # gmsh refused the recipe
        raise Inconclusive(f"gmsh: {type(e).__name__}")


def rebuild(mesh: Mesh, coord: np.ndarray, perm: np.ndarray | None = None, copy_tags=True) -> Mesh:
    """new Mesh object with the given coordinate table (N,3) and node permutation
    (new index of old node i = perm[i]); all groups and tags are carried over."""
    Nn = mesh.Nn
    extra = coord.shape[0] - Nn
    if perm is None:
        perm = np.arange(coord.shape[0])
    newc = np.zeros_like(coord, dtype=float)
    newc[perm] = coord
    d = {}
    for et, g in mesh.dict_groupElem.items():
        conn = perm[g.connect]
        ng = GroupElemFactory.Create(et, conn, newc)
        if copy_tags:
            for tag in g.nodeTags:
                nodes = g.Get_Nodes_Tag(tag)
                ng.Set_Tag(perm[nodes], tag)
        d[et] = ng
    return Mesh(d)


def length_unit(recipe: dict) -> float:
    """power of ten nearest to the mean stretch of the affine map of the recipe (1 when there is none)"""
    A = recipe.get("A")
    if A is None:
        return 1.0
    sv = np.linalg.svd(np.array(A, float), compute_uv=False)
    return float(10.0 ** np.round(np.log10(np.exp(np.mean(np.log(sv))))))


def build(recipe: dict) -> Mesh:
    base = {k: recipe[k] for k in recipe if k not in ("A", "b", "perm", "orphans", "taper", "bend")}
    mesh = _gmsh_mesh(_hash(base))
    A, b, perm, orph = recipe.get("A"), recipe.get("b"), recipe.get("perm"), recipe.get("orphans", 0)
    taper, bend = recipe.get("taper"), recipe.get("bend")
    if A is None and perm is None and not orph and not taper and not bend:
        return mesh.copy()
    coord = np.array(mesh.coord, float)
    if bend:
        x, y, z = coord[:, 0].copy(), coord[:, 1].copy(), coord[:, 2].copy()
        coord[:, 0] = x + float(bend) * (y * y - 0.5 * z * z)
        coord[:, 1] = y + float(bend) * (0.5 * x * x - x * y)
        if recipe.get("extrude"):
            coord[:, 2] = z + float(bend) * (x * y + 0.5 * y * z)
    if taper:
        e = np.array(recipe["extrude"], float)
        t = coord[:, 2] / e[2]
        c0 = np.array(list(np.mean(np.array(recipe["verts"], float), axis=0)) + [0.0])
        ct = c0[None, :] + t[:, None] * e[None, :]
        coord = ct + (1.0 + float(taper) * t)[:, None] * (coord - ct)
    if A is not None:
        A3 = np.eye(3)
        An = np.array(A, float)
        A3[: An.shape[0], : An.shape[1]] = An
        b3 = np.zeros(3)
        b3[: len(b)] = b
        coord = coord @ A3.T + b3
    if orph:
        c = coord.mean(axis=0)
        extra = c + np.arange(1, orph + 1)[:, None] * np.array([0.013, 0.007, 0.0])
        coord = np.vstack([coord, extra])
    p = None
    if perm is not None:
        p = np.random.default_rng(int(perm)).permutation(coord.shape[0])
    return rebuild(mesh, coord, p)


def main_groups(mesh: Mesh):
    return mesh.Get_list_groupElem(mesh.dim)


def warm_queries(mesh: Mesh, k: int) -> None:
    """read-only public queries made on a mesh before it is used (k selects which, 0 = none): whatever they leave behind in the
    library (cached Jacobians, mappings, ...) must not change anything that is computed afterwards"""
    k = int(k or 0)
    if not k:
        return
    X = np.asarray(mesh.coord, float)
    groups = main_groups(mesh)
    if k & 1:
        # a nodal field evaluated at interior points (centroids of the first elements), the first thing a user plotting along a line does
        pts = np.array([X[np.asarray(g.connect)[e]].mean(axis=0) for g in groups for e in range(min(g.Ne, 3))])
        mesh.Evaluate_dofsValues_at_coordinates(pts, X[:, 0].copy())
    if k & 2:
        _ = mesh.center
        for g in groups:
            _ = g.Integrate_e(lambda x, y, z: 1.0 + 0 * x)
    if k & 4:
        for g in mesh.Get_list_groupElem(mesh.dim - 1) if mesh.dim > 1 else []:
            _ = g.Get_normals_e_pg(MatrixType.mass) if g.Ne else None


def min_node_spacing(mesh: Mesh) -> float:
    """smallest distance between two distinct nodes of one main-dimension element (harness arithmetic on the
    coordinate table and the connectivity only)"""
    coord = np.asarray(mesh.coord, float)
    h = np.inf
    for g in main_groups(mesh):
        xe = coord[np.asarray(g.connect)]  # (Ne, nPe, 3)
        d = np.linalg.norm(xe[:, :, None, :] - xe[:, None, :, :], axis=-1)
        d = d[d > 0]
        if d.size:
            h = min(h, float(d.min()))
    return float(h)


def mesh_types(mesh: Mesh) -> str:
    return "+".join(sorted(str(g.elemType) for g in main_groups(mesh)))


def boundary_nodes(mesh: Mesh) -> np.ndarray:
    """nodes of the (dim-1) groups = boundary of the domain for gmsh-built meshes"""
    nodes = set()
    for g in mesh.Get_list_groupElem(mesh.dim - 1):
        nodes.update(np.asarray(g.nodes).tolist())
    return np.array(sorted(nodes), dtype=int)


def used_nodes(mesh: Mesh) -> np.ndarray:
    nodes = set()
    for g in main_groups(mesh):
        nodes.update(np.asarray(g.nodes).tolist())
    return np.array(sorted(nodes), dtype=int)


def is_connected(mesh: Mesh) -> bool:
    import scipy.sparse as sp
    from scipy.sparse.csgraph import connected_components

    rows, cols = [], []
    for g in main_groups(mesh):
        c = g.connect
        for j in range(1, c.shape[1]):
            rows.append(c[:, 0])
            cols.append(c[:, j])
    rows = np.concatenate(rows)
    cols = np.concatenate(cols)
    N = mesh.Nn
    G = sp.coo_matrix((np.ones(rows.size), (rows, cols)), shape=(N, N))
    n, lab = connected_components(G, directed=False)
    used = used_nodes(mesh)
    return len(set(lab[used].tolist())) == 1


# ------------------------------------------------------------------------------------------
# exact geometry of a recipe (independent of EasyFEA)


def transformed_domain(recipe):
    """returns (verts2d, extrude3|None, A3, b3) with the affine map to apply afterwards"""
    A, b = recipe.get("A"), recipe.get("b")
    A3 = np.eye(3)
    b3 = np.zeros(3)
    if A is not None:
        An = np.array(A, float)
        A3[: An.shape[0], : An.shape[1]] = An
        b3[: len(b)] = b
    return np.array(recipe["verts"], float), recipe.get("extrude"), A3, b3


def exact_integral(recipe, f, deg: int) -> float:
    """integral over the recipe's domain (after the affine map) of f(x,y,z) (vectorised),
    exact for polynomials of total degree <= deg.  Fan triangulation + Duffy/Gauss-Legendre;
    extrusion direction by Gauss-Legendre."""
    assert not recipe.get("taper") and not recipe.get("bend"), "exact_integral does not handle tapered / curved recipes"
    verts, ex, A3, b3 = transformed_domain(recipe)
    n = deg // 2 + 2
    xg, wg = np.polynomial.legendre.leggauss(n)
    xg = (xg + 1) / 2
    wg = wg / 2
    detA = abs(np.linalg.det(A3)) if ex else abs(np.linalg.det(A3[:2, :2]))
    total = 0.0
    v0 = verts[0]
    for i in range(1, len(verts) - 1):
        v1, v2 = verts[i], verts[i + 1]
        J = (v1[0] - v0[0]) * (v2[1] - v0[1]) - (v1[1] - v0[1]) * (v2[0] - v0[0])  # signed 2*area
        # Duffy: (u, v) in unit square -> (s, t) = (u, v(1-u)), jac (1-u)
        U, V = np.meshgrid(xg, xg, indexing="ij")
        WU, WV = np.meshgrid(wg, wg, indexing="ij")
        S = U
        T = V * (1 - U)
        W = WU * WV * (1 - U)
        X = v0[0] + S * (v1[0] - v0[0]) + T * (v2[0] - v0[0])
        Y = v0[1] + S * (v1[1] - v0[1]) + T * (v2[1] - v0[1])
        if ex:
            e = np.array(ex, float)
            for tq, wq in zip(xg, wg):
                P = np.stack([X + tq * e[0], Y + tq * e[1], np.zeros_like(X) + tq * e[2]], -1)
                Q = P @ A3.T + b3
                total += wq * e[2] * J * np.sum(W * f(Q[..., 0], Q[..., 1], Q[..., 2]))
        else:
            P = np.stack([X, Y, np.zeros_like(X)], -1)
            Q = P @ A3.T + b3
            total += J * np.sum(W * f(Q[..., 0], Q[..., 1], Q[..., 2]))
    return float(total * detA) * (1.0 if True else 0.0)


def exact_measure(recipe) -> float:
    return abs(exact_integral(recipe, lambda x, y, z: np.ones_like(x), 0))


# ------------------------------------------------------------------------------------------
# deliberately mixed meshes: two adjacent organised blocks meshed with different element types and merged


MIX2D = [("TRI3", "QUAD4"), ("TRI6", "QUAD8"), ("TRI6", "QUAD9"), ("QUAD8", "QUAD9")]
MIX3D = [("PRISM6", "HEXA8"), ("PRISM15", "HEXA20"), ("PRISM18", "HEXA27")]


@st.composite
def merged_recipes(draw, dim=2):
    """two rectangles [0,a]x[0,c] and [a,a+b]x[0,c] (extruded by (0,0,e) in 3D) meshed organised with the same
    division along the interface, different element types on each side; optional affine image / renumbering"""
    pair = draw(st.sampled_from(MIX2D if dim == 2 else MIX3D))
    a = draw(st.integers(2, 4)) / 2.0
    b = draw(st.integers(2, 4)) / 2.0
    c = draw(st.integers(2, 4)) / 2.0
    n = draw(st.integers(1, 2))  # divisions along the interface
    e = draw(st.integers(2, 4)) / 4.0
    A, bb = draw(affine(dim, True))
    perm = draw(st.one_of(st.none(), st.integers(0, 999)))
    return dict(merged=True, pair=list(pair), a=a, b=b, c=c, n=n, e=e if dim == 3 else None, dim=dim, A=A, b_aff=bb, perm=perm,
                elemType="+".join(pair))


@functools.lru_cache(maxsize=64)
def _merged_mesh(key: str) -> Mesh:
    from EasyFEA.Geoms import Domain

    r = json.loads(key)
    a, b, c, n = r["a"], r["b"], r["c"], r["n"]
    h = c / n
    meshes = []
    try:
        for (x0, x1), et in zip(((0.0, a), (a, a + b)), r["pair"]):
            dom = Domain(Point(x0, 0.0), Point(x1, c), h)
            if r["dim"] == 2:
                meshes.append(Mesher().Mesh_2D(dom, [], ElemType(et), isOrganised=True))
            else:
                meshes.append(Mesher().Mesh_Extrude(dom, [], [0, 0, r["e"]], [2], ElemType(et), isOrganised=True))
        mesh = Mesh.Merge(meshes)
    except (AssertionError, Exception) as ex:
        raise Inconclusive(f"merge: {type(ex).__name__}")
    return mesh


def build_merged(recipe: dict) -> Mesh:
    base = {k: recipe[k] for k in ("pair", "a", "b", "c", "n", "e", "dim")}
    mesh = _merged_mesh(_hash(base))
    coord = np.array(mesh.coord, float)
    A, b = recipe.get("A"), recipe.get("b_aff")
    if A is not None:
        A3 = np.eye(3)
        An = np.array(A, float)
        A3[: An.shape[0], : An.shape[1]] = An
        b3 = np.zeros(3)
        b3[: len(b)] = b
        coord = coord @ A3.T + b3
    p = None
    if recipe.get("perm") is not None:
        p = np.random.default_rng(int(recipe["perm"])).permutation(coord.shape[0])
    if A is None and p is None:
        return mesh.copy()
    return rebuild(mesh, coord, p)


def merged_boundary_nodes(mesh: Mesh, recipe: dict) -> np.ndarray:
    """boundary nodes of a merged mesh from the geometry (the merged (dim-1) groups also contain the interface)"""
    a, b, c, e = recipe["a"], recipe["b"], recipe["c"], recipe.get("e")
    # undo the affine map to test in the base frame
    coord = np.array(mesh.coord, float)
    A, bb = recipe.get("A"), recipe.get("b_aff")
    if A is not None:
        A3 = np.eye(3)
        An = np.array(A, float)
        A3[: An.shape[0], : An.shape[1]] = An
        b3 = np.zeros(3)
        b3[: len(bb)] = bb
        coord = (coord - b3) @ np.linalg.inv(A3).T
    tol = 1e-9
    on = (np.abs(coord[:, 0]) < tol) | (np.abs(coord[:, 0] - (a + b)) < tol) | (np.abs(coord[:, 1]) < tol) | (np.abs(coord[:, 1] - c) < tol)
    if e is not None:
        on |= (np.abs(coord[:, 2]) < tol) | (np.abs(coord[:, 2] - e) < tol)
    used = used_nodes(mesh)
    return used[on[used]]


def build_any(recipe: dict) -> Mesh:
    return build_merged(recipe) if recipe.get("merged") else build(recipe)


def boundary_any(mesh: Mesh, recipe: dict) -> np.ndarray:
    return merged_boundary_nodes(mesh, recipe) if recipe.get("merged") else boundary_nodes(mesh)


def dim_any(recipe: dict) -> int:
    return recipe["dim"] if recipe.get("merged") else dim_of(recipe["elemType"])
