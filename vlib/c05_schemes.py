"""C05 oracle: harness transcription of the *documented* time-scheme definitions.

Nothing here imports the code under test.  Every formula is copied from a docstring:

* newmark       AlgoType.newmark (Solvers.py): predictor u~ = u_n + dt v_n + dt^2/2 (1-2 beta) a_n,
                a_{n+1} = (u_{n+1} - u~)/(beta dt^2), v_{n+1} = v_n + dt[(1-gamma) a_n + gamma a_{n+1}];
                evaluation point: Solver_Set_Hyperbolic_Algorithm docstring, K u^{n+1} + C v^{n+1} + M a^{n+1} = F^{n+1}.
* hht           AlgoType.hht: x^t = (1-alpha) x^{n+1} + alpha x^n for x in (u, v, a); "Update: identical to newmark".
* midpoint      AlgoType.midpoint: v_{n+1} = 2/dt (u_{n+1}-u_n) - v_n, a_{n+1} = 2/dt (v_{n+1}-v_n) - a_n;
                "hht with alpha=1/2, beta=1/4, gamma=1/2" -> evaluation states are the n / n+1 averages.
* hht_newmark   AlgoType.hht_newmark: u^t = (1-alpha) u^{n+1} + alpha u^n, v^t = v^{n+1}, a^t = a^{n+1},
                beta = (1+alpha)^2/4, gamma = 1/2 + alpha, "alpha = 0 recovers newmark exactly" -> newmark update.
* euler_implicit AlgoType.euler_implicit: u^t = u^{n+1}, v^t = (u^{n+1}-u^n)/dt, a^t = (v^t - v^n)/dt
                (the returned v_{n+1}, a_{n+1} are these evaluation states).
* euler_explicit AlgoType.euler_explicit: M a^n = F^n - C v^n - K u^n, u^{n+1} = u^n + dt v^n, v^{n+1} = v^n + dt a^n
                (the solve variable a^n is what the step returns as acceleration).
* parabolic     Solver_Set_Parabolic_Algorithm docstring: K u^{n+1} + C v^{n+1} = F^{n+1} with
                u^{n+1} = u^n + dt v^{n+alpha}, v^{n+alpha} = (1-alpha) v^n + alpha v^{n+1} (Hughes 1987 ch. 8,
                the reference the code cites).
"""

from __future__ import annotations

import numpy as np

HYPERBOLIC = ("newmark", "hht", "hht_newmark", "midpoint", "euler_implicit", "euler_explicit")
ALGOS = HYPERBOLIC + ("parabolic",)


def effective_params(algo: str, dt: float, alpha: float, beta: float, gamma: float):
    """(dt, beta, gamma, alpha) the documentation says the scheme works with."""
    if algo == "hht_newmark":
        return dt, 0.25 * (1.0 + alpha) ** 2, 0.5 + alpha, alpha
    if algo == "midpoint":
        return dt, 0.25, 0.5, 0.5
    if algo == "newmark":
        return dt, beta, gamma, 0.0
    return dt, beta, gamma, alpha


def update_defects(algo, prm, u_n, v_n, a_n, u1, v1, a1):
    """Documented update relations in multiplied-out form.  Returns a list of
    (name, defect_vector, natural_scale): every relation is written so that no division by a scheme
    parameter is needed; the scale is the largest magnitude among the terms that enter it."""
    dt, beta, gamma, alpha = prm
    mx = lambda *xs: float(max(np.abs(np.asarray(x)).max() if np.size(x) else 0.0 for x in xs))  # noqa: E731
    out = []
    if algo in ("newmark", "hht", "hht_newmark"):
        ut = u_n + dt * v_n + dt**2 / 2 * (1 - 2 * beta) * a_n
        out.append(("update_a", beta * dt**2 * a1 - (u1 - ut),
                    mx(beta * dt**2 * a1, u1, u_n, dt * v_n, dt**2 / 2 * (1 - 2 * beta) * a_n)))
        out.append(("update_v", v1 - (v_n + dt * ((1 - gamma) * a_n + gamma * a1)),
                    mx(v1, v_n, dt * (1 - gamma) * a_n, dt * gamma * a1)))
    elif algo == "midpoint":
        out.append(("update_v", dt * (v1 + v_n) - 2 * (u1 - u_n), mx(dt * v1, dt * v_n, 2 * u1, 2 * u_n)))
        out.append(("update_a", dt * (a1 + a_n) - 2 * (v1 - v_n), mx(dt * a1, dt * a_n, 2 * v1, 2 * v_n)))
    elif algo == "euler_implicit":
        out.append(("update_v", dt * v1 - (u1 - u_n), mx(dt * v1, u1, u_n)))
        out.append(("update_a", dt * a1 - (v1 - v_n), mx(dt * a1, v1, v_n)))
    elif algo == "euler_explicit":
        out.append(("update_u", u1 - (u_n + dt * v_n), mx(u1, u_n, dt * v_n)))
        out.append(("update_v", v1 - (v_n + dt * a1), mx(v1, v_n, dt * a1)))
    elif algo == "parabolic":
        out.append(("update_v", u1 - u_n - dt * ((1 - alpha) * v_n + alpha * v1),
                    mx(u1, u_n, dt * (1 - alpha) * v_n, dt * alpha * v1)))
    else:
        raise ValueError(algo)
    return out


def solve_updates(algo, prm, u_n, v_n, a_n, u1):
    """v_{n+1}, a_{n+1} the documented update gives for a new displacement u1 (explicit form; used where
    the harness has to *produce* the states: evaluation-point transcription as a function of u_{n+1})."""
    dt, beta, gamma, alpha = prm
    if algo in ("newmark", "hht", "hht_newmark"):
        ut = u_n + dt * v_n + dt**2 / 2 * (1 - 2 * beta) * a_n
        a1 = (u1 - ut) / (beta * dt**2)
        v1 = v_n + dt * ((1 - gamma) * a_n + gamma * a1)
    elif algo == "midpoint":
        v1 = 2 / dt * (u1 - u_n) - v_n
        a1 = 2 / dt * (v1 - v_n) - a_n
    elif algo == "euler_implicit":
        v1 = (u1 - u_n) / dt
        a1 = (v1 - v_n) / dt
    elif algo == "parabolic":
        v1 = ((u1 - u_n) / dt - (1 - alpha) * v_n) / alpha
        a1 = None
    else:
        raise ValueError(algo)
    return v1, a1


def evaluation_states(algo, prm, u_n, v_n, a_n, u1, v1, a1):
    """documented evaluation-point states (u_t, v_t, a_t) from the old and the new states"""
    dt, beta, gamma, alpha = prm
    if algo == "newmark":
        return u1, v1, a1
    if algo == "hht":
        return ((1 - alpha) * u1 + alpha * u_n, (1 - alpha) * v1 + alpha * v_n, (1 - alpha) * a1 + alpha * a_n)
    if algo == "midpoint":
        return (u1 + u_n) / 2, (v1 + v_n) / 2, (a1 + a_n) / 2
    if algo == "hht_newmark":
        return (1 - alpha) * u1 + alpha * u_n, v1, a1
    if algo == "euler_implicit":
        return u1, v1, a1
    if algo == "euler_explicit":
        return u_n, v_n, a1  # a1 = a^n, the solve variable
    if algo == "parabolic":
        return u1, v1, None
    raise ValueError(algo)


def states_of_u(algo, prm, u_n, v_n, a_n, u1):
    """(u_t, v_t, a_t) as a function of the new displacement only (what a Newton user needs)."""
    v1, a1 = solve_updates(algo, prm, u_n, v_n, a_n, u1)
    return evaluation_states(algo, prm, u_n, v_n, a_n, u1, v1, a1)


def doc_weights(algo, prm):
    """d(u_t, v_t, a_t)/d u_{n+1} of the documented definitions, derived by hand from the formulas above
    (chain rule through the update relations)."""
    dt, beta, gamma, alpha = prm
    if algo == "newmark":
        return 1.0, gamma / (beta * dt), 1.0 / (beta * dt**2)
    if algo == "hht":
        return 1 - alpha, (1 - alpha) * gamma / (beta * dt), (1 - alpha) / (beta * dt**2)
    if algo == "midpoint":
        return 0.5, 1.0 / dt, 2.0 / dt**2
    if algo == "hht_newmark":
        return 1 - alpha, gamma / (beta * dt), 1.0 / (beta * dt**2)
    if algo == "euler_implicit":
        return 1.0, 1.0 / dt, 1.0 / dt**2
    if algo == "euler_explicit":
        return 0.0, 0.0, 1.0  # unknown of the solve is a^n: M a^n = ...
    if algo == "parabolic":
        return 1.0, 1.0 / (alpha * dt), 0.0
    raise ValueError(algo)


def state_scales(algo, prm, u_n, v_n, a_n, u1, states):
    """natural magnitudes (per dof) of the evaluation-point states: v_t and a_t are differences of the
    displacement-like inputs (u_{n+1}, u_n, dt v_n, dt^2 a_n) divided by dt and dt^2, so their rounding is
    governed by |weight| x those inputs, not by the possibly cancelled result."""
    dt = prm[0]
    wK, wC, wM = (0.0, 0.0, 0.0) if algo == "euler_explicit" else doc_weights(algo, prm)
    U = np.maximum.reduce([np.abs(u1), np.abs(u_n), dt * np.abs(v_n), dt**2 * np.abs(a_n)])
    u_t, v_t, a_t = states
    su = np.maximum(np.abs(u_t), np.maximum(np.abs(u1), np.abs(u_n)))
    sv = None if v_t is None else np.maximum(np.abs(v_t), abs(wC) * U)
    sa = None if a_t is None else np.maximum(np.abs(a_t), abs(wM) * U)
    return su, sv, sa


def residual(K, C, M, F, states, scales=None):
    """(r, scale): r = K u_t + C v_t + M a_t - F and the natural magnitude |K| s_u + |C| s_v + |M| s_a + |F|"""
    u_t, v_t, a_t = states
    su, sv, sa = scales if scales is not None else tuple(None if x is None else np.abs(x) for x in states)
    r = K @ u_t - F
    s = np.abs(K) @ su + np.abs(F)
    if v_t is not None:
        r = r + C @ v_t
        s = s + np.abs(C) @ sv
    if a_t is not None:
        r = r + M @ a_t
        s = s + np.abs(M) @ sa
    return r, s


def energy(K, M, u, v):
    return 0.5 * float(v @ (M @ v)) + 0.5 * float(u @ (K @ u))
