"""C09 helpers: exact geometry of a gen_mesh recipe (edges, planar faces, body) with closed-form
polynomial integrals, membership predicates and outward normals.  Nothing here goes through
EasyFEA: the regions are those of the *recipe* (polygon vertices, extrusion vector, affine map).

2D recipe : polygon V0..Vn-1 (counter-clockwise); edge i = Vi -> Vi+1 (gmsh tag ``L{i}``).
3D recipe : the polygon extruded along e (e_z > 0); faces: ``bottom`` (the polygon, gmsh ``S0``),
            ``lat{i}`` (edge i swept along e), ``top``; edges ``bot{i}``, ``top{i}``, ``vert{i}``.
1D recipe : the segment p1 -> p1 + d.
"""

from __future__ import annotations

import numpy as np

from . import gen_mesh as gm

TOL_GEO = 1e-9


def _gl(deg: int):
    n = deg // 2 + 2
    x, w = np.polynomial.legendre.leggauss(n)
    return (x + 1) / 2, w / 2


class Region:
    """a straight segment, a planar polygon or the whole body of a recipe"""

    def __init__(self, name, kind, dim, pts=None, recipe=None, n_out=None, para=False):
        self.name = name
        self.kind = kind  # 'edge' | 'face' | 'body'
        self.dim = dim  # 1 | 2 | dim of the body
        self.pts = None if pts is None else np.asarray(pts, float)
        self.recipe = recipe
        self.n_out = n_out  # unit outward normal (faces of a 3D body / edges of a 2D body)
        self.para = para  # face is a parallelogram (membership by parametric coordinates)

    # -- measure / integrals ---------------------------------------------------------------
    def integral(self, f, deg: int) -> float:
        """int_region f(x,y,z), exact for polynomials of total degree <= deg"""
        if self.kind == "edge":
            P, Q = self.pts
            t, w = _gl(deg)
            X = P[None, :] + t[:, None] * (Q - P)[None, :]
            return float(np.linalg.norm(Q - P) * np.sum(w * f(X[:, 0], X[:, 1], X[:, 2])))
        if self.kind == "face":
            W = self.pts
            # vector area -> unit normal; fan triangulation with signed areas (any simple polygon)
            va = np.zeros(3)
            for i in range(1, len(W) - 1):
                va += 0.5 * np.cross(W[i] - W[0], W[i + 1] - W[0])
            nrm = va / np.linalg.norm(va)
            t, w = _gl(deg + 1)
            U, V = np.meshgrid(t, t, indexing="ij")
            WU, WV = np.meshgrid(w, w, indexing="ij")
            S, T, WW = U, V * (1 - U), WU * WV * (1 - U)  # Duffy map of the unit triangle
            tot = 0.0
            for i in range(1, len(W) - 1):
                a, b = W[i] - W[0], W[i + 1] - W[0]
                sa = float(np.cross(a, b) @ nrm)  # signed 2*area
                X = W[0][None, None, :] + S[..., None] * a + T[..., None] * b
                tot += sa * np.sum(WW * f(X[..., 0], X[..., 1], X[..., 2]))
            return float(tot)
        # body
        r = self.recipe
        if "p1" in r:
            P = np.array(r["p1"], float)
            Q = P + np.array(r["d"], float)
            return Region("seg", "edge", 1, [P, Q]).integral(f, deg)
        one = gm.exact_integral(r, lambda x, y, z: np.ones_like(x), 0)
        return float(np.sign(one) * gm.exact_integral(r, f, deg))

    def measure(self) -> float:
        return abs(self.integral(lambda x, y, z: np.ones_like(x), 0))

    # -- membership (vectorised; also used inside Nodes_Conditions lambdas) -------------------
    def contains(self, x, y, z, tol=TOL_GEO):
        X = np.stack([np.asarray(x, float), np.asarray(y, float), np.asarray(z, float)], -1)
        if self.kind == "edge":
            P, Q = self.pts
            L = np.linalg.norm(Q - P)
            u = (Q - P) / L
            v = X - P
            s = v @ u
            gap = np.linalg.norm(v - s[..., None] * u, axis=-1)
            return (gap <= tol) & (s >= -tol) & (s <= L + tol)
        if self.kind == "face":
            W = self.pts
            va = np.zeros(3)
            for i in range(1, len(W) - 1):
                va += 0.5 * np.cross(W[i] - W[0], W[i + 1] - W[0])
            nrm = va / np.linalg.norm(va)
            on = np.abs((X - W[0]) @ nrm) <= tol
            if not self.para:
                return on  # bottom / top: the plane meets the body in this face only
            a, b = W[1] - W[0], W[3] - W[0]
            G = np.array([[a @ a, a @ b], [a @ b, b @ b]])
            rhs = np.stack([(X - W[0]) @ a, (X - W[0]) @ b], -1)
            st = np.linalg.solve(G, rhs[..., None])[..., 0]
            rel = tol / min(np.linalg.norm(a), np.linalg.norm(b))
            return on & (st >= -rel).all(-1) & (st <= 1 + rel).all(-1)
        return np.ones(X.shape[:-1], dtype=bool)


class Geometry:
    def __init__(self, recipe: dict):
        self.recipe = recipe
        if "p1" in recipe:
            self.dim = 1
            P = np.array(recipe["p1"], float)
            self.body = Region("body", "body", 1, recipe=recipe)
            self.segment = (P, P + np.array(recipe["d"], float))
            self.edges, self.faces = [], []
            return
        verts, ex, A3, b3 = gm.transformed_domain(recipe)
        n = len(verts)
        V = np.column_stack([verts, np.zeros(n)])
        tf = lambda P: np.asarray(P, float) @ A3.T + b3  # noqa
        Ainv_T = np.linalg.inv(A3).T

        def out(n0):
            v = Ainv_T @ np.asarray(n0, float)
            return v / np.linalg.norm(v)

        self.dim = 3 if ex else 2
        self.body = Region("body", "body", self.dim, recipe=recipe)
        self.edges, self.faces = [], []
        if not ex:
            for i in range(n):
                P, Q = V[i], V[(i + 1) % n]
                t = Q - P
                self.edges.append(Region(f"e{i}", "edge", 1, [tf(P), tf(Q)], n_out=out([t[1], -t[0], 0.0])))
            return
        e = np.array(ex, float)
        for i in range(n):
            P, Q = V[i], V[(i + 1) % n]
            self.edges.append(Region(f"bot{i}", "edge", 1, [tf(P), tf(Q)]))
            self.edges.append(Region(f"top{i}", "edge", 1, [tf(P + e), tf(Q + e)]))
            self.edges.append(Region(f"vert{i}", "edge", 1, [tf(P), tf(P + e)]))
        self.faces.append(Region("bottom", "face", 2, tf(V), n_out=out([0, 0, -1.0])))
        for i in range(n):
            P, Q = V[i], V[(i + 1) % n]
            t = Q - P
            n2 = np.array([t[1], -t[0], 0.0])  # outward of the counter-clockwise polygon, in plane
            nf = np.cross(t, e)
            if nf @ n2 < 0:
                nf = -nf
            self.faces.append(Region(f"lat{i}", "face", 2, tf([P, Q, Q + e, P + e]), n_out=out(nf), para=True))
        self.faces.append(Region("top", "face", 2, tf(V + e), n_out=out([0, 0, 1.0])))

    def regions(self, ldim: int):
        """geometric entities of dimension ldim carrying elements of that dimension"""
        if ldim == self.dim:
            return [self.body]
        if ldim == 1:
            return list(self.edges)
        if ldim == 2:
            return list(self.faces)
        return []


# ------------------------------------------------------------------------------------------
# node sets, independent of the load code


def nodes_in(mesh, region) -> np.ndarray:
    """nodes used by at least one element (any dimension) that lie in the region"""
    c = np.asarray(mesh.coord, float)
    used = np.zeros(mesh.Nn, dtype=bool)
    for g in mesh.dict_groupElem.values():
        used[np.asarray(g.nodes, int)] = True
    inside = region.contains(c[:, 0], c[:, 1], c[:, 2])
    return np.where(used & inside)[0]


def completed_elements(mesh, ldim: int, nodes) -> dict:
    """{elemType: element indices of the ldim-groups whose nodes all belong to `nodes`}"""
    mask = np.zeros(mesh.Nn, dtype=bool)
    mask[np.asarray(nodes, int)] = True
    out = {}
    for g in mesh.Get_list_groupElem(ldim):
        conn = np.asarray(g.connect, int)
        out[str(g.elemType)] = np.where(mask[conn].all(axis=1))[0]
    return out


def n_completed(mesh, ldim, nodes) -> int:
    return int(sum(v.size for v in completed_elements(mesh, ldim, nodes).values()))


def find_tag(mesh, prefix: str, nodes) -> str | None:
    """the gmsh physical tag (L*, S*, V*) whose node set is exactly `nodes`"""
    want = set(np.asarray(nodes, int).tolist())
    tags = []
    for g in mesh.dict_groupElem.values():
        for t in g.nodeTags:
            if t.startswith(prefix) and t not in tags:
                tags.append(t)
    for t in sorted(tags, key=lambda s: (len(s), s)):
        got = set(np.asarray(mesh.Nodes_Tags(t), int).tolist())
        if got == want:
            return t
    return None
